package main

// C10.o — the flag that guards the parser join is cleared only after a new parser has been stored.
//
// The property: "Close and Suspend return under every interleaving ... Close/Suspend/Resume at arbitrary moments".
// Suspend joins the parser by waiting for its ONE-SHOT completion signal (Parser.WaitClose); what keeps a second
// Close/Suspend from waiting a second time for a signal that was already consumed is a guard on a flag G
// (Vaxis.suspended): the wait is reached only while G has its "running" value. That is only safe under the
// invariant  G == running  ==>  the holder field (Vaxis.parser) holds a parser that has not been joined yet.
// Suspend establishes G != running before it joins; the only way back to "running" is a store of the running
// value, and the invariant holds across it only if a NEW parser has been stored in the holder before. C04.m
// executes the histories New;(Suspend|Resume|Close)* but ends a path where a helper fails; this rule adds the
// failing paths: a Resume that returns an error (tty cannot be reopened / put into raw mode) before it made a
// new parser must not have cleared G, else the next Close/Suspend passes the guard and waits forever.
//
// Structural necessary condition, decided by abstract execution over go/cfg (engine c04flow.go / c04atomic.go,
// read-only), per exported method of the object that can reach a store of the running value into G:
//
//   * the wait W: a call of a method that receives from a one-shot channel field of its receiver (c04mOneShotWait);
//     the holder H is the field path W's receiver is read from;
//   * G: a flag (boolean field, or int32/atomic.Bool behind sync/atomic or the one-line wrappers) read by the
//     conditions that dominate W, such that W is reachable for exactly one value r of G ("running");
//   * a CLEAR is a store of r into G (assignment, atomic Store/Swap, or the success edge of a CompareAndSwap to r);
//     a CREATE is an assignment to H;
//   * on every path from the entry of the method to a CLEAR — through the callees analysed in place, INCLUDING
//     their error returns: the error variable assigned from a failed callee is non-nil in the caller, from a
//     succeeded one nil — a CREATE has been passed.
//
// Where the clear is written (helper, deferred to after the error check, table of steps executed in order) does
// not matter as long as it is executed after the store of the new parser on the same path.

import (
	"go/ast"
	"go/token"
	"sort"
	"strings"
)

func init() { registerExtra("C10", c10ClearOnlyAfterCreate) }

const (
	c10oCreated = "#created"
	c10oFailed  = "#failed"
	c10oPend    = "#pend:"
)

func c10ClearOnlyAfterCreate(c *Ctx) {
	c.Clauses = append(c.Clauses, "C10.o failing Resume: the flag whose \"running\" value lets Suspend/Close wait for the parser's one-shot completion signal is set back to that value only on paths (error returns of helpers included) on which a new parser has been stored before; after a Resume that fails, Close and Suspend still return")
	c.expect("C10.o", 1)
	pk := c.P.Pkg("vaxis")
	if pk == nil {
		return
	}
	info := pk.TypesInfo
	sess := &c04Sess{c: c, info: info, funcs: c.P.FuncsIn("vaxis"), fields: map[string]bool{}, direct: map[string]bool{},
		writesMemo: map[string][]string{}, relevantMemo: map[string]bool{}}

	// ---- the wait and the holder
	var waitFn *FuncInfo
	var waitCall *ast.CallExpr
	waitSig, holder := "", ""
	for _, fi := range sess.funcs {
		if fi.Decl.Body == nil || waitCall != nil {
			continue
		}
		ast.Inspect(fi.Decl.Body, func(n ast.Node) bool {
			if call, ok := n.(*ast.CallExpr); ok && waitCall == nil {
				if sig, recv := c04mOneShotWait(c.P, info, call); sig != "" {
					if h := canonPath(info, recv); h != "" && strings.Contains(h, ".") {
						waitFn, waitCall, waitSig, holder = fi, call, sig, h
					}
				}
			}
			return true
		})
	}
	if waitCall == nil {
		c.undecided("C10.o", "vaxis/the wait for the parser's completion signal", 0, "no call in package vaxis waits on a one-shot channel of an object held in a field: the join of the parser is not recognised")
		return
	}

	// ---- the guard flag and its running value
	cands := map[string]bool{}
	sess.guardReadsAt(waitFn, waitCall, cands)
	var candList []string
	for k := range cands {
		candList = append(candList, k)
	}
	sort.Strings(candList)
	wg := c.P.Graph(waitFn)
	reachedWith := func(flag string, v bool) bool {
		flow := &c04Flow{p: c.P, g: wg, fields: map[string]bool{flag: true}, refine: true, seqOnly: true}
		hit := false
		flow.run(c04Env{flag: v}, func(n ast.Node, env c04Env) bool {
			if containsNode(n, func(m ast.Node) bool { return m == ast.Node(waitCall) }) {
				hit = true
				return false
			}
			return true
		}, nil)
		return hit
	}
	guard, running := "", false
	for _, k := range candList {
		t, f := reachedWith(k, true), reachedWith(k, false)
		if t != f && len(c10oWritesOfFlag(sess, k)) > 0 {
			// the flag must be one that is stored both ways somewhere (a latch that is cleared again): an option
			// flag that nothing writes is not a join guard
			guard, running = k, t
			break
		}
	}
	keyBase := waitFn.Name + "/the guard of the wait for " + waitSig
	if guard == "" {
		c.undecided("C10.o", keyBase, waitCall.Pos(), "the wait for %s (of %s) is not reached under exactly one value of a flag that the package stores: the guard that keeps a second Close/Suspend from waiting again is not recognised", waitSig, holder)
		return
	}

	// ---- sites
	creates := map[ast.Node]bool{}
	clearFns := map[string]bool{}
	isClearOp := func(op *c04FlagOp) bool {
		if op == nil || op.path != guard {
			return false
		}
		switch op.kind {
		case "store", "swap", "cas":
			v, ok := c04ConstFlag(info, op.val)
			return ok && v == running
		}
		return false
	}
	plainClear := func(as *ast.AssignStmt) bool {
		if len(as.Lhs) != len(as.Rhs) || (as.Tok != token.ASSIGN) {
			return false
		}
		for i, l := range as.Lhs {
			if lhsPath(info, l) == guard {
				if v, ok := c04ConstFlag(info, as.Rhs[i]); ok && v == running {
					return true
				}
			}
		}
		return false
	}
	var siteNodes []struct {
		fi *FuncInfo
		n  ast.Node
	}
	for _, fi := range sess.funcs {
		if fi.Decl.Body == nil {
			continue
		}
		ast.Inspect(fi.Decl.Body, func(n ast.Node) bool {
			switch t := n.(type) {
			case *ast.AssignStmt:
				for _, l := range t.Lhs {
					if lhsPath(info, l) == holder {
						creates[t] = true
						sess.direct[fi.Name] = true
						siteNodes = append(siteNodes, struct {
							fi *FuncInfo
							n  ast.Node
						}{fi, t})
					}
				}
				if plainClear(t) {
					clearFns[fi.Name] = true
					sess.direct[fi.Name] = true
					siteNodes = append(siteNodes, struct {
						fi *FuncInfo
						n  ast.Node
					}{fi, t})
				}
			case *ast.CallExpr:
				if isClearOp(c04FlagOpOf(c.P, info, t)) {
					clearFns[fi.Name] = true
					sess.direct[fi.Name] = true
					siteNodes = append(siteNodes, struct {
						fi *FuncInfo
						n  ast.Node
					}{fi, t})
				}
			}
			return true
		})
	}
	sess.fields[guard] = true
	for _, s := range siteNodes {
		sess.chainReads(s.fi, s.n, 0, sess.fields, map[string]bool{})
	}
	sess.closeFields()
	if len(clearFns) == 0 {
		c.okTrivial("C10.o", keyBase+"/"+guard+" is never set back", waitCall.Pos(), "nothing stores the running value into %s after construction: the join is reached at most once per object", guard)
		return
	}

	// ---- node -> function (to tell a callee's return from the root's, and the caller's next node from a callee's)
	owner := map[ast.Node]string{}
	for _, fi := range sess.funcs {
		if fi.Decl.Body == nil {
			continue
		}
		if g := c.P.Graph(fi); g != nil {
			for _, b := range g.Blocks {
				for _, n := range b.Nodes {
					owner[n] = fi.Name
				}
			}
		}
	}

	// ---- roots: exported methods that reach a clear
	var roots []*FuncInfo
	for _, fi := range sess.funcs {
		if fi.Decl.Body == nil || fi.Decl.Recv == nil || !fi.Decl.Name.IsExported() {
			continue
		}
		for fn := range staticReach(c.P, fi) {
			if clearFns[fn] {
				roots = append(roots, fi)
				break
			}
		}
	}
	sort.Slice(roots, func(i, j int) bool { return roots[i].Name < roots[j].Name })

	for _, root := range roots {
		g := c.P.Graph(root)
		if g == nil {
			continue
		}
		flow := &c04Flow{p: c.P, g: g, fields: sess.fields, refine: true, bindArgs: true, maxDepth: 6, seqOnly: true}
		flow.descend = func(call *ast.CallExpr) *FG {
			cf := c.P.FuncOfObj(calleeOf(info, call))
			if cf == nil || cf.Decl.Body == nil || cf.Pkg != pk || !sess.relevant(cf) {
				return nil
			}
			return c.P.Graph(cf)
		}
		flow.kills = func(call *ast.CallExpr) []string {
			cf := c.P.FuncOfObj(calleeOf(info, call))
			if cf == nil || cf.Pkg != pk {
				return nil
			}
			return sess.writtenBy(cf)
		}
		var badPos token.Pos
		badWhy := ""
		clears := 0
		flow.effect = func(n ast.Node, env c04Env) c04Env {
			own := owner[n]
			// a pending `err := callee()` of this function: the callee has returned
			for k := range env {
				if strings.HasPrefix(k, c10oPend) && strings.HasPrefix(k[len(c10oPend):], own+"|") {
					slot := k[len(c10oPend)+len(own)+1:]
					env = env.clone()
					delete(env, k)
					if failed, known := env[c10oFailed]; known {
						env[slot] = !failed
					}
					delete(env, c10oFailed)
					break
				}
			}
			switch t := n.(type) {
			case *ast.ReturnStmt:
				if own != root.Name {
					env = env.clone()
					delete(env, c10oFailed)
					if len(t.Results) > 0 {
						last := t.Results[len(t.Results)-1]
						if c04IsNilIdent(info, last) {
							env[c10oFailed] = false
						} else if nk, ok := flow.nilSlot(info, last); ok {
							if isNil, known := env[nk]; known {
								env[c10oFailed] = !isNil
							} else if sess.calleeErrorExit(t) {
								env[c10oFailed] = true
							}
						} else if sess.calleeErrorExit(t) {
							env[c10oFailed] = true
						}
					}
				}
				return env
			case *ast.AssignStmt:
				if creates[t] {
					env = env.clone()
					env[c10oCreated] = true
				}
				if len(t.Rhs) == 1 {
					if call, ok := unparen(t.Rhs[0]).(*ast.CallExpr); ok && flow.descend(call) != nil {
						if nk, ok := flow.nilSlot(info, t.Lhs[len(t.Lhs)-1]); ok {
							env = env.clone()
							delete(env, c10oFailed)
							env[c10oPend+own+"|"+nk] = true
						}
					}
				}
			case *ast.ValueSpec:
				if len(t.Values) == 1 && len(t.Names) >= 1 {
					if call, ok := unparen(t.Values[0]).(*ast.CallExpr); ok && flow.descend(call) != nil {
						if nk, ok := flow.nilSlot(info, t.Names[len(t.Names)-1]); ok {
							env = env.clone()
							delete(env, c10oFailed)
							env[c10oPend+own+"|"+nk] = true
						}
					}
				}
			}
			// clears in this node
			inspectNoLit(n, func(m ast.Node) bool {
				isClear := false
				switch t := m.(type) {
				case *ast.AssignStmt:
					isClear = plainClear(t)
				case *ast.CallExpr:
					op := c04FlagOpOf(c.P, info, t)
					if isClearOp(op) {
						isClear = true
						if op.kind == "cas" {
							// only the success edge stores: infeasible when the flag is known not to have the expected value
							if old, ok := c04ConstFlag(info, op.old); ok {
								if cur, known := env[guard]; known && cur != old {
									isClear = false
								}
							}
						}
					}
				}
				if isClear {
					clears++
					if !env[c10oCreated] && badWhy == "" {
						badPos = m.Pos()
						badWhy = "in " + own + " (" + c.P.Pos(m.Pos()) + ")"
					}
				}
				return true
			})
			return env
		}
		flow.run(c04Env{}, func(n ast.Node, env c04Env) bool { return true }, nil)
		if clears == 0 {
			continue
		}
		key := root.Name + "/" + guard + " is set back to running only after a new " + holder + " was stored"
		if badWhy != "" {
			c.bad("C10.o", key, badPos, "%s stores the value of %s under which %s waits for the one-shot signal %s %s on a path on which no new %s has been stored yet (the entry of %s, or a helper that returned an error before it made one): if %s then returns an error the flag says \"running\" while %s is still the parser that was joined; the next Close/Suspend passes the guard and waits forever", root.Name, guard, waitFn.Name, waitSig, badWhy, holder, root.Name, root.Name, holder)
		} else {
			c.ok("C10.o", key, root.Decl.Pos(), "on every path of %s (error returns of the helpers analysed in place included) an assignment of %s precedes the store of the running value into %s", root.Name, holder, guard)
		}
	}
}

// c10oWritesOfFlag: the nodes that write the flag (assignments and atomic operations).
func c10oWritesOfFlag(s *c04Sess, path string) []ast.Node {
	var out []ast.Node
	for _, fi := range s.funcs {
		if fi.Decl.Body == nil {
			continue
		}
		ast.Inspect(fi.Decl.Body, func(m ast.Node) bool {
			switch t := m.(type) {
			case *ast.AssignStmt:
				for _, l := range t.Lhs {
					if lhsPath(s.info, l) == path {
						out = append(out, t)
					}
				}
			case *ast.CallExpr:
				if op := c04FlagOpOf(s.c.P, s.info, t); op != nil && op.path == path && op.kind != "load" {
					out = append(out, t)
				}
			}
			return true
		})
	}
	return out
}
