package main

// C16.h — the text widget measures and draws the same line text: whatever Text.findContainerSize, Text.drawSoftwrap
// and Text.Draw hand to ctx.Characters is the line the scanner emitted in this iteration, unmodified. (The surface is
// sized from the measured lines and WriteCell drops cells beyond it, so a measured text that differs from the drawn
// text loses graphemes on screen.)
//
// "The scanner's line" is decided by where the value comes from, not by how the call is spelt:
//   - X.Text()                      a call of a method named Text (the line accessor of both scanner types);
//   - f()  with f a local function variable: EVERY value f is ever given must be the method value X.Text (bound to the
//          live scanner: pointer receiver or pointer operand) or a literal `func() string { return X.Text() }`.
//          Each such value is one instance of the rule (a table of line sources has one row per scanner);
//   - a local with a single definition, evaluated in the same loop iteration as the use, is looked through.

import (
	"go/ast"
	"go/token"
	"go/types"
)

type c16hSource struct {
	ok   bool
	what string
	pos  token.Pos
}

func c16MeasureDrawAgree(c *Ctx) {
	c.Clauses = append(c.Clauses, "C16.h the text widget measures and draws the same line text")
	c.expect("C16.h", 4)
	for _, name := range []string{"vxfw/text.(*Text).findContainerSize", "vxfw/text.(*Text).drawSoftwrap", "vxfw/text.(*Text).Draw"} {
		fi := c.P.Func(name)
		if fi == nil {
			continue
		}
		info := fi.Pkg.TypesInfo
		par := c.P.Parents(fi.Pkg)
		defs := c15DefsOf(info, fi.Decl.Body)
		ast.Inspect(fi.Decl.Body, func(n ast.Node) bool {
			call, ok := n.(*ast.CallExpr)
			if !ok || len(call.Args) != 1 {
				return true
			}
			sel, ok := call.Fun.(*ast.SelectorExpr)
			if !ok || sel.Sel.Name != "Characters" {
				return true
			}
			if typeName(info.TypeOf(sel.X)) != modPath+"/vxfw.DrawContext" {
				return true
			}
			key := name + "/line measured/drawn is the scanner's line"
			for _, src := range c16hSources(info, par, defs, fi.Decl, call, call.Args[0]) {
				if src.ok {
					c.ok("C16.h", key, call.Pos(), "ctx.Characters(%s)", src.what)
				} else {
					c.bad("C16.h", key, call.Pos(), "the line passed to ctx.Characters is %s, not the scanner's line: the measured surface and the drawn cells disagree, so cells beyond the measured width are dropped (or the surface is too wide)", src.what)
				}
			}
			return true
		})
	}
}

// c16hIsTextCall: X.Text() — a call, without arguments, of a method named Text.
func c16hIsTextCall(info *types.Info, e ast.Expr) bool {
	cl, ok := unparen(e).(*ast.CallExpr)
	if !ok || len(cl.Args) != 0 {
		return false
	}
	s, ok := unparen(cl.Fun).(*ast.SelectorExpr)
	if !ok || s.Sel.Name != "Text" {
		return false
	}
	if sl := info.Selections[s]; sl != nil {
		return sl.Kind() == types.MethodVal
	}
	return true // (selection table not available: the spelling decides, as the rule always did)
}

func c16hSources(info *types.Info, par map[ast.Node]ast.Node, defs *c15Defs, fd *ast.FuncDecl, use *ast.CallExpr, arg ast.Expr) []c16hSource {
	arg = unparen(arg)
	bad := func(e ast.Expr) []c16hSource {
		return []c16hSource{{false, types.ExprString(e), e.Pos()}}
	}
	// a named line: `line := scanner.Text()` evaluated in this iteration
	if id, ok := arg.(*ast.Ident); ok {
		if o, isVar := info.ObjectOf(id).(*types.Var); isVar && !o.IsField() && defs.count[o] == 1 && defs.def[o] != nil {
			var defStmt ast.Node
			ast.Inspect(fd.Body, func(n ast.Node) bool {
				if d, ok := n.(*ast.Ident); ok && info.Defs[d] == types.Object(o) {
					defStmt = d
				}
				return defStmt == nil
			})
			if defStmt != nil && c15LoopOf(par, defStmt) == c15LoopOf(par, use) {
				return c16hSources(info, par, defs, fd, use, defs.def[o])
			}
		}
		return bad(arg)
	}
	if c16hIsTextCall(info, arg) {
		return []c16hSource{{true, types.ExprString(arg), arg.Pos()}}
	}
	cl, ok := arg.(*ast.CallExpr)
	if !ok || len(cl.Args) != 0 {
		return bad(arg)
	}
	fid, ok := unparen(cl.Fun).(*ast.Ident)
	if !ok {
		return bad(arg)
	}
	f, ok := info.ObjectOf(fid).(*types.Var)
	if !ok || f.IsField() || f.Pkg() == nil || f.Parent() == f.Pkg().Scope() {
		return bad(arg)
	}
	if _, isFunc := f.Type().Underlying().(*types.Signature); !isFunc {
		return bad(arg)
	}
	// every value the function variable is given
	var out []c16hSource
	value := func(e ast.Expr) {
		e = unparen(e)
		switch t := e.(type) {
		case *ast.SelectorExpr:
			// the method value X.Text, bound to the scanner itself (not to a copy of it)
			if sl := info.Selections[t]; sl != nil && sl.Kind() == types.MethodVal && t.Sel.Name == "Text" {
				live := false
				if fn, ok := sl.Obj().(*types.Func); ok {
					if r := fn.Type().(*types.Signature).Recv(); r != nil {
						_, live = r.Type().(*types.Pointer)
					}
				}
				if _, isPtr := info.TypeOf(t.X).Underlying().(*types.Pointer); isPtr {
					live = true
				}
				if live {
					out = append(out, c16hSource{true, types.ExprString(fid) + " = " + types.ExprString(t), t.Pos()})
					return
				}
				out = append(out, c16hSource{false, types.ExprString(fid) + "() with " + types.ExprString(fid) + " = " + types.ExprString(t) + " (bound to a copy of the scanner taken before it scans)", t.Pos()})
				return
			}
		case *ast.FuncLit:
			body := c15Flat(t.Body.List)
			if len(body) == 1 {
				if rs, ok := body[0].(*ast.ReturnStmt); ok && len(rs.Results) == 1 && c16hIsTextCall(info, rs.Results[0]) {
					out = append(out, c16hSource{true, types.ExprString(fid) + " = func() { return " + types.ExprString(rs.Results[0]) + " }", t.Pos()})
					return
				}
			}
		}
		out = append(out, c16hSource{false, types.ExprString(fid) + "() with " + types.ExprString(fid) + " = " + types.ExprString(e), e.Pos()})
	}
	escaped := false
	ast.Inspect(fd.Body, func(n ast.Node) bool {
		switch t := n.(type) {
		case *ast.AssignStmt:
			for i, l := range t.Lhs {
				id, ok := unparen(l).(*ast.Ident)
				if !ok || info.ObjectOf(id) != types.Object(f) {
					continue
				}
				if len(t.Rhs) == len(t.Lhs) && (t.Tok == token.ASSIGN || t.Tok == token.DEFINE) {
					value(t.Rhs[i])
				} else {
					escaped = true
				}
			}
		case *ast.ValueSpec:
			for i, nm := range t.Names {
				if info.Defs[nm] == types.Object(f) && len(t.Values) > 0 {
					if len(t.Values) == len(t.Names) {
						value(t.Values[i])
					} else {
						escaped = true
					}
				}
			}
		case *ast.UnaryExpr:
			if t.Op == token.AND {
				if id, ok := unparen(t.X).(*ast.Ident); ok && info.ObjectOf(id) == types.Object(f) {
					escaped = true
				}
			}
		case *ast.RangeStmt:
			for _, l := range []ast.Expr{t.Key, t.Value} {
				if id, ok := l.(*ast.Ident); ok && info.ObjectOf(id) == types.Object(f) {
					escaped = true
				}
			}
		}
		return true
	})
	if escaped || len(out) == 0 {
		// a parameter, a variable written through a pointer or by a multi-value assignment: the values cannot be listed
		return bad(arg)
	}
	return out
}
