package main

// C16.h — the text widget measures and draws the same line text: whatever Text.findContainerSize, Text.drawSoftwrap
// and Text.Draw hand to ctx.Characters is the line the scanner emitted in this iteration, unmodified. (The surface is
// sized from the measured lines and WriteCell drops cells beyond it, so a measured text that differs from the drawn
// text loses graphemes on screen.)
//
// "The scanner's line" is decided by where the value comes from, not by how the call is spelt:
//   - X.Text()                      a call of a method named Text (the line accessor of both scanner types);
//   - f()  with f a local function variable: EVERY value f is ever given must be the method value X.Text (bound to the
//          live scanner: pointer receiver or pointer operand) or a literal `func() string { return X.Text() }`.
//          Each such value is one instance of the rule (a table of line sources has one row per scanner);
//   - a local with a single definition, evaluated in the same loop iteration as the use, is looked through;
//   - line, ok = f()  with f a local function variable of type func() (string, bool) — a "pull iterator" that hides
//          which scanner is read: every definition of line is such a call of the same f, the use is reached only
//          when ok holds (`for line, ok := f(); ok; line, ok = f()`, or `line, ok := f(); if !ok { leave }` in the
//          loop body), and EVERY value f is ever given is a literal each of whose returns is either `X.Text(), <e>`
//          or `<anything>, false` (the line of a return that reports false is never looked at). One instance per
//          value, as above.

import (
	"go/ast"
	"go/constant"
	"go/token"
	"go/types"
)

type c16hSource struct {
	ok   bool
	what string
	pos  token.Pos
}

func c16MeasureDrawAgree(c *Ctx) {
	c.Clauses = append(c.Clauses, "C16.h the text widget measures and draws the same line text")
	c.expect("C16.h", 4)
	for _, name := range []string{"vxfw/text.(*Text).findContainerSize", "vxfw/text.(*Text).drawSoftwrap", "vxfw/text.(*Text).Draw"} {
		fi := c.P.Func(name)
		if fi == nil {
			continue
		}
		info := fi.Pkg.TypesInfo
		par := c.P.Parents(fi.Pkg)
		defs := c15DefsOf(info, fi.Decl.Body)
		ast.Inspect(fi.Decl.Body, func(n ast.Node) bool {
			call, ok := n.(*ast.CallExpr)
			if !ok || len(call.Args) != 1 {
				return true
			}
			sel, ok := call.Fun.(*ast.SelectorExpr)
			if !ok || sel.Sel.Name != "Characters" {
				return true
			}
			if typeName(info.TypeOf(sel.X)) != modPath+"/vxfw.DrawContext" {
				return true
			}
			key := name + "/line measured/drawn is the scanner's line"
			for _, src := range c16hSources(info, par, defs, fi.Decl, call, call.Args[0]) {
				if src.ok {
					c.ok("C16.h", key, call.Pos(), "ctx.Characters(%s)", src.what)
				} else {
					c.bad("C16.h", key, call.Pos(), "the line passed to ctx.Characters is %s, not the scanner's line: the measured surface and the drawn cells disagree, so cells beyond the measured width are dropped (or the surface is too wide)", src.what)
				}
			}
			return true
		})
	}
}

// c16hIsTextCall: X.Text() — a call, without arguments, of a method named Text.
func c16hIsTextCall(info *types.Info, e ast.Expr) bool {
	cl, ok := unparen(e).(*ast.CallExpr)
	if !ok || len(cl.Args) != 0 {
		return false
	}
	s, ok := unparen(cl.Fun).(*ast.SelectorExpr)
	if !ok || s.Sel.Name != "Text" {
		return false
	}
	if sl := info.Selections[s]; sl != nil {
		return sl.Kind() == types.MethodVal
	}
	return true // (selection table not available: the spelling decides, as the rule always did)
}

func c16hSources(info *types.Info, par map[ast.Node]ast.Node, defs *c15Defs, fd *ast.FuncDecl, use *ast.CallExpr, arg ast.Expr) []c16hSource {
	arg = unparen(arg)
	bad := func(e ast.Expr) []c16hSource {
		return []c16hSource{{false, types.ExprString(e), e.Pos()}}
	}
	// a named line: `line := scanner.Text()` evaluated in this iteration
	if id, ok := arg.(*ast.Ident); ok {
		if o, isVar := info.ObjectOf(id).(*types.Var); isVar && !o.IsField() && defs.count[o] == 1 && defs.def[o] != nil {
			var defStmt ast.Node
			ast.Inspect(fd.Body, func(n ast.Node) bool {
				if d, ok := n.(*ast.Ident); ok && info.Defs[d] == types.Object(o) {
					defStmt = d
				}
				return defStmt == nil
			})
			if defStmt != nil && c15LoopOf(par, defStmt) == c15LoopOf(par, use) {
				if cl, isCall := unparen(defs.def[o]).(*ast.CallExpr); isCall {
					if tv, has := info.Types[cl]; has {
						if _, isTuple := tv.Type.(*types.Tuple); isTuple {
							// line, ok := f(): judged below
							if out := c16hPulled(info, par, defs, fd, use, o); out != nil {
								return out
							}
							return bad(arg)
						}
					}
				}
				return c16hSources(info, par, defs, fd, use, defs.def[o])
			}
		}
		if o, isVar := info.ObjectOf(id).(*types.Var); isVar && !o.IsField() {
			if out := c16hPulled(info, par, defs, fd, use, o); out != nil {
				return out
			}
		}
		return bad(arg)
	}
	if c16hIsTextCall(info, arg) {
		return []c16hSource{{true, types.ExprString(arg), arg.Pos()}}
	}
	cl, ok := arg.(*ast.CallExpr)
	if !ok || len(cl.Args) != 0 {
		return bad(arg)
	}
	fid, ok := unparen(cl.Fun).(*ast.Ident)
	if !ok {
		return bad(arg)
	}
	f, ok := info.ObjectOf(fid).(*types.Var)
	if !ok || f.IsField() || f.Pkg() == nil || f.Parent() == f.Pkg().Scope() {
		return bad(arg)
	}
	if _, isFunc := f.Type().Underlying().(*types.Signature); !isFunc {
		return bad(arg)
	}
	if out := c16hFuncVarSources(info, fd, fid, f, false); out != nil {
		return out
	}
	// a parameter, a variable written through a pointer or by a multi-value assignment: the values cannot be listed
	return bad(arg)
}

// c16hFuncVarSources: one source per value the local function variable f is ever given in fd (nil: the values cannot
// be listed). pull = f is a pull iterator func() (string, bool) whose first result is looked at only when the second
// holds; otherwise f is func() string.
func c16hFuncVarSources(info *types.Info, fd *ast.FuncDecl, fid *ast.Ident, f *types.Var, pull bool) []c16hSource {
	var out []c16hSource
	value := func(e ast.Expr) {
		e = unparen(e)
		switch t := e.(type) {
		case *ast.SelectorExpr:
			if pull {
				break
			}
			// the method value X.Text, bound to the scanner itself (not to a copy of it)
			if sl := info.Selections[t]; sl != nil && sl.Kind() == types.MethodVal && t.Sel.Name == "Text" {
				live := false
				if fn, ok := sl.Obj().(*types.Func); ok {
					if r := fn.Type().(*types.Signature).Recv(); r != nil {
						_, live = r.Type().(*types.Pointer)
					}
				}
				if _, isPtr := info.TypeOf(t.X).Underlying().(*types.Pointer); isPtr {
					live = true
				}
				if live {
					out = append(out, c16hSource{true, types.ExprString(fid) + " = " + types.ExprString(t), t.Pos()})
					return
				}
				out = append(out, c16hSource{false, types.ExprString(fid) + "() with " + types.ExprString(fid) + " = " + types.ExprString(t) + " (bound to a copy of the scanner taken before it scans)", t.Pos()})
				return
			}
		case *ast.FuncLit:
			if pull {
				// every return of the literal itself: `X.Text(), e` or `_, false`
				var lines []ast.Expr
				good := true
				ast.Inspect(t.Body, func(n ast.Node) bool {
					switch r := n.(type) {
					case *ast.FuncLit:
						return false
					case *ast.ReturnStmt:
						if len(r.Results) != 2 {
							good = false // (named results / a forwarded tuple: not listed)
							return false
						}
						if tv, has := info.Types[r.Results[1]]; has && tv.Value != nil && tv.Value.Kind() == constant.Bool && !constant.BoolVal(tv.Value) {
							return false
						}
						if !c16hIsTextCall(info, r.Results[0]) {
							good = false
							out = append(out, c16hSource{false, types.ExprString(fid) + "() with " + types.ExprString(fid) + " = func() { …; return " + types.ExprString(r.Results[0]) + ", " + types.ExprString(r.Results[1]) + " }", r.Pos()})
							return false
						}
						lines = append(lines, r.Results[0])
					}
					return true
				})
				if good && len(lines) > 0 {
					out = append(out, c16hSource{true, types.ExprString(fid) + " = func() { …; return " + types.ExprString(lines[0]) + ", true }", t.Pos()})
					return
				}
				if !good && len(out) > 0 && !out[len(out)-1].ok {
					return
				}
				break
			}
			body := c15Flat(t.Body.List)
			if len(body) == 1 {
				if rs, ok := body[0].(*ast.ReturnStmt); ok && len(rs.Results) == 1 && c16hIsTextCall(info, rs.Results[0]) {
					out = append(out, c16hSource{true, types.ExprString(fid) + " = func() { return " + types.ExprString(rs.Results[0]) + " }", t.Pos()})
					return
				}
			}
		}
		out = append(out, c16hSource{false, types.ExprString(fid) + "() with " + types.ExprString(fid) + " = " + types.ExprString(e), e.Pos()})
	}
	escaped := false
	ast.Inspect(fd.Body, func(n ast.Node) bool {
		switch t := n.(type) {
		case *ast.AssignStmt:
			for i, l := range t.Lhs {
				id, ok := unparen(l).(*ast.Ident)
				if !ok || info.ObjectOf(id) != types.Object(f) {
					continue
				}
				if len(t.Rhs) == len(t.Lhs) && (t.Tok == token.ASSIGN || t.Tok == token.DEFINE) {
					value(t.Rhs[i])
				} else {
					escaped = true
				}
			}
		case *ast.ValueSpec:
			for i, nm := range t.Names {
				if info.Defs[nm] == types.Object(f) && len(t.Values) > 0 {
					if len(t.Values) == len(t.Names) {
						value(t.Values[i])
					} else {
						escaped = true
					}
				}
			}
		case *ast.UnaryExpr:
			if t.Op == token.AND {
				if id, ok := unparen(t.X).(*ast.Ident); ok && info.ObjectOf(id) == types.Object(f) {
					escaped = true
				}
			}
		case *ast.RangeStmt:
			for _, l := range []ast.Expr{t.Key, t.Value} {
				if id, ok := l.(*ast.Ident); ok && info.ObjectOf(id) == types.Object(f) {
					escaped = true
				}
			}
		}
		return true
	})
	if escaped || len(out) == 0 {
		return nil
	}
	return out
}

// c16hPulled: the local `line` is only ever defined by `line, ok = f()` of one local function variable f, and the use
// is reached only when that ok holds. Returns the sources of f's values (nil = not this shape / cannot be listed).
func c16hPulled(info *types.Info, par map[ast.Node]ast.Node, defs *c15Defs, fd *ast.FuncDecl, use *ast.CallExpr, line *types.Var) []c16hSource {
	var sites []*ast.AssignStmt
	var okVar, f *types.Var
	var fid *ast.Ident
	shape := true
	ast.Inspect(fd.Body, func(n ast.Node) bool {
		as, isA := n.(*ast.AssignStmt)
		if !isA || !shape {
			return shape
		}
		for i, l := range as.Lhs {
			id, isID := unparen(l).(*ast.Ident)
			if !isID || info.ObjectOf(id) != types.Object(line) {
				continue
			}
			if i != 0 || len(as.Lhs) != 2 || len(as.Rhs) != 1 || (as.Tok != token.ASSIGN && as.Tok != token.DEFINE) {
				shape = false
				return false
			}
			cl, isCall := unparen(as.Rhs[0]).(*ast.CallExpr)
			gid, isG := unparen(as.Lhs[1]).(*ast.Ident)
			if !isCall || len(cl.Args) != 0 || !isG {
				shape = false
				return false
			}
			g, _ := info.ObjectOf(gid).(*types.Var)
			cid, isC := unparen(cl.Fun).(*ast.Ident)
			if g == nil || g.IsField() || !isC {
				shape = false
				return false
			}
			fv, _ := info.ObjectOf(cid).(*types.Var)
			if fv == nil || fv.IsField() || fv.Pkg() == nil || fv.Parent() == fv.Pkg().Scope() {
				shape = false
				return false
			}
			sig, isSig := fv.Type().Underlying().(*types.Signature)
			if !isSig || sig.Results().Len() != 2 {
				shape = false
				return false
			}
			if (okVar != nil && okVar != g) || (f != nil && f != fv) {
				shape = false
				return false
			}
			okVar, f, fid = g, fv, cid
			sites = append(sites, as)
		}
		return true
	})
	// no other definition of line or ok (an address taken, ++, range, op-assign count twice in c15Defs)
	if !shape || len(sites) == 0 || defs.count[line] != len(sites) || defs.count[okVar] != len(sites) {
		return nil
	}
	isOK := func(e ast.Expr) bool {
		id, isID := unparen(e).(*ast.Ident)
		return isID && info.ObjectOf(id) == types.Object(okVar)
	}
	within := func(n, root ast.Node) bool {
		for ; n != nil; n = par[n] {
			if n == root {
				return true
			}
		}
		return false
	}
	guarded := false
	switch len(sites) {
	case 2:
		// for line, ok := f(); ok; line, ok = f() { use }
		if fs, isFor := par[sites[0]].(*ast.ForStmt); isFor && par[sites[1]] == ast.Node(fs) &&
			((fs.Init == ast.Stmt(sites[0]) && fs.Post == ast.Stmt(sites[1])) || (fs.Init == ast.Stmt(sites[1]) && fs.Post == ast.Stmt(sites[0]))) &&
			fs.Cond != nil && isOK(fs.Cond) && within(use, fs.Body) {
			guarded = true
		}
	case 1:
		// line, ok := f(); if !ok { leave }; ...use...   in one statement list of the loop the use is in
		var list []ast.Stmt
		switch p := par[sites[0]].(type) {
		case *ast.BlockStmt:
			list = p.List
		case *ast.CaseClause:
			list = p.Body
		case *ast.CommClause:
			list = p.Body
		}
		at := -1
		for i, st := range list {
			if st == ast.Stmt(sites[0]) {
				at = i
			}
		}
		if at >= 0 && at+1 < len(list) && c15LoopOf(par, sites[0]) == c15LoopOf(par, use) {
			if ifs, isIf := list[at+1].(*ast.IfStmt); isIf && ifs.Init == nil && ifs.Else == nil && c15Terminates(ifs.Body.List) && !containsNode(ifs.Body, func(m ast.Node) bool { b, isB := m.(*ast.BranchStmt); return isB && b.Tok == token.GOTO }) {
				if ue, isNot := unparen(ifs.Cond).(*ast.UnaryExpr); isNot && ue.Op == token.NOT && isOK(ue.X) {
					for _, st := range list[at+2:] {
						if within(use, st) {
							guarded = true
						}
					}
				}
			}
		}
	}
	if !guarded {
		return nil
	}
	return c16hFuncVarSources(info, fd, fid, f, true)
}
