package main

// Global pre-normalisation: helper functions that did not exist when the rules were written (the product
// of "extract function/method" refactorings) are inlined into their callers before any rule runs, with the
// inliner of c15norm.go (purely syntactic, conservative, re-type-checked). Functions of the reference list
// (refFuncNames: every function/method name of the tree the rules were confirmed on) are never inlined, so on
// that tree the pass does nothing. Set VX_NO_NORMALISE=1 to analyse the text as it is.

import (
	"fmt"
	"go/ast"
	"os"
	"sort"
)

func globalNormalise(c *Ctx) {
	if os.Getenv("VX_NO_NORMALISE") != "" {
		return
	}
	// any function at all that is not on the reference list?
	fresh := false
	var shorts []string
	for _, pk := range c.P.All {
		sh := shortPkg(pk.PkgPath)
		shorts = append(shorts, sh)
		for _, f := range pk.Syntax {
			for _, d := range f.Decls {
				if fd, ok := d.(*ast.FuncDecl); ok && fd.Body != nil && !refFuncNames[fd.Name.Name] {
					fresh = true
				}
			}
		}
	}
	if !fresh {
		return
	}
	// dependency order: a package after the packages it imports (c.P.All comes from go/packages in import order for
	// ./...; sort so that the root package and ansi/log come before the widgets)
	sort.SliceStable(shorts, func(i, j int) bool { return pkgRank(shorts[i]) < pkgRank(shorts[j]) })
	// c15NormaliseOpt re-type-checks what it wrote; when that fails it loads the program again and retries with the
	// offending function left as written, and in the last resort leaves the program un-normalised (c15norm.go): a
	// failed normalisation never fails the load. The rules then see the helpers as calls; whatever they cannot judge
	// they report themselves.
	c15GlobalShorts = nil
	for attempt := 0; ; attempt++ {
		bad, err := c15NormaliseTry(c, shorts, refFuncNames, false)
		if err == nil {
			c15GlobalShorts = shorts // a later reload repeats the pass
			break
		}
		retry := bad != "" && !c15NormSkip[bad] && attempt < 4
		if retry {
			c15NormSkip[bad] = true
		}
		if !c15Reload(c, fmt.Sprintf("global normalisation produced code that does not type-check (%v)", err)) {
			return
		}
		if !retry {
			c.info("global normalisation abandoned (the inlined program did not type-check); the original text is analysed")
			break
		}
		c.info("global normalisation retried with %s left as written", bad)
	}
	// new generic helpers: one non-generic copy per call (the language's own meaning of instantiation), which the
	// inliner then treats like any other new helper (c03mono.go)
	if c15GlobalShorts != nil {
		c03Monomorphise(c, shorts)
	}
	// the program changed: rebuild the side tables that were derived from the old syntax trees
	installAccessorResolver(c.P)
}

var loadNeedSSA bool

func pkgRank(sh string) int {
	switch sh {
	case "log", "ansi", "octreequant":
		return 0
	case "vaxis":
		return 1
	case "vxfw":
		return 2
	}
	return 3
}

func dumpFuncNames(p *Program) {
	names := map[string]bool{}
	for _, pk := range p.All {
		for _, f := range pk.Syntax {
			for _, d := range f.Decls {
				if fd, ok := d.(*ast.FuncDecl); ok {
					names[fd.Name.Name] = true
				}
			}
		}
	}
	var out []string
	for n := range names {
		out = append(out, n)
	}
	sort.Strings(out)
	fmt.Println("package main")
	fmt.Println()
	fmt.Println("// refFuncNames: every function and method name declared in the repository tree the rules were confirmed on")
	fmt.Println("// (generated: VX_DUMP_FUNCS=1 vxcheck -p C01). New names are helpers a refactoring introduced.")
	fmt.Println("var refFuncNames = map[string]bool{")
	for _, n := range out {
		fmt.Printf("\t%q: true,\n", n)
	}
	fmt.Println("}")
}
