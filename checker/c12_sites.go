package main

// C12 — helpers that write sequence bytes taken from their receiver or parameters, analysed in the context
// of each of their call sites.
//
// A refactoring that replaces duplicated emission blocks by one helper
//
//	fgSeqs.emit(vx.tw, ps)      with   func (s *seqs) emit(tw *writer, ps []uint8) { … tw.Printf(s.low, ps[0]) … }
//
// leaves the extractor with writes whose bytes are a field of the helper's receiver (or a parameter): not a
// template by themselves. expandSites instantiates such a write once per call of the helper: the bytes are
// the field of the struct literal (or the string) the call binds, evaluated at the call site; the guards inside
// the helper are partially evaluated with the constant fields of that binding (`s.short && ps[0] < 8` becomes
// `ps[0] < 8` or `false`), instances that cannot execute are dropped, and the guards that dominate the call
// become the outer guard context of the instance (which style field the write is meant for, which capability it
// depends on). Nothing is matched by name; a helper whose binding cannot be established stays unresolved and is
// reported as such.

import (
	"go/ast"
	"go/constant"
	"go/token"
	"go/types"

	"golang.org/x/tools/go/packages"
)

type c12Site struct {
	caller *FuncInfo
	g      *FG
	loc    Loc
	call   *ast.CallExpr
	// constants bound by the call: parameter (or receiver) object -> value, and (parameter, field) -> value
	params map[types.Object]constant.Value
	fields map[c12FieldKey]constant.Value
	guards []Guard // the helper's own guards of the instance, partially evaluated
}

type c12FieldKey struct {
	param types.Object
	field string
}

// c12SiteOf: site of an instantiated emission (nil for ordinary emissions). Package-level because the hole-range
// helpers are free functions; reset by expandSites.
var c12SiteOf map[*Emission]*c12Site

// c12ParamsOf: receiver and parameter objects of a declared function, receiver first (index -1).
func c12ParamsOf(fi *FuncInfo) (recv types.Object, params []types.Object) {
	info := fi.Pkg.TypesInfo
	if fi.Decl.Recv != nil && len(fi.Decl.Recv.List) == 1 && len(fi.Decl.Recv.List[0].Names) == 1 {
		recv = info.Defs[fi.Decl.Recv.List[0].Names[0]]
	}
	for _, f := range fi.Decl.Type.Params.List {
		if len(f.Names) == 0 {
			params = append(params, nil)
		}
		for _, n := range f.Names {
			params = append(params, info.Defs[n])
		}
	}
	return
}

// c12WritesVia: the function assigns to obj, to a field or element reached through it, or takes its address.
func c12WritesVia(fi *FuncInfo, obj types.Object) bool {
	info := fi.Pkg.TypesInfo
	found := false
	ast.Inspect(fi.Decl.Body, func(n ast.Node) bool {
		switch t := n.(type) {
		case *ast.AssignStmt:
			for _, l := range t.Lhs {
				if rootObj(info, l) == obj {
					found = true
				}
			}
		case *ast.IncDecStmt:
			if rootObj(info, t.X) == obj {
				found = true
			}
		case *ast.UnaryExpr:
			if t.Op == token.AND && rootObj(info, t.X) == obj {
				found = true
			}
		case *ast.RangeStmt:
			for _, x := range []ast.Expr{t.Key, t.Value} {
				if x != nil && rootObj(info, x) == obj {
					found = true
				}
			}
		}
		return !found
	})
	return found
}

// c12StructLit: the struct literal that expression a (an argument or receiver expression of a call in caller, or
// the base of a field read) denotes there: the literal itself; the single initialiser of a local variable that is
// never reassigned, whose fields are never written, whose address does not escape and on which only methods that do
// not write their receiver are called; the initialiser of an unexported package-level struct variable that is used
// in the same read-only way throughout its package (a table of sequences next to its helper); or a local copy of
// such a variable (`seqs := fgSequences`, what inlining a helper with a struct parameter leaves behind).
func (st *c12State) structLit(caller *FuncInfo, a ast.Expr) *ast.CompositeLit {
	return st.structLitDepth(caller, a, 0)
}

func (st *c12State) structLitDepth(caller *FuncInfo, a ast.Expr, depth int) *ast.CompositeLit {
	info := caller.Pkg.TypesInfo
	a = unparen(a)
	if u, ok := a.(*ast.UnaryExpr); ok && u.Op == token.AND {
		a = unparen(u.X)
	}
	isStructLit := func(e ast.Expr) *ast.CompositeLit {
		e = unparen(e)
		if u, ok := e.(*ast.UnaryExpr); ok && u.Op == token.AND {
			e = unparen(u.X)
		}
		cl, ok := e.(*ast.CompositeLit)
		if !ok {
			return nil
		}
		if t := info.TypeOf(cl); t != nil {
			if _, isS := t.Underlying().(*types.Struct); isS {
				return cl
			}
		}
		return nil
	}
	if cl := isStructLit(a); cl != nil {
		return cl
	}
	id, ok := a.(*ast.Ident)
	if !ok {
		return nil
	}
	obj, ok := info.ObjectOf(id).(*types.Var)
	if !ok || obj.IsField() || obj.Pkg() == nil {
		return nil
	}
	if obj.Parent() == obj.Pkg().Scope() {
		return st.pkgStructLit(obj)
	}
	init := c12LocalInit(caller, obj)
	if init == nil {
		return nil
	}
	cl := isStructLit(init)
	if cl == nil {
		// a copy of another read-only struct: seqs := fgSequences
		if _, isStruct := obj.Type().Underlying().(*types.Struct); !isStruct || depth >= 3 {
			return nil
		}
		src, isId := unparen(init).(*ast.Ident)
		if !isId {
			return nil
		}
		if cl = st.structLitDepth(caller, src, depth+1); cl == nil {
			return nil
		}
	}
	// every other use of the variable must leave it unchanged
	if !st.structUsesReadOnly(caller.Pkg, caller.Decl.Body, obj) {
		return nil
	}
	return cl
}

// pkgStructLit: the struct literal an unexported package-level variable of struct type is initialised with, provided
// nothing in its package assigns it, writes one of its fields, takes its address or calls a receiver-writing method
// on it. Its fields then hold, at every use, what the literal's expressions evaluated to when the package was
// initialised.
func (st *c12State) pkgStructLit(v *types.Var) *ast.CompositeLit {
	if st.pkgLits == nil {
		st.pkgLits = map[*types.Var]*ast.CompositeLit{}
	}
	if cl, done := st.pkgLits[v]; done {
		return cl
	}
	st.pkgLits[v] = nil
	if v.Exported() {
		return nil
	}
	if _, isStruct := v.Type().Underlying().(*types.Struct); !isStruct {
		return nil
	}
	var pk *packages.Package
	for _, q := range st.c.P.Pkgs {
		if q.Types == v.Pkg() {
			pk = q
		}
	}
	if pk == nil {
		return nil
	}
	var lit *ast.CompositeLit
	for _, f := range pk.Syntax {
		for _, d := range f.Decls {
			gd, ok := d.(*ast.GenDecl)
			if !ok || gd.Tok != token.VAR {
				continue
			}
			for _, sp := range gd.Specs {
				vs := sp.(*ast.ValueSpec)
				for i, nm := range vs.Names {
					if pk.TypesInfo.Defs[nm] == v && len(vs.Values) == len(vs.Names) {
						lit, _ = unparen(vs.Values[i]).(*ast.CompositeLit)
					}
				}
			}
		}
	}
	if lit == nil {
		return nil
	}
	for _, f := range pk.Syntax {
		if !st.structUsesReadOnly(pk, f, v) {
			return nil
		}
	}
	st.pkgLits[v] = lit
	return lit
}

// structUsesReadOnly: no use of the struct variable obj below root can change it: its fields are only read (never
// assigned, incremented or address-taken), it is never assigned as a whole, its address is never taken and only
// methods that do not write their receiver are called on it. (Copies of the value — argument, right-hand side —
// are harmless: the fields resolved from the literal are of basic type.)
func (st *c12State) structUsesReadOnly(pk *packages.Package, root ast.Node, obj types.Object) bool {
	info := pk.TypesInfo
	parents := st.c.P.Parents(pk)
	okUses := true
	ast.Inspect(root, func(n ast.Node) bool {
		use, isId := n.(*ast.Ident)
		if !isId || info.Uses[use] != obj {
			return okUses
		}
		var child ast.Node = use
		par := parents[child]
		for {
			if pe, isP := par.(*ast.ParenExpr); isP {
				child, par = pe, parents[pe]
				continue
			}
			break
		}
		switch pt := par.(type) {
		case *ast.SelectorExpr:
			if pt.X != child {
				return true
			}
			sel, has := info.Selections[pt]
			if !has {
				okUses = false
				return false
			}
			switch sel.Kind() {
			case types.FieldVal:
				// a read, unless the selection is written, incremented or has its address taken
				var c2 ast.Node = pt
				gp := parents[c2]
				for {
					switch g := gp.(type) {
					case *ast.ParenExpr:
						c2, gp = g, parents[g]
						continue
					case *ast.SelectorExpr:
						if g.X == c2 {
							c2, gp = g, parents[g]
							continue
						}
					case *ast.IndexExpr:
						if g.X == c2 {
							c2, gp = g, parents[g]
							continue
						}
					}
					break
				}
				switch g := gp.(type) {
				case *ast.AssignStmt:
					for _, l := range g.Lhs {
						if l == c2 {
							okUses = false
						}
					}
				case *ast.IncDecStmt:
					okUses = false
				case *ast.UnaryExpr:
					if g.Op == token.AND {
						okUses = false
					}
				}
			case types.MethodVal:
				call, isCall := parents[pt].(*ast.CallExpr)
				if !isCall || call.Fun != ast.Expr(pt) {
					okUses = false // method value
					break
				}
				fn, _ := sel.Obj().(*types.Func)
				cf := st.c.P.FuncOfObj(fn)
				if cf == nil || cf.Decl.Body == nil {
					okUses = false
					break
				}
				if r, _ := c12ParamsOf(cf); r != nil && c12WritesVia(cf, r) {
					okUses = false
				}
			default:
				okUses = false
			}
		case *ast.UnaryExpr:
			if pt.Op == token.AND {
				okUses = false
			}
		case *ast.AssignStmt:
			for _, l := range pt.Lhs {
				if l == child {
					okUses = false // the defining assignment of a local is a Def, not a Use, and is not seen here
				}
			}
		case *ast.IncDecStmt:
			okUses = false
		case *ast.RangeStmt:
			if pt.Key == child || pt.Value == child {
				okUses = false
			}
		}
		return okUses
	})
	return okUses
}

// c12LitField: the value expression of a field in a struct literal (nil, true = the field is left at its zero value).
func c12LitField(info *types.Info, cl *ast.CompositeLit, name string) (val ast.Expr, zero bool, ok bool) {
	t := info.TypeOf(cl)
	if t == nil {
		return nil, false, false
	}
	stt, isS := t.Underlying().(*types.Struct)
	if !isS {
		return nil, false, false
	}
	idx := -1
	for i := 0; i < stt.NumFields(); i++ {
		if stt.Field(i).Name() == name {
			idx = i
		}
	}
	if idx < 0 {
		return nil, false, false
	}
	for i, el := range cl.Elts {
		if kv, isKV := el.(*ast.KeyValueExpr); isKV {
			if k, isId := kv.Key.(*ast.Ident); isId && k.Name == name {
				return kv.Value, false, true
			}
			continue
		}
		if i == idx {
			return el, false, true
		}
	}
	return nil, true, true
}

func (st *c12State) strEvalOf(pk *packages.Package) *strEval {
	if st.strEvals == nil {
		st.strEvals = map[*packages.Package]*strEval{}
	}
	se := st.strEvals[pk]
	if se == nil {
		se = newStrEval(st.c.P, pk)
		st.strEvals[pk] = se
	}
	return se
}

// callSites: every call of fi in its package with the graph location of the call; ok=false if some use of fi
// cannot be located (a call inside a function literal, a method value …).
func (st *c12State) callSites(fi *FuncInfo) (sites []*c12Site, ok bool) {
	if _, asValue := st.c.P.CallersOf(fi); asValue {
		return nil, false
	}
	ok = true
	for _, cf := range st.c.P.FuncsIn(shortPkg(fi.Pkg.PkgPath)) {
		if cf.Decl.Body == nil {
			continue
		}
		info := cf.Pkg.TypesInfo
		var calls []*ast.CallExpr
		ast.Inspect(cf.Decl.Body, func(n ast.Node) bool {
			if call, isCall := n.(*ast.CallExpr); isCall && calleeOf(info, call) == fi.Obj {
				calls = append(calls, call)
			}
			return true
		})
		if len(calls) == 0 {
			continue
		}
		g := st.c.P.Graph(cf)
		for _, call := range calls {
			loc, found := g.Locate(call)
			if !found {
				ok = false
				continue
			}
			sites = append(sites, &c12Site{caller: cf, g: g, loc: loc, call: call})
		}
	}
	return sites, ok
}

// actualOf: the expression a call binds to a receiver (idx -1) or parameter.
func c12ActualOf(call *ast.CallExpr, idx int) ast.Expr {
	if idx < 0 {
		if sel, ok := unparen(call.Fun).(*ast.SelectorExpr); ok {
			return sel.X
		}
		return nil
	}
	if call.Ellipsis.IsValid() || idx >= len(call.Args) {
		return nil
	}
	return call.Args[idx]
}

// bindConstants records the constants the call binds: constant arguments, and the constant fields of struct
// literals bound to the receiver or to parameters.
func (st *c12State) bindConstants(fi *FuncInfo, site *c12Site) {
	site.params = map[types.Object]constant.Value{}
	site.fields = map[c12FieldKey]constant.Value{}
	cinfo := site.caller.Pkg.TypesInfo
	recv, params := c12ParamsOf(fi)
	sig := fi.Obj.Type().(*types.Signature)
	bind := func(obj types.Object, idx int) {
		if obj == nil || c12WritesVia(fi, obj) {
			return
		}
		if sig.Variadic() && idx == len(params)-1 {
			return
		}
		a := c12ActualOf(site.call, idx)
		if a == nil {
			return
		}
		if tv, ok := cinfo.Types[a]; ok && tv.Value != nil {
			site.params[obj] = tv.Value
			return
		}
		cl := st.structLit(site.caller, a)
		if cl == nil {
			return
		}
		stt, _ := cinfo.TypeOf(cl).Underlying().(*types.Struct)
		if stt == nil {
			return
		}
		for i := 0; i < stt.NumFields(); i++ {
			f := stt.Field(i)
			b, isB := f.Type().Underlying().(*types.Basic)
			if !isB {
				continue
			}
			v, zero, ok := c12LitField(cinfo, cl, f.Name())
			if !ok {
				continue
			}
			if zero {
				switch {
				case b.Info()&types.IsBoolean != 0:
					site.fields[c12FieldKey{obj, f.Name()}] = constant.MakeBool(false)
				case b.Info()&types.IsInteger != 0:
					site.fields[c12FieldKey{obj, f.Name()}] = constant.MakeInt64(0)
				case b.Info()&types.IsString != 0:
					site.fields[c12FieldKey{obj, f.Name()}] = constant.MakeString("")
				}
				continue
			}
			if tv, has := cinfo.Types[v]; has && tv.Value != nil {
				site.fields[c12FieldKey{obj, f.Name()}] = tv.Value
			}
		}
	}
	bind(recv, -1)
	for i, p := range params {
		bind(p, i)
	}
}

// constOf: the constant an expression of the helper evaluates to under the site's bindings.
func (site *c12Site) constOf(info *types.Info, e ast.Expr) constant.Value {
	e = unparen(e)
	if tv, ok := info.Types[e]; ok && tv.Value != nil {
		return tv.Value
	}
	switch t := e.(type) {
	case *ast.Ident:
		if v, ok := site.params[info.ObjectOf(t)]; ok {
			return v
		}
	case *ast.StarExpr:
		return site.constOf(info, t.X)
	case *ast.SelectorExpr:
		if id, ok := unparen(t.X).(*ast.Ident); ok {
			if sel, has := info.Selections[t]; has && sel.Kind() == types.FieldVal && len(sel.Index()) == 1 {
				if v, ok := site.fields[c12FieldKey{info.ObjectOf(id), t.Sel.Name}]; ok {
					return v
				}
			}
		}
	case *ast.UnaryExpr:
		if t.Op == token.NOT {
			if v := site.constOf(info, t.X); v != nil && v.Kind() == constant.Bool {
				return constant.MakeBool(!constant.BoolVal(v))
			}
		}
	case *ast.BinaryExpr:
		x, y := site.constOf(info, t.X), site.constOf(info, t.Y)
		switch t.Op {
		case token.LAND, token.LOR:
			// decided by one operand alone when it is the absorbing constant
			for _, v := range []constant.Value{x, y} {
				if v != nil && v.Kind() == constant.Bool && constant.BoolVal(v) == (t.Op == token.LOR) {
					return v
				}
			}
			if x != nil && y != nil && x.Kind() == constant.Bool && y.Kind() == constant.Bool {
				return constant.MakeBool(constant.BoolVal(y))
			}
		case token.EQL, token.NEQ, token.LSS, token.LEQ, token.GTR, token.GEQ:
			if x != nil && y != nil && x.Kind() == y.Kind() && (x.Kind() == constant.Int || x.Kind() == constant.String || (x.Kind() == constant.Bool && (t.Op == token.EQL || t.Op == token.NEQ))) {
				return constant.MakeBool(constant.Compare(x, t.Op, y))
			}
		}
	}
	return nil
}

// residual: cond with the sub-conditions that are constant under the bindings removed. Returns the constant
// when the whole condition is decided (expr nil then).
func (site *c12Site) residual(info *types.Info, e ast.Expr) (ast.Expr, *bool) {
	e = unparen(e)
	if v := site.constOf(info, e); v != nil && v.Kind() == constant.Bool {
		b := constant.BoolVal(v)
		return nil, &b
	}
	switch t := e.(type) {
	case *ast.UnaryExpr:
		if t.Op == token.NOT {
			r, c := site.residual(info, t.X)
			if c != nil {
				b := !*c
				return nil, &b
			}
			if r == unparen(t.X) {
				return e, nil
			}
			return &ast.UnaryExpr{OpPos: t.OpPos, Op: token.NOT, X: r}, nil
		}
	case *ast.BinaryExpr:
		if t.Op == token.LAND || t.Op == token.LOR {
			rx, cx := site.residual(info, t.X)
			ry, cy := site.residual(info, t.Y)
			absorbing := t.Op == token.LOR
			switch {
			case cx != nil && *cx == absorbing, cy != nil && *cy == absorbing:
				b := absorbing
				return nil, &b
			case cx != nil && cy != nil:
				b := !absorbing
				return nil, &b
			case cx != nil:
				return ry, nil
			case cy != nil:
				return rx, nil
			}
			if rx == unparen(t.X) && ry == unparen(t.Y) {
				return e, nil
			}
			return &ast.BinaryExpr{X: rx, OpPos: t.OpPos, Op: t.Op, Y: ry}, nil
		}
	}
	return e, nil
}

// simplifyGuards partially evaluates the helper's guards of an emission under the site's bindings.
// reachable=false: some guard is constantly violated, the instance cannot execute.
func (site *c12Site) simplifyGuards(e *Emission) (out []Guard, reachable bool) {
	info := e.G.Info
	for _, gd := range e.G.Guards(e.Loc) {
		if gd.Cond.Alts != nil {
			if gd.Cond.Tag != nil {
				if tv := site.constOf(info, gd.Cond.Tag); tv != nil {
					all, hit := true, false
					for _, a := range gd.Cond.Alts {
						av := site.constOf(info, a)
						if av == nil || av.Kind() != tv.Kind() {
							all = false
						} else if constant.Compare(tv, token.EQL, av) {
							hit = true
						}
					}
					if hit {
						continue
					}
					if all {
						return nil, false
					}
				}
			}
			out = append(out, gd)
			continue
		}
		if gd.Cond.Tag != nil {
			tv, cv := site.constOf(info, gd.Cond.Tag), site.constOf(info, gd.Cond.Expr)
			if tv != nil && cv != nil && tv.Kind() == cv.Kind() && tv.Kind() != constant.Float && tv.Kind() != constant.Complex {
				if constant.Compare(tv, token.EQL, cv) != gd.Pol {
					return nil, false
				}
				continue
			}
			out = append(out, gd)
			continue
		}
		r, c := site.residual(info, gd.Cond.Expr)
		if c != nil {
			if *c != gd.Pol {
				return nil, false
			}
			continue
		}
		if r == unparen(gd.Cond.Expr) {
			out = append(out, gd)
			continue
		}
		out = append(out, Guard{Cond: &Cond{Expr: r}, Pol: gd.Pol, From: gd.From})
	}
	return out, true
}

// expandSites instantiates, per call site, the frame-phase writes of helpers whose bytes are a parameter, or a
// field of the receiver or of a parameter, of the helper.
func (st *c12State) expandSites() {
	c12SiteOf = map[*Emission]*c12Site{}
	var out []*Emission
	type siteSet struct {
		sites []*c12Site
		ok    bool
	}
	cache := map[*FuncInfo]*siteSet{}
	for _, e := range st.ems {
		inst := st.instantiate(e, func(fi *FuncInfo) ([]*c12Site, bool) {
			ss := cache[fi]
			if ss == nil {
				sites, ok := st.callSites(fi)
				for _, s := range sites {
					st.bindConstants(fi, s)
				}
				ss = &siteSet{sites, ok}
				cache[fi] = ss
			}
			return ss.sites, ss.ok
		})
		if inst == nil {
			out = append(out, e)
			continue
		}
		out = append(out, inst...)
	}
	st.ems = out
}

func (st *c12State) instantiate(e *Emission, sitesOf func(*FuncInfo) ([]*c12Site, bool)) []*Emission {
	if e.Resolved || e.FnName != e.Fn.Name || e.Fn.Decl.Name.IsExported() {
		return nil
	}
	fi := e.Fn
	info := fi.Pkg.TypesInfo
	recv, params := c12ParamsOf(fi)
	idxOf := func(obj types.Object) (int, bool) {
		if obj == nil {
			return 0, false
		}
		if obj == recv {
			return -1, true
		}
		for i, p := range params {
			if p == obj {
				return i, true
			}
		}
		return 0, false
	}
	x := c12StripConv(info, e.ArgExpr)
	var pobj types.Object
	field := ""
	switch t := x.(type) {
	case *ast.Ident:
		pobj = info.ObjectOf(t)
	case *ast.SelectorExpr:
		if id, ok := unparen(t.X).(*ast.Ident); ok {
			if sel, has := info.Selections[t]; has && sel.Kind() == types.FieldVal && len(sel.Index()) == 1 {
				pobj, field = info.ObjectOf(id), t.Sel.Name
			}
		}
	}
	pidx, isParam := idxOf(pobj)
	if !isParam || c12WritesVia(fi, pobj) {
		return nil
	}
	if sig := fi.Obj.Type().(*types.Signature); sig.Variadic() && pidx == len(params)-1 {
		return nil
	}
	sites, ok := sitesOf(fi)
	if !ok || len(sites) == 0 {
		return nil
	}
	argIdx, isFmt, _, isSink := vaxisTerminalSink(fi.Pkg, e.Call, calleeOf(info, e.Call))
	if !isSink {
		return nil
	}
	var out []*Emission
	for _, site := range sites {
		a := c12ActualOf(site.call, pidx)
		if a == nil {
			return nil
		}
		cinfo := site.caller.Pkg.TypesInfo
		se := st.strEvalOf(site.caller.Pkg)
		var tmpls []string
		if field == "" {
			vals, okv := se.eval(a, nil)
			if !okv {
				return nil
			}
			tmpls = vals
		} else {
			cl := st.structLit(site.caller, a)
			if cl == nil {
				return nil
			}
			v, zero, okf := c12LitField(cinfo, cl, field)
			switch {
			case !okf:
				return nil
			case zero:
				tmpls = []string{""}
			default:
				vals, okv := se.eval(v, nil)
				if !okv {
					return nil
				}
				tmpls = vals
			}
		}
		if isFmt {
			fse := st.strEvalOf(fi.Pkg)
			var all []string
			for _, v := range tmpls {
				all = append(all, fse.applyFormatAll(v, e.Call.Args[argIdx+1:], e.Call.Ellipsis.IsValid(), nil)...)
			}
			tmpls = all
		}
		guards, reachable := site.simplifyGuards(e)
		if !reachable {
			continue
		}
		ne := *e
		ne.Templates, ne.Resolved, ne.Why = tmpls, true, ""
		s2 := *site
		s2.guards = guards
		c12SiteOf[&ne] = &s2
		out = append(out, &ne)
	}
	if out == nil {
		// every instance is unreachable: nothing is written
		return []*Emission{}
	}
	return out
}

// c12OwnGuards: the guards of an emission inside its own function (partially evaluated for an instance).
func c12OwnGuards(e *Emission) []Guard {
	if s := c12SiteOf[e]; s != nil {
		return s.guards
	}
	if g, ok := c12GuardOverride[e]; ok {
		return g
	}
	return e.G.Guards(e.Loc)
}
