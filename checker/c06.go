package main

// C06 — the embedded terminal shows what a VT/xterm would show (core vocabulary).
//
// Decided (all with the B-screen engine of c05.go or by table extraction):
//   a  omitted/zero parameters mean the default: in every default-1 handler each use of the
//      count sees a value >= 1; for the raw parameter lists of CUP and DECSTBM the handler,
//      run on zero parameters, reaches exactly the state it reaches on the default values
//   b  the dispatch tables (csi, esc, c0, decset, decrst) have an entry for every function of
//      the property's vocabulary
//   c  every erase takes the cursor's current background
//   d  cursor/margin contracts: each motion/positioning function of the vocabulary, run from a
//      symbolic state satisfying a stated precondition, ends exactly where a VT puts the cursor
//      (one step, stop at the margin, clamp at the screen edge, parameter order of CUP/DECSTBM,
//      column reset of NEL/CR/IL/DL, cursor unchanged by erase/insert/delete)
// Not decided: the contents of the grid after an operation.

import (
	"fmt"
	"go/ast"
	"go/constant"
	"go/token"
	"go/types"
	"os"
	"runtime/debug"
	"sort"
	"strings"
	"time"
)

func init() { register("C06", false, runC06) }

func runC06(c *Ctx) {
	c.Clauses = []string{
		"C06.a zero or omitted parameters mean the default (uses of a default-1 count are >= 1; CUP/DECSTBM on zeros equal CUP/DECSTBM on the defaults)",
		"C06.b a handler exists for every control function of the vocabulary",
		"C06.c every erased cell takes the cursor's current background",
		"C06.d cursor and margin contracts of the motion/positioning functions (symbolic pre/post conditions proved on the code)",
		"C06.f scroll up/down: every row of the region receives the row n lines away when that row is in the region and is erased (margins, pen background) otherwise; rows outside are untouched (n below and at/above the region height)",
		"C06.i insert/delete line: every row from the cursor row to the bottom margin receives the row n lines above/below when that row is in the interval and is erased otherwise, rows outside are untouched, and nothing happens with the cursor outside the region (n within and beyond the lines that remain)",
		"C06.j erase in line / erase in display / erase character: exactly the cells a VT erases are erased (EL 0/1/2, ED 0/1/2, ECH within and beyond the line): no cell outside the range is erased, every cell inside is, the loops start at or before the first and cannot stop before the last cell of the range",
		"C06.m insert/delete character: every cell from the cursor to the right margin of the cursor row receives the cell n columns to its left/right when that cell lies in the interval and is blanked otherwise; cells outside the interval and other rows are untouched (n within and beyond the cells that remain)",
		"C06.g print blanks, in the pen's style, exactly the columns col+1 .. min(col+w-1, right margin) a wide glyph covers, on the glyph's row",
	}
	c.NotDec = []string{"grid contents (graphemes, widths, styles) after each operation other than the contracts above; malformed SGR parameter lists; behaviour in the deferred-wrap column other than printing, CR and absolute positioning (exempt by the statement)"}
	c.Assume = append(c.Assume, "terminal sizes are at least 1x1; contract preconditions state larger minimum sizes where needed", "sequence parameters are non-negative (C05.d)")
	defer debug.SetGCPercent(debug.SetGCPercent(1000)) // the engine allocates many small maps next to a large, static program
	c05Normalise(c)
	e := c05Engine(c)
	if e.pk == nil || e.model == nil || e.cellT == nil {
		c.undecided("C06.b", "widgets/term", 0, "package widgets/term, type Model or type cell not found")
		return
	}
	tabs := map[string]*c06Table{}
	for _, n := range []string{"csi", "esc", "c0", "decset", "decrst"} {
		tabs[n] = c06Dispatch(c, e, "widgets/term.(*Model)."+n)
	}
	t0 := time.Now()
	lap := func(what string) {
		if os.Getenv("C05_DEBUG") != "" {
			fmt.Printf("DEBUG phase %s %v\n", what, time.Since(t0))
		}
		t0 = time.Now()
	}
	c06RuleTables(c, e, tabs)
	lap("tables")
	c06RuleDefaults(c, e, tabs)
	lap("defaults")
	c06RuleErase(c, e)
	lap("erase")
	c06RuleContracts(c, e, tabs)
	c06RuleScroll(c, e, tabs)
	c06RuleInsDel(c, e, tabs)
	c06RuleEraseRanges(c, e, tabs)
	c06RuleColShift(c, e, tabs)
	c06RulePrint(c, e)
	lap("contracts")
	c05Debug(c)
}

// ---------------------------------------------------------------- dispatch tables

type c06Entry struct {
	key    string
	clause *ast.CaseClause
	callee *FuncInfo     // first call into the package in the clause body
	call   *ast.CallExpr // that call
}

type c06Table struct {
	fi      *FuncInfo
	entries map[string]*c06Entry
}

// c06Dispatch extracts the first switch with constant cases from the function: case constant -> clause.
func c06Dispatch(c *Ctx, e *c05Eng, name string) *c06Table {
	fi := c.P.Func(name)
	if fi == nil || fi.Decl.Body == nil {
		return nil
	}
	info := fi.Pkg.TypesInfo
	t := &c06Table{fi: fi, entries: map[string]*c06Entry{}}
	var sw *ast.SwitchStmt
	ast.Inspect(fi.Decl.Body, func(n ast.Node) bool {
		if s, ok := n.(*ast.SwitchStmt); ok && sw == nil && s.Tag != nil {
			sw = s
			return false
		}
		return sw == nil
	})
	if sw == nil {
		// the dispatcher only iterates and hands each item to a helper that switches on it (the switch body moved
		// into a per-item method): the helper's switch over its parameter is the table
		sw = c06DelegatedSwitch(c, e, fi, 0, map[*FuncInfo]bool{fi: true})
	}
	if sw == nil {
		return t
	}
	for _, cl := range sw.Body.List {
		cc := cl.(*ast.CaseClause)
		for _, x := range cc.List {
			tv, ok := info.Types[x]
			if !ok || tv.Value == nil {
				continue
			}
			key := tv.Value.ExactString()
			if tv.Value.Kind() == constant.String {
				key = constant.StringVal(tv.Value)
			}
			en := &c06Entry{key: key, clause: cc}
			for _, st := range cc.Body {
				ast.Inspect(st, func(n ast.Node) bool {
					if call, ok := n.(*ast.CallExpr); ok && en.callee == nil {
						if fn := calleeOf(info, call); fn != nil {
							if cf := c.P.FuncOfObj(fn); cf != nil && cf.Pkg == e.pk && e.recvOf(cf) != nil {
								en.callee, en.call = cf, call
							}
						}
					}
					return en.callee == nil
				})
			}
			t.entries[key] = en
		}
	}
	return t
}

// c06DelegatedSwitch: fi has no switch of its own; the first function of the package it calls (in source order,
// at most two levels down) whose first switch has one of that function's own parameters as its tag and constant
// cases. The clauses are statements of the helper; the package (and its types.Info) is the dispatcher's.
func c06DelegatedSwitch(c *Ctx, e *c05Eng, fi *FuncInfo, depth int, busy map[*FuncInfo]bool) *ast.SwitchStmt {
	if depth >= 2 {
		return nil
	}
	info := fi.Pkg.TypesInfo
	var found *ast.SwitchStmt
	ast.Inspect(fi.Decl.Body, func(n ast.Node) bool {
		if found != nil {
			return false
		}
		if _, isLit := n.(*ast.FuncLit); isLit {
			return false
		}
		call, ok := n.(*ast.CallExpr)
		if !ok {
			return true
		}
		fn := calleeOf(info, call)
		if fn == nil {
			return true
		}
		cf := c.P.FuncOfObj(fn)
		if cf == nil || cf.Pkg != fi.Pkg || cf.Decl.Body == nil || busy[cf] {
			return true
		}
		busy[cf] = true
		params := map[types.Object]bool{}
		for _, f := range cf.Decl.Type.Params.List {
			for _, nme := range f.Names {
				if o := info.Defs[nme]; o != nil {
					params[o] = true
				}
			}
		}
		var sw *ast.SwitchStmt
		ast.Inspect(cf.Decl.Body, func(m ast.Node) bool {
			if s, ok := m.(*ast.SwitchStmt); ok && sw == nil && s.Tag != nil {
				sw = s
				return false
			}
			return sw == nil
		})
		if sw != nil {
			if id, ok := unparen(sw.Tag).(*ast.Ident); ok && params[info.Uses[id]] {
				for _, cl := range sw.Body.List {
					for _, x := range cl.(*ast.CaseClause).List {
						if tv, ok := info.Types[x]; ok && tv.Value != nil {
							found = sw
						}
					}
				}
			}
			return true
		}
		found = c06DelegatedSwitch(c, e, cf, depth+1, busy)
		return true
	})
	return found
}

func c06RuleTables(c *Ctx, e *c05Eng, tabs map[string]*c06Table) {
	c.expect("C06.b", 30)
	want := map[string][]string{
		"csi":    {"@", "A", "B", "C", "D", "E", "F", "G", "H", "J", "K", "L", "M", "P", "S", "T", "X", "`", "a", "d", "e", "f", "m", "r"},
		"esc":    {"7", "8", "D", "E", "M"},
		"c0":     {"10", "13"},
		"decset": {"1049"},
		"decrst": {"1049"},
	}
	names := map[string]string{"@": "ICH", "A": "CUU", "B": "CUD", "C": "CUF", "D": "CUB", "E": "CNL", "F": "CPL", "G": "CHA", "H": "CUP", "J": "ED", "K": "EL", "L": "IL", "M": "DL", "P": "DCH",
		"S": "SU", "T": "SD", "X": "ECH", "`": "HPA", "a": "HPR", "d": "VPA", "e": "VPR", "f": "HVP", "m": "SGR", "r": "DECSTBM"}
	for _, tn := range []string{"csi", "esc", "c0", "decset", "decrst"} {
		t := tabs[tn]
		if t == nil {
			c.undecided("C06.b", "widgets/term.(*Model)."+tn, 0, "dispatch function %s not found", tn)
			continue
		}
		if len(t.entries) == 0 {
			c.undecided("C06.b", t.fi.Name+"/dispatch switch", t.fi.Decl.Pos(), "no switch over constant cases found in %s", tn)
			continue
		}
		for _, k := range want[tn] {
			label := k
			if tn == "csi" {
				label = k + " (" + names[k] + ")"
			}
			key := fmt.Sprintf("%s/case %s is handled", t.fi.Name, label)
			en := t.entries[k]
			switch {
			case en == nil:
				c.bad("C06.b", key, t.fi.Decl.Pos(), "the %s table has no case for %q: the control function is silently ignored", tn, k)
			case len(en.clause.Body) == 0:
				c.bad("C06.b", key, en.clause.Pos(), "the case for %q is empty: the control function is silently ignored", k)
			default:
				c.ok("C06.b", key, en.clause.Pos(), "case present with a body")
			}
		}
	}
}

// ---------------------------------------------------------------- C06.a (uses of a default-1 count)

var c06DefaultOne = []string{"@", "A", "B", "C", "D", "E", "F", "G", "L", "M", "P", "S", "T", "X", "`", "a", "d", "e"}
var c06DefaultOneInfo = []string{"I", "Z", "b"} // CHT, CBT, REP: outside the C06 vocabulary, information only

func c06RuleDefaults(c *Ctx, e *c05Eng, tabs map[string]*c06Table) {
	c.expect("C06.a", 25)
	t := tabs["csi"]
	if t == nil {
		return
	}
	info := t.fi.Pkg.TypesInfo
	// state of csi() at each call site
	argLo := map[*ast.CallExpr]bool{}
	e.hooks = []c05Hook{func(e *c05Eng, fr *c05Frame, n ast.Node, st *c05State) {
		if st == nil || st.env == nil {
			return
		}
		inspectNoLit(n, func(m ast.Node) bool {
			if call, ok := m.(*ast.CallExpr); ok && len(call.Args) == 1 && isIntegerExpr(info, call.Args[0]) {
				s2 := st.clone()
				l := e.linOf(fr, s2, call.Args[0])
				one := l.neg()
				one.k += 1 // 1 - arg <= 0
				argLo[call] = e.prove(s2, one)
			}
			return true
		})
	}}
	e.summariseAll = true
	e.analyse(t.fi, nil)
	e.summariseAll = false
	e.hooks = nil
	check := func(k string, asInfo bool) {
		en := t.entries[k]
		if en == nil || en.callee == nil || en.call == nil {
			return // missing entries are reported by C06.b
		}
		sig := en.callee.Obj.Type().(*types.Signature)
		if sig.Params().Len() != 1 || !e.isCountType(sig.Params().At(0).Type()) {
			if !asInfo {
				c.undecided("C06.a", fmt.Sprintf("%s/CSI %s", t.fi.Name, k), en.call.Pos(), "the handler of CSI %s does not take a single count parameter; the recogniser does not know where its default is applied", k)
			}
			return
		}
		key := fmt.Sprintf("%s/CSI %s: zero means 1", en.callee.Name, k)
		if argLo[en.call] {
			c.ok("C06.a", key, en.call.Pos(), "the value passed by the dispatcher is already >= 1")
			return
		}
		// uses of the parameter inside the handler (and inside the helpers it hands the raw value to)
		cf := en.callee
		var pobj types.Object
		for _, f := range cf.Decl.Type.Params.List {
			for _, nme := range f.Names {
				pobj = cf.Pkg.TypesInfo.Defs[nme]
			}
		}
		nUses, badUse, badPos, recomputed := c06ParamUses(c, e, cf, pobj, 0, map[*FuncInfo]bool{})
		switch {
		case asInfo:
			if len(badUse) > 0 {
				c.info("CSI %s (%s): the count is used without the zero-means-one normalisation at %s (outside the C06 vocabulary; not an obligation)", k, cf.Name, strings.Join(badUse, ", "))
			}
		case nUses == 0:
			c.undecided("C06.a", key, cf.Decl.Pos(), "the handler never uses its count parameter")
		case len(badUse) > 0 && recomputed:
			c.undecided("C06.a", key, badPos, "the count variable is recomputed from something other than a constant and a use may see 0 (%s): the recogniser cannot tell the default normalisation from a derived quantity", strings.Join(badUse, ", "))
		case len(badUse) > 0:
			c.bad("C06.a", key, badPos, "the count reaches a use with the value 0 still possible (%s): CSI 0 %s and CSI %s differ from CSI 1 %s", strings.Join(badUse, ", "), k, k, k)
		default:
			c.ok("C06.a", key, cf.Decl.Pos(), "all %d uses of the count see a value >= 1", nUses)
		}
	}
	for _, k := range c06DefaultOne {
		check(k, false)
	}
	for _, k := range c06DefaultOneInfo {
		check(k, true)
	}
}

// c06ParamUses analyses cf with its count parameter pobj possibly 0 at entry and classifies every use of the
// parameter: tests against constants and the parameter's own normalisation are not uses; every other use must see
// a value >= 1. A use that only hands the (possibly zero) value to a helper of the package is judged by the
// helper's own uses of the corresponding parameter (the normalisation may have been extracted with the clamp).
func c06ParamUses(c *Ctx, e *c05Eng, cf *FuncInfo, pobj types.Object, depth int, busy map[*FuncInfo]bool) (nUses int, badUse []string, badPos token.Pos, recomputed bool) {
	cinfo := cf.Pkg.TypesInfo
	parents := c.P.Parents(cf.Pkg)
	type handOff struct {
		callee *FuncInfo
		param  types.Object
		pos    token.Pos
		val    string
	}
	var handed []handOff
	pkey := fmt.Sprintf("v%p", pobj)
	shKey := pkey + "#param"
	e.disp[shKey] = pobj.Name() + " (as passed, after default normalisation)"
	e.shadow = map[string]string{pkey: shKey}
	ast.Inspect(cf.Decl.Body, func(m ast.Node) bool {
		if as, ok := m.(*ast.AssignStmt); ok {
			for i, l := range as.Lhs {
				if id, ok := unparen(l).(*ast.Ident); ok && cinfo.ObjectOf(id) == pobj {
					if as.Tok != token.ASSIGN || i >= len(as.Rhs) {
						recomputed = true
					} else if _, isConst := constInt(cinfo, as.Rhs[i]); !isConst {
						recomputed = true
					}
				}
			}
		}
		return true
	})
	e.hooks = []c05Hook{func(e *c05Eng, fr *c05Frame, n ast.Node, st *c05State) {
		if st == nil || st.env == nil {
			return
		}
		inspectNoLit(n, func(m ast.Node) bool {
			id, ok := m.(*ast.Ident)
			if !ok || cinfo.Uses[id] != pobj {
				return true
			}
			// classify
			var par ast.Node = parents[id]
			for {
				if p, ok := par.(*ast.ParenExpr); ok {
					par = parents[p]
					continue
				}
				break
			}
			switch p := par.(type) {
			case *ast.BinaryExpr:
				switch p.Op {
				case token.EQL, token.NEQ, token.LSS, token.LEQ, token.GTR, token.GEQ:
					other := p.Y
					if unparen(p.Y) == ast.Expr(id) {
						other = p.X
					}
					if _, isConst := constInt(cinfo, other); isConst {
						return true // a test of the parameter, not a use
					}
				}
			case *ast.AssignStmt:
				for _, l := range p.Lhs {
					if unparen(l) == ast.Expr(id) {
						return true
					}
				}
			}
			// inside the right-hand side of an assignment to the parameter itself (p = oneIfZero(p),
			// p = max(p, 1), p = p): the result is what the later uses see, and they are checked
			selfAssign := false
			for cur := ast.Node(id); cur != nil; cur = parents[cur] {
				if as, ok := cur.(*ast.AssignStmt); ok {
					if len(as.Lhs) == 1 && len(as.Rhs) == 1 {
						if lid, ok := unparen(as.Lhs[0]).(*ast.Ident); ok && cinfo.ObjectOf(lid) == pobj && as.Rhs[0].Pos() <= id.Pos() && id.End() <= as.Rhs[0].End() {
							selfAssign = true
						}
					}
					break
				}
				if _, ok := cur.(ast.Stmt); ok {
					break
				}
			}
			if selfAssign {
				return true
			}
			nUses++
			s2 := st.clone()
			one := c05Atom(shKey).neg()
			one.k += 1
			if !e.prove(s2, one) {
				val := e.showVal(e.evalLin(s2, c05Atom(shKey)))
				// handed as it is (conversions aside) to a helper of the package?
				var arg ast.Node = id
				up := parents[arg]
				for {
					if p, ok := up.(*ast.ParenExpr); ok {
						arg, up = p, parents[p]
						continue
					}
					if cv, ok := up.(*ast.CallExpr); ok && len(cv.Args) == 1 && cv.Args[0] == arg {
						if tv, ok := cinfo.Types[cv.Fun]; ok && tv.IsType() && isIntType(tv.Type) {
							arg, up = cv, parents[cv]
							continue
						}
					}
					break
				}
				if call, ok := up.(*ast.CallExpr); ok && depth < 3 {
					if fn := calleeOf(cinfo, call); fn != nil {
						if hf := c.P.FuncOfObj(fn); hf != nil && hf.Pkg == e.pk && hf.Decl.Body != nil && hf != cf && !busy[hf] {
							sig := fn.Type().(*types.Signature)
							for ai, a := range call.Args {
								if a == arg && ai < sig.Params().Len() && !sig.Variadic() && e.isCountType(sig.Params().At(ai).Type()) {
									if hp := c06ParamObj(hf, ai); hp != nil {
										handed = append(handed, handOff{callee: hf, param: hp, pos: id.Pos(), val: val})
										return true
									}
								}
							}
						}
					}
				}
				badUse = append(badUse, fmt.Sprintf("%s (%s)", c.P.Pos(id.Pos()), val))
				if badPos == 0 {
					badPos = id.Pos()
				}
			}
			return true
		})
	}}
	e.analyse(cf, func(fr *c05Frame, st *c05State) {
		v := e.setBound(st, pkey)
		sv := v.clone()
		sv.addLo(pkey, 0)
		sv.addHi(pkey, 0)
		v.addLo(shKey, 0)
		v.addHi(shKey, 0)
		st.env[shKey] = sv
	})
	e.hooks = nil
	e.shadow = nil
	busy[cf] = true
	for _, h := range handed {
		n2, bad2, pos2, rec2 := c06ParamUses(c, e, h.callee, h.param, depth+1, busy)
		if n2 == 0 {
			// the helper ignores the value: the hand-off itself is the (harmless) use
			continue
		}
		if rec2 {
			recomputed = true
		}
		if len(bad2) > 0 {
			badUse = append(badUse, bad2...)
			if badPos == 0 {
				badPos = h.pos
			}
			_ = pos2
		}
	}
	delete(busy, cf)
	return
}

// c06ParamObj: the object of the i-th parameter of a declared function (nil if unnamed).
func c06ParamObj(fi *FuncInfo, i int) types.Object {
	n := 0
	for _, f := range fi.Decl.Type.Params.List {
		if len(f.Names) == 0 {
			n++
			continue
		}
		for _, nme := range f.Names {
			if n == i {
				if nme.Name == "_" {
					return nil
				}
				return fi.Pkg.TypesInfo.Defs[nme]
			}
			n++
		}
	}
	return nil
}

// ---------------------------------------------------------------- C06.c erase background

func c06RuleErase(c *Ctx, e *c05Eng) {
	c.expect("C06.c", 4)
	var bgField *types.Var
	if root := c.P.Pkg("vaxis"); root != nil {
		if tn, ok := root.Types.Scope().Lookup("Style").(*types.TypeName); ok {
			if st, ok := tn.Type().Underlying().(*types.Struct); ok {
				for i := 0; i < st.NumFields(); i++ {
					if st.Field(i).Name() == "Background" {
						bgField = st.Field(i)
					}
				}
			}
		}
	}
	mst, _ := e.model.Underlying().(*types.Struct)
	var cursorField *types.Var
	for i := 0; mst != nil && i < mst.NumFields(); i++ {
		if mst.Field(i).Name() == "cursor" {
			cursorField = mst.Field(i)
		}
	}
	if bgField == nil || cursorField == nil {
		c.undecided("C06.c", "vaxis.Style.Background / Model.cursor", 0, "fields not found")
		return
	}
	for _, fi := range c.P.FuncsIn("widgets/term") {
		if fi.Decl.Body == nil {
			continue
		}
		info := fi.Pkg.TypesInfo
		ast.Inspect(fi.Decl.Body, func(n ast.Node) bool {
			call, ok := n.(*ast.CallExpr)
			if !ok {
				return true
			}
			fn := calleeOf(info, call)
			if fn == nil || repoName(fn) != "widgets/term.cell.erase" || len(call.Args) != 1 {
				return true
			}
			sel0, _ := call.Fun.(*ast.SelectorExpr)
			target := "?"
			if sel0 != nil {
				target = types.ExprString(sel0.X)
			}
			key := fmt.Sprintf("%s/erase of %s takes the current background", fi.Name, target)
			okArg := c06IsPenBackground(c, e, fi, call.Args[0], bgField, cursorField, 0)
			if okArg {
				c.ok("C06.c", key, call.Pos(), "argument is the pen's background")
			} else {
				c.bad("C06.c", key, call.Pos(), "the erased cell takes %s instead of the cursor's current background: erased areas show the wrong colour", types.ExprString(call.Args[0]))
			}
			return true
		})
	}
}

// c06IsPenBackground: x denotes <terminal>.cursor...Background — directly, through a local with a
// single definition, or through a parameter that every call site fills with the pen's background.
func c06IsPenBackground(c *Ctx, e *c05Eng, fi *FuncInfo, x ast.Expr, bgField, cursorField *types.Var, depth int) bool {
	if depth > 3 {
		return false
	}
	info := fi.Pkg.TypesInfo
	recv := e.recvOf(fi)
	x = unparen(x)
	if sel, ok := x.(*ast.SelectorExpr); ok {
		s, ok := info.Selections[sel]
		if !ok || s.Obj() != bgField || recv == nil || rootObj(info, sel) != recv {
			return false
		}
		for cur := ast.Expr(sel); ; {
			se, ok := unparen(cur).(*ast.SelectorExpr)
			if !ok {
				return false
			}
			if s2, ok := info.Selections[se]; ok && s2.Obj() == cursorField {
				return true
			}
			cur = se.X
		}
	}
	id, ok := x.(*ast.Ident)
	if !ok {
		return false
	}
	obj, _ := info.ObjectOf(id).(*types.Var)
	if obj == nil {
		return false
	}
	// parameter: every call site passes the pen's background
	pi := 0
	for _, f := range fi.Decl.Type.Params.List {
		for _, nme := range f.Names {
			if info.Defs[nme] == types.Object(obj) {
				if !c05CtxEligible(c, e, fi) {
					return false
				}
				idx := pi
				all := true
				for _, caller := range c.P.FuncsIn("widgets/term") {
					if caller.Decl.Body == nil {
						continue
					}
					ast.Inspect(caller.Decl.Body, func(n ast.Node) bool {
						if call, ok := n.(*ast.CallExpr); ok && calleeOf(caller.Pkg.TypesInfo, call) == fi.Obj {
							if idx >= len(call.Args) || !c06IsPenBackground(c, e, caller, call.Args[idx], bgField, cursorField, depth+1) {
								all = false
							}
						}
						return true
					})
				}
				return all
			}
			pi++
		}
	}
	// local: exactly one definition, never reassigned, never address-taken; the pen's background
	// must not change between the definition and the use: no store to the cursor's style in this function
	var defs []ast.Expr
	other := false
	ast.Inspect(fi.Decl.Body, func(n ast.Node) bool {
		switch t := n.(type) {
		case *ast.AssignStmt:
			for i, l := range t.Lhs {
				if lid, ok := unparen(l).(*ast.Ident); ok && info.ObjectOf(lid) == types.Object(obj) {
					if len(t.Lhs) == len(t.Rhs) && (t.Tok == token.DEFINE || t.Tok == token.ASSIGN) {
						defs = append(defs, t.Rhs[i])
					} else {
						other = true
					}
				}
				if sel, ok := unparen(l).(*ast.SelectorExpr); ok {
					if s, ok := info.Selections[sel]; ok && s.Obj() == bgField {
						other = true
					}
				}
			}
		case *ast.ValueSpec:
			for i, nme := range t.Names {
				if info.Defs[nme] == types.Object(obj) {
					if i < len(t.Values) {
						defs = append(defs, t.Values[i])
					} else {
						other = true
					}
				}
			}
		case *ast.IncDecStmt:
			if lid, ok := unparen(t.X).(*ast.Ident); ok && info.ObjectOf(lid) == types.Object(obj) {
				other = true
			}
		case *ast.UnaryExpr:
			if lid, ok := unparen(t.X).(*ast.Ident); ok && t.Op == token.AND && info.ObjectOf(lid) == types.Object(obj) {
				other = true
			}
		}
		return true
	})
	return !other && len(defs) == 1 && c06IsPenBackground(c, e, fi, defs[0], bgField, cursorField, depth+1)
}

// ---------------------------------------------------------------- C06.d contracts

type c06Post struct {
	what string
	eq   c05Lin // must be exactly 0
}

type c06Case struct {
	rule    string
	table   string
	key     string
	name    string // stable contract name
	ps      any    // nil | int | c05Lin  : the count parameter
	list    []any  // raw parameter list (each int | c05Lin); nil = not a list handler
	minRows int64
	minCols int64
	margins bool     // name the margins before the call (g0Top, g0Bot) so that a post-condition can say "unchanged"
	saved   bool     // seed both saved cursors with the ghosts saved.row / saved.col (inside the screen)
	pre     []c05Lin // each <= 0, over the INV keys (before the call)
	post    []c06Post
	fails   string
}

const (
	g0Row = c05Row + "@0"
	g0Col = c05Col + "@0"
	g0Top = c05Top_ + "@0"
	g0Bot = c05Bot + "@0"
)

func c06Eq(what string, pairs ...any) c06Post { return c06Post{what: what, eq: c05L(pairs...)} }

func c06Cases() []c06Case {
	rowSame := c06Eq("row unchanged", c05Row, 1, g0Row, -1)
	colSame := c06Eq("column unchanged", c05Col, 1, g0Col, -1)
	col0 := c06Eq("column == 0", c05Col, 1)
	inRegion := []c05Lin{c05L(c05Top_, 1, c05Row, -1), c05L(c05Row, 1, c05Bot, -1), c05L(c05Col, 1, "COLS", -1, 1)}
	with := func(base []c05Lin, more ...c05Lin) []c05Lin { return append(append([]c05Lin{}, base...), more...) }
	geoPlus := func(sym string, k int) c05Lin { return c05L(sym, 1, k) }
	cs := []c06Case{
		// relative moves
		{rule: "C06.d", table: "csi", key: "A", name: "CUU 2 moves up two rows", ps: 2, pre: with(inRegion, c05L(c05Top_, 1, c05Row, -1, 2)), post: []c06Post{c06Eq("row == row0-2", c05Row, 1, g0Row, -1, 2), colSame}},
		{rule: "C06.d", table: "csi", key: "A", name: "CUU stops at the top margin", ps: 1, pre: with(inRegion, c05L(c05Row, 1, c05Top_, -1)), post: []c06Post{rowSame, colSame}},
		{rule: "C06.a", table: "csi", key: "A", name: "CUU 0 moves up one row", ps: 0, pre: with(inRegion, c05L(c05Top_, 1, c05Row, -1, 1)), post: []c06Post{c06Eq("row == row0-1", c05Row, 1, g0Row, -1, 1), colSame}},
		{rule: "C06.d", table: "csi", key: "B", name: "CUD 2 moves down two rows", ps: 2, pre: with(inRegion, c05L(c05Row, 1, c05Bot, -1, 2)), post: []c06Post{c06Eq("row == row0+2", c05Row, 1, g0Row, -1, -2), colSame}},
		{rule: "C06.d", table: "csi", key: "B", name: "CUD stops at the bottom margin", ps: 1, pre: with(inRegion, c05L(c05Bot, 1, c05Row, -1)), post: []c06Post{rowSame, colSame}},
		{rule: "C06.a", table: "csi", key: "B", name: "CUD 0 moves down one row", ps: 0, pre: with(inRegion, c05L(c05Row, 1, c05Bot, -1, 1)), post: []c06Post{c06Eq("row == row0+1", c05Row, 1, g0Row, -1, -1), colSame}},
		{rule: "C06.d", table: "csi", key: "C", name: "CUF 2 moves right two columns", ps: 2, pre: with(inRegion, c05L(c05Col, 1, "COLS", -1, 3)), post: []c06Post{c06Eq("col == col0+2", c05Col, 1, g0Col, -1, -2), rowSame}},
		{rule: "C06.d", table: "csi", key: "C", name: "CUF stops at the right edge", ps: 1, pre: with(inRegion, c05L("COLS", 1, c05Col, -1, -1)), post: []c06Post{colSame, rowSame}},
		{rule: "C06.a", table: "csi", key: "C", name: "CUF 0 moves right one column", ps: 0, pre: with(inRegion, c05L(c05Col, 1, "COLS", -1, 2)), post: []c06Post{c06Eq("col == col0+1", c05Col, 1, g0Col, -1, -1), rowSame}},
		{rule: "C06.d", table: "csi", key: "D", name: "CUB 2 moves left two columns", ps: 2, pre: with(inRegion, c05L(c05Col, -1, 2)), post: []c06Post{c06Eq("col == col0-2", c05Col, 1, g0Col, -1, 2), rowSame}},
		{rule: "C06.d", table: "csi", key: "D", name: "CUB stops at the left edge", ps: 1, pre: with(inRegion, c05L(c05Col, 1)), post: []c06Post{colSame, rowSame}},
		{rule: "C06.a", table: "csi", key: "D", name: "CUB 0 moves left one column", ps: 0, pre: with(inRegion, c05L(c05Col, -1, 1)), post: []c06Post{c06Eq("col == col0-1", c05Col, 1, g0Col, -1, 1), rowSame}},
		{rule: "C06.d", table: "csi", key: "F", name: "CPL goes to column 0", ps: 1, pre: inRegion, post: []c06Post{col0}},
		{rule: "C06.d", table: "csi", key: "e", name: "VPR 2 moves down two rows", ps: 2, pre: with(inRegion, c05L(c05Row, 1, "ROWS", -1, 3)), post: []c06Post{c06Eq("row == row0+2", c05Row, 1, g0Row, -1, -2), colSame}},
		{rule: "C06.d", table: "csi", key: "a", name: "HPR 2 moves right two columns", ps: 2, pre: with(inRegion, c05L(c05Col, 1, "COLS", -1, 3)), post: []c06Post{c06Eq("col == col0+2", c05Col, 1, g0Col, -1, -2), rowSame}},
		// absolute moves
		{rule: "C06.d", table: "csi", key: "G", name: "CHA 3 goes to column 2", ps: 3, minCols: 3, pre: inRegion, post: []c06Post{c06Eq("col == 2", c05Col, 1, -2), rowSame}},
		{rule: "C06.a", table: "csi", key: "G", name: "CHA 0 goes to column 0", ps: 0, pre: inRegion, post: []c06Post{col0, rowSame}},
		{rule: "C06.d", table: "csi", key: "G", name: "CHA beyond the width stops at the last column", ps: geoPlus("COLS", 5), pre: inRegion, post: []c06Post{c06Eq("col == COLS-1", c05Col, 1, "COLS", -1, 1), rowSame}},
		{rule: "C06.d", table: "csi", key: "`", name: "HPA 3 goes to column 2", ps: 3, minCols: 3, pre: inRegion, post: []c06Post{c06Eq("col == 2", c05Col, 1, -2), rowSame}},
		{rule: "C06.a", table: "csi", key: "`", name: "HPA 0 goes to column 0", ps: 0, pre: inRegion, post: []c06Post{col0, rowSame}},
		{rule: "C06.d", table: "csi", key: "d", name: "VPA 3 goes to row 2", ps: 3, minRows: 3, pre: inRegion, post: []c06Post{c06Eq("row == 2", c05Row, 1, -2), colSame}},
		{rule: "C06.a", table: "csi", key: "d", name: "VPA 0 goes to row 0", ps: 0, pre: inRegion, post: []c06Post{c06Eq("row == 0", c05Row, 1), colSame}},
		{rule: "C06.d", table: "csi", key: "d", name: "VPA beyond the height stops at the last row", ps: geoPlus("ROWS", 5), pre: inRegion, post: []c06Post{c06Eq("row == ROWS-1", c05Row, 1, "ROWS", -1, 1), colSame}},
	}
	for _, k := range []string{"H", "f"} {
		n := map[string]string{"H": "CUP", "f": "HVP"}[k]
		cs = append(cs,
			c06Case{rule: "C06.d", table: "csi", key: k, name: n + " 3;4 goes to row 2, column 3", list: []any{3, 4}, minRows: 3, minCols: 4, pre: inRegion, post: []c06Post{c06Eq("row == 2", c05Row, 1, -2), c06Eq("col == 3", c05Col, 1, -3)}},
			c06Case{rule: "C06.a", table: "csi", key: k, name: n + " 0;0 goes home", list: []any{0, 0}, pre: inRegion, post: []c06Post{c06Eq("row == 0", c05Row, 1), col0}},
			c06Case{rule: "C06.a", table: "csi", key: k, name: n + " 0;4 goes to row 0, column 3", list: []any{0, 4}, minCols: 4, pre: inRegion, post: []c06Post{c06Eq("row == 0", c05Row, 1), c06Eq("col == 3", c05Col, 1, -3)}},
			c06Case{rule: "C06.a", table: "csi", key: k, name: n + " 3;0 goes to row 2, column 0", list: []any{3, 0}, minRows: 3, pre: inRegion, post: []c06Post{c06Eq("row == 2", c05Row, 1, -2), col0}},
			c06Case{rule: "C06.d", table: "csi", key: k, name: n + " beyond the screen stops at the last row and column", list: []any{geoPlus("ROWS", 5), geoPlus("COLS", 5)}, pre: inRegion, post: []c06Post{c06Eq("row == ROWS-1", c05Row, 1, "ROWS", -1, 1), c06Eq("col == COLS-1", c05Col, 1, "COLS", -1, 1)}},
			c06Case{rule: "C06.d", table: "csi", key: k, name: n + " 3 goes to row 2, column 0", list: []any{3}, minRows: 3, pre: inRegion, post: []c06Post{c06Eq("row == 2", c05Row, 1, -2), col0}},
			c06Case{rule: "C06.a", table: "csi", key: k, name: n + " without parameters goes home", list: []any{}, pre: inRegion, post: []c06Post{c06Eq("row == 0", c05Row, 1), col0}},
		)
	}
	home := []c06Post{c06Eq("row == 0", c05Row, 1), col0}
	cs = append(cs,
		c06Case{rule: "C06.d", table: "csi", key: "r", name: "DECSTBM 2;4 sets margins 1..3 and homes", list: []any{2, 4}, minRows: 4, pre: inRegion, post: append([]c06Post{c06Eq("top == 1", c05Top_, 1, -1), c06Eq("bottom == 3", c05Bot, 1, -3)}, home...)},
		c06Case{rule: "C06.a", table: "csi", key: "r", name: "DECSTBM 0;0 selects the whole screen", list: []any{0, 0}, minRows: 2, pre: inRegion, post: append([]c06Post{c06Eq("top == 0", c05Top_, 1), c06Eq("bottom == ROWS-1", c05Bot, 1, "ROWS", -1, 1)}, home...)},
		c06Case{rule: "C06.a", table: "csi", key: "r", name: "DECSTBM without parameters selects the whole screen", list: []any{}, minRows: 2, pre: inRegion, post: append([]c06Post{c06Eq("top == 0", c05Top_, 1), c06Eq("bottom == ROWS-1", c05Bot, 1, "ROWS", -1, 1)}, home...)},
		c06Case{rule: "C06.a", table: "csi", key: "r", name: "DECSTBM 2 keeps the bottom at the last row", list: []any{2}, minRows: 3, pre: inRegion, post: append([]c06Post{c06Eq("top == 1", c05Top_, 1, -1), c06Eq("bottom == ROWS-1", c05Bot, 1, "ROWS", -1, 1)}, home...)},
		c06Case{rule: "C06.d", table: "csi", key: "r", name: "DECSTBM bottom beyond the screen stops at the last row", list: []any{1, geoPlus("ROWS", 5)}, minRows: 2, pre: inRegion, post: append([]c06Post{c06Eq("top == 0", c05Top_, 1), c06Eq("bottom == ROWS-1", c05Bot, 1, "ROWS", -1, 1)}, home...)},
		// index family
		c06Case{rule: "C06.d", table: "esc", key: "D", name: "IND moves down one row", pre: with(inRegion, c05L(c05Row, 1, c05Bot, -1, 1)), post: []c06Post{c06Eq("row == row0+1", c05Row, 1, g0Row, -1, -1), colSame}},
		c06Case{rule: "C06.d", table: "esc", key: "D", name: "IND at the bottom margin keeps the row", pre: with(inRegion, c05L(c05Bot, 1, c05Row, -1)), post: []c06Post{rowSame, colSame}},
		c06Case{rule: "C06.d", table: "esc", key: "E", name: "NEL goes to column 0 of the next row", pre: with(inRegion, c05L(c05Row, 1, c05Bot, -1, 1)), post: []c06Post{c06Eq("row == row0+1", c05Row, 1, g0Row, -1, -1), col0}},
		c06Case{rule: "C06.d", table: "esc", key: "M", name: "RI moves up one row", pre: with(inRegion, c05L(c05Top_, 1, c05Row, -1, 1)), post: []c06Post{c06Eq("row == row0-1", c05Row, 1, g0Row, -1, 1), colSame}},
		c06Case{rule: "C06.d", table: "esc", key: "M", name: "RI at the top margin keeps the row", pre: with(inRegion, c05L(c05Row, 1, c05Top_, -1)), post: []c06Post{rowSame, colSame}},
		c06Case{rule: "C06.d", table: "c0", key: "10", name: "LF moves down one row", pre: with(inRegion, c05L(c05Row, 1, c05Bot, -1, 1)), post: []c06Post{c06Eq("row == row0+1", c05Row, 1, g0Row, -1, -1)}},
		c06Case{rule: "C06.d", table: "c0", key: "10", name: "LF at the bottom margin keeps the row", pre: with(inRegion, c05L(c05Bot, 1, c05Row, -1)), post: []c06Post{rowSame}},
		c06Case{rule: "C06.d", table: "c0", key: "13", name: "CR goes to column 0", pre: inRegion, post: []c06Post{col0, rowSame}},
	)
	// the same functions with the cursor OUTSIDE the scroll region (a region that does not span the screen): the
	// margins stop a cursor that is inside the region only; outside it the screen edges do
	below := []c05Lin{c05L(c05Bot, 1, c05Row, -1, 1), c05L(c05Row, 1, "ROWS", -1, 1), c05L(c05Col, 1, "COLS", -1, 1)}
	above := []c05Lin{c05L(c05Row, 1, c05Top_, -1, 1), c05L(c05Row, -1), c05L(c05Col, 1, "COLS", -1, 1)}
	cs = append(cs,
		c06Case{rule: "C06.d", table: "csi", key: "B", name: "CUD 2 below the region moves down two rows", ps: 2, pre: with(below, c05L(c05Row, 1, "ROWS", -1, 3)), post: []c06Post{c06Eq("row == row0+2", c05Row, 1, g0Row, -1, -2), colSame}},
		c06Case{rule: "C06.d", table: "csi", key: "B", name: "CUD on the last row below the region keeps the row", ps: 1, pre: with(below, c05L("ROWS", 1, c05Row, -1, -1)), post: []c06Post{rowSame, colSame}},
		c06Case{rule: "C06.d", table: "csi", key: "B", name: "CUD 2 above the region moves down two rows", ps: 2, pre: with(above, c05L(c05Row, 1, c05Bot, -1, 2)), post: []c06Post{c06Eq("row == row0+2", c05Row, 1, g0Row, -1, -2), colSame}},
		c06Case{rule: "C06.d", table: "csi", key: "A", name: "CUU 2 above the region moves up two rows", ps: 2, pre: with(above, c05L(c05Row, -1, 2)), post: []c06Post{c06Eq("row == row0-2", c05Row, 1, g0Row, -1, 2), colSame}},
		c06Case{rule: "C06.d", table: "csi", key: "A", name: "CUU on the first row above the region keeps the row", ps: 1, pre: with(above, c05L(c05Row, 1)), post: []c06Post{rowSame, colSame}},
		c06Case{rule: "C06.d", table: "csi", key: "A", name: "CUU 2 below the region moves up two rows", ps: 2, pre: with(below, c05L(c05Top_, 1, c05Row, -1, 2)), post: []c06Post{c06Eq("row == row0-2", c05Row, 1, g0Row, -1, 2), colSame}},
		// the margin stops are ONE-SIDED (xterm CursorUp: `if screen->cur_row >= screen->top_marg then max = top_marg
		// else max = 0`; CursorDown symmetric): the top margin stops every upward move that starts at or below it —
		// also one that starts below the bottom margin — and the bottom margin every downward move that starts at or
		// above it — also one that starts above the top margin
		c06Case{rule: "C06.d", table: "csi", key: "A", name: "CUU from below the region stops at the top margin", ps: geoPlus("ROWS", 5), margins: true, pre: below, post: []c06Post{c06Eq("row == top margin", c05Row, 1, c05Top_, -1), c06Eq("top margin unchanged", c05Top_, 1, g0Top, -1), colSame}},
		c06Case{rule: "C06.d", table: "csi", key: "B", name: "CUD from above the region stops at the bottom margin", ps: geoPlus("ROWS", 5), margins: true, pre: above, post: []c06Post{c06Eq("row == bottom margin", c05Row, 1, c05Bot, -1), c06Eq("bottom margin unchanged", c05Bot, 1, g0Bot, -1), colSame}},
		c06Case{rule: "C06.d", table: "csi", key: "A", name: "CUU 3 from the row below the region crosses to the top margin", ps: 3, minRows: 4, margins: true, pre: with(below, c05L(c05Row, 1, c05Bot, -1, -1), c05L(c05Bot, 1, c05Top_, -1, -1)), post: []c06Post{c06Eq("row == top margin", c05Row, 1, c05Top_, -1), colSame}},
		c06Case{rule: "C06.d", table: "csi", key: "B", name: "CUD 3 from the row above the region crosses to the bottom margin", ps: 3, minRows: 4, margins: true, pre: with(above, c05L(c05Top_, 1, c05Row, -1, -1), c05L(c05Bot, 1, c05Top_, -1, -1)), post: []c06Post{c06Eq("row == bottom margin", c05Row, 1, c05Bot, -1), colSame}},
		c06Case{rule: "C06.d", table: "esc", key: "D", name: "IND below the region moves down one row", pre: with(below, c05L(c05Row, 1, "ROWS", -1, 2)), post: []c06Post{c06Eq("row == row0+1", c05Row, 1, g0Row, -1, -1), colSame}},
		c06Case{rule: "C06.d", table: "esc", key: "D", name: "IND on the last row below the region keeps the row", pre: with(below, c05L("ROWS", 1, c05Row, -1, -1)), post: []c06Post{rowSame, colSame}},
		c06Case{rule: "C06.d", table: "esc", key: "E", name: "NEL below the region goes to column 0 of the next row", pre: with(below, c05L(c05Row, 1, "ROWS", -1, 2)), post: []c06Post{c06Eq("row == row0+1", c05Row, 1, g0Row, -1, -1), col0}},
		c06Case{rule: "C06.d", table: "c0", key: "10", name: "LF below the region moves down one row", pre: with(below, c05L(c05Row, 1, "ROWS", -1, 2)), post: []c06Post{c06Eq("row == row0+1", c05Row, 1, g0Row, -1, -1)}},
		c06Case{rule: "C06.d", table: "c0", key: "10", name: "LF on the last row below the region keeps the row", pre: with(below, c05L("ROWS", 1, c05Row, -1, -1)), post: []c06Post{rowSame}},
		c06Case{rule: "C06.d", table: "esc", key: "M", name: "RI above the region moves up one row", pre: with(above, c05L(c05Row, -1, 1)), post: []c06Post{c06Eq("row == row0-1", c05Row, 1, g0Row, -1, 1), colSame}},
		c06Case{rule: "C06.d", table: "esc", key: "M", name: "RI on the first row above the region keeps the row", pre: with(above, c05L(c05Row, 1)), post: []c06Post{rowSame, colSame}},
		c06Case{rule: "C06.d", table: "esc", key: "M", name: "RI below the region moves up one row", pre: with(below, c05L(c05Top_, 1, c05Row, -1, 1)), post: []c06Post{c06Eq("row == row0-1", c05Row, 1, g0Row, -1, 1), colSame}},
	)
	// DECRC puts the cursor where DECSC saved it (the saved position of either screen is seeded with the same in-range ghost)
	cs = append(cs, c06Case{rule: "C06.d", table: "esc", key: "8", name: "DECRC restores the saved position", saved: true, pre: inRegion,
		post: []c06Post{c06Eq("row == saved row", c05Row, 1, "saved.row", -1), c06Eq("col == saved column", c05Col, 1, "saved.col", -1)}})
	// editing functions leave the cursor where it is (IL/DL reset the column)
	for _, k := range []string{"@", "P", "X", "J", "K"} {
		cs = append(cs, c06Case{rule: "C06.d", table: "csi", key: k, name: "CSI " + k + " does not move the cursor", ps: 1, pre: inRegion, post: []c06Post{rowSame, colSame}})
	}
	for _, k := range []string{"L", "M"} {
		cs = append(cs, c06Case{rule: "C06.d", table: "csi", key: k, name: "CSI " + k + " resets the column and keeps the row", ps: 1, pre: inRegion, post: []c06Post{rowSame, col0}})
	}
	return cs
}

// elemKey: the engine's atom for pm[i][0].
func (e *c05Eng) elemKey(base string, i int) string {
	k1 := "a:" + base + "[" + c05Const(int64(i)).key() + "]"
	if _, ok := e.disp[k1]; !ok {
		e.disp[k1] = fmt.Sprintf("%s[%d]", e.show(base), i)
		e.addDep(k1, base)
	}
	k2 := "a:" + k1 + "[" + c05Const(0).key() + "]"
	if _, ok := e.disp[k2]; !ok {
		e.disp[k2] = fmt.Sprintf("%s[%d][0]", e.show(base), i)
		e.addDep(k2, k1)
	}
	return k2
}

// ghost gives key an entry-value alias g (never assigned), mirrored in every bound and fact.
func (e *c05Eng) ghostify(st *c05State, key, g string) {
	e.disp[g] = e.show(key) + "@entry"
	v := e.setBound(st, key)
	gv := v.clone()
	gv.addLo(key, 0)
	gv.addHi(key, 0)
	for k2, o := range st.env {
		if k2 == key {
			continue
		}
		if k, ok := o.lo[key]; ok {
			o.addLo(g, k)
		}
		if k, ok := o.hi[key]; ok {
			o.addHi(g, k)
		}
	}
	v.addLo(g, 0)
	v.addHi(g, 0)
	st.env[g] = gv
	for _, f := range st.facts {
		if c, ok := f.t[key]; ok {
			nf := f.clone()
			delete(nf.t, key)
			nf = nf.addScaled(c05Atom(g), c)
			st.facts = c05AddFact(st.facts, nf)
		}
	}
}

func c06RuleContracts(c *Ctx, e *c05Eng, tabs map[string]*c06Table) {
	c.expect("C06.d", 39)
	c06RunContracts(c, e, tabs, c06Cases())
}

// c06RunContracts proves each contract on the handler its table entry names.
func c06RunContracts(c *Ctx, e *c05Eng, tabs map[string]*c06Table, cases []c06Case) {
	sort.SliceStable(cases, func(i, j int) bool { return cases[i].name < cases[j].name })
	for _, cs := range cases {
		t := tabs[cs.table]
		if t == nil {
			continue
		}
		en := t.entries[cs.key]
		if en == nil || en.callee == nil {
			continue // reported by C06.b
		}
		cf := en.callee
		key := fmt.Sprintf("%s/%s", cf.Name, cs.name)
		infeasible := false
		shape := ""
		prep := func(fr *c05Frame, st *c05State) {
			if cs.minRows > 1 {
				e.setBound(st, "ROWS").addLo("", cs.minRows)
			}
			if cs.minCols > 1 {
				e.setBound(st, "COLS").addLo("", cs.minCols)
			}
			seed := func(k string, v any) {
				switch t := v.(type) {
				case int:
					st.env[k] = c05Exact("", int64(t))
				case c05Lin:
					for a := range t.t {
						st.env[k] = c05Exact(a, t.k)
						if lo, ok := e.valOf(st, a).constLo(); ok {
							st.env[k].addLo("", lo+t.k)
						}
					}
				}
			}
			// parameters
			var params []types.Object
			for _, f := range cf.Decl.Type.Params.List {
				for _, nme := range f.Names {
					params = append(params, fr.info.Defs[nme])
				}
			}
			switch {
			case cs.list != nil:
				if len(params) != 1 || !isSliceType(params[0].Type()) {
					shape = "the handler does not take the raw parameter list"
					return
				}
				pk := fmt.Sprintf("v%p", params[0])
				e.disp[pk] = params[0].Name()
				st.env[e.derived("len:", pk)] = c05Exact("", int64(len(cs.list)))
				for i, v := range cs.list {
					seed(e.elemKey(pk, i), v)
				}
			case cs.ps != nil:
				if len(params) != 1 || !e.isCountType(params[0].Type()) {
					shape = "the handler does not take a single count"
					return
				}
				pk := fmt.Sprintf("v%p", params[0])
				seed(pk, cs.ps)
			default:
				if len(params) != 0 {
					shape = "the handler takes parameters"
					return
				}
			}
			if cs.saved {
				e.disp["saved.row"], e.disp["saved.col"] = "saved row", "saved column"
				sr, sc := c05Top(), c05Top()
				sr.addLo("", 0)
				sr.addHi("ROWS", -1)
				sc.addLo("", 0)
				sc.addHi("COLS", -1)
				st.env["saved.row"], st.env["saved.col"] = sr, sc
				for _, k := range c05Saved {
					g := "saved.col"
					if strings.HasSuffix(k, ".row") {
						g = "saved.row"
					}
					v := st.env[g].clone()
					v.addLo(g, 0)
					v.addHi(g, 0)
					st.env[k] = v
				}
			}
			cur := st
			for _, p := range cs.pre {
				cur = e.assumeLE0(cur, p)
				if cur == nil {
					infeasible = true
					return
				}
			}
			e.ghostify(st, c05Row, g0Row)
			e.ghostify(st, c05Col, g0Col)
			if cs.margins {
				e.ghostify(st, c05Top_, g0Top)
				e.ghostify(st, c05Bot, g0Bot)
			}
		}
		t0 := time.Now()
		_, exit := e.analyse(cf, prep)
		if os.Getenv("C05_DEBUG") != "" {
			fmt.Printf("DEBUG time contract %s %v\n", cs.name, time.Since(t0))
		}
		switch {
		case shape != "":
			c.undecided(cs.rule, key, cf.Decl.Pos(), "%s; the contract cannot be set up", shape)
			continue
		case infeasible:
			c.undecided(cs.rule, key, cf.Decl.Pos(), "the precondition of the contract is unsatisfiable in the engine")
			continue
		case exit == nil || exit.env == nil:
			c.undecided(cs.rule, key, cf.Decl.Pos(), "the handler has no normal exit under the precondition")
			continue
		}
		var miss []string
		for _, p := range cs.post {
			if !(e.prove(exit, p.eq) && e.prove(exit, p.eq.neg())) {
				miss = append(miss, p.what)
			}
		}
		if len(miss) == 0 {
			var all []string
			for _, p := range cs.post {
				all = append(all, p.what)
			}
			c.ok(cs.rule, key, cf.Decl.Pos(), "proved at every exit: %s", strings.Join(all, ", "))
		} else {
			c.bad(cs.rule, key, cf.Decl.Pos(), "not established: %s (cursor.row is %s, cursor.col is %s, margins %s .. %s): the cursor/margins differ from a VT's after this sequence",
				strings.Join(miss, ", "), e.showVal(e.valOf(exit, c05Row)), e.showVal(e.valOf(exit, c05Col)), e.showVal(e.valOf(exit, c05Top_)), e.showVal(e.valOf(exit, c05Bot)))
		}
	}
}

// ---------------------------------------------------------------- structured symbolic execution (C06.f, C06.g)
//
// A small executor over structured statements (if/else, switch, continue/break/return, simple
// loops recognised as one effect, calls into the package inlined) on top of the engine's states.
// It enumerates the feasible outcomes of a statement list together with the grid effects met on
// the way. Anything it does not understand is recorded in und and makes the rule undecided.

type c06Eff struct {
	kind string // "copy" (row <- src), "eraseRow" (whole row between the margins, pen background), "blankG", "blankS", "erase", "copyCell", "blankCell"
	row  c05Lin
	col  c05Lin
	src  c05Lin
	srow c05Lin // copyCell: the source row
	pos  token.Pos
	// copySpan (copy(X[r][a:hi], X[r'][b:shi]), memmove of cells): col = a, src = b, and the two high bounds
	hi, shi c05Lin
}

type c06Out struct {
	kind int // 0 falls through, 1 continue, 2 break, 3 return
	st   *c05State
	effs []c06Eff
	// ret: the (single, integer) result of a return statement, as a linear form in the state st
	ret    c05Lin
	hasRet bool
}

type c06X struct {
	c     *Ctx
	e     *c05Eng
	und   []string
	depth int
	bg    *types.Var // vaxis.Style.Background
	cur   *types.Var // Model.cursor
	// cellErase: single-cell erases are effects of kind "erase" (row, col) instead of being refused
	cellErase bool
	// cellOps: whole-cell stores are effects: "copyCell" (row, col <- srow, src) and "blankCell" (row, col)
	cellOps bool
	// loopHook gets the first look at every loop statement
	loopHook func(fr *c05Frame, s ast.Stmt, st *c05State, effs []c06Eff) ([]c06Out, bool)
}

func (x *c06X) undecided(format string, a ...any) { x.und = append(x.und, fmt.Sprintf(format, a...)) }

func (x *c06X) execList(fr *c05Frame, list []ast.Stmt, st *c05State, effs []c06Eff) []c06Out {
	cur := []c06Out{{kind: 0, st: st, effs: effs}}
	for _, s := range list {
		var next []c06Out
		for _, o := range cur {
			if o.kind != 0 {
				next = append(next, o)
				continue
			}
			next = append(next, x.execStmt(fr, s, o.st, o.effs)...)
		}
		cur = next
		if len(cur) > 64 {
			x.undecided("too many paths")
			return nil
		}
	}
	return cur
}

func c06CopyEffs(e []c06Eff) []c06Eff { return append([]c06Eff{}, e...) }

func (x *c06X) execStmt(fr *c05Frame, s ast.Stmt, st *c05State, effs []c06Eff) []c06Out {
	e := x.e
	one := func(k int, st *c05State, effs []c06Eff) []c06Out {
		if st == nil || st.env == nil {
			return nil
		}
		return []c06Out{{kind: k, st: st, effs: effs}}
	}
	switch t := s.(type) {
	case *ast.EmptyStmt:
		return one(0, st, effs)
	case *ast.BlockStmt:
		return x.execList(fr, t.List, st, effs)
	case *ast.IfStmt:
		if t.Init != nil {
			e.transfer(fr, st, t.Init)
		}
		var outs []c06Out
		if s1 := e.assume(fr, st.clone(), t.Cond, true); s1 != nil {
			outs = append(outs, x.execList(fr, t.Body.List, s1, c06CopyEffs(effs))...)
		}
		if s2 := e.assume(fr, st, t.Cond, false); s2 != nil {
			if t.Else != nil {
				outs = append(outs, x.execStmt(fr, t.Else, s2, c06CopyEffs(effs))...)
			} else {
				outs = append(outs, c06Out{kind: 0, st: s2, effs: effs})
			}
		}
		return outs
	case *ast.SwitchStmt:
		if t.Init != nil {
			e.transfer(fr, st, t.Init)
		}
		var outs []c06Out
		rem := st
		var def *ast.CaseClause
		finish := func(body []ast.Stmt, s1 *c05State) {
			for _, o := range x.execList(fr, body, s1, c06CopyEffs(effs)) {
				if o.kind == 2 {
					o.kind = 0 // break leaves the switch
				}
				outs = append(outs, o)
			}
			for _, b := range body {
				if br, ok := b.(*ast.BranchStmt); ok && br.Tok == token.FALLTHROUGH {
					x.undecided("fallthrough")
				}
			}
		}
		for _, cl := range t.Body.List {
			cc := cl.(*ast.CaseClause)
			if cc.List == nil {
				def = cc
				continue
			}
			for _, cx := range cc.List {
				if rem == nil {
					break
				}
				var s1 *c05State
				if t.Tag != nil {
					s1 = e.assumeCmp(fr, rem.clone(), t.Tag, token.EQL, cx)
					rem = e.assumeCmp(fr, rem, t.Tag, token.NEQ, cx)
				} else {
					s1 = e.assume(fr, rem.clone(), cx, true)
					rem = e.assume(fr, rem, cx, false)
				}
				if s1 != nil {
					finish(cc.Body, s1)
				}
			}
		}
		if rem != nil {
			if def != nil {
				finish(def.Body, rem)
			} else {
				outs = append(outs, c06Out{kind: 0, st: rem, effs: effs})
			}
		}
		return outs
	case *ast.BranchStmt:
		if t.Label != nil {
			x.undecided("labelled %s", t.Tok)
			return nil
		}
		switch t.Tok {
		case token.CONTINUE:
			return one(1, st, effs)
		case token.BREAK:
			return one(2, st, effs)
		}
		x.undecided("%s statement", t.Tok)
		return nil
	case *ast.ReturnStmt:
		outs := one(3, st, effs)
		if len(outs) == 1 && len(t.Results) == 1 && isIntegerExpr(fr.info, t.Results[0]) {
			outs[0].ret, outs[0].hasRet = e.linOf(fr, st, t.Results[0]), true
		}
		return outs
	case *ast.ForStmt, *ast.RangeStmt:
		if x.loopHook != nil {
			if outs, ok := x.loopHook(fr, s, st, effs); ok {
				return outs
			}
		}
		// an inner loop must be "erase row R between the margins"
		if eff, ok := x.eraseRowLoop(fr, s, st); ok {
			return one(0, st, append(effs, eff))
		}
		x.undecided("inner loop at %s is not recognised as erasing one row between the margins", x.c.P.Pos(s.Pos()))
		return nil
	case *ast.ExprStmt:
		call, ok := unparen(t.X).(*ast.CallExpr)
		if !ok {
			return one(0, st, effs)
		}
		if id, ok := call.Fun.(*ast.Ident); ok && id.Name == "copy" && len(call.Args) == 2 {
			if _, isB := fr.info.Uses[id].(*types.Builtin); isB {
				d, okd := unparen(call.Args[0]).(*ast.IndexExpr)
				sx, oks := unparen(call.Args[1]).(*ast.IndexExpr)
				if okd && oks && e.isGrid(fr.info.TypeOf(d.X)) && e.isGrid(fr.info.TypeOf(sx.X)) && e.pathKey(fr, d.X) == e.pathKey(fr, sx.X) && e.pathKey(fr, d.X) == c05Active {
					return one(0, st, append(effs, c06Eff{kind: "copy", row: e.linOf(fr, st, d.Index), src: e.linOf(fr, st, sx.Index), pos: call.Pos()}))
				}
				if x.cellOps {
					if eff, ok := x.copySpanEffect(fr, call, st); ok {
						return one(0, st, append(effs, eff))
					}
				}
				x.undecided("copy at %s is not a row-to-row copy of the active screen", x.c.P.Pos(call.Pos()))
				return nil
			}
		}
		if fn := calleeOf(fr.info, call); fn != nil {
			if cf := x.c.P.FuncOfObj(fn); cf != nil && cf.Pkg == e.pk && cf.Decl.Body != nil {
				if repoName(fn) == "widgets/term.cell.erase" {
					if x.cellErase {
						if sel, ok := unparen(call.Fun).(*ast.SelectorExpr); ok {
							if cix, ok := unparen(sel.X).(*ast.IndexExpr); ok {
								if e.isRow(fr.info.TypeOf(cix.X)) {
									cix = c06RowAlias(e, fr, cix) // line := X[r]; line[c].erase(...)
								}
								if rix, ok := unparen(cix.X).(*ast.IndexExpr); ok && e.pathKey(fr, rix.X) == c05Active {
									return one(0, st, append(effs, c06Eff{kind: "erase", row: e.linOf(fr, st, rix.Index), col: e.linOf(fr, st, cix.Index), pos: call.Pos()}))
								}
							}
						}
						x.undecided("erase at %s is not an erase of a cell of the active screen", x.c.P.Pos(call.Pos()))
						return nil
					}
					x.undecided("single-cell erase outside a row loop at %s", x.c.P.Pos(call.Pos()))
					return nil
				}
				return x.inline(fr, call, cf, st, effs)
			}
		}
		return one(0, st, effs) // calls out of the package (logging) have no grid effect
	case *ast.AssignStmt, *ast.IncDecStmt, *ast.DeclStmt:
		if as, ok := t.(*ast.AssignStmt); ok && len(as.Lhs) == 1 && len(as.Rhs) == 1 {
			if x.cellOps {
				if eff, ok := x.cellOpEffect(fr, as, st); ok {
					return one(0, st, append(effs, eff))
				}
			}
			if eff, ok := x.blankEffect(fr, as, st); ok {
				return one(0, st, append(effs, eff...))
			}
			// stores into the grid other than recognised effects
			if ix := c06GridCell(e, fr, as.Lhs[0]); ix != nil {
				x.undecided("store into the screen at %s is not a recognised effect", x.c.P.Pos(as.Pos()))
				return nil
			}
		}
		// n := f(ps) with a helper that decides between several results: the helper is executed path by path
		// (as the same statements would be if they stood here), not summarised by a join
		if call, cf := x.branchyCall(fr, s); call != nil {
			return x.execViaCall(fr, s, call, cf, st, effs)
		}
		e.transfer(fr, st, s)
		return one(0, st, effs)
	}
	x.undecided("%T at %s", s, x.c.P.Pos(s.Pos()))
	return nil
}

// branchyCall: the only call, in a simple statement, of a package function with a body that returns one integer
// from two or more return statements (a clamp / default helper), called on the terminal or without receiver.
func (x *c06X) branchyCall(fr *c05Frame, s ast.Stmt) (*ast.CallExpr, *FuncInfo) {
	e := x.e
	var found *ast.CallExpr
	var ffi *FuncInfo
	n := 0
	ast.Inspect(s, func(m ast.Node) bool {
		if _, isLit := m.(*ast.FuncLit); isLit {
			return false
		}
		call, ok := m.(*ast.CallExpr)
		if !ok {
			return true
		}
		fn := calleeOf(fr.info, call)
		if fn == nil {
			return true
		}
		cf := x.c.P.FuncOfObj(fn)
		if cf == nil || cf.Pkg != e.pk || cf.Decl.Body == nil {
			return true
		}
		sig := fn.Type().(*types.Signature)
		if sig.Results().Len() != 1 || !isIntType(sig.Results().At(0).Type()) {
			return true
		}
		rets := 0
		inspectNoLit(cf.Decl.Body, func(k ast.Node) bool {
			if _, ok := k.(*ast.ReturnStmt); ok {
				rets++
			}
			return true
		})
		if rets < 2 {
			return true
		}
		n++
		found, ffi = call, cf
		return true
	})
	if n != 1 || x.depth > 4 {
		return nil, nil
	}
	return found, ffi
}

// execViaCall executes the callee of the call inside statement s on every path, then s itself with the call
// standing for the value returned on that path.
func (x *c06X) execViaCall(fr *c05Frame, s ast.Stmt, call *ast.CallExpr, cf *FuncInfo, st *c05State, effs []c06Eff) []c06Out {
	e := x.e
	// arguments are evaluated in the caller before anything else of the statement: they must not depend on
	// other calls of the statement (there is only this one) — bind and run
	outs := x.inlineOuts(fr, call, cf, st, effs)
	var res []c06Out
	for _, o := range outs {
		if o.st == nil || o.st.env == nil {
			continue
		}
		if o.kind != 3 || !o.hasRet {
			x.undecided("%s can end without returning a value at %s", cf.Name, x.c.P.Pos(call.Pos()))
			return nil
		}
		if e.callVal == nil {
			e.callVal = map[*ast.CallExpr]c05Lin{}
		}
		e.callVal[call] = o.ret
		e.transfer(fr, o.st, s)
		delete(e.callVal, call)
		res = append(res, c06Out{kind: 0, st: o.st, effs: o.effs})
	}
	return res
}

// inline executes a package function called on the terminal.
func (x *c06X) inline(fr *c05Frame, call *ast.CallExpr, cf *FuncInfo, st *c05State, effs []c06Eff) []c06Out {
	outs := x.inlineOuts(fr, call, cf, st, effs)
	for i := range outs {
		if outs[i].kind == 3 {
			outs[i].kind = 0
		} else if outs[i].kind != 0 {
			x.undecided("break/continue leaves %s", cf.Name)
		}
	}
	return outs
}

// inlineOuts: the outcomes of the callee's body (return outcomes keep kind 3 and their value).
func (x *c06X) inlineOuts(fr *c05Frame, call *ast.CallExpr, cf *FuncInfo, st *c05State, effs []c06Eff) []c06Out {
	e := x.e
	if x.depth > 4 {
		x.undecided("call depth")
		return nil
	}
	nf := e.newFrame(cf, false)
	if nf.recv == nil {
		if cf.Decl.Recv != nil {
			return []c06Out{{kind: 0, st: st, effs: effs}} // method of another type
		}
	} else if idx, _ := e.modelParam(cf); idx >= 0 {
		if idx >= len(call.Args) || e.pathKey(fr, call.Args[idx]) != "@" {
			x.undecided("helper %s is not called on the terminal", cf.Name)
			return nil
		}
	} else if sel, ok := unparen(call.Fun).(*ast.SelectorExpr); !ok || e.pathKey(fr, sel.X) != "@" {
		x.undecided("method %s is not called on the terminal", cf.Name)
		return nil
	}
	i := 0
	for _, f := range cf.Decl.Type.Params.List {
		for _, nme := range f.Names {
			if i >= len(call.Args) {
				break
			}
			arg := call.Args[i]
			i++
			pobj := nf.info.Defs[nme]
			if pobj == nil || pobj == nf.recv {
				continue
			}
			if isIntType(pobj.Type()) {
				pk := fmt.Sprintf("v%p", pobj)
				e.disp[pk] = nme.Name
				e.assignLin(st, pk, e.linOf(fr, st, arg))
			}
		}
	}
	x.depth++
	outs := x.execList(nf, cf.Decl.Body.List, st, effs)
	x.depth--
	return outs
}

// c06GridCell: the X[r][c] part of an lvalue rooted in a screen, or nil.
// Local aliases are seen through: a pointer bound once to a cell (p := &X[r][c]; p.Style = ...) and a row bound
// once (line := X[r]; line[c].Style = ...), provided nothing their index expressions read is assigned in the
// block that declares the alias. For a row alias the result is a synthesised X[r][c] whose parts are the
// original (typed) expressions.
func c06GridCell(e *c05Eng, fr *c05Frame, lhs ast.Expr) *ast.IndexExpr {
	for cur := unparen(lhs); ; {
		switch t := cur.(type) {
		case *ast.SelectorExpr:
			cur = unparen(t.X)
			continue
		case *ast.StarExpr:
			cur = unparen(t.X)
			continue
		case *ast.Ident:
			// p := &X[r][c]
			if e.cellT == nil || fr.fi == nil || cur == unparen(lhs) {
				return nil // (the pointer variable itself is not a cell)
			}
			pt, ok := fr.info.TypeOf(t).Underlying().(*types.Pointer)
			if !ok || !types.Identical(pt.Elem(), e.cellT) {
				return nil
			}
			def := c06AliasDef(fr, t)
			if def == nil {
				return nil
			}
			u, ok := unparen(def).(*ast.UnaryExpr)
			if !ok || u.Op != token.AND {
				return nil
			}
			if ix, ok := unparen(u.X).(*ast.IndexExpr); ok && e.isRow(fr.info.TypeOf(ix.X)) {
				return c06RowAlias(e, fr, ix)
			}
			return nil
		case *ast.IndexExpr:
			if e.isRow(fr.info.TypeOf(t.X)) {
				return c06RowAlias(e, fr, t)
			}
			return nil
		}
		return nil
	}
}

// c06RowAlias: line[c] with `line := X[r]` bound once becomes X[r][c].
func c06RowAlias(e *c05Eng, fr *c05Frame, t *ast.IndexExpr) *ast.IndexExpr {
	id, ok := unparen(t.X).(*ast.Ident)
	if !ok || fr.fi == nil {
		return t
	}
	def := c06AliasDef(fr, id)
	if def == nil {
		return t
	}
	if rix, ok := unparen(def).(*ast.IndexExpr); ok && e.isGrid(fr.info.TypeOf(rix.X)) {
		return &ast.IndexExpr{X: rix, Lbrack: t.Lbrack, Index: t.Index, Rbrack: t.Rbrack}
	}
	// a window of a row bound once (tail := X[r][a:] / tail := line[a:b]): tail[c] is X[r][a+c]
	// (that c stays inside the window is C05.g's business)
	if sx, ok := unparen(def).(*ast.SliceExpr); ok && sx.Max == nil && e.isRow(fr.info.TypeOf(sx.X)) {
		idx := t.Index
		if sx.Low != nil {
			idx = &ast.BinaryExpr{X: sx.Low, OpPos: t.Lbrack, Op: token.ADD, Y: t.Index}
		}
		inner := &ast.IndexExpr{X: sx.X, Lbrack: t.Lbrack, Index: idx, Rbrack: t.Rbrack}
		if rix, ok := unparen(sx.X).(*ast.IndexExpr); ok && e.isGrid(fr.info.TypeOf(rix.X)) {
			return inner
		}
		if _, ok := unparen(sx.X).(*ast.Ident); ok {
			if r := c06RowAlias(e, fr, inner); r != inner {
				return r
			}
		}
	}
	return t
}

// c06AliasDef: the right-hand side of the only definition of the local id (`id := rhs` / `var id = rhs`), when the
// variable is never assigned again, its address is not taken, and no variable the right-hand side reads is
// assigned inside the block that contains the definition (so the alias denotes the same place at every use in
// its scope). nil otherwise.
func c06AliasDef(fr *c05Frame, id *ast.Ident) ast.Expr {
	info := fr.info
	obj, ok := info.ObjectOf(id).(*types.Var)
	if !ok || obj.IsField() || fr.fi == nil || fr.fi.Decl.Body == nil {
		return nil
	}
	body := fr.fi.Decl.Body
	if obj.Pos() < body.Pos() || obj.Pos() > body.End() {
		return nil
	}
	var rhs ast.Expr
	var defStmt ast.Node
	defs := 0
	var stack []ast.Node
	var defBlock *ast.BlockStmt
	ast.Inspect(body, func(n ast.Node) bool {
		if n == nil {
			stack = stack[:len(stack)-1]
			return true
		}
		stack = append(stack, n)
		switch t := n.(type) {
		case *ast.AssignStmt:
			for i, l := range t.Lhs {
				lid, isId := unparen(l).(*ast.Ident)
				if !isId || info.ObjectOf(lid) != obj {
					continue
				}
				defs++
				if t.Tok == token.DEFINE && len(t.Lhs) == len(t.Rhs) {
					rhs, defStmt = t.Rhs[i], t
					for j := len(stack) - 1; j >= 0; j-- {
						if b, ok := stack[j].(*ast.BlockStmt); ok {
							defBlock = b
							break
						}
						if cc, ok := stack[j].(*ast.CaseClause); ok {
							defBlock = &ast.BlockStmt{List: cc.Body}
							break
						}
					}
				} else {
					defs++
				}
			}
		case *ast.ValueSpec:
			for i, nm := range t.Names {
				if info.Defs[nm] == obj {
					defs++
					if len(t.Values) == len(t.Names) {
						rhs, defStmt = t.Values[i], t
						for j := len(stack) - 1; j >= 0; j-- {
							if b, ok := stack[j].(*ast.BlockStmt); ok {
								defBlock = b
								break
							}
						}
					} else {
						defs++
					}
				}
			}
		case *ast.IncDecStmt:
			if lid, ok := unparen(t.X).(*ast.Ident); ok && info.ObjectOf(lid) == obj {
				defs += 2
			}
		case *ast.UnaryExpr:
			if lid, ok := unparen(t.X).(*ast.Ident); ok && t.Op == token.AND && info.ObjectOf(lid) == obj {
				defs += 2
			}
		case *ast.RangeStmt:
			for _, kx := range []ast.Expr{t.Key, t.Value} {
				if lid, ok := kx.(*ast.Ident); ok && info.ObjectOf(lid) == obj {
					defs += 2
				}
			}
		}
		return true
	})
	if defs != 1 || rhs == nil || defBlock == nil || defStmt == nil {
		return nil
	}
	// nothing the right-hand side reads changes while the alias is in scope
	assigned := c06AssignedIn(info, defBlock)
	for o := range objsIn(info, rhs) {
		if assigned[o] && c06PathConflict(info, defBlock, rhs, o) {
			return nil
		}
	}
	// calls in the right-hand side (other than conversions/len) would make it more than a place
	pure := true
	ast.Inspect(rhs, func(n ast.Node) bool {
		if call, ok := n.(*ast.CallExpr); ok {
			if tv, ok := info.Types[call.Fun]; !ok || !tv.IsType() {
				pure = false
			}
		}
		return pure
	})
	if !pure {
		return nil
	}
	return rhs
}

// c06FieldPath: for a pure field path o.f.g (parentheses and dereferences ignored) the path ".f.g" ("" for o itself).
func c06FieldPath(info *types.Info, x ast.Expr, o types.Object) (string, bool) {
	switch t := unparen(x).(type) {
	case *ast.Ident:
		return "", info.ObjectOf(t) == o
	case *ast.StarExpr:
		return c06FieldPath(info, t.X, o)
	case *ast.SelectorExpr:
		if sel, ok := info.Selections[t]; ok && sel.Kind() == types.FieldVal {
			if b, ok := c06FieldPath(info, t.X, o); ok {
				return b + "." + t.Sel.Name, true
			}
		}
	}
	return "", false
}

// c06PathConflict: the block assigns a field path of o that the expression rhs reads (or a prefix / an extension of
// one): `vt.lastCol = false` does not disturb an alias of vt.activeScreen[vt.cursor.row], `vt.cursor.row++` does.
// Stores the object-level test (c06AssignedIn) counts but that are no pure field paths are conflicts.
func c06PathConflict(info *types.Info, block ast.Node, rhs ast.Expr, o types.Object) bool {
	var reads []string
	var walk func(n ast.Node)
	walk = func(n ast.Node) {
		ast.Inspect(n, func(m ast.Node) bool {
			x, ok := m.(ast.Expr)
			if !ok {
				return true
			}
			if p, ok := c06FieldPath(info, x, o); ok {
				reads = append(reads, p)
				return false
			}
			return true
		})
	}
	walk(rhs)
	conflict := false
	overlaps := func(p string) bool {
		for _, q := range reads {
			if p == q || strings.HasPrefix(q, p+".") || strings.HasPrefix(p, q+".") || p == "" || q == "" {
				return true
			}
		}
		return false
	}
	store := func(l ast.Expr) {
		if rootObj(info, l) != o {
			return
		}
		hasIdx := false
		ast.Inspect(l, func(k ast.Node) bool {
			if _, ok := k.(*ast.IndexExpr); ok {
				hasIdx = true
			}
			return true
		})
		if hasIdx {
			return // as in c06AssignedIn: a store through an index changes no variable
		}
		p, ok := c06FieldPath(info, l, o)
		if !ok || overlaps(p) {
			conflict = true
		}
	}
	ast.Inspect(block, func(m ast.Node) bool {
		switch t := m.(type) {
		case *ast.AssignStmt:
			for _, l := range t.Lhs {
				store(l)
			}
		case *ast.IncDecStmt:
			store(t.X)
		}
		return !conflict
	})
	return conflict
}

// blankEffect recognises  X[r][c].Character.Grapheme = " "  (blankG),  X[r][c].Style = <pen style>  (blankS)
// and the whole-cell store of a blank in the pen's style (both).
func (x *c06X) blankEffect(fr *c05Frame, as *ast.AssignStmt, st *c05State) ([]c06Eff, bool) {
	e := x.e
	if as.Tok != token.ASSIGN {
		return nil, false
	}
	ix := c06GridCell(e, fr, as.Lhs[0])
	if ix == nil {
		return nil, false
	}
	rowIx, ok := unparen(ix.X).(*ast.IndexExpr)
	if !ok || e.pathKey(fr, rowIx.X) != c05Active {
		return nil, false
	}
	mk := func(kind string) c06Eff {
		return c06Eff{kind: kind, row: e.linOf(fr, st, rowIx.Index), col: e.linOf(fr, st, ix.Index), pos: as.Pos()}
	}
	isPenStyle := func(v ast.Expr) bool {
		sel, ok := unparen(v).(*ast.SelectorExpr)
		if !ok {
			return false
		}
		s, ok := fr.info.Selections[sel]
		if !ok || s.Obj().Name() != "Style" || typeName(s.Obj().Type()) != modPath+".Style" || rootObj(fr.info, sel) != fr.recv {
			return false
		}
		for cur := ast.Expr(sel); ; {
			se, ok := unparen(cur).(*ast.SelectorExpr)
			if !ok {
				return false
			}
			if s2, ok := fr.info.Selections[se]; ok && s2.Obj() == x.cur {
				return true
			}
			cur = se.X
		}
	}
	isBlank := func(v ast.Expr) bool { sv, ok := constString(fr.info, v); return ok && sv == " " }
	if sel, ok := unparen(as.Lhs[0]).(*ast.SelectorExpr); ok {
		s, ok := fr.info.Selections[sel]
		if !ok {
			return nil, false
		}
		switch {
		case s.Obj().Name() == "Grapheme" && s.Obj().Pkg() != nil && s.Obj().Pkg().Path() == modPath && isBlank(as.Rhs[0]):
			return []c06Eff{mk("blankG")}, true
		case s.Obj().Name() == "Style" && typeName(s.Obj().Type()) == modPath+".Style" && isPenStyle(as.Rhs[0]):
			return []c06Eff{mk("blankS")}, true
		}
		return nil, false
	}
	// whole cell: composite literal with Grapheme " " and Style <pen>
	if cl, ok := unparen(as.Rhs[0]).(*ast.CompositeLit); ok && unparen(as.Lhs[0]) == ast.Expr(ix) {
		g, sfound := false, false
		ast.Inspect(cl, func(n ast.Node) bool {
			if kv, ok := n.(*ast.KeyValueExpr); ok {
				if id, ok := kv.Key.(*ast.Ident); ok {
					if id.Name == "Grapheme" && isBlank(kv.Value) {
						g = true
					}
					if id.Name == "Style" && isPenStyle(kv.Value) {
						sfound = true
					}
				}
			}
			return true
		})
		if g && sfound {
			return []c06Eff{mk("blankG"), mk("blankS")}, true
		}
	}
	return nil, false
}

// c06Loop describes a counting loop: variable, direction, and the states around it.
type c06Loop struct {
	key  string // engine key of the loop variable
	obj  types.Object
	asc  bool
	body *ast.BlockStmt
	cond ast.Expr // nil for range loops
	rng  *ast.RangeStmt
	init ast.Stmt
}

// loopShape recognises  for v := I; cond; v += 1|v++|v -= 1|v--  and  for v := range X|n.
func (x *c06X) loopShape(fr *c05Frame, s ast.Stmt) *c06Loop {
	e := x.e
	switch t := s.(type) {
	case *ast.RangeStmt:
		id, ok := t.Key.(*ast.Ident)
		if !ok || t.Value != nil && !isBlankIdent(t.Value) || t.Tok != token.DEFINE {
			return nil
		}
		return &c06Loop{key: e.pathKey(fr, id), obj: fr.info.ObjectOf(id), asc: true, body: t.Body, rng: t}
	case *ast.ForStmt:
		as, ok := t.Init.(*ast.AssignStmt)
		if !ok || len(as.Lhs) != 1 || as.Tok != token.DEFINE || t.Cond == nil || t.Post == nil {
			return nil
		}
		id, ok := as.Lhs[0].(*ast.Ident)
		if !ok {
			return nil
		}
		obj := fr.info.ObjectOf(id)
		dir := 0
		switch p := t.Post.(type) {
		case *ast.IncDecStmt:
			if pid, ok := unparen(p.X).(*ast.Ident); ok && fr.info.ObjectOf(pid) == obj {
				dir = 1
				if p.Tok == token.DEC {
					dir = -1
				}
			}
		case *ast.AssignStmt:
			if len(p.Lhs) == 1 && len(p.Rhs) == 1 {
				if pid, ok := unparen(p.Lhs[0]).(*ast.Ident); ok && fr.info.ObjectOf(pid) == obj {
					if v, ok := constInt(fr.info, p.Rhs[0]); ok && v == 1 {
						switch p.Tok {
						case token.ADD_ASSIGN:
							dir = 1
						case token.SUB_ASSIGN:
							dir = -1
						}
					}
				}
			}
		}
		if dir == 0 {
			return nil
		}
		return &c06Loop{key: e.pathKey(fr, id), obj: obj, asc: dir > 0, body: t.Body, cond: t.Cond, init: t.Init}
	}
	return nil
}

func isBlankIdent(x ast.Expr) bool { id, ok := x.(*ast.Ident); return ok && id.Name == "_" }

// assignedIn: objects assigned in n, except those declared inside n.
func c06AssignedIn(info *types.Info, n ast.Node) map[types.Object]bool {
	out := map[types.Object]bool{}
	declared := map[types.Object]bool{}
	ast.Inspect(n, func(m ast.Node) bool {
		switch t := m.(type) {
		case *ast.AssignStmt:
			for _, l := range t.Lhs {
				if id, ok := unparen(l).(*ast.Ident); ok {
					if t.Tok == token.DEFINE && info.Defs[id] != nil {
						declared[info.Defs[id]] = true
					} else if o := info.ObjectOf(id); o != nil {
						out[o] = true
					}
				} else if o := rootObj(info, l); o != nil {
					if _, isIdx := unparen(l).(*ast.IndexExpr); !isIdx {
						if sel, ok := unparen(l).(*ast.SelectorExpr); ok {
							if c := sel; c != nil {
								// field store through an index (cell fields) does not change a variable
								hasIdx := false
								ast.Inspect(sel, func(k ast.Node) bool {
									if _, ok := k.(*ast.IndexExpr); ok {
										hasIdx = true
									}
									return true
								})
								if !hasIdx {
									out[o] = true
								}
							}
						}
					}
				}
			}
		case *ast.IncDecStmt:
			if o := rootObj(info, t.X); o != nil {
				out[o] = true
			}
		case *ast.ValueSpec:
			for _, nme := range t.Names {
				declared[info.Defs[nme]] = true
			}
		case *ast.RangeStmt:
			for _, kx := range []ast.Expr{t.Key, t.Value} {
				if id, ok := kx.(*ast.Ident); ok && info.Defs[id] != nil {
					declared[info.Defs[id]] = true
				}
			}
		}
		return true
	})
	for o := range declared {
		delete(out, o)
	}
	return out
}

// generic: after the init, the loop variable is any value on its side of the initial one.
func (x *c06X) generic(st *c05State, lp *c06Loop) {
	e := x.e
	v := e.valOf(st, lp.key)
	e.kill(st, lp.key)
	nv := c05Top()
	if lp.asc {
		for s, k := range v.lo {
			if s != lp.key {
				nv.lo[s] = k
			}
		}
	} else {
		for s, k := range v.hi {
			if s != lp.key {
				nv.hi[s] = k
			}
		}
	}
	st.env[lp.key] = nv
}

// enter prepares the state of an arbitrary iteration of lp (body entry), or nil.
func (x *c06X) enter(fr *c05Frame, lp *c06Loop, st *c05State) *c05State {
	e := x.e
	st = st.clone()
	if lp.rng != nil {
		e.bindRange(fr, st, lp.rng)
		return st
	}
	// the loop variable stays on its side of the initial value: besides the bounds relative to single symbols that
	// generic() keeps, the relation to a compound initial value (i := len(line) - n) is kept as a fact, when nothing
	// that value reads is assigned in the body
	var initFact *c05Lin
	if as, ok := lp.init.(*ast.AssignStmt); ok && len(as.Rhs) == 1 && lp.body != nil {
		stable := true
		assigned := c06AssignedIn(fr.info, lp.body)
		for o := range objsIn(fr.info, as.Rhs[0]) {
			if assigned[o] || o == lp.obj {
				stable = false
			}
		}
		ast.Inspect(as.Rhs[0], func(n ast.Node) bool {
			if call, ok := n.(*ast.CallExpr); ok {
				if tv, ok := fr.info.Types[call.Fun]; !ok || !tv.IsType() {
					if !c05IsBuiltin(fr.info, call, "len") {
						stable = false
					}
				}
			}
			return stable
		})
		if stable {
			tmp := st.clone()
			l := e.canon(tmp, e.linOf(fr, tmp, as.Rhs[0]))
			usable := len(l.t) >= 2 && !l.mentions(lp.key)
			for a := range l.t {
				if c05IsTmp(a) {
					usable = false
				}
			}
			if usable {
				f := l.addScaled(c05Atom(lp.key), -1) // init - v <= 0 (ascending)
				if !lp.asc {
					f = f.neg()
				}
				initFact = &f
			}
		}
	}
	e.transfer(fr, st, lp.init)
	x.generic(st, lp)
	if initFact != nil {
		st.facts = c05AddFact(st.facts, *initFact)
	}
	return e.assume(fr, st, lp.cond, true)
}

// eraseRowLoop: for c := left; c <= right; c++ { X[R][c].erase(<pen bg>) }  (any equivalent header).
func (x *c06X) eraseRowLoop(fr *c05Frame, s ast.Stmt, st *c05State) (c06Eff, bool) {
	e := x.e
	lp := x.loopShape(fr, s)
	if lp == nil || !lp.asc || lp.rng != nil || len(lp.body.List) != 1 {
		return c06Eff{}, false
	}
	es, ok := lp.body.List[0].(*ast.ExprStmt)
	if !ok {
		return c06Eff{}, false
	}
	call, ok := es.X.(*ast.CallExpr)
	if !ok || len(call.Args) != 1 {
		return c06Eff{}, false
	}
	fn := calleeOf(fr.info, call)
	if fn == nil || repoName(fn) != "widgets/term.cell.erase" || !c06IsPenBackground(x.c, e, fr.fi, call.Args[0], x.bg, x.cur, 0) {
		return c06Eff{}, false
	}
	sel, _ := call.Fun.(*ast.SelectorExpr)
	if sel == nil {
		return c06Eff{}, false
	}
	cix, ok := unparen(sel.X).(*ast.IndexExpr)
	if !ok {
		return c06Eff{}, false
	}
	rix, ok := unparen(cix.X).(*ast.IndexExpr)
	if !ok || e.pathKey(fr, rix.X) != c05Active {
		return c06Eff{}, false
	}
	if id, ok := unparen(cix.Index).(*ast.Ident); !ok || fr.info.ObjectOf(id) != lp.obj {
		return c06Eff{}, false
	}
	// header: starts at the left margin, runs exactly while c <= right margin
	s0 := st.clone()
	e.transfer(fr, s0, lp.init)
	first := c05Atom(lp.key).addScaled(c05Atom(c05Left), -1)
	if !(e.prove(s0, first) && e.prove(s0, first.neg())) {
		return c06Eff{}, false
	}
	x.generic(s0, lp)
	in := e.assume(fr, s0.clone(), lp.cond, true)
	out := e.assume(fr, s0, lp.cond, false)
	le := c05Atom(lp.key).addScaled(c05Atom(c05Right), -1) // c - right <= 0
	gt := le.neg()
	gt.k += 1 // right + 1 - c <= 0
	if in != nil && !e.prove(in, le) {
		return c06Eff{}, false
	}
	if out != nil && !e.prove(out, gt) {
		return c06Eff{}, false
	}
	return c06Eff{kind: "eraseRow", row: e.linOf(fr, st, rix.Index), pos: s.Pos()}, true
}

// resolve rewrites locals that are defined by an equality (c == col+i) in terms of their definition,
// so that an effect's column is expressed through the loop variable keep.
func (x *c06X) resolve(st *c05State, l c05Lin, keep string) c05Lin {
	for round := 0; round < 3; round++ {
		if l.t[keep] != 0 {
			return l
		}
		changed := false
		for a, c := range l.t {
			if a == keep || c05IsGeo(a) || !strings.HasPrefix(a, "v") || strings.Contains(a, ".") {
				continue
			}
			// equality facts  a - R == 0
			for _, f := range st.facts {
				if f.t[a] != 1 || f.t[keep] == 0 {
					continue
				}
				neg := false
				for _, g := range st.facts {
					if g.key() == f.neg().key() {
						neg = true
					}
				}
				if !neg {
					continue
				}
				rest := c05Atom(a).addScaled(f, -1) // a - f == R
				l = l.addScaled(c05Atom(a), -c).addScaled(rest, c)
				changed = true
				break
			}
			if changed {
				break
			}
			// exact alias bound  a == keep + k
			if v, ok := st.env[a]; ok {
				if lo, ok1 := v.lo[keep]; ok1 {
					if hi, ok2 := v.hi[keep]; ok2 && lo == hi {
						l = l.addScaled(c05Atom(a), -c).addScaled(c05Atom(keep), c)
						l.k += c * lo
						changed = true
						break
					}
				}
			}
		}
		if !changed {
			break
		}
	}
	return l
}

func (x *c06X) eq(st *c05State, l c05Lin) bool { return x.e.prove(st, l) && x.e.prove(st, l.neg()) }

// ---------------------------------------------------------------- C06.f scroll contracts

func c06Fields(c *Ctx, e *c05Eng) (bg, cur *types.Var) {
	if root := c.P.Pkg("vaxis"); root != nil {
		if tn, ok := root.Types.Scope().Lookup("Style").(*types.TypeName); ok {
			if st, ok := tn.Type().Underlying().(*types.Struct); ok {
				for i := 0; i < st.NumFields(); i++ {
					if st.Field(i).Name() == "Background" {
						bg = st.Field(i)
					}
				}
			}
		}
	}
	if mst, ok := e.model.Underlying().(*types.Struct); ok {
		for i := 0; i < mst.NumFields(); i++ {
			if mst.Field(i).Name() == "cursor" {
				cur = mst.Field(i)
			}
		}
	}
	return
}

func c06RuleScroll(c *Ctx, e *c05Eng, tabs map[string]*c06Table) {
	c.expect("C06.f", 4)
	t := tabs["csi"]
	if t == nil {
		return
	}
	bg, cur := c06Fields(c, e)
	for _, spec := range []struct {
		key  string
		name string
		up   bool
	}{{"S", "SU", true}, {"T", "SD", false}} {
		en := t.entries[spec.key]
		if en == nil || en.callee == nil {
			continue // C06.b reports the missing entry
		}
		cf := en.callee
		for _, big := range []bool{false, true} {
			what := "fewer lines than the region holds"
			if big {
				what = "at least as many lines as the region holds"
			}
			key := fmt.Sprintf("%s/%s by %s: every row of the region receives the row n lines away or is erased", cf.Name, spec.name, what)
			x := &c06X{c: c, e: e, bg: bg, cur: cur}
			bad := c06ScrollCase(x, cf, spec.up, big)
			switch {
			case len(x.und) > 0:
				c.undecided("C06.f", key, cf.Decl.Pos(), "the scroll function is not understood: %s", strings.Join(x.und, "; "))
			case len(bad) > 0:
				c.bad("C06.f", key, cf.Decl.Pos(), "%s: after the operation the region does not hold what a VT's holds", strings.Join(bad, "; "))
			default:
				c.ok("C06.f", key, cf.Decl.Pos(), "every row r of the region: copy of row r%sn when that row is inside the region, otherwise erased between the margins with the pen background; rows outside untouched", map[bool]string{true: "+", false: "-"}[spec.up])
			}
		}
	}
}

// c06ScrollCase checks one scroll function under n0 <= bottom-top (big=false) or n0 >= bottom-top+1 (big=true).
func c06ScrollCase(x *c06X, cf *FuncInfo, up, big bool) (bad []string) {
	e := x.e
	fr := e.newFrame(cf, true)
	var params []types.Object
	for _, f := range cf.Decl.Type.Params.List {
		for _, nme := range f.Names {
			params = append(params, fr.info.Defs[nme])
		}
	}
	if len(params) != 1 || !e.isCountType(params[0].Type()) || fr.recv == nil {
		x.undecided("expected a method with a single line count")
		return
	}
	st := e.entryState(fr)
	nk := fmt.Sprintf("v%p", params[0])
	const n0 = "n@0"
	e.disp[n0] = params[0].Name() + "@entry"
	st.env[n0] = c05Top()
	st.env[n0].addLo("", 0)
	st.env[nk] = c05Exact(n0, 0)
	st.env[nk].addLo("", 0)
	st.env[n0].addLo(nk, 0)
	st.env[n0].addHi(nk, 0)
	pre := c05L(n0, 1, c05Bot, -1, c05Top_, 1) // n0 - (bottom-top) <= 0
	if big {
		pre = pre.neg()
		pre.k += 1 // bottom-top+1 - n0 <= 0
	}
	if st = e.assumeLE0(st, pre); st == nil {
		x.undecided("precondition unsatisfiable")
		return
	}
	// prelude and the loop
	list := cf.Decl.Body.List
	li := -1
	for i, s := range list {
		switch s.(type) {
		case *ast.ForStmt, *ast.RangeStmt:
			li = i
		}
	}
	if li < 0 {
		x.undecided("no loop over the rows")
		return
	}
	for _, s := range list[li+1:] {
		if _, ok := s.(*ast.ReturnStmt); !ok {
			x.undecided("statements after the row loop")
			return
		}
	}
	lp := x.loopShape(fr, list[li])
	if lp == nil {
		x.undecided("row loop header not recognised")
		return
	}
	if lp.asc != up {
		bad = append(bad, fmt.Sprintf("rows are visited %s, so a row is overwritten before it has been copied", map[bool]string{true: "top-down", false: "bottom-up"}[lp.asc]))
	}
	// nothing the contract speaks about may change inside the loop
	assigned := c06AssignedIn(fr.info, lp.body)
	if assigned[params[0]] || assigned[fr.recv] || assigned[lp.obj] {
		x.undecided("the loop body assigns the count, the terminal's fields or the row variable")
		return
	}
	dir := int64(1)
	if !up {
		dir = -1
	}
	for _, po := range x.execList(fr, list[:li], st, nil) {
		if len(po.effs) > 0 {
			x.undecided("grid effects before the row loop")
			return
		}
		if po.kind == 3 {
			// returning early is right only when there is nothing to do
			if !e.prove(po.st, c05Atom(n0)) {
				bad = append(bad, "returns before scrolling although the count may be positive")
			}
			continue
		}
		s0 := po.st
		// enumeration: the loop visits every row of the region
		if lp.rng != nil {
			ll := e.lenLin(fr, s0, lp.rng.X)
			need := c05Atom(c05Bot).addScaled(ll, -1)
			need.k += 1
			if !e.prove(s0, need) {
				bad = append(bad, "the ranged slice may be shorter than the region")
			}
		} else {
			si := s0.clone()
			e.transfer(fr, si, lp.init)
			start := c05Atom(lp.key).addScaled(c05Atom(c05Top_), -1) // v - top <= 0
			if !up {
				start = c05Atom(c05Bot).addScaled(c05Atom(lp.key), -1) // bottom - v <= 0
			}
			if !e.prove(si, start) {
				bad = append(bad, "the loop does not start at the first row of the region")
			}
			x.generic(si, lp)
			if so := e.assume(fr, si, lp.cond, false); so != nil {
				stop := c05Atom(c05Bot).addScaled(c05Atom(lp.key), -1)
				stop.k += 1 // bottom+1 - v <= 0
				if !up {
					stop = c05Atom(lp.key).addScaled(c05Atom(c05Top_), -1)
					stop.k += 1 // v - top + 1 <= 0
				}
				if !e.prove(so, stop) {
					bad = append(bad, "the loop can stop before the last row of the region")
				}
			}
		}
		body := x.enter(fr, lp, s0)
		if body == nil {
			continue
		}
		R := c05Atom(lp.key)
		inTop := c05Atom(c05Top_).addScaled(R, -1) // top - R <= 0
		inBot := R.addScaled(c05Atom(c05Bot), -1)  // R - bottom <= 0
		regions := []struct {
			name string
			pre  []c05Lin
			in   bool
		}{
			{"inside the region", []c05Lin{inTop, inBot}, true},
			{"above the region", []c05Lin{func() c05Lin { l := inTop.neg(); l.k += 1; return l }()}, false},
			{"below the region", []c05Lin{func() c05Lin { l := inBot.neg(); l.k += 1; return l }()}, false},
		}
		for _, rg := range regions {
			sb := body.clone()
			for _, p := range rg.pre {
				if sb != nil {
					sb = e.assumeLE0(sb, p)
				}
			}
			if sb == nil {
				continue
			}
			for _, o := range x.execList(fr, lp.body.List, sb, nil) {
				if !rg.in {
					if len(o.effs) > 0 {
						bad = append(bad, "a row "+rg.name+" is modified")
					}
					continue
				}
				if o.kind == 2 || o.kind == 3 {
					bad = append(bad, "the loop is left while rows of the region remain")
					continue
				}
				if len(o.effs) != 1 {
					bad = append(bad, fmt.Sprintf("a row of the region receives %d effects on some path (exactly one copy or erase expected)", len(o.effs)))
					continue
				}
				ef := o.effs[0]
				if !x.eq(o.st, ef.row.addScaled(R, -1)) {
					bad = append(bad, "the row written is not the row visited")
					continue
				}
				// inside: R + dir*n0 within [top,bottom]  <=>  copy
				far := R.clone()
				far = far.addScaled(c05Atom(n0), dir) // the source row index
				var inside, outside c05Lin
				if up {
					inside = far.addScaled(c05Atom(c05Bot), -1) // R+n0 - bottom <= 0
					outside = inside.neg()
					outside.k += 1
				} else {
					inside = c05Atom(c05Top_).addScaled(far, -1) // top - (R-n0) <= 0
					outside = inside.neg()
					outside.k += 1
				}
				switch ef.kind {
				case "copy":
					if !x.eq(o.st, ef.src.addScaled(far, -1)) {
						bad = append(bad, fmt.Sprintf("row r receives row %s, not the row n lines %s (n as passed)", e.showLin(ef.src), map[bool]string{true: "below", false: "above"}[up]))
					} else if !e.prove(o.st, inside) {
						bad = append(bad, "a row is copied from outside the region (it should be erased): with a count of at least the region's height some old line survives")
					}
				case "eraseRow":
					if !e.prove(o.st, outside) {
						bad = append(bad, "a row is erased although the row n lines away is inside the region")
					}
				default:
					bad = append(bad, "unexpected effect "+ef.kind)
				}
			}
		}
	}
	// dedupe
	seen := map[string]bool{}
	var out []string
	for _, b := range bad {
		if !seen[b] {
			seen[b] = true
			out = append(out, b)
		}
	}
	return out
}

// ---------------------------------------------------------------- C06.g print blanks the columns a wide glyph covers

// c06HasBlank: does n (or a package function it calls, one level) store a blank/style into a screen cell?
func c06HasBlank(c *Ctx, e *c05Eng, fi *FuncInfo, n ast.Node, depth int) bool {
	info := fi.Pkg.TypesInfo
	fr := &c05Frame{fi: fi, pkg: fi.Pkg, info: info}
	fr.recv = e.recvOf(fi)
	fr.recvAt = fr.recv != nil
	found := false
	ast.Inspect(n, func(m ast.Node) bool {
		switch t := m.(type) {
		case *ast.AssignStmt:
			for _, l := range t.Lhs {
				if ix := c06GridCell(e, fr, l); ix != nil {
					if sel, ok := unparen(l).(*ast.SelectorExpr); ok && (sel.Sel.Name == "Grapheme" || sel.Sel.Name == "Style") {
						found = true
					} else if _, isLit := unparen(t.Rhs[0]).(*ast.CompositeLit); isLit && len(t.Rhs) == 1 {
						found = true
					}
				}
			}
		case *ast.CallExpr:
			if depth < 2 {
				if fn := calleeOf(info, t); fn != nil {
					if cf := c.P.FuncOfObj(fn); cf != nil && cf.Pkg == e.pk && cf.Decl.Body != nil && cf != fi && e.recvOf(cf) != nil {
						if c06HasBlank(c, e, cf, cf.Decl.Body, depth+1) {
							found = true
						}
					}
				}
			}
		}
		return !found
	})
	return found
}

func c06RulePrint(c *Ctx, e *c05Eng) {
	c.expect("C06.g", 2)
	// the print function: the method of Model that takes an ansi.Print
	var fi *FuncInfo
	var seqObj types.Object
	for _, f := range c.P.FuncsIn("widgets/term") {
		if f.Decl.Body == nil || e.recvOf(f) == nil || f.Decl.Recv == nil {
			continue
		}
		for _, fl := range f.Decl.Type.Params.List {
			for _, nme := range fl.Names {
				if o := f.Pkg.TypesInfo.Defs[nme]; o != nil && typeName(o.Type()) == modPath+"/ansi.Print" {
					if fi != nil && fi != f {
						c.undecided("C06.g", "widgets/term/print function", f.Decl.Pos(), "more than one method takes an ansi.Print")
						return
					}
					fi, seqObj = f, o
				}
			}
		}
	}
	if fi == nil {
		c.undecided("C06.g", "widgets/term/print function", 0, "no method of Model takes an ansi.Print")
		return
	}
	info := fi.Pkg.TypesInfo
	base := fi.Name + "/wide glyph"
	tfr := e.newFrame(fi, true)
	// the glyph store: the top-level statement X[rw][col] = <cell value>
	storeIdx := -1
	var store *ast.AssignStmt
	for i, st := range fi.Decl.Body.List {
		as, ok := st.(*ast.AssignStmt)
		if !ok || len(as.Lhs) != 1 || len(as.Rhs) != 1 || as.Tok != token.ASSIGN {
			continue
		}
		ix, ok := unparen(as.Lhs[0]).(*ast.IndexExpr)
		if !ok || !e.isRow(info.TypeOf(ix.X)) {
			continue
		}
		if rix, ok := unparen(ix.X).(*ast.IndexExpr); !ok || e.pathKey(tfr, rix.X) != c05Active {
			continue
		}
		if _, isCopy := unparen(as.Rhs[0]).(*ast.IndexExpr); isCopy {
			continue
		}
		if store != nil {
			c.undecided("C06.g", base+": the glyph cell is stored", as.Pos(), "more than one whole-cell store into the active screen at the top level of %s", fi.Name)
			return
		}
		store, storeIdx = as, i
	}
	if store == nil {
		c.undecided("C06.g", base+": the glyph cell is stored", fi.Decl.Pos(), "no top-level statement of %s stores a cell into the active screen", fi.Name)
		return
	}
	cix := unparen(store.Lhs[0]).(*ast.IndexExpr)
	rix := unparen(cix.X).(*ast.IndexExpr)
	// the stored cell carries the sequence's grapheme and width, and the pen's style
	var lit *ast.CompositeLit
	switch r := unparen(store.Rhs[0]).(type) {
	case *ast.CompositeLit:
		lit = r
	case *ast.Ident:
		obj := info.ObjectOf(r)
		n := 0
		ast.Inspect(fi.Decl.Body, func(m ast.Node) bool {
			if as, ok := m.(*ast.AssignStmt); ok {
				for i, l := range as.Lhs {
					if id, ok := l.(*ast.Ident); ok && info.ObjectOf(id) == obj && i < len(as.Rhs) {
						n++
						lit, _ = unparen(as.Rhs[i]).(*ast.CompositeLit)
					}
				}
			}
			return true
		})
		if n != 1 {
			lit = nil
		}
	}
	var widthExpr ast.Expr
	okG, okS := false, false
	if lit != nil {
		ast.Inspect(lit, func(m ast.Node) bool {
			if kv, ok := m.(*ast.KeyValueExpr); ok {
				if id, ok := kv.Key.(*ast.Ident); ok {
					switch id.Name {
					case "Width":
						widthExpr = kv.Value
					case "Grapheme":
						if sel, ok := unparen(kv.Value).(*ast.SelectorExpr); ok && rootObj(info, sel) == seqObj && sel.Sel.Name == "Grapheme" {
							okG = true
						}
					case "Style":
						if sel, ok := unparen(kv.Value).(*ast.SelectorExpr); ok && rootObj(info, sel) == tfr.recv && sel.Sel.Name == "Style" {
							okS = true
						}
					}
				}
			}
			return true
		})
	}
	if lit == nil || widthExpr == nil {
		c.undecided("C06.g", base+": the glyph cell is stored", store.Pos(), "the stored cell is not a composite literal with a Width (directly or through a local with a single definition)")
		return
	}
	c.check(okG && okS, "C06.g", base+": the glyph cell is stored", store.Pos(), "the cell at the cursor takes the sequence's grapheme and width and the pen's style",
		"the cell stored at the cursor does not take the sequence's grapheme and the pen's style")
	// nothing the contract mentions may be assigned between the store and the end of the function
	assigned := c06AssignedIn(info, &ast.BlockStmt{List: fi.Decl.Body.List[storeIdx+1:]})
	for _, ex := range []ast.Expr{cix.Index, rix.Index, widthExpr} {
		for o := range objsIn(info, ex) {
			if assigned[o] {
				// assignments inside the blanking section to these would invalidate the symbols
				c.undecided("C06.g", base+": trailing columns", store.Pos(), "%s is reassigned after the glyph store", o.Name())
				return
			}
		}
	}
	// section: the statements after the store up to the last one that blanks cells
	last := -1
	for i := storeIdx + 1; i < len(fi.Decl.Body.List); i++ {
		if c06HasBlank(c, e, fi, fi.Decl.Body.List[i], 0) {
			last = i
		}
	}
	key := base + ": the columns it covers are blanked in the pen's style"
	if last < 0 {
		c.bad("C06.g", key, store.Pos(), "after storing a glyph of width w, %s blanks none of the columns col+1 .. col+w-1 it covers: old text and background stay in the second half of a wide glyph and show when it is exposed", fi.Name)
		return
	}
	section := fi.Decl.Body.List[storeIdx+1 : last+1]
	// engine state at the store
	var at *c05State
	var afr *c05Frame
	e.hooks = []c05Hook{func(e *c05Eng, fr *c05Frame, n ast.Node, st *c05State) {
		if n == ast.Node(store) && st != nil && st.env != nil {
			at = st.clone()
			afr = fr
		}
	}}
	e.analyse(fi, nil)
	e.hooks = nil
	if at == nil {
		c.undecided("C06.g", key, store.Pos(), "the glyph store is not reachable in the engine")
		return
	}
	e.transfer(afr, at, store)
	bg, cur := c06Fields(c, e)
	type cse struct {
		name string
		mode int // 0: narrow, 1: fits, 2: cut by the margin
	}
	for _, cs := range []cse{{"narrow glyph (w <= 1): nothing else is touched", 0}, {"wide glyph inside the margin: columns col+1 .. col+w-1", 1}, {"wide glyph cut by the right margin: columns col+1 .. margin", 2}} {
		x := &c06X{c: c, e: e, bg: bg, cur: cur}
		st := at.clone()
		B := e.linOf(afr, st, cix.Index)
		RW := e.linOf(afr, st, rix.Index)
		W := e.linOf(afr, st, widthExpr)
		lastCol := B.addScaled(W, 1)
		lastCol.k -= 1 // B+W-1
		switch cs.mode {
		case 0:
			l := W.clone()
			l.k -= 1
			st = e.assumeLE0(st, l)
		case 1:
			l := W.neg()
			l.k += 2
			st = e.assumeLE0(st, l)
			if st != nil {
				st = e.assumeLE0(st, lastCol.addScaled(c05Atom(c05Right), -1))
			}
		case 2:
			l := W.neg()
			l.k += 2
			st = e.assumeLE0(st, l)
			if st != nil {
				g := c05Atom(c05Right).addScaled(lastCol, -1)
				g.k += 1 // right+1 - (B+W-1) <= 0
				st = e.assumeLE0(st, g)
			}
		}
		ckey := key + ": " + cs.name
		if st == nil {
			c.okTrivial("C06.g", ckey, store.Pos(), "case cannot occur at the glyph store")
			continue
		}
		var bad []string
		loops := 0
		x.loopHook = func(fr *c05Frame, s ast.Stmt, s0 *c05State, effs []c06Eff) ([]c06Out, bool) {
			if !c06HasBlank(c, e, fr.fi, s, 2) {
				return nil, false
			}
			loops++
			bad = append(bad, c06BlankLoop(x, fr, s, s0, B, RW, lastCol, cs.mode)...)
			// continue after the loop with the loop variable forgotten
			out := s0.clone()
			if lp := x.loopShape(fr, s); lp != nil {
				e.kill(out, lp.key)
			}
			return []c06Out{{kind: 0, st: out, effs: effs}}, true
		}
		outs := x.execList(afr, section, st, nil)
		for _, o := range outs {
			if len(o.effs) > 0 {
				x.undecided("cells are blanked outside a loop")
			}
		}
		if loops == 0 && len(x.und) == 0 {
			x.undecided("no loop blanks the covered columns")
		}
		switch {
		case len(x.und) > 0:
			c.undecided("C06.g", ckey, store.Pos(), "the blanking of the covered columns is not understood: %s", strings.Join(x.und, "; "))
		case len(bad) > 0:
			c.bad("C06.g", ckey, store.Pos(), "%s: a stale cell stays under (or a foreign cell is blanked next to) the wide glyph", strings.Join(bad, "; "))
		default:
			c.ok("C06.g", ckey, store.Pos(), "starts at col+1, advances by one, writes blank and pen style on the glyph's row, and stops exactly after min(col+w-1, right margin)")
		}
	}
}

// c06BlankLoop checks one blanking loop against the coverage [B+1, min(lastCol, right)] on row RW.
func c06BlankLoop(x *c06X, fr *c05Frame, s ast.Stmt, s0 *c05State, B, RW, lastCol c05Lin, mode int) (bad []string) {
	e := x.e
	lp := x.loopShape(fr, s)
	if lp == nil || !lp.asc {
		x.undecided("blanking loop header at %s not recognised (ascending counting loop expected)", x.c.P.Pos(s.Pos()))
		return
	}
	if as := c06AssignedIn(fr.info, lp.body); len(as) > 0 {
		for o := range as {
			x.undecided("the blanking loop assigns %s", o.Name())
		}
		return
	}
	hook := x.loopHook
	x.loopHook = nil
	defer func() { x.loopHook = hook }()
	v := c05Atom(lp.key)
	right := c05Atom(c05Right)
	// required end of the coverage in this case
	end := lastCol
	if mode == 2 {
		end = right
	}
	pastEnd := func(st *c05State, ev c05Lin) bool { // ev >= end+1
		l := end.addScaled(ev, -1)
		l.k += 1
		return e.prove(st, l)
	}
	checkEffs := func(o c06Out, first bool) (c05Lin, bool) {
		var col c05Lin
		g, sty := false, false
		for i, ef := range o.effs {
			ef.col = x.resolve(o.st, ef.col, lp.key)
			if ef.kind != "blankG" && ef.kind != "blankS" {
				bad = append(bad, "unexpected effect "+ef.kind+" in the blanking loop")
				return col, false
			}
			if i == 0 {
				col = ef.col
			} else if !x.eq(o.st, ef.col.addScaled(col, -1)) {
				bad = append(bad, "grapheme and style are written to different columns")
				return col, false
			}
			if !x.eq(o.st, ef.row.addScaled(RW, -1)) {
				bad = append(bad, "a cell of another row is blanked")
				return col, false
			}
			if ef.kind == "blankG" {
				g = true
			} else {
				sty = true
			}
		}
		if !g || !sty {
			bad = append(bad, "a covered column does not get both the blank and the pen's style")
			return col, false
		}
		return col, true
	}
	// first iteration
	var first *c05State
	if lp.rng != nil {
		first = s0.clone()
		e.bindRange(fr, first, lp.rng)
		first = e.assumeLE0(first, v) // v <= 0 : the first value
	} else {
		first = s0.clone()
		e.transfer(fr, first, lp.init)
		first = e.assume(fr, first, lp.cond, true)
	}
	emptyOK := func(st *c05State) bool { // nothing to cover: B+1 > end
		l := end.addScaled(B, -1) // end - B <= 0
		return e.prove(st, l)
	}
	var off *c05Lin // column written minus loop variable
	if first == nil {
		if mode != 0 {
			s1 := s0.clone()
			if lp.init != nil {
				e.transfer(fr, s1, lp.init)
			}
			if !emptyOK(s1) {
				bad = append(bad, "the loop body is never entered although columns are covered")
			}
		}
	} else {
		for _, o := range x.execList(fr, lp.body.List, first, nil) {
			if mode == 0 {
				if len(o.effs) > 0 {
					bad = append(bad, "a column is blanked for a glyph of width <= 1")
				}
				continue
			}
			if len(o.effs) == 0 {
				if o.kind == 2 || o.kind == 3 {
					if !emptyOK(o.st) {
						bad = append(bad, "the loop is left at its first step although col+1 is covered")
					}
				} else {
					bad = append(bad, "the first covered column (col+1) is skipped")
				}
				continue
			}
			col, ok := checkEffs(o, true)
			if !ok {
				continue
			}
			b1 := B.clone()
			b1.k += 1
			if !x.eq(o.st, col.addScaled(b1, -1)) {
				bad = append(bad, fmt.Sprintf("the first column blanked is %s, not col+1", e.showLin(col)))
			}
		}
	}
	if mode == 0 {
		return
	}
	// an arbitrary iteration
	var gen *c05State
	if lp.rng != nil {
		gen = s0.clone()
		e.bindRange(fr, gen, lp.rng)
	} else {
		gen = s0.clone()
		e.transfer(fr, gen, lp.init)
		x.generic(gen, lp)
	}
	var in, out *c05State
	if lp.rng != nil {
		in = gen
	} else {
		in = e.assume(fr, gen.clone(), lp.cond, true)
		out = e.assume(fr, gen, lp.cond, false)
	}
	if in != nil {
		outs := x.execList(fr, lp.body.List, in, nil)
		var exits []c06Out
		for _, o := range outs {
			if len(o.effs) == 0 {
				if o.kind == 2 || o.kind == 3 {
					exits = append(exits, o)
				} else if o.kind == 0 || o.kind == 1 {
					bad = append(bad, "a step of the loop writes nothing: a covered column can be skipped")
				}
				continue
			}
			col, ok := checkEffs(o, false)
			if !ok {
				continue
			}
			if col.t[lp.key] != 1 {
				bad = append(bad, "the column written does not advance by one per step")
				continue
			}
			d := col.addScaled(v, -1)
			if off != nil && !x.eq(o.st, d.addScaled(*off, -1)) {
				bad = append(bad, "the column written is not the same function of the loop variable in every step")
			}
			if off == nil {
				off = &d
			}
			// inside the coverage
			if !e.prove(o.st, col.addScaled(end, -1)) {
				bad = append(bad, fmt.Sprintf("column %s can lie beyond the last covered column", e.showLin(col)))
			}
			lo := B.addScaled(col, -1)
			lo.k += 1 // B+1 - col <= 0
			if !e.prove(o.st, lo) {
				bad = append(bad, fmt.Sprintf("column %s can lie before col+1", e.showLin(col)))
			}
		}
		for _, o := range exits {
			if off != nil && !pastEnd(o.st, v.addScaled(*off, 1)) {
				bad = append(bad, "the loop can be left before the last covered column")
			}
		}
	}
	if lp.rng != nil {
		// the range ends after its last value: v == len-1 there; treat the exit as v+1 >= bound
		ex := s0.clone()
		n := e.linOf(fr, ex, lp.rng.X)
		if !isIntegerExpr(fr.info, lp.rng.X) {
			n = e.lenLin(fr, ex, lp.rng.X)
		}
		if off != nil {
			// first column not written: n + off
			if !pastEnd(ex, n.addScaled(*off, 1)) {
				bad = append(bad, "the loop ends before the last covered column")
			}
		}
	} else if out != nil && off != nil {
		if !pastEnd(out, v.addScaled(*off, 1)) {
			bad = append(bad, "the loop ends before the last covered column (the right margin is the last column, inclusive)")
		}
	}
	if off == nil && len(bad) == 0 {
		bad = append(bad, "no step of the loop blanks a cell")
	}
	seen := map[string]bool{}
	var outb []string
	for _, b := range bad {
		if !seen[b] {
			seen[b] = true
			outb = append(outb, b)
		}
	}
	return outb
}
