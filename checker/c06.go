package main

// C06 — the embedded terminal shows what a VT/xterm would show (core vocabulary).
//
// Decided (all with the B-screen engine of c05.go or by table extraction):
//   a  omitted/zero parameters mean the default: in every default-1 handler each use of the
//      count sees a value >= 1; for the raw parameter lists of CUP and DECSTBM the handler,
//      run on zero parameters, reaches exactly the state it reaches on the default values
//   b  the dispatch tables (csi, esc, c0, decset, decrst) have an entry for every function of
//      the property's vocabulary
//   c  every erase takes the cursor's current background
//   d  cursor/margin contracts: each motion/positioning function of the vocabulary, run from a
//      symbolic state satisfying a stated precondition, ends exactly where a VT puts the cursor
//      (one step, stop at the margin, clamp at the screen edge, parameter order of CUP/DECSTBM,
//      column reset of NEL/CR/IL/DL, cursor unchanged by erase/insert/delete)
// Not decided: the contents of the grid after an operation.

import (
	"fmt"
	"go/ast"
	"go/constant"
	"go/token"
	"go/types"
	"os"
	"runtime/debug"
	"sort"
	"strings"
	"time"
)

func init() { register("C06", false, runC06) }

func runC06(c *Ctx) {
	c.Clauses = []string{
		"C06.a zero or omitted parameters mean the default (uses of a default-1 count are >= 1; CUP/DECSTBM on zeros equal CUP/DECSTBM on the defaults)",
		"C06.b a handler exists for every control function of the vocabulary",
		"C06.c every erased cell takes the cursor's current background",
		"C06.d cursor and margin contracts of the motion/positioning functions (symbolic pre/post conditions proved on the code)",
	}
	c.NotDec = []string{"grid contents (graphemes, widths, styles) after each operation; SGR-to-pen mapping (C18); behaviour in the deferred-wrap column other than printing, CR and absolute positioning (exempt by the statement)"}
	c.Assume = append(c.Assume, "terminal sizes are at least 1x1; contract preconditions state larger minimum sizes where needed", "sequence parameters are non-negative (C05.d)")
	defer debug.SetGCPercent(debug.SetGCPercent(1000)) // the engine allocates many small maps next to a large, static program
	e := c05Engine(c)
	if e.pk == nil || e.model == nil || e.cellT == nil {
		c.undecided("C06.b", "widgets/term", 0, "package widgets/term, type Model or type cell not found")
		return
	}
	tabs := map[string]*c06Table{}
	for _, n := range []string{"csi", "esc", "c0", "decset", "decrst"} {
		tabs[n] = c06Dispatch(c, e, "widgets/term.(*Model)."+n)
	}
	t0 := time.Now()
	lap := func(what string) {
		if os.Getenv("C05_DEBUG") != "" {
			fmt.Printf("DEBUG phase %s %v\n", what, time.Since(t0))
		}
		t0 = time.Now()
	}
	c06RuleTables(c, e, tabs)
	lap("tables")
	c06RuleDefaults(c, e, tabs)
	lap("defaults")
	c06RuleErase(c, e)
	lap("erase")
	c06RuleContracts(c, e, tabs)
	lap("contracts")
	c05Debug(c)
}

// ---------------------------------------------------------------- dispatch tables

type c06Entry struct {
	key    string
	clause *ast.CaseClause
	callee *FuncInfo     // first call into the package in the clause body
	call   *ast.CallExpr // that call
}

type c06Table struct {
	fi      *FuncInfo
	entries map[string]*c06Entry
}

// c06Dispatch extracts the first switch with constant cases from the function: case constant -> clause.
func c06Dispatch(c *Ctx, e *c05Eng, name string) *c06Table {
	fi := c.P.Func(name)
	if fi == nil || fi.Decl.Body == nil {
		return nil
	}
	info := fi.Pkg.TypesInfo
	t := &c06Table{fi: fi, entries: map[string]*c06Entry{}}
	var sw *ast.SwitchStmt
	ast.Inspect(fi.Decl.Body, func(n ast.Node) bool {
		if s, ok := n.(*ast.SwitchStmt); ok && sw == nil && s.Tag != nil {
			sw = s
			return false
		}
		return sw == nil
	})
	if sw == nil {
		return t
	}
	for _, cl := range sw.Body.List {
		cc := cl.(*ast.CaseClause)
		for _, x := range cc.List {
			tv, ok := info.Types[x]
			if !ok || tv.Value == nil {
				continue
			}
			key := tv.Value.ExactString()
			if tv.Value.Kind() == constant.String {
				key = constant.StringVal(tv.Value)
			}
			en := &c06Entry{key: key, clause: cc}
			for _, st := range cc.Body {
				ast.Inspect(st, func(n ast.Node) bool {
					if call, ok := n.(*ast.CallExpr); ok && en.callee == nil {
						if fn := calleeOf(info, call); fn != nil {
							if cf := c.P.FuncOfObj(fn); cf != nil && cf.Pkg == e.pk && e.recvOf(cf) != nil {
								en.callee, en.call = cf, call
							}
						}
					}
					return en.callee == nil
				})
			}
			t.entries[key] = en
		}
	}
	return t
}

func c06RuleTables(c *Ctx, e *c05Eng, tabs map[string]*c06Table) {
	c.expect("C06.b", 30)
	want := map[string][]string{
		"csi":    {"@", "A", "B", "C", "D", "E", "F", "G", "H", "J", "K", "L", "M", "P", "S", "T", "X", "`", "a", "d", "e", "f", "m", "r"},
		"esc":    {"7", "8", "D", "E", "M"},
		"c0":     {"10", "13"},
		"decset": {"1049"},
		"decrst": {"1049"},
	}
	names := map[string]string{"@": "ICH", "A": "CUU", "B": "CUD", "C": "CUF", "D": "CUB", "E": "CNL", "F": "CPL", "G": "CHA", "H": "CUP", "J": "ED", "K": "EL", "L": "IL", "M": "DL", "P": "DCH",
		"S": "SU", "T": "SD", "X": "ECH", "`": "HPA", "a": "HPR", "d": "VPA", "e": "VPR", "f": "HVP", "m": "SGR", "r": "DECSTBM"}
	for _, tn := range []string{"csi", "esc", "c0", "decset", "decrst"} {
		t := tabs[tn]
		if t == nil {
			c.undecided("C06.b", "widgets/term.(*Model)."+tn, 0, "dispatch function %s not found", tn)
			continue
		}
		if len(t.entries) == 0 {
			c.undecided("C06.b", t.fi.Name+"/dispatch switch", t.fi.Decl.Pos(), "no switch over constant cases found in %s", tn)
			continue
		}
		for _, k := range want[tn] {
			label := k
			if tn == "csi" {
				label = k + " (" + names[k] + ")"
			}
			key := fmt.Sprintf("%s/case %s is handled", t.fi.Name, label)
			en := t.entries[k]
			switch {
			case en == nil:
				c.bad("C06.b", key, t.fi.Decl.Pos(), "the %s table has no case for %q: the control function is silently ignored", tn, k)
			case len(en.clause.Body) == 0:
				c.bad("C06.b", key, en.clause.Pos(), "the case for %q is empty: the control function is silently ignored", k)
			default:
				c.ok("C06.b", key, en.clause.Pos(), "case present with a body")
			}
		}
	}
}

// ---------------------------------------------------------------- C06.a (uses of a default-1 count)

var c06DefaultOne = []string{"@", "A", "B", "C", "D", "E", "F", "G", "L", "M", "P", "S", "T", "X", "`", "a", "d", "e"}
var c06DefaultOneInfo = []string{"I", "Z", "b"} // CHT, CBT, REP: outside the C06 vocabulary, information only

func c06RuleDefaults(c *Ctx, e *c05Eng, tabs map[string]*c06Table) {
	c.expect("C06.a", 25)
	t := tabs["csi"]
	if t == nil {
		return
	}
	info := t.fi.Pkg.TypesInfo
	// state of csi() at each call site
	argLo := map[*ast.CallExpr]bool{}
	e.hooks = []c05Hook{func(e *c05Eng, fr *c05Frame, n ast.Node, st *c05State) {
		if st == nil || st.env == nil {
			return
		}
		inspectNoLit(n, func(m ast.Node) bool {
			if call, ok := m.(*ast.CallExpr); ok && len(call.Args) == 1 && isIntegerExpr(info, call.Args[0]) {
				s2 := st.clone()
				l := e.linOf(fr, s2, call.Args[0])
				one := l.neg()
				one.k += 1 // 1 - arg <= 0
				argLo[call] = e.prove(s2, one)
			}
			return true
		})
	}}
	e.summariseAll = true
	e.analyse(t.fi, nil)
	e.summariseAll = false
	e.hooks = nil
	check := func(k string, asInfo bool) {
		en := t.entries[k]
		if en == nil || en.callee == nil || en.call == nil {
			return // missing entries are reported by C06.b
		}
		sig := en.callee.Obj.Type().(*types.Signature)
		if sig.Params().Len() != 1 || !e.isCountType(sig.Params().At(0).Type()) {
			if !asInfo {
				c.undecided("C06.a", fmt.Sprintf("%s/CSI %s", t.fi.Name, k), en.call.Pos(), "the handler of CSI %s does not take a single count parameter; the recogniser does not know where its default is applied", k)
			}
			return
		}
		key := fmt.Sprintf("%s/CSI %s: zero means 1", en.callee.Name, k)
		if argLo[en.call] {
			c.ok("C06.a", key, en.call.Pos(), "the value passed by the dispatcher is already >= 1")
			return
		}
		// uses of the parameter inside the handler
		cf := en.callee
		cinfo := cf.Pkg.TypesInfo
		parents := c.P.Parents(cf.Pkg)
		var pobj types.Object
		for _, f := range cf.Decl.Type.Params.List {
			for _, nme := range f.Names {
				pobj = cinfo.Defs[nme]
			}
		}
		var badUse []string
		var badPos token.Pos
		nUses := 0
		pkey := fmt.Sprintf("v%p", pobj)
		shKey := pkey + "#param"
		e.disp[shKey] = pobj.Name() + " (as passed, after default normalisation)"
		e.shadow = map[string]string{pkey: shKey}
		recomputed := false
		ast.Inspect(cf.Decl.Body, func(m ast.Node) bool {
			if as, ok := m.(*ast.AssignStmt); ok {
				for i, l := range as.Lhs {
					if id, ok := unparen(l).(*ast.Ident); ok && cinfo.ObjectOf(id) == pobj {
						if as.Tok != token.ASSIGN || i >= len(as.Rhs) {
							recomputed = true
						} else if _, isConst := constInt(cinfo, as.Rhs[i]); !isConst {
							recomputed = true
						}
					}
				}
			}
			return true
		})
		e.hooks = []c05Hook{func(e *c05Eng, fr *c05Frame, n ast.Node, st *c05State) {
			if st == nil || st.env == nil {
				return
			}
			inspectNoLit(n, func(m ast.Node) bool {
				id, ok := m.(*ast.Ident)
				if !ok || cinfo.Uses[id] != pobj {
					return true
				}
				// classify
				var par ast.Node = parents[id]
				for {
					if p, ok := par.(*ast.ParenExpr); ok {
						par = parents[p]
						continue
					}
					break
				}
				switch p := par.(type) {
				case *ast.BinaryExpr:
					switch p.Op {
					case token.EQL, token.NEQ, token.LSS, token.LEQ, token.GTR, token.GEQ:
						other := p.Y
						if unparen(p.Y) == ast.Expr(id) {
							other = p.X
						}
						if _, isConst := constInt(cinfo, other); isConst {
							return true // a test of the parameter, not a use
						}
					}
				case *ast.AssignStmt:
					for _, l := range p.Lhs {
						if unparen(l) == ast.Expr(id) {
							return true
						}
					}
				}
				nUses++
				s2 := st.clone()
				one := c05Atom(shKey).neg()
				one.k += 1
				if !e.prove(s2, one) {
					badUse = append(badUse, fmt.Sprintf("%s (%s)", c.P.Pos(id.Pos()), e.showVal(e.evalLin(s2, c05Atom(shKey)))))
					if badPos == 0 {
						badPos = id.Pos()
					}
				}
				return true
			})
		}}
		e.analyse(cf, func(fr *c05Frame, st *c05State) {
			v := e.setBound(st, pkey)
			sv := v.clone()
			sv.addLo(pkey, 0)
			sv.addHi(pkey, 0)
			v.addLo(shKey, 0)
			v.addHi(shKey, 0)
			st.env[shKey] = sv
		})
		e.hooks = nil
		e.shadow = nil
		switch {
		case asInfo:
			if len(badUse) > 0 {
				c.info("CSI %s (%s): the count is used without the zero-means-one normalisation at %s (outside the C06 vocabulary; not an obligation)", k, cf.Name, strings.Join(badUse, ", "))
			}
		case nUses == 0:
			c.undecided("C06.a", key, cf.Decl.Pos(), "the handler never uses its count parameter")
		case len(badUse) > 0 && recomputed:
			c.undecided("C06.a", key, badPos, "the count variable is recomputed from something other than a constant and a use may see 0 (%s): the recogniser cannot tell the default normalisation from a derived quantity", strings.Join(badUse, ", "))
		case len(badUse) > 0:
			c.bad("C06.a", key, badPos, "the count reaches a use with the value 0 still possible (%s): CSI 0 %s and CSI %s differ from CSI 1 %s", strings.Join(badUse, ", "), k, k, k)
		default:
			c.ok("C06.a", key, cf.Decl.Pos(), "all %d uses of the count see a value >= 1", nUses)
		}
	}
	for _, k := range c06DefaultOne {
		check(k, false)
	}
	for _, k := range c06DefaultOneInfo {
		check(k, true)
	}
}

// ---------------------------------------------------------------- C06.c erase background

func c06RuleErase(c *Ctx, e *c05Eng) {
	c.expect("C06.c", 4)
	var bgField *types.Var
	if root := c.P.Pkg("vaxis"); root != nil {
		if tn, ok := root.Types.Scope().Lookup("Style").(*types.TypeName); ok {
			if st, ok := tn.Type().Underlying().(*types.Struct); ok {
				for i := 0; i < st.NumFields(); i++ {
					if st.Field(i).Name() == "Background" {
						bgField = st.Field(i)
					}
				}
			}
		}
	}
	mst, _ := e.model.Underlying().(*types.Struct)
	var cursorField *types.Var
	for i := 0; mst != nil && i < mst.NumFields(); i++ {
		if mst.Field(i).Name() == "cursor" {
			cursorField = mst.Field(i)
		}
	}
	if bgField == nil || cursorField == nil {
		c.undecided("C06.c", "vaxis.Style.Background / Model.cursor", 0, "fields not found")
		return
	}
	for _, fi := range c.P.FuncsIn("widgets/term") {
		if fi.Decl.Body == nil {
			continue
		}
		info := fi.Pkg.TypesInfo
		ast.Inspect(fi.Decl.Body, func(n ast.Node) bool {
			call, ok := n.(*ast.CallExpr)
			if !ok {
				return true
			}
			fn := calleeOf(info, call)
			if fn == nil || repoName(fn) != "widgets/term.cell.erase" || len(call.Args) != 1 {
				return true
			}
			sel0, _ := call.Fun.(*ast.SelectorExpr)
			target := "?"
			if sel0 != nil {
				target = types.ExprString(sel0.X)
			}
			key := fmt.Sprintf("%s/erase of %s takes the current background", fi.Name, target)
			okArg := c06IsPenBackground(c, e, fi, call.Args[0], bgField, cursorField, 0)
			if okArg {
				c.ok("C06.c", key, call.Pos(), "argument is the pen's background")
			} else {
				c.bad("C06.c", key, call.Pos(), "the erased cell takes %s instead of the cursor's current background: erased areas show the wrong colour", types.ExprString(call.Args[0]))
			}
			return true
		})
	}
}

// c06IsPenBackground: x denotes <terminal>.cursor...Background — directly, through a local with a
// single definition, or through a parameter that every call site fills with the pen's background.
func c06IsPenBackground(c *Ctx, e *c05Eng, fi *FuncInfo, x ast.Expr, bgField, cursorField *types.Var, depth int) bool {
	if depth > 3 {
		return false
	}
	info := fi.Pkg.TypesInfo
	recv := e.recvOf(fi)
	x = unparen(x)
	if sel, ok := x.(*ast.SelectorExpr); ok {
		s, ok := info.Selections[sel]
		if !ok || s.Obj() != bgField || recv == nil || rootObj(info, sel) != recv {
			return false
		}
		for cur := ast.Expr(sel); ; {
			se, ok := unparen(cur).(*ast.SelectorExpr)
			if !ok {
				return false
			}
			if s2, ok := info.Selections[se]; ok && s2.Obj() == cursorField {
				return true
			}
			cur = se.X
		}
	}
	id, ok := x.(*ast.Ident)
	if !ok {
		return false
	}
	obj, _ := info.ObjectOf(id).(*types.Var)
	if obj == nil {
		return false
	}
	// parameter: every call site passes the pen's background
	pi := 0
	for _, f := range fi.Decl.Type.Params.List {
		for _, nme := range f.Names {
			if info.Defs[nme] == types.Object(obj) {
				if !c05CtxEligible(c, e, fi) {
					return false
				}
				idx := pi
				all := true
				for _, caller := range c.P.FuncsIn("widgets/term") {
					if caller.Decl.Body == nil {
						continue
					}
					ast.Inspect(caller.Decl.Body, func(n ast.Node) bool {
						if call, ok := n.(*ast.CallExpr); ok && calleeOf(caller.Pkg.TypesInfo, call) == fi.Obj {
							if idx >= len(call.Args) || !c06IsPenBackground(c, e, caller, call.Args[idx], bgField, cursorField, depth+1) {
								all = false
							}
						}
						return true
					})
				}
				return all
			}
			pi++
		}
	}
	// local: exactly one definition, never reassigned, never address-taken; the pen's background
	// must not change between the definition and the use: no store to the cursor's style in this function
	var defs []ast.Expr
	other := false
	ast.Inspect(fi.Decl.Body, func(n ast.Node) bool {
		switch t := n.(type) {
		case *ast.AssignStmt:
			for i, l := range t.Lhs {
				if lid, ok := unparen(l).(*ast.Ident); ok && info.ObjectOf(lid) == types.Object(obj) {
					if len(t.Lhs) == len(t.Rhs) && (t.Tok == token.DEFINE || t.Tok == token.ASSIGN) {
						defs = append(defs, t.Rhs[i])
					} else {
						other = true
					}
				}
				if sel, ok := unparen(l).(*ast.SelectorExpr); ok {
					if s, ok := info.Selections[sel]; ok && s.Obj() == bgField {
						other = true
					}
				}
			}
		case *ast.ValueSpec:
			for i, nme := range t.Names {
				if info.Defs[nme] == types.Object(obj) {
					if i < len(t.Values) {
						defs = append(defs, t.Values[i])
					} else {
						other = true
					}
				}
			}
		case *ast.IncDecStmt:
			if lid, ok := unparen(t.X).(*ast.Ident); ok && info.ObjectOf(lid) == types.Object(obj) {
				other = true
			}
		case *ast.UnaryExpr:
			if lid, ok := unparen(t.X).(*ast.Ident); ok && t.Op == token.AND && info.ObjectOf(lid) == types.Object(obj) {
				other = true
			}
		}
		return true
	})
	return !other && len(defs) == 1 && c06IsPenBackground(c, e, fi, defs[0], bgField, cursorField, depth+1)
}

// ---------------------------------------------------------------- C06.d contracts

type c06Post struct {
	what string
	eq   c05Lin // must be exactly 0
}

type c06Case struct {
	rule    string
	table   string
	key     string
	name    string // stable contract name
	ps      any    // nil | int | c05Lin  : the count parameter
	list    []any  // raw parameter list (each int | c05Lin); nil = not a list handler
	minRows int64
	minCols int64
	saved   bool     // seed both saved cursors with the ghosts saved.row / saved.col (inside the screen)
	pre     []c05Lin // each <= 0, over the INV keys (before the call)
	post    []c06Post
	fails   string
}

const (
	g0Row = c05Row + "@0"
	g0Col = c05Col + "@0"
)

func c06Eq(what string, pairs ...any) c06Post { return c06Post{what: what, eq: c05L(pairs...)} }

func c06Cases() []c06Case {
	rowSame := c06Eq("row unchanged", c05Row, 1, g0Row, -1)
	colSame := c06Eq("column unchanged", c05Col, 1, g0Col, -1)
	col0 := c06Eq("column == 0", c05Col, 1)
	inRegion := []c05Lin{c05L(c05Top_, 1, c05Row, -1), c05L(c05Row, 1, c05Bot, -1), c05L(c05Col, 1, "COLS", -1, 1)}
	with := func(base []c05Lin, more ...c05Lin) []c05Lin { return append(append([]c05Lin{}, base...), more...) }
	geoPlus := func(sym string, k int) c05Lin { return c05L(sym, 1, k) }
	cs := []c06Case{
		// relative moves
		{rule: "C06.d", table: "csi", key: "A", name: "CUU 2 moves up two rows", ps: 2, pre: with(inRegion, c05L(c05Top_, 1, c05Row, -1, 2)), post: []c06Post{c06Eq("row == row0-2", c05Row, 1, g0Row, -1, 2), colSame}},
		{rule: "C06.d", table: "csi", key: "A", name: "CUU stops at the top margin", ps: 1, pre: with(inRegion, c05L(c05Row, 1, c05Top_, -1)), post: []c06Post{rowSame, colSame}},
		{rule: "C06.a", table: "csi", key: "A", name: "CUU 0 moves up one row", ps: 0, pre: with(inRegion, c05L(c05Top_, 1, c05Row, -1, 1)), post: []c06Post{c06Eq("row == row0-1", c05Row, 1, g0Row, -1, 1), colSame}},
		{rule: "C06.d", table: "csi", key: "B", name: "CUD 2 moves down two rows", ps: 2, pre: with(inRegion, c05L(c05Row, 1, c05Bot, -1, 2)), post: []c06Post{c06Eq("row == row0+2", c05Row, 1, g0Row, -1, -2), colSame}},
		{rule: "C06.d", table: "csi", key: "B", name: "CUD stops at the bottom margin", ps: 1, pre: with(inRegion, c05L(c05Bot, 1, c05Row, -1)), post: []c06Post{rowSame, colSame}},
		{rule: "C06.a", table: "csi", key: "B", name: "CUD 0 moves down one row", ps: 0, pre: with(inRegion, c05L(c05Row, 1, c05Bot, -1, 1)), post: []c06Post{c06Eq("row == row0+1", c05Row, 1, g0Row, -1, -1), colSame}},
		{rule: "C06.d", table: "csi", key: "C", name: "CUF 2 moves right two columns", ps: 2, pre: with(inRegion, c05L(c05Col, 1, "COLS", -1, 3)), post: []c06Post{c06Eq("col == col0+2", c05Col, 1, g0Col, -1, -2), rowSame}},
		{rule: "C06.d", table: "csi", key: "C", name: "CUF stops at the right edge", ps: 1, pre: with(inRegion, c05L("COLS", 1, c05Col, -1, -1)), post: []c06Post{colSame, rowSame}},
		{rule: "C06.a", table: "csi", key: "C", name: "CUF 0 moves right one column", ps: 0, pre: with(inRegion, c05L(c05Col, 1, "COLS", -1, 2)), post: []c06Post{c06Eq("col == col0+1", c05Col, 1, g0Col, -1, -1), rowSame}},
		{rule: "C06.d", table: "csi", key: "D", name: "CUB 2 moves left two columns", ps: 2, pre: with(inRegion, c05L(c05Col, -1, 2)), post: []c06Post{c06Eq("col == col0-2", c05Col, 1, g0Col, -1, 2), rowSame}},
		{rule: "C06.d", table: "csi", key: "D", name: "CUB stops at the left edge", ps: 1, pre: with(inRegion, c05L(c05Col, 1)), post: []c06Post{colSame, rowSame}},
		{rule: "C06.a", table: "csi", key: "D", name: "CUB 0 moves left one column", ps: 0, pre: with(inRegion, c05L(c05Col, -1, 1)), post: []c06Post{c06Eq("col == col0-1", c05Col, 1, g0Col, -1, 1), rowSame}},
		{rule: "C06.d", table: "csi", key: "F", name: "CPL goes to column 0", ps: 1, pre: inRegion, post: []c06Post{col0}},
		{rule: "C06.d", table: "csi", key: "e", name: "VPR 2 moves down two rows", ps: 2, pre: with(inRegion, c05L(c05Row, 1, "ROWS", -1, 3)), post: []c06Post{c06Eq("row == row0+2", c05Row, 1, g0Row, -1, -2), colSame}},
		{rule: "C06.d", table: "csi", key: "a", name: "HPR 2 moves right two columns", ps: 2, pre: with(inRegion, c05L(c05Col, 1, "COLS", -1, 3)), post: []c06Post{c06Eq("col == col0+2", c05Col, 1, g0Col, -1, -2), rowSame}},
		// absolute moves
		{rule: "C06.d", table: "csi", key: "G", name: "CHA 3 goes to column 2", ps: 3, minCols: 3, pre: inRegion, post: []c06Post{c06Eq("col == 2", c05Col, 1, -2), rowSame}},
		{rule: "C06.a", table: "csi", key: "G", name: "CHA 0 goes to column 0", ps: 0, pre: inRegion, post: []c06Post{col0, rowSame}},
		{rule: "C06.d", table: "csi", key: "G", name: "CHA beyond the width stops at the last column", ps: geoPlus("COLS", 5), pre: inRegion, post: []c06Post{c06Eq("col == COLS-1", c05Col, 1, "COLS", -1, 1), rowSame}},
		{rule: "C06.d", table: "csi", key: "`", name: "HPA 3 goes to column 2", ps: 3, minCols: 3, pre: inRegion, post: []c06Post{c06Eq("col == 2", c05Col, 1, -2), rowSame}},
		{rule: "C06.a", table: "csi", key: "`", name: "HPA 0 goes to column 0", ps: 0, pre: inRegion, post: []c06Post{col0, rowSame}},
		{rule: "C06.d", table: "csi", key: "d", name: "VPA 3 goes to row 2", ps: 3, minRows: 3, pre: inRegion, post: []c06Post{c06Eq("row == 2", c05Row, 1, -2), colSame}},
		{rule: "C06.a", table: "csi", key: "d", name: "VPA 0 goes to row 0", ps: 0, pre: inRegion, post: []c06Post{c06Eq("row == 0", c05Row, 1), colSame}},
		{rule: "C06.d", table: "csi", key: "d", name: "VPA beyond the height stops at the last row", ps: geoPlus("ROWS", 5), pre: inRegion, post: []c06Post{c06Eq("row == ROWS-1", c05Row, 1, "ROWS", -1, 1), colSame}},
	}
	for _, k := range []string{"H", "f"} {
		n := map[string]string{"H": "CUP", "f": "HVP"}[k]
		cs = append(cs,
			c06Case{rule: "C06.d", table: "csi", key: k, name: n + " 3;4 goes to row 2, column 3", list: []any{3, 4}, minRows: 3, minCols: 4, pre: inRegion, post: []c06Post{c06Eq("row == 2", c05Row, 1, -2), c06Eq("col == 3", c05Col, 1, -3)}},
			c06Case{rule: "C06.a", table: "csi", key: k, name: n + " 0;0 goes home", list: []any{0, 0}, pre: inRegion, post: []c06Post{c06Eq("row == 0", c05Row, 1), col0}},
			c06Case{rule: "C06.a", table: "csi", key: k, name: n + " 0;4 goes to row 0, column 3", list: []any{0, 4}, minCols: 4, pre: inRegion, post: []c06Post{c06Eq("row == 0", c05Row, 1), c06Eq("col == 3", c05Col, 1, -3)}},
			c06Case{rule: "C06.a", table: "csi", key: k, name: n + " 3;0 goes to row 2, column 0", list: []any{3, 0}, minRows: 3, pre: inRegion, post: []c06Post{c06Eq("row == 2", c05Row, 1, -2), col0}},
			c06Case{rule: "C06.d", table: "csi", key: k, name: n + " beyond the screen stops at the last row and column", list: []any{geoPlus("ROWS", 5), geoPlus("COLS", 5)}, pre: inRegion, post: []c06Post{c06Eq("row == ROWS-1", c05Row, 1, "ROWS", -1, 1), c06Eq("col == COLS-1", c05Col, 1, "COLS", -1, 1)}},
			c06Case{rule: "C06.d", table: "csi", key: k, name: n + " 3 goes to row 2, column 0", list: []any{3}, minRows: 3, pre: inRegion, post: []c06Post{c06Eq("row == 2", c05Row, 1, -2), col0}},
			c06Case{rule: "C06.a", table: "csi", key: k, name: n + " without parameters goes home", list: []any{}, pre: inRegion, post: []c06Post{c06Eq("row == 0", c05Row, 1), col0}},
		)
	}
	home := []c06Post{c06Eq("row == 0", c05Row, 1), col0}
	cs = append(cs,
		c06Case{rule: "C06.d", table: "csi", key: "r", name: "DECSTBM 2;4 sets margins 1..3 and homes", list: []any{2, 4}, minRows: 4, pre: inRegion, post: append([]c06Post{c06Eq("top == 1", c05Top_, 1, -1), c06Eq("bottom == 3", c05Bot, 1, -3)}, home...)},
		c06Case{rule: "C06.a", table: "csi", key: "r", name: "DECSTBM 0;0 selects the whole screen", list: []any{0, 0}, minRows: 2, pre: inRegion, post: append([]c06Post{c06Eq("top == 0", c05Top_, 1), c06Eq("bottom == ROWS-1", c05Bot, 1, "ROWS", -1, 1)}, home...)},
		c06Case{rule: "C06.a", table: "csi", key: "r", name: "DECSTBM without parameters selects the whole screen", list: []any{}, minRows: 2, pre: inRegion, post: append([]c06Post{c06Eq("top == 0", c05Top_, 1), c06Eq("bottom == ROWS-1", c05Bot, 1, "ROWS", -1, 1)}, home...)},
		c06Case{rule: "C06.a", table: "csi", key: "r", name: "DECSTBM 2 keeps the bottom at the last row", list: []any{2}, minRows: 3, pre: inRegion, post: append([]c06Post{c06Eq("top == 1", c05Top_, 1, -1), c06Eq("bottom == ROWS-1", c05Bot, 1, "ROWS", -1, 1)}, home...)},
		c06Case{rule: "C06.d", table: "csi", key: "r", name: "DECSTBM bottom beyond the screen stops at the last row", list: []any{1, geoPlus("ROWS", 5)}, minRows: 2, pre: inRegion, post: append([]c06Post{c06Eq("top == 0", c05Top_, 1), c06Eq("bottom == ROWS-1", c05Bot, 1, "ROWS", -1, 1)}, home...)},
		// index family
		c06Case{rule: "C06.d", table: "esc", key: "D", name: "IND moves down one row", pre: with(inRegion, c05L(c05Row, 1, c05Bot, -1, 1)), post: []c06Post{c06Eq("row == row0+1", c05Row, 1, g0Row, -1, -1), colSame}},
		c06Case{rule: "C06.d", table: "esc", key: "D", name: "IND at the bottom margin keeps the row", pre: with(inRegion, c05L(c05Bot, 1, c05Row, -1)), post: []c06Post{rowSame, colSame}},
		c06Case{rule: "C06.d", table: "esc", key: "E", name: "NEL goes to column 0 of the next row", pre: with(inRegion, c05L(c05Row, 1, c05Bot, -1, 1)), post: []c06Post{c06Eq("row == row0+1", c05Row, 1, g0Row, -1, -1), col0}},
		c06Case{rule: "C06.d", table: "esc", key: "M", name: "RI moves up one row", pre: with(inRegion, c05L(c05Top_, 1, c05Row, -1, 1)), post: []c06Post{c06Eq("row == row0-1", c05Row, 1, g0Row, -1, 1), colSame}},
		c06Case{rule: "C06.d", table: "esc", key: "M", name: "RI at the top margin keeps the row", pre: with(inRegion, c05L(c05Row, 1, c05Top_, -1)), post: []c06Post{rowSame, colSame}},
		c06Case{rule: "C06.d", table: "c0", key: "10", name: "LF moves down one row", pre: with(inRegion, c05L(c05Row, 1, c05Bot, -1, 1)), post: []c06Post{c06Eq("row == row0+1", c05Row, 1, g0Row, -1, -1)}},
		c06Case{rule: "C06.d", table: "c0", key: "10", name: "LF at the bottom margin keeps the row", pre: with(inRegion, c05L(c05Bot, 1, c05Row, -1)), post: []c06Post{rowSame}},
		c06Case{rule: "C06.d", table: "c0", key: "13", name: "CR goes to column 0", pre: inRegion, post: []c06Post{col0, rowSame}},
	)
	// DECRC puts the cursor where DECSC saved it (the saved position of either screen is seeded with the same in-range ghost)
	cs = append(cs, c06Case{rule: "C06.d", table: "esc", key: "8", name: "DECRC restores the saved position", saved: true, pre: inRegion,
		post: []c06Post{c06Eq("row == saved row", c05Row, 1, "saved.row", -1), c06Eq("col == saved column", c05Col, 1, "saved.col", -1)}})
	// editing functions leave the cursor where it is (IL/DL reset the column)
	for _, k := range []string{"@", "P", "X", "J", "K"} {
		cs = append(cs, c06Case{rule: "C06.d", table: "csi", key: k, name: "CSI " + k + " does not move the cursor", ps: 1, pre: inRegion, post: []c06Post{rowSame, colSame}})
	}
	for _, k := range []string{"L", "M"} {
		cs = append(cs, c06Case{rule: "C06.d", table: "csi", key: k, name: "CSI " + k + " resets the column and keeps the row", ps: 1, pre: inRegion, post: []c06Post{rowSame, col0}})
	}
	return cs
}

// elemKey: the engine's atom for pm[i][0].
func (e *c05Eng) elemKey(base string, i int) string {
	k1 := "a:" + base + "[" + c05Const(int64(i)).key() + "]"
	if _, ok := e.disp[k1]; !ok {
		e.disp[k1] = fmt.Sprintf("%s[%d]", e.show(base), i)
		e.addDep(k1, base)
	}
	k2 := "a:" + k1 + "[" + c05Const(0).key() + "]"
	if _, ok := e.disp[k2]; !ok {
		e.disp[k2] = fmt.Sprintf("%s[%d][0]", e.show(base), i)
		e.addDep(k2, k1)
	}
	return k2
}

// ghost gives key an entry-value alias g (never assigned), mirrored in every bound and fact.
func (e *c05Eng) ghostify(st *c05State, key, g string) {
	e.disp[g] = e.show(key) + "@entry"
	v := e.setBound(st, key)
	gv := v.clone()
	gv.addLo(key, 0)
	gv.addHi(key, 0)
	for k2, o := range st.env {
		if k2 == key {
			continue
		}
		if k, ok := o.lo[key]; ok {
			o.addLo(g, k)
		}
		if k, ok := o.hi[key]; ok {
			o.addHi(g, k)
		}
	}
	v.addLo(g, 0)
	v.addHi(g, 0)
	st.env[g] = gv
	for _, f := range st.facts {
		if c, ok := f.t[key]; ok {
			nf := f.clone()
			delete(nf.t, key)
			nf = nf.addScaled(c05Atom(g), c)
			st.facts = c05AddFact(st.facts, nf)
		}
	}
}

func c06RuleContracts(c *Ctx, e *c05Eng, tabs map[string]*c06Table) {
	c.expect("C06.d", 35)
	cases := c06Cases()
	sort.SliceStable(cases, func(i, j int) bool { return cases[i].name < cases[j].name })
	for _, cs := range cases {
		t := tabs[cs.table]
		if t == nil {
			continue
		}
		en := t.entries[cs.key]
		if en == nil || en.callee == nil {
			continue // reported by C06.b
		}
		cf := en.callee
		key := fmt.Sprintf("%s/%s", cf.Name, cs.name)
		infeasible := false
		shape := ""
		prep := func(fr *c05Frame, st *c05State) {
			if cs.minRows > 1 {
				e.setBound(st, "ROWS").addLo("", cs.minRows)
			}
			if cs.minCols > 1 {
				e.setBound(st, "COLS").addLo("", cs.minCols)
			}
			seed := func(k string, v any) {
				switch t := v.(type) {
				case int:
					st.env[k] = c05Exact("", int64(t))
				case c05Lin:
					for a := range t.t {
						st.env[k] = c05Exact(a, t.k)
						if lo, ok := e.valOf(st, a).constLo(); ok {
							st.env[k].addLo("", lo+t.k)
						}
					}
				}
			}
			// parameters
			var params []types.Object
			for _, f := range cf.Decl.Type.Params.List {
				for _, nme := range f.Names {
					params = append(params, fr.info.Defs[nme])
				}
			}
			switch {
			case cs.list != nil:
				if len(params) != 1 || !isSliceType(params[0].Type()) {
					shape = "the handler does not take the raw parameter list"
					return
				}
				pk := fmt.Sprintf("v%p", params[0])
				e.disp[pk] = params[0].Name()
				st.env[e.derived("len:", pk)] = c05Exact("", int64(len(cs.list)))
				for i, v := range cs.list {
					seed(e.elemKey(pk, i), v)
				}
			case cs.ps != nil:
				if len(params) != 1 || !e.isCountType(params[0].Type()) {
					shape = "the handler does not take a single count"
					return
				}
				pk := fmt.Sprintf("v%p", params[0])
				seed(pk, cs.ps)
			default:
				if len(params) != 0 {
					shape = "the handler takes parameters"
					return
				}
			}
			if cs.saved {
				e.disp["saved.row"], e.disp["saved.col"] = "saved row", "saved column"
				sr, sc := c05Top(), c05Top()
				sr.addLo("", 0)
				sr.addHi("ROWS", -1)
				sc.addLo("", 0)
				sc.addHi("COLS", -1)
				st.env["saved.row"], st.env["saved.col"] = sr, sc
				for _, k := range c05Saved {
					g := "saved.col"
					if strings.HasSuffix(k, ".row") {
						g = "saved.row"
					}
					v := st.env[g].clone()
					v.addLo(g, 0)
					v.addHi(g, 0)
					st.env[k] = v
				}
			}
			cur := st
			for _, p := range cs.pre {
				cur = e.assumeLE0(cur, p)
				if cur == nil {
					infeasible = true
					return
				}
			}
			e.ghostify(st, c05Row, g0Row)
			e.ghostify(st, c05Col, g0Col)
		}
		t0 := time.Now()
		_, exit := e.analyse(cf, prep)
		if os.Getenv("C05_DEBUG") != "" {
			fmt.Printf("DEBUG time contract %s %v\n", cs.name, time.Since(t0))
		}
		switch {
		case shape != "":
			c.undecided(cs.rule, key, cf.Decl.Pos(), "%s; the contract cannot be set up", shape)
			continue
		case infeasible:
			c.undecided(cs.rule, key, cf.Decl.Pos(), "the precondition of the contract is unsatisfiable in the engine")
			continue
		case exit == nil || exit.env == nil:
			c.undecided(cs.rule, key, cf.Decl.Pos(), "the handler has no normal exit under the precondition")
			continue
		}
		var miss []string
		for _, p := range cs.post {
			if !(e.prove(exit, p.eq) && e.prove(exit, p.eq.neg())) {
				miss = append(miss, p.what)
			}
		}
		if len(miss) == 0 {
			var all []string
			for _, p := range cs.post {
				all = append(all, p.what)
			}
			c.ok(cs.rule, key, cf.Decl.Pos(), "proved at every exit: %s", strings.Join(all, ", "))
		} else {
			c.bad(cs.rule, key, cf.Decl.Pos(), "not established: %s (cursor.row is %s, cursor.col is %s, margins %s .. %s): the cursor/margins differ from a VT's after this sequence",
				strings.Join(miss, ", "), e.showVal(e.valOf(exit, c05Row)), e.showVal(e.valOf(exit, c05Col)), e.showVal(e.valOf(exit, c05Top_)), e.showVal(e.valOf(exit, c05Bot)))
		}
	}
}
