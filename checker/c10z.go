package main

// C10.c, pointer arguments. `f(&x.fld)` does not touch x.fld at the call: the memory is touched where the
// callee dereferences its parameter. When the callee is repository code (a function, a method or a closure
// held in a local variable) and the parameter is only ever dereferenced there (`*p` read or assigned; never
// copied, stored, passed on, compared, returned or captured by a nested literal), the conservative "address
// taken = write at the call" site is replaced by access sites at the dereferences inside the callee, which
// then get the callee's lockset and the contexts of its callers like any other access. So
//
//	setCap := func(c *bool) { vx.mu.Lock(); *c = true; vx.mu.Unlock() };  setCap(&vx.caps.rgb)
//
// is the same guarded write as the three statements written out. Anything else keeps the conservative site.

import (
	"go/ast"
	"go/token"
	"go/types"
	"sort"
)

type c10PtrUse struct {
	node  *ast.StarExpr
	write bool
}

func (e *c10Eng) pointerArgs() {
	type dkey struct {
		n    ast.Node
		path string
	}
	added := map[dkey]bool{}
	memo := map[[2]any][]c10PtrUse{}
	memoOK := map[[2]any]bool{}
	for _, f := range e.fns {
		par := e.p.Parents(f.pkg)
		var drop map[*c10Site]bool
		for _, s := range f.sites {
			if s.kind != "access" || s.addrOf == nil || s.atomic {
				continue
			}
			// the & expression is an argument of a call
			var arg ast.Node = s.addrOf
			for {
				if pe, ok := par[arg].(*ast.ParenExpr); ok {
					arg = pe
					continue
				}
				break
			}
			call, ok := par[arg].(*ast.CallExpr)
			if !ok {
				continue
			}
			idx := -1
			for i, a := range call.Args {
				if ast.Node(a) == arg {
					idx = i
				}
			}
			if idx < 0 || call.Ellipsis != token.NoPos {
				continue
			}
			var cs *c10Site
			for _, o := range f.byLoc[s.loc] {
				if o.kind == "call" && o.call == call {
					cs = o
				}
			}
			if cs == nil || cs.ext != "" || cs.unknown != "" || len(cs.targets) == 0 {
				continue
			}
			type newSite struct {
				t *c10Fn
				d c10PtrUse
				l Loc
			}
			var news []newSite
			clean := true
			for _, t := range cs.targets {
				k := [2]any{t, idx}
				ds, seen := memo[k]
				if !seen {
					ds, memoOK[k] = e.derefOnlyParam(t, idx)
					memo[k] = ds
				}
				if !memoOK[k] {
					clean = false
					break
				}
				for _, d := range ds {
					loc, ok := t.g.Locate(d.node)
					if !ok {
						clean = false
						break
					}
					news = append(news, newSite{t, d, loc})
				}
			}
			if !clean {
				continue
			}
			for _, n := range news {
				if added[dkey{n.d.node, s.path}] {
					continue
				}
				added[dkey{n.d.node, s.path}] = true
				e.addSite(&c10Site{fn: n.t, kind: "access", node: n.d.node, loc: n.l, path: s.path, write: n.d.write})
			}
			if drop == nil {
				drop = map[*c10Site]bool{}
			}
			drop[s] = true
		}
		if drop == nil {
			continue
		}
		var keep []*c10Site
		for _, s := range f.sites {
			if !drop[s] {
				keep = append(keep, s)
			}
		}
		f.sites = keep
		for loc, ss := range f.byLoc {
			var k2 []*c10Site
			for _, s := range ss {
				if !drop[s] {
					k2 = append(k2, s)
				}
			}
			f.byLoc[loc] = k2
		}
	}
}

// derefOnlyParam: the dereferences of parameter idx in t's body, provided every use of the parameter is a
// dereference in t's own control flow. ok=false otherwise (the pointer may travel).
func (e *c10Eng) derefOnlyParam(t *c10Fn, idx int) (out []c10PtrUse, ok bool) {
	if t == nil || t.g == nil || t.body == nil {
		return nil, false
	}
	var ft *ast.FuncType
	if t.lit != nil {
		ft = t.lit.Type
	} else {
		ft = t.fi.Decl.Type
	}
	if ft.Params == nil {
		return nil, false
	}
	var pobj types.Object
	i := 0
	found := false
	for _, fld := range ft.Params.List {
		if _, variadic := fld.Type.(*ast.Ellipsis); variadic {
			if i <= idx {
				return nil, false
			}
		}
		if len(fld.Names) == 0 {
			if i == idx {
				return nil, true // unnamed parameter: never used
			}
			i++
			continue
		}
		for _, n := range fld.Names {
			if i == idx {
				pobj, found = t.info.Defs[n], true
			}
			i++
		}
	}
	if !found {
		return nil, false
	}
	if pobj == nil { // `_`
		return nil, true
	}
	par := e.p.Parents(t.pkg)
	total, own := 0, 0
	ast.Inspect(t.body, func(n ast.Node) bool {
		if id, isId := n.(*ast.Ident); isId && t.info.Uses[id] == pobj {
			total++
		}
		return true
	})
	ok = true
	inspectNoLit(t.body, func(n ast.Node) bool {
		id, isId := n.(*ast.Ident)
		if !isId || t.info.Uses[id] != pobj {
			return true
		}
		own++
		var cur ast.Node = id
		for {
			if pe, isP := par[cur].(*ast.ParenExpr); isP {
				cur = pe
				continue
			}
			break
		}
		star, isStar := par[cur].(*ast.StarExpr)
		if !isStar {
			ok = false
			return true
		}
		cur = star
		for {
			if pe, isP := par[cur].(*ast.ParenExpr); isP {
				cur = pe
				continue
			}
			break
		}
		d := c10PtrUse{node: star}
		switch pt := par[cur].(type) {
		case *ast.AssignStmt:
			for _, l := range pt.Lhs {
				if ast.Node(l) == cur {
					d.write = true
				}
			}
		case *ast.IncDecStmt:
			d.write = true
		case *ast.UnaryExpr:
			if pt.Op == token.AND {
				ok = false // &*p: the pointer again
			}
		case *ast.SelectorExpr, *ast.IndexExpr, *ast.SliceExpr, *ast.RangeStmt:
			ok = false // part of a larger access path: not modelled
		}
		out = append(out, d)
		return true
	})
	if own != total {
		return nil, false // captured by a nested literal
	}
	return out, ok
}

// ---------------------------------------------------------------------------
// C10.d / C10.e: the goroutine as a whole, not only the body of its root function.
//
// A goroutine's root may be split into phases (`run() { consume(); shutdown() }`): the service loop and the
// completion signal then live in functions that exist only for this goroutine. The private call tree of a
// root is the root plus, transitively, every unexported declared function all of whose references are
// ordinary static calls made from functions of the tree. Its members are part of the goroutine's body: the
// events below (ends of service loops, sends) are produced in execution order, a call of a member being
// replaced by the member's own events.

type c10LoopRef struct {
	fn   *c10Fn
	loop ast.Stmt
}

func (e *c10Eng) privateTree(root *c10Fn) map[*c10Fn]bool {
	set := map[*c10Fn]bool{root: true}
	if root == nil {
		return set
	}
	asValue := map[*c10Fn]int{}
	for changed := true; changed; {
		changed = false
		for _, g := range e.fns {
			if g.lit != nil || set[g] || g.fi == nil || g.fi.Obj == nil || g.fi.Obj.Exported() || g.pkg != root.pkg {
				continue
			}
			refs := e.callsTo[g.fi.Obj]
			if len(refs) == 0 {
				continue
			}
			all := true
			for _, r := range refs {
				if !set[r.fn] {
					all = false
				}
				switch e.p.Parents(r.fn.pkg)[r.call].(type) {
				case *ast.GoStmt, *ast.DeferStmt:
					all = false
				}
			}
			if !all {
				continue
			}
			if asValue[g] == 0 {
				asValue[g] = 1
				if _, v := e.p.CallersOf(g.fi); v {
					asValue[g] = 2
				}
			}
			if asValue[g] == 2 {
				continue
			}
			// spawned somewhere as a goroutine of its own: not a phase of this one
			spawned := false
			for _, cx := range e.ctxs {
				if cx.root == g {
					spawned = true
				}
			}
			if spawned {
				continue
			}
			set[g] = true
			changed = true
		}
	}
	return set
}

type c10Event struct {
	pos  token.Pos
	kind string // loopend send call
	fn   *c10Fn
	loop ast.Stmt
	site *c10Site
}

// goroutineEvents: ends of service loops and sends of the goroutine rooted at root, in execution order
// (lexical order within a function; a call of a member of the private tree is expanded in place).
func (e *c10Eng) goroutineEvents(root *c10Fn) []c10Event {
	tree := e.privateTree(root)
	var out []c10Event
	visiting := map[*c10Fn]bool{}
	var walk func(f *c10Fn, depth int)
	walk = func(f *c10Fn, depth int) {
		if f == nil || visiting[f] || depth > 6 {
			return
		}
		visiting[f] = true
		defer func() { visiting[f] = false }()
		var evs []c10Event
		for _, l := range e.infiniteLoops(f) {
			evs = append(evs, c10Event{pos: l.End(), kind: "loopend", fn: f, loop: l})
		}
		for _, s := range f.sites {
			switch s.kind {
			case "send":
				evs = append(evs, c10Event{pos: s.node.Pos(), kind: "send", fn: f, site: s})
			case "call":
				if len(s.targets) == 1 && s.targets[0] != f && tree[s.targets[0]] && s.targets[0].lit == nil && !s.deferred {
					evs = append(evs, c10Event{pos: s.node.Pos(), kind: "call", fn: f, site: s})
				}
			}
		}
		sort.SliceStable(evs, func(i, j int) bool { return evs[i].pos < evs[j].pos })
		for _, ev := range evs {
			if ev.kind == "call" {
				walk(ev.site.targets[0], depth+1)
				continue
			}
			out = append(out, ev)
		}
	}
	walk(root, 0)
	return out
}

// goroutineLoops: the service loops of the goroutine (root first, then the phases it calls).
func (e *c10Eng) goroutineLoops(root *c10Fn) []c10LoopRef {
	var out []c10LoopRef
	seen := map[ast.Stmt]bool{}
	// loops are listed by where they start: an enclosing loop before the loops nested in it
	var own []c10LoopRef
	for _, ev := range e.goroutineEvents(root) {
		if ev.kind == "loopend" && !seen[ev.loop] {
			seen[ev.loop] = true
			own = append(own, c10LoopRef{ev.fn, ev.loop})
		}
	}
	// keep the order of events between functions, lexical start order within one function
	for i := 0; i < len(own); {
		j := i
		for j < len(own) && own[j].fn == own[i].fn {
			j++
		}
		seg := append([]c10LoopRef{}, own[i:j]...)
		sort.SliceStable(seg, func(a, b int) bool { return seg[a].loop.Pos() < seg[b].loop.Pos() })
		out = append(out, seg...)
		i = j
	}
	return out
}

// completionSends: the sends the goroutine performs after its last service loop has ended.
func (e *c10Eng) completionSends(root *c10Fn) []*c10Site {
	evs := e.goroutineEvents(root)
	last := -1
	for i, ev := range evs {
		if ev.kind == "loopend" {
			last = i
		}
	}
	if last < 0 {
		return nil
	}
	var out []*c10Site
	for _, ev := range evs[last+1:] {
		if ev.kind == "send" {
			out = append(out, ev.site)
		}
	}
	return out
}
