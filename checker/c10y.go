package main

// C10.d, the two shape-dependent parts of the goroutine-exit rule reformulated semantically (engine: c08path.go).
//
//  (1) Which loops of a goroutine are service loops. A loop without a condition and a range over a channel
//      are; so is a `for cond {}` loop whose iterations wait on the environment: some operation of an
//      iteration (condition, body or post statement, through static callees) waits for a channel or can block
//      without bound, and the condition is not an ordered comparison of integers (a counted loop). `for { ...; if stop { break } }`,
//      `for running { ... running = !stop }` and `for p.step() {}` (body moved into a helper whose result is
//      the condition) are the same loop.
//
//  (2) What a quit arm is. The rule wants an exit of the loop that is taken BECAUSE a receive on a
//      quit/EOF/context channel succeeded. Lexically that is a return/break nested in the receive arm of a
//      select; semantically it is a path from the entry of the arm to the outside of the loop within the same
//      iteration, where the memory of the arm having been taken lasts until the end of its select statement
//      unless the arm stored it (assigned a local boolean that the rest of the iteration — e.g. the loop
//      condition — tests, or returned from a helper whose result the caller tests). Local booleans and
//      boolean helper results are tracked path-sensitively, so the exit through `running = false` + loop
//      condition, and the exit through `return false` in the helper that is the loop condition, are found.

import (
	"go/ast"
	"go/token"
	"go/types"
	"sort"

	"golang.org/x/tools/go/cfg"
)

// condLoopIsService: see (1).
func (e *c10Eng) condLoopIsService(f *c10Fn, loop *ast.ForStmt) bool {
	if loop.Cond == nil {
		return true
	}
	counted := false
	inspectNoLit(loop.Cond, func(n ast.Node) bool {
		if be, ok := n.(*ast.BinaryExpr); ok {
			switch be.Op {
			case token.LSS, token.LEQ, token.GTR, token.GEQ:
				if b, ok := f.info.TypeOf(be.X).Underlying().(*types.Basic); ok && b.Info()&types.IsNumeric != 0 {
					counted = true
				}
			}
		}
		return true
	})
	if counted {
		return false
	}
	for _, s := range f.sites {
		if s.node == nil || s.node.Pos() < loop.Pos() || s.node.End() > loop.End() {
			continue
		}
		switch {
		case (s.kind == "send" || s.kind == "recv") && s.block != "nonblocking":
			// waits for a channel (also when a ticker arm bounds each single wait: the loop still runs for as long
			// as the environment keeps it running)
			return true
		case s.kind == "call":
			if _, ok := c10ExternalBlocking[s.ext]; ok && e.boundedExternal(s) == "" {
				return true
			}
			for _, t := range s.targets {
				if e.mayBlockDeep(t, map[*c10Fn]bool{}) != "" || e.waitsDeep(t, map[*c10Fn]bool{}) {
					return true
				}
			}
		}
	}
	return false
}

// waitsDeep: does f, through its static callees, wait for a channel (any send / receive that is not made
// non-blocking by a default arm)?
func (e *c10Eng) waitsDeep(f *c10Fn, seen map[*c10Fn]bool) bool {
	if f == nil || seen[f] {
		return false
	}
	seen[f] = true
	for _, s := range f.sites {
		switch s.kind {
		case "send", "recv":
			if s.block != "nonblocking" {
				return true
			}
		case "call":
			for _, t := range s.targets {
				if e.waitsDeep(t, seen) {
					return true
				}
			}
		}
	}
	return false
}

// quitArms: the channels whose receive arm leads out of loop (see (2)), the number of distinct exits of the
// loop seen, and ok=false when the loop could not be explored.
func (e *c10Eng) quitArms(f *c10Fn, loop *ast.ForStmt) (quit []string, exits int, ok bool) {
	g := f.g
	if g == nil {
		return nil, 0, false
	}
	body, _, _ := pxLoopBlocks(g, loop)
	if body == nil {
		return nil, 0, false
	}
	fnOf := map[*FG]*c10Fn{g: f}
	var names []string
	bitOf := func(ch string) pxMarks {
		for i, n := range names {
			if n == ch {
				return 1 << uint(i)
			}
		}
		if len(names) >= 30 {
			return 0
		}
		names = append(names, ch)
		return 1 << uint(len(names)-1)
	}
	// does the function (through static callees of its package) contain a select arm that receives?
	hasArm := map[*types.Func]int{}
	var armDeep func(fn *types.Func) bool
	armDeep = func(fn *types.Func) bool {
		switch hasArm[fn] {
		case 1:
			return true
		case 2, 3:
			return false
		}
		hasArm[fn] = 3
		res := false
		if fi := e.p.FuncOfObj(fn); fi != nil && fi.Decl.Body != nil {
			inspectNoLit(fi.Decl.Body, func(n ast.Node) bool {
				switch t := n.(type) {
				case *ast.CommClause:
					if t.Comm != nil && pxRecvOf(t.Comm) != nil {
						res = true
					}
				case *ast.CallExpr:
					if cal := calleeOf(fi.Pkg.TypesInfo, t); cal != nil && cal.Pkg() == fn.Pkg() && armDeep(cal) {
						res = true
					}
				}
				return !res
			})
		}
		if res {
			hasArm[fn] = 1
		} else {
			hasArm[fn] = 2
		}
		return res
	}
	var x *pxRun
	armKeeps := map[*ast.CommClause]bool{} // the arm stores the fact that it was taken in a local boolean
	keeps := func(gg *FG, cc *ast.CommClause) bool {
		if v, ok := armKeeps[cc]; ok {
			return v
		}
		res := false
		for _, s := range cc.Body {
			inspectNoLit(s, func(n ast.Node) bool {
				if as, ok := n.(*ast.AssignStmt); ok {
					for _, l := range as.Lhs {
						if id, ok := unparen(l).(*ast.Ident); ok {
							if o := gg.Info.ObjectOf(id); o != nil && x.trackable(gg, o) {
								res = true
							}
						}
					}
				}
				return true
			})
		}
		armKeeps[cc] = res
		return res
	}
	armChan := func(gg *FG, cc *ast.CommClause) (string, bool) {
		if cc.Comm == nil {
			return "", false
		}
		chx := pxRecvOf(cc.Comm)
		if chx == nil {
			return "", false
		}
		cf := fnOf[gg]
		if cf == nil {
			return "", false
		}
		ch, kind := e.chanID(cf, chx)
		if kind == "timer" {
			return "", false
		}
		return ch, true
	}
	exitAt := map[*cfg.Block]bool{}
	var quitMarks pxMarks
	h := pxHooks{
		descend: func(fn *types.Func) *FuncInfo {
			if fn.Pkg() == nil || fn.Pkg() != f.pkg.Types || !armDeep(fn) {
				return nil
			}
			fi := e.p.FuncOfObj(fn)
			if fi == nil {
				return nil
			}
			if cf := e.byObj[fn]; cf != nil && cf.g != nil {
				fnOf[cf.g] = cf
			} else if gg := e.p.Graph(fi); gg != nil {
				fnOf[gg] = &c10Fn{name: fi.Name, pkg: fi.Pkg, info: fi.Pkg.TypesInfo, fi: fi, body: fi.Decl.Body, g: gg}
			}
			return fi
		},
		onBlock: func(gg *FG, from, b *cfg.Block, st *pxState) bool {
			if gg == g {
				if b == body {
					return false // the next iteration
				}
				if !pxInLoop(b, loop) {
					exitAt[from] = true
					quitMarks |= st.marks
					return false
				}
			}
			switch b.Kind {
			case cfg.KindSelectCaseBody:
				if cc, ok := b.Stmt.(*ast.CommClause); ok {
					if ch, ok := armChan(gg, cc); ok {
						st.marks |= bitOf(ch)
					}
				}
			case cfg.KindSelectDone:
				if sel, ok := b.Stmt.(*ast.SelectStmt); ok {
					for _, cl := range sel.Body.List {
						cc := cl.(*ast.CommClause)
						if ch, ok := armChan(gg, cc); ok && !keeps(gg, cc) {
							st.marks &^= bitOf(ch)
						}
					}
				}
			}
			return true
		},
	}
	x = newPxRun(e.p, h)
	for _, o := range x.explore(g, Loc{body, 0}, pxState{}, 0) {
		// a return inside the loop
		quitMarks |= o.marks
		exits++
	}
	if x.overflow {
		return nil, 0, false
	}
	exits += len(exitAt)
	for i, n := range names {
		if quitMarks&(1<<uint(i)) != 0 {
			quit = append(quit, n)
		}
	}
	sort.Strings(quit)
	return quit, exits, true
}

// c10SingleDefCall: the call expression a local variable is defined by, when the variable is assigned exactly
// once (`sequences := vx.parser.Next()`); nil otherwise.
func c10SingleDefCall(info *types.Info, id *ast.Ident) ast.Expr {
	obj, _ := info.ObjectOf(id).(*types.Var)
	if obj == nil || obj.IsField() || obj.Pkg() == nil || obj.Parent() == obj.Pkg().Scope() {
		return nil
	}
	src := singleDefOf(info, obj)
	if src == nil {
		return nil
	}
	if call, ok := unparen(src).(*ast.CallExpr); ok {
		if tv, ok := info.Types[call.Fun]; ok && tv.IsType() {
			return nil
		}
		return call
	}
	return nil
}
