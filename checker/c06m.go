package main

// C06.m — insert character (ICH, CSI Ps @) and delete character (DCH, CSI Ps P) as per-cell contracts,
// the column analogue of C06.i: with the cursor at (row0, col0) inside the screen and R the right margin,
//
//   ICH n   every cell C of [col0, R] on row0 receives the old cell C-n when C-n >= col0, else a blank
//   DCH n   every cell C of [col0, R] on row0 receives the old cell C+n when C+n <= R,   else a blank
//
// (blank = a blank-cell literal or cell.erase with the pen background; which of the two is C06.c's business),
// cells outside [col0, R] and other rows are untouched. Proved for n within the cells that remain and beyond
// them. Each column loop is judged by what it does, as in C06.i: a loop that copies must read every source
// before it is overwritten (ICH right-to-left, DCH left-to-right) and visit every cell whose source lies in the
// interval; a loop that blanks must visit every cell whose source lies outside; a fused loop visits them all.

import (
	"fmt"
	"go/ast"
	"go/token"
	"go/types"
	"strings"
)

// cellOpEffect: X[r][c] = X[r'][c']  (copyCell)  and  X[r][c] = cell{... Grapheme: " " ...}  (blankCell), for
// cells of the active screen, through row and pointer aliases.
func (x *c06X) cellOpEffect(fr *c05Frame, as *ast.AssignStmt, st *c05State) (c06Eff, bool) {
	e := x.e
	if as.Tok != token.ASSIGN || e.cellT == nil {
		return c06Eff{}, false
	}
	if t := fr.info.TypeOf(as.Lhs[0]); t == nil || !types.Identical(t, e.cellT) {
		return c06Eff{}, false
	}
	parts := func(v ast.Expr) (row, col ast.Expr, ok bool) {
		ix := c06GridCell(e, fr, v)
		if ix == nil {
			return nil, nil, false
		}
		rix, isIx := unparen(ix.X).(*ast.IndexExpr)
		if !isIx || e.pathKey(fr, rix.X) != c05Active {
			return nil, nil, false
		}
		return rix.Index, ix.Index, true
	}
	lr, lc, ok := parts(as.Lhs[0])
	if !ok {
		return c06Eff{}, false
	}
	eff := c06Eff{row: e.linOf(fr, st, lr), col: e.linOf(fr, st, lc), pos: as.Pos()}
	if cl, isLit := unparen(as.Rhs[0]).(*ast.CompositeLit); isLit {
		blank := false
		ast.Inspect(cl, func(n ast.Node) bool {
			if kv, ok := n.(*ast.KeyValueExpr); ok {
				if id, ok := kv.Key.(*ast.Ident); ok && id.Name == "Grapheme" {
					if sv, ok := constString(fr.info, kv.Value); ok && sv == " " {
						blank = true
					}
				}
			}
			return true
		})
		if !blank {
			return c06Eff{}, false
		}
		eff.kind = "blankCell"
		return eff, true
	}
	if t := fr.info.TypeOf(as.Rhs[0]); t != nil && types.Identical(t, e.cellT) {
		if sr, sc, ok := parts(as.Rhs[0]); ok {
			eff.kind = "copyCell"
			eff.srow = e.linOf(fr, st, sr)
			eff.src = e.linOf(fr, st, sc)
			return eff, true
		}
	}
	return c06Eff{}, false
}

func c06RuleColShift(c *Ctx, e *c05Eng, tabs map[string]*c06Table) {
	c.expect("C06.m", 4)
	t := tabs["csi"]
	if t == nil {
		return
	}
	bg, cur := c06Fields(c, e)
	for _, spec := range []struct {
		key, name string
		left      bool // DCH moves the cells to the left
	}{{"@", "ICH", false}, {"P", "DCH", true}} {
		en := t.entries[spec.key]
		if en == nil || en.callee == nil {
			continue
		}
		cf := en.callee
		for _, mode := range []string{"small", "big"} {
			key := fmt.Sprintf("%s/a count within the cells left shifts the cells by that count", cf.Name)
			if mode == "big" {
				key = fmt.Sprintf("%s/a count beyond the cells left blanks all of them", cf.Name)
			}
			x := &c06X{c: c, e: e, bg: bg, cur: cur, cellErase: true, cellOps: true}
			bad := c06ColShiftCase(x, cf, spec.left, mode)
			switch {
			case len(x.und) > 0:
				c.undecided("C06.m", key, cf.Decl.Pos(), "%s is not understood: %s", spec.name, strings.Join(c06Dedupe(x.und), "; "))
			case len(bad) > 0:
				c.bad("C06.m", key, cf.Decl.Pos(), "%s: after %s the cells between the cursor and the right margin are not what a VT holds", strings.Join(bad, "; "), spec.name)
			default:
				c.ok("C06.m", key, cf.Decl.Pos(), "every cell c of [cursor column, right margin]: copy of cell c%sn when that cell is in the interval, otherwise blank; everything else untouched", map[bool]string{true: "+", false: "-"}[spec.left])
			}
		}
	}
}

func c06ColShiftCase(x *c06X, cf *FuncInfo, left bool, mode string) (bad []string) {
	e := x.e
	fr := e.newFrame(cf, true)
	var params []types.Object
	for _, f := range cf.Decl.Type.Params.List {
		for _, nme := range f.Names {
			params = append(params, fr.info.Defs[nme])
		}
	}
	if len(params) != 1 || !e.isCountType(params[0].Type()) || fr.recv == nil {
		x.undecided("expected a method with a single count")
		return
	}
	st := e.entryState(fr)
	nk := fmt.Sprintf("v%p", params[0])
	const n0 = "n@0"
	e.disp[n0] = params[0].Name() + "@entry"
	st.env[n0] = c05Top()
	st.env[n0].addLo("", 1)
	st.env[nk] = c05Exact(n0, 0)
	st.env[nk].addLo("", 1)
	st.env[n0].addLo(nk, 0)
	st.env[n0].addHi(nk, 0)
	for _, p := range []c05Lin{c05L(c05Row, 1, "ROWS", -1, 1), c05L(c05Col, 1, "COLS", -1, 1)} {
		if st = e.assumeLE0(st, p); st == nil {
			x.undecided("precondition unsatisfiable")
			return
		}
	}
	e.ghostify(st, c05Row, g0Row)
	e.ghostify(st, c05Col, g0Col)
	C0 := c05Atom(g0Col)
	R0 := c05Atom(g0Row)
	RIGHT := c05Atom(c05Right)
	pre := c05L(n0, 1, c05Right, -1, g0Col, 1) // n0 - (right-col0) <= 0
	if mode == "big" {
		pre = pre.neg()
		pre.k += 1 // right-col0+1 - n0 <= 0
	}
	if st = e.assumeLE0(st, pre); st == nil {
		x.undecided("precondition unsatisfiable")
		return
	}
	dir := int64(-1) // ICH: the source of cell c is c - n
	if left {
		dir = 1
	}
	type pathState struct {
		st                *c05State
		sawBlank, sawCopy bool
	}
	paths := []*pathState{{st: st}}
	for _, s := range cf.Decl.Body.List {
		var next []*pathState
		for _, p := range paths {
			switch s.(type) {
			case *ast.ForStmt, *ast.RangeStmt:
				lp := x.loopShape(fr, s)
				if lp == nil || lp.rng != nil {
					x.undecided("column loop header at %s not recognised", x.c.P.Pos(s.Pos()))
					return
				}
				assigned := c06AssignedIn(fr.info, lp.body)
				if assigned[params[0]] || assigned[fr.recv] || assigned[lp.obj] {
					x.undecided("the loop body assigns the count, the terminal's fields or the loop variable")
					return
				}
				b, kind := c06ColShiftLoop(x, fr, lp, p.st, R0, C0, RIGHT, n0, dir, left)
				bad = append(bad, b...)
				switch kind {
				case "copy":
					if p.sawBlank {
						bad = append(bad, "cells are moved after the vacated cells were blanked: blanks are copied")
					}
					p.sawCopy = true
				case "blank":
					p.sawBlank = true
				case "mixed":
					p.sawCopy, p.sawBlank = true, true
				}
				next = append(next, p)
			default:
				outs := x.execStmt(fr, s, p.st, nil)
				// a memmove of cells, copy(line[a:], line[b:]), possibly under a guard: the statement is the phase
				// that moves the cells; the paths of it that move nothing must be those on which nothing has to move
				spanStmt := false
				for _, o := range outs {
					for _, ef := range o.effs {
						if ef.kind == "copySpan" {
							spanStmt = true
						}
					}
				}
				for _, o := range outs {
					sawCopy := p.sawCopy
					if spanStmt {
						b, moved, ok := c06SpanPath(x, o, R0, C0, RIGHT, n0, dir, left)
						if !ok {
							x.undecided("screen effects outside the column loops at %s", x.c.P.Pos(s.Pos()))
							return
						}
						bad = append(bad, b...)
						if moved && p.sawBlank {
							bad = append(bad, "cells are moved after the vacated cells were blanked: blanks are copied")
						}
						sawCopy = true
					} else if len(o.effs) > 0 {
						x.undecided("screen effects outside the column loops at %s", x.c.P.Pos(s.Pos()))
						return
					}
					if o.kind == 3 {
						if !p.sawBlank && !sawCopy {
							bad = append(bad, "returns before touching the line although the cursor is inside the screen")
						}
						continue
					}
					next = append(next, &pathState{st: o.st, sawBlank: p.sawBlank, sawCopy: sawCopy})
				}
			}
		}
		paths = next
		if len(paths) > 32 {
			x.undecided("too many paths")
			return
		}
	}
	for _, p := range paths {
		if !p.sawBlank {
			bad = append(bad, "no loop blanks the vacated cells")
		}
	}
	return c06Dedupe(bad)
}

func c06ColShiftLoop(x *c06X, fr *c05Frame, lp *c06Loop, s0 *c05State, R0, C0, RIGHT c05Lin, n0 string, dir int64, left bool) (bad []string, kind string) {
	e := x.e
	body := x.enter(fr, lp, s0)
	if body == nil {
		return nil, ""
	}
	var W c05Lin
	haveW := false
	for _, o := range x.execList(fr, lp.body.List, body.clone(), nil) {
		for _, ef := range o.effs {
			if !haveW {
				W, haveW = x.resolve(o.st, ef.col, lp.key), true
			}
		}
	}
	if len(x.und) > 0 || !haveW {
		return nil, ""
	}
	if W.t[lp.key] != 1 {
		x.undecided("the column written by the loop at %s is %s, not the loop variable plus a constant offset", x.c.P.Pos(lp.body.Pos()), e.showLin(W))
		return nil, ""
	}
	off := W.addScaled(c05Atom(lp.key), -1)
	C := c05Atom(lp.key).addScaled(off, 1)
	inLo := C0.addScaled(C, -1)    // col0 - C <= 0
	inHi := C.addScaled(RIGHT, -1) // C - right <= 0
	neg1 := func(l c05Lin) c05Lin { n := l.neg(); n.k += 1; return n }
	copies, blanks, outsideCopies := 0, 0, 0
	var skips []*c05State // iterations over a cell of the interval that leave it alone: legitimate when another loop owns the cell
	// a loop that steps by one and always leaves at the first cell beyond the interval never visits the cells further out
	skipBeyond := map[string]bool{}
	for _, side := range []int{-1, 1} {
		if (side == 1) != lp.asc {
			continue
		}
		edge := inHi.clone()
		edge.k -= 1 // C - right - 1
		name := "right of the right margin"
		if side == -1 {
			edge = inLo.clone()
			edge.k -= 1
			name = "left of the cursor"
		}
		sb := body.clone()
		for _, p := range []c05Lin{edge, edge.neg()} {
			if sb != nil {
				sb = e.assumeLE0(sb, p)
			}
		}
		if sb == nil {
			continue
		}
		outs := x.execList(fr, lp.body.List, sb, nil)
		all := len(outs) > 0
		for _, o := range outs {
			if (o.kind != 2 && o.kind != 3) || len(o.effs) > 0 {
				all = false
			}
		}
		if all {
			skipBeyond[name] = true
		}
	}
	regions := []struct {
		name string
		pre  []c05Lin
		in   bool
	}{
		{"inside [cursor column, right margin]", []c05Lin{inLo, inHi}, true},
		{"left of the cursor", []c05Lin{neg1(inLo)}, false},
		{"right of the right margin", []c05Lin{neg1(inHi)}, false},
	}
	for _, rg := range regions {
		if skipBeyond[rg.name] {
			continue
		}
		sb := body.clone()
		for _, p := range rg.pre {
			if sb != nil {
				sb = e.assumeLE0(sb, p)
			}
		}
		if sb == nil {
			continue
		}
		for _, o := range x.execList(fr, lp.body.List, sb, nil) {
			if !rg.in {
				if len(o.effs) > 0 {
					bad = append(bad, "a cell "+rg.name+" is modified")
				}
				continue
			}
			if o.kind == 2 || o.kind == 3 {
				bad = append(bad, "a column loop is left early while cells of the interval remain")
				continue
			}
			if len(o.effs) == 0 {
				skips = append(skips, o.st)
				continue
			}
			if len(o.effs) != 1 {
				bad = append(bad, fmt.Sprintf("a cell of the interval receives %d effects on some path of one loop (exactly one copy or blank expected)", len(o.effs)))
				continue
			}
			ef := o.effs[0]
			if !x.eq(o.st, ef.row.addScaled(R0, -1)) {
				bad = append(bad, "a cell of another row than the cursor row is written")
				continue
			}
			if !x.eq(o.st, x.resolve(o.st, ef.col, lp.key).addScaled(C, -1)) {
				bad = append(bad, "the cell written is not the cell the iteration stands for")
				continue
			}
			far := C.addScaled(c05Atom(n0), dir)
			var inside c05Lin
			if left {
				inside = far.addScaled(RIGHT, -1) // C+n - right <= 0
			} else {
				inside = C0.addScaled(far, -1) // col0 - (C-n) <= 0
			}
			outside := neg1(inside)
			switch ef.kind {
			case "copyCell":
				copies++
				if !x.eq(o.st, ef.srow.addScaled(R0, -1)) {
					bad = append(bad, "a cell is copied from another row")
				} else if !x.eq(o.st, x.resolve(o.st, ef.src, lp.key).addScaled(far, -1)) {
					bad = append(bad, fmt.Sprintf("cell c receives cell %s, not the cell n columns to its %s (n as passed)", e.showLin(ef.src), map[bool]string{true: "right", false: "left"}[left]))
				} else if !e.prove(o.st, inside) {
					// harmless in a loop that only moves cells when a later loop blanks every vacated cell (its coverage is checked)
					outsideCopies++
				}
			case "blankCell", "erase":
				blanks++
				if !e.prove(o.st, outside) {
					bad = append(bad, "a cell is blanked although the cell n columns away is inside [cursor column, right margin]")
				}
			default:
				bad = append(bad, "unexpected effect "+ef.kind)
			}
		}
	}
	switch {
	case copies > 0 && blanks > 0:
		kind = "mixed"
	case copies > 0:
		kind = "copy"
	case blanks > 0:
		kind = "blank"
	default:
		return bad, ""
	}
	if kind == "mixed" && outsideCopies > 0 {
		bad = append(bad, "a cell is copied from outside [cursor column, right margin] (it should be blanked): with a count of at least the cells that remain an old cell survives")
	}
	for _, sk := range skips {
		far := C.addScaled(c05Atom(n0), dir)
		var inside c05Lin
		if left {
			inside = far.addScaled(RIGHT, -1)
		} else {
			inside = C0.addScaled(far, -1)
		}
		switch kind {
		case "copy":
			if !e.prove(sk, neg1(inside)) {
				bad = append(bad, "the loop that moves the cells skips a cell whose source is inside [cursor column, right margin]: the cell keeps its old content")
			}
		case "blank":
			if !e.prove(sk, inside) {
				bad = append(bad, "the loop that blanks the vacated cells skips one of them: an old cell survives")
			}
		default:
			bad = append(bad, "a cell of the interval is neither moved nor blanked by the loop that handles both")
		}
	}
	// order of the copies
	if (kind == "copy" || kind == "mixed") && lp.asc != left {
		bad = append(bad, fmt.Sprintf("cells are visited %s while they move %s, so a cell is overwritten before it has been copied", map[bool]string{true: "left-to-right", false: "right-to-left"}[lp.asc], map[bool]string{true: "left", false: "right"}[left]))
	}
	// coverage
	sFirst := s0.clone()
	e.transfer(fr, sFirst, lp.init)
	si := s0.clone()
	e.transfer(fr, si, lp.init)
	x.generic(si, lp)
	sos := e.assumeAlts(fr, si.clone(), lp.cond, false)
	startsBy := func(first c05Lin) bool {
		d := C.addScaled(first, -1)
		if !lp.asc {
			d = d.neg()
		}
		return e.prove(sFirst, d)
	}
	beyond := func(alts ...c05Lin) bool {
		// in every way the loop condition can fail, one of the alternatives holds
		for _, so := range sos {
			one := false
			for _, a := range alts {
				if e.prove(so, a) {
					one = true
					break
				}
			}
			if !one {
				return false
			}
		}
		return true
	}
	N := c05Atom(n0)
	switch kind {
	case "mixed":
		first, done := C0, neg1(inHi)
		if !lp.asc {
			first, done = RIGHT, neg1(inLo)
		}
		if !startsBy(first) {
			bad = append(bad, "the loop does not start at the first cell of [cursor column, right margin]")
		}
		if !beyond(done) {
			bad = append(bad, "the loop can stop before the last cell of [cursor column, right margin]")
		}
	case "copy":
		var first c05Lin
		var done []c05Lin
		if left { // DCH copies cells with C+n <= right: [col0, right-n]
			first = C0
			done = []c05Lin{neg1(C.addScaled(N, 1).addScaled(RIGHT, -1))} // C+n >= right+1
			if !lp.asc {
				first = RIGHT.addScaled(N, -1)
				done = []c05Lin{neg1(inLo)}
			}
		} else { // ICH copies cells with C-n >= col0: [col0+n, right]
			first = RIGHT
			done = []c05Lin{neg1(C0.addScaled(C.addScaled(N, -1), -1))} // C-n <= col0-1
			if lp.asc {
				first = C0.addScaled(N, 1)
				done = []c05Lin{neg1(inHi)}
			}
		}
		if !startsBy(first) {
			bad = append(bad, "the loop that moves the cells does not start at the far end of the interval")
		}
		if !beyond(done...) {
			bad = append(bad, "the loop that moves the cells can stop while a cell whose source is inside the interval has not been moved")
		}
	case "blank":
		var done []c05Lin
		okStart := false
		if left { // DCH blanks [max(right-n+1, col0), right]
			if lp.asc {
				okStart = startsBy(RIGHT.addScaled(N, -1).addScaled(c05Const(1), 1)) || startsBy(C0)
				done = []c05Lin{neg1(inHi)}
			} else {
				okStart = startsBy(RIGHT)
				done = []c05Lin{RIGHT.addScaled(C.addScaled(N, 1), -1).neg().addScaled(c05Const(0), 1), neg1(inLo)}
				done[0] = C.addScaled(N, 1).addScaled(RIGHT, -1) // C+n <= right
			}
		} else { // ICH blanks [col0, min(col0+n-1, right)]
			if lp.asc {
				okStart = startsBy(C0)
				done = []c05Lin{C0.addScaled(C.addScaled(N, -1), -1), neg1(inHi)} // C-n >= col0, or C >= right+1
			} else {
				okStart = startsBy(C0.addScaled(N, 1).addScaled(c05Const(-1), 1)) || startsBy(RIGHT)
				done = []c05Lin{neg1(inLo)}
			}
		}
		if !okStart {
			bad = append(bad, "the loop that blanks the vacated cells does not start at the first of them")
		}
		if !beyond(done...) {
			bad = append(bad, "the loop that blanks the vacated cells can stop before the last of them: with a count reaching the right margin an old cell survives")
		}
	}
	return bad, kind
}

// copySpanEffect: copy(D[a:hd], S[b:hs]) where D and S are rows of the active screen (directly, or through a row
// alias bound once): the cells D[a .. a+m-1] receive S[b .. b+m-1], m = min(hd-a, hs-b), with memmove semantics
// (every source is read before it is overwritten). Omitted bounds are 0 and the row length.
func (x *c06X) copySpanEffect(fr *c05Frame, call *ast.CallExpr, st *c05State) (c06Eff, bool) {
	e := x.e
	type span struct{ row, lo, hi c05Lin }
	part := func(a ast.Expr) (span, bool) {
		a = unparen(a)
		var lo, hi ast.Expr
		if sx, ok := a.(*ast.SliceExpr); ok {
			if sx.Max != nil {
				return span{}, false
			}
			lo, hi = sx.Low, sx.High
			a = unparen(sx.X)
		}
		if !e.isRow(fr.info.TypeOf(a)) {
			return span{}, false
		}
		rowX := a
		if id, ok := a.(*ast.Ident); ok {
			def := c06AliasDef(fr, id)
			if def == nil {
				return span{}, false
			}
			rowX = unparen(def)
		}
		rix, ok := rowX.(*ast.IndexExpr)
		if !ok || !e.isGrid(fr.info.TypeOf(rix.X)) || e.pathKey(fr, rix.X) != c05Active {
			return span{}, false
		}
		sp := span{row: e.linOf(fr, st, rix.Index), lo: c05Const(0)}
		if lo != nil {
			sp.lo = e.linOf(fr, st, lo)
		}
		if hi != nil {
			sp.hi = e.linOf(fr, st, hi)
		} else {
			sp.hi = e.canon(st, e.lenLin(fr, st, rix))
		}
		return sp, true
	}
	d, ok1 := part(call.Args[0])
	sr, ok2 := part(call.Args[1])
	if !ok1 || !ok2 {
		return c06Eff{}, false
	}
	return c06Eff{kind: "copySpan", row: d.row, col: d.lo, hi: d.hi, srow: sr.row, src: sr.lo, shi: sr.hi, pos: call.Pos()}, true
}

// c06SpanPath judges one path of the statement that moves the cells with a memmove. moved: cells do move on it.
func c06SpanPath(x *c06X, o c06Out, R0, C0, RIGHT c05Lin, n0 string, dir int64, left bool) (bad []string, moved, ok bool) {
	e := x.e
	N := c05Atom(n0)
	le := func(a, b c05Lin) bool { return e.prove(o.st, a.addScaled(b, -1)) } // a <= b
	one := c05Const(1)
	// the cells that must receive another cell of the interval: ICH [col0+n, right], DCH [col0, right-n];
	// there are none exactly when col0+n >= right+1
	noneNeeded := le(RIGHT.addScaled(one, 1), C0.addScaled(N, 1))
	if len(o.effs) > 1 || (len(o.effs) == 1 && o.effs[0].kind != "copySpan") {
		return nil, false, false
	}
	empty := len(o.effs) == 0
	var ef c06Eff
	if !empty {
		ef = o.effs[0]
		if le(ef.hi, ef.col) || le(ef.shi, ef.src) {
			empty = true
		}
	}
	if empty {
		if !noneNeeded {
			bad = append(bad, "the cells are not moved on a path on which a cell's source lies inside [cursor column, right margin]: the cell keeps its old content")
		}
		return bad, false, true
	}
	if !x.eq(o.st, ef.row.addScaled(R0, -1)) {
		return []string{"a cell of another row than the cursor row is written"}, true, true
	}
	if !x.eq(o.st, ef.srow.addScaled(R0, -1)) {
		return []string{"a cell is copied from another row"}, true, true
	}
	if !x.eq(o.st, ef.src.addScaled(ef.col, -1).addScaled(N, -dir)) {
		return []string{fmt.Sprintf("the cells starting at %s receive the cells starting at %s, not the cells n columns to their %s (n as passed)", e.showLin(ef.col), e.showLin(ef.src), map[bool]string{true: "right", false: "left"}[left])}, true, true
	}
	// last cell written: col + min(hi-col, shi-src) - 1
	lastA := ef.hi.addScaled(one, -1)
	lastB := ef.col.addScaled(ef.shi, 1).addScaled(ef.src, -1).addScaled(one, -1)
	if !le(C0, ef.col) {
		bad = append(bad, "a cell left of the cursor is modified")
	}
	if !le(lastA, RIGHT) && !le(lastB, RIGHT) {
		bad = append(bad, "a cell right of the right margin is modified")
	}
	first, last := C0.addScaled(N, 1), RIGHT // ICH
	if left {
		first, last = C0, RIGHT.addScaled(N, -1)
	}
	if !noneNeeded {
		if !le(ef.col, first) {
			bad = append(bad, "the move does not start at the first cell whose source is inside [cursor column, right margin]: the cell keeps its old content")
		}
		if !le(last, lastA) || !le(last, lastB) {
			bad = append(bad, "the move can stop while a cell whose source is inside the interval has not been moved")
		}
	}
	return bad, true, true
}
