package main

// C16.k — the rich scanner's own segmenter cuts where a line may end, and only there.
//
// The rich SoftwrapScanner.Scan treats what its segmenter returns (firstLineSegment: `seg, br`) as one unit: the
// segment's last cell is the only one it ever examines for a line terminator, `br` is the only thing that ends the line
// early, and a segment is kept together or moved to the next line as a whole. For the property that gives conditions on
// the segmenter alone, for every input cells[0..n) and result (cells[:K], br):
//
//	k1 progress      n >= 1  =>  1 <= K <= n, the result is a prefix of the input, no panic   (an empty segment consumes nothing: Scan never ends)
//	k2 hard break    no cell before the last one of the segment ends in a line terminator     (else the terminator stays inside a line and ends none)
//	k3 reported      the segment's last cell ends in a line terminator  =>  br                 (else the next segment is appended to the same line)
//	k4 end of text   K == n  =>  br      (armed only while Scan's segment loop has no test of its own for an empty remainder)
//	k5 boundary      K < n  =>  the cut is after a line terminator or at a break opportunity   (else a run of letters that fits a line is split)
//	k6 first         no break opportunity lies inside the segment                               (else two words are wrapped/split as one)
//
// How it is decided: nothing of /repo is built or run. The function's type-checked AST is evaluated by the checker's own
// evaluator (c18_interp.go) on every text of up to c16kMaxLen graphemes over the alphabet { "a", " ", "\n", "\r\n" },
// which contains a letter, a space and two line terminators — enough to realise every combination of "ends in a line
// terminator" and "break opportunity between neighbours" for adjacent cells. The two uniseg functions the segmenter
// consults are replaced by their definition on that alphabet (UAX #14: LB4/5 break after BK, CR LF, LF; LB6 none before
// them; LB7 none before a space; LB18 break after spaces; LB28 none between letters). The verdict therefore does not depend on
// how the function is written (loop form, hoisted leading test, switch or if chain, helper functions, index or range),
// only on what it returns; a construct the evaluator cannot follow is reported as undecided.

import (
	"fmt"
	"go/ast"
	"go/token"
	"go/types"
	"strconv"
	"strings"
	"unicode"
	"unicode/utf8"
)

func init() { registerExtra("C16", c16Segmenter) }

const c16kMaxLen = 5

var c16kAlphabet = []string{"a", " ", "\n", "\r\n"}

func c16kIsBreak(g string) bool {
	if g == "" {
		return false
	}
	r, _ := utf8.DecodeLastRuneInString(g)
	switch r {
	case '\n', '\r', '\v', '\f', 0x85, 0x2028, 0x2029:
		return true
	}
	return false
}

// c16kTokens splits a string into graphemes of the alphabet; ok=false if it contains anything else.
func c16kTokens(s string) (out []string, ok bool) {
	for len(s) > 0 {
		switch {
		case strings.HasPrefix(s, "\r\n"):
			out, s = append(out, "\r\n"), s[2:]
		case s[0] == 'a' || s[0] == ' ' || s[0] == '\n':
			out, s = append(out, s[:1]), s[1:]
		default:
			return nil, false
		}
	}
	return out, true
}

// c16kOpportunity: may a line be broken between the adjacent graphemes x and y (x not a line terminator)?
func c16kOpportunity(x, y string) bool {
	return x == " " && y == "a"
}

// c16kFirstSegment: number of graphemes in the first line segment of toks (UAX #14 on the alphabet).
func c16kFirstSegment(toks []string) int {
	for j := range toks {
		if c16kIsBreak(toks[j]) || j == len(toks)-1 || c16kOpportunity(toks[j], toks[j+1]) {
			return j + 1
		}
	}
	return 0
}

// c16kExt models the library functions a segmenter consults.
func c16kExt(m *c18Machine, fr *c18Frame, full string, call *ast.CallExpr) (c18Val, bool) {
	str := func(i int) string {
		v := m.eval(fr, call.Args[i])
		if v.k != c18Str {
			m.abort("%s on a string the evaluator does not know", full)
		}
		return v.s
	}
	switch full {
	case "github.com/rivo/uniseg.HasTrailingLineBreakInString":
		return c18BoolV(c16kIsBreak(str(0))), true
	case "github.com/rivo/uniseg.FirstLineSegmentInString":
		s := str(0)
		st := m.eval(fr, call.Args[1])
		if st.k != c18Int || st.i >= 0 {
			m.abort("uniseg.FirstLineSegmentInString continued from a state (only a fresh start, -1, is modelled)")
		}
		toks, ok := c16kTokens(s)
		if !ok || len(toks) == 0 {
			m.abort("uniseg.FirstLineSegmentInString(%q): not a text over the modelled alphabet", s)
		}
		k := c16kFirstSegment(toks)
		must := c16kIsBreak(toks[k-1]) || k == len(toks)
		return c18Val{k: c18Tuple, ref: []c18Val{c18StrV(strings.Join(toks[:k], "")), c18StrV(strings.Join(toks[k:], "")), c18BoolV(must), {}}}, true
	case "unicode/utf8.DecodeLastRuneInString":
		r, n := utf8.DecodeLastRuneInString(str(0))
		return c18Val{k: c18Tuple, ref: []c18Val{c18IntV(int64(r)), c18IntV(int64(n))}}, true
	case "unicode/utf8.DecodeRuneInString":
		r, n := utf8.DecodeRuneInString(str(0))
		return c18Val{k: c18Tuple, ref: []c18Val{c18IntV(int64(r)), c18IntV(int64(n))}}, true
	case "unicode/utf8.RuneCountInString":
		return c18IntV(int64(utf8.RuneCountInString(str(0)))), true
	case "unicode.IsSpace":
		v := m.eval(fr, call.Args[0])
		if v.k != c18Int {
			m.abort("unicode.IsSpace of an unknown rune")
		}
		return c18BoolV(unicode.IsSpace(rune(v.i))), true
	}
	return c18Val{}, false
}

// c16kSegmenter finds the function of vxfw/richtext that the rich Scan calls as `seg, br := f(cells)`.
func c16kSegmenter(c *Ctx) *FuncInfo {
	pk := c.P.Pkg("vxfw/richtext")
	scan := c.P.Func("vxfw/richtext.(*SoftwrapScanner).Scan")
	if pk == nil {
		return nil
	}
	isSeg := func(fn *types.Func) bool {
		if fn == nil || fn.Pkg() != pk.Types {
			return false
		}
		sig, ok := fn.Type().(*types.Signature)
		if !ok || sig.Recv() != nil || sig.Params().Len() != 1 || sig.Results().Len() != 2 {
			return false
		}
		isCells := func(t types.Type) bool {
			sl, ok := t.Underlying().(*types.Slice)
			return ok && c15IsNamed(sl.Elem(), modPath, "Cell")
		}
		b, isB := sig.Results().At(1).Type().Underlying().(*types.Basic)
		return isCells(sig.Params().At(0).Type()) && isCells(sig.Results().At(0).Type()) && isB && b.Kind() == types.Bool
	}
	var found *FuncInfo
	if scan != nil {
		ast.Inspect(scan.Decl.Body, func(n ast.Node) bool {
			if cl, ok := n.(*ast.CallExpr); ok && found == nil {
				if fn := calleeOf(pk.TypesInfo, cl); isSeg(fn) {
					found = c.P.FuncOfObj(fn)
				}
			}
			return found == nil
		})
	}
	if found == nil {
		if fi := c.P.Func("vxfw/richtext.firstLineSegment"); fi != nil && isSeg(fi.Obj) {
			found = fi
		}
	}
	return found
}

// c16kScanTestsEmptyRest: does the rich Scan's segment loop itself compare the length of a remainder with a constant
// (its own end-of-text exit)? Then the segmenter need not report the end of the text (k4 is not armed).
func c16kScanTestsEmptyRest(c *Ctx) bool {
	scan := c.P.Func("vxfw/richtext.(*SoftwrapScanner).Scan")
	if scan == nil {
		return true
	}
	info := scan.Pkg.TypesInfo
	found := false
	ast.Inspect(scan.Decl.Body, func(n ast.Node) bool {
		loop, ok := n.(*ast.ForStmt)
		if !ok || loop.Cond != nil {
			return true
		}
		ast.Inspect(loop.Body, func(m ast.Node) bool {
			be, ok := m.(*ast.BinaryExpr)
			if !ok {
				return true
			}
			switch be.Op {
			case token.EQL, token.NEQ, token.LSS, token.LEQ, token.GTR, token.GEQ:
			default:
				return true
			}
			for _, pr := range [][2]ast.Expr{{be.X, be.Y}, {be.Y, be.X}} {
				cl, ok := unparen(pr[0]).(*ast.CallExpr)
				if !ok || len(cl.Args) != 1 {
					continue
				}
				if id, ok := cl.Fun.(*ast.Ident); !ok || id.Name != "len" {
					continue
				}
				if _, isC := constInt(info, pr[1]); !isC {
					continue
				}
				if sl, ok := info.TypeOf(cl.Args[0]).Underlying().(*types.Slice); ok && c15IsNamed(sl.Elem(), modPath, "Cell") {
					found = true
				}
			}
			return true
		})
		return false
	})
	return found
}

type c16kFail struct {
	input string
	what  string
}

func c16Segmenter(c *Ctx) {
	c.Clauses = append(c.Clauses, "C16.k the rich scanner's segmenter, evaluated on every text of up to 5 graphemes over {letter, space, LF, CR LF}: returns a non-empty prefix, with no line terminator before the segment's last cell, reports a terminator-ended (and the last) segment as a line end, cuts only after a terminator or at a break opportunity and at the first of them")
	c.expect("C16.k", 5)
	fi := c16kSegmenter(c)
	if fi == nil {
		c.undecided("C16.k", "vxfw/richtext/segmenter", 0, "the function the rich Scan obtains `seg, br` from (func([]vaxis.Cell) ([]vaxis.Cell, bool) of this package) was not found")
		return
	}
	name := fi.Name
	sig := fi.Obj.Type().(*types.Signature)
	cellT := sig.Params().At(0).Type().Underlying().(*types.Slice).Elem()
	m := newC18Machine(c.P)
	m.trace = false
	m.ext = c16kExt

	mkCell := func(g string) (c18Val, bool) {
		v := c18Zero(cellT)
		if v.k != c18Struct {
			return v, false
		}
		ch := v.strct().fieldByName("Character")
		if ch == nil || ch.k != c18Struct {
			return v, false
		}
		gf, wf := ch.strct().fieldByName("Grapheme"), ch.strct().fieldByName("Width")
		if gf == nil || wf == nil {
			return v, false
		}
		*gf = c18StrV(g)
		w := int64(1)
		if c16kIsBreak(g) {
			w = 0
		}
		*wf = c18IntV(w)
		return v, true
	}

	rules := []struct{ id, what string }{
		{"k1", "returns a non-empty prefix of its input"},
		{"k2", "no line terminator before the last cell of a segment"},
		{"k3", "a segment whose last cell ends in a line terminator is reported as a line end"},
		{"k4", "the last segment of the text is reported as a line end"},
		{"k5", "a segment ends after a line terminator or at a break opportunity"},
		{"k6", "a segment ends at the first break opportunity"},
	}
	fails := map[string]*c16kFail{}
	fail := func(id, input, format string, a ...any) {
		if fails[id] == nil {
			fails[id] = &c16kFail{input, fmt.Sprintf(format, a...)}
		}
	}
	armK4 := !c16kScanTestsEmptyRest(c)
	undecided := ""
	runs := 0

	var texts [][]string
	var gen func(cur []string, n int)
	gen = func(cur []string, n int) {
		if len(cur) == n {
			texts = append(texts, append([]string{}, cur...))
			return
		}
		for _, g := range c16kAlphabet {
			gen(append(cur, g), n)
		}
	}
	for n := 0; n <= c16kMaxLen; n++ {
		gen(nil, n)
	}
	for _, toks := range texts {
		n := len(toks)
		input := strconv.Quote(strings.Join(toks, ""))
		// the input is a window of a longer array, as s.rest is after the first line
		arr := make([]c18Val, n+2)
		okCells := true
		for i := range arr {
			g := "a"
			if i >= 1 && i <= n {
				g = toks[i-1]
			}
			v, ok := mkCell(g)
			okCells = okCells && ok
			arr[i] = v
		}
		if !okCells {
			c.undecided("C16.k", name+"/cells", fi.Decl.Pos(), "vaxis.Cell does not embed a Character with Grapheme and Width")
			return
		}
		in := c18Val{k: c18Slice, ref: &c18SliceV{arr: &arr, lo: 1, hi: 1 + n}}
		var ret []c18Val
		pmsg, amsg := m.protect(func() { ret = m.callFunc(fi, nil, []c18Val{in}, false) })
		runs++
		if amsg != "" {
			undecided = "on input " + input + ": " + amsg
			break
		}
		if pmsg != "" {
			fail("k1", input, "panics (%s)", pmsg)
			continue
		}
		if len(ret) != 2 || ret[1].k != c18Bool {
			undecided = "on input " + input + ": the results are not a cell slice and a known boolean"
			break
		}
		br := ret[1].b
		K := 0
		switch ret[0].k {
		case c18Slice:
			sl := ret[0].slice()
			K = sl.hi - sl.lo
			if K > 0 && (sl.arr != &arr || sl.lo != 1) {
				fail("k1", input, "returns cells that are not the front of its input")
				continue
			}
		case c18Nil:
		default:
			undecided = "on input " + input + ": the first result is not a slice the evaluator knows"
		}
		if undecided != "" {
			break
		}
		got := fmt.Sprintf("returns the first %d of %d cells, br=%v", K, n, br)
		if n == 0 {
			continue
		}
		if K < 1 || K > n {
			fail("k1", input, "%s: an empty segment consumes nothing, so Scan reads the same input for ever", got)
			continue
		}
		for j := 0; j < K-1; j++ {
			if c16kIsBreak(toks[j]) {
				fail("k2", input, "%s: cell %d (%q) ends in a line terminator but is not the last cell of the segment — Scan strips only the last cell, so the terminator stays inside the emitted line and one line end is lost", got, j, toks[j])
				break
			}
		}
		if c16kIsBreak(toks[K-1]) && !br {
			fail("k3", input, "%s: the segment ends in the line terminator %q but is not reported as a line end — Scan appends the next segment to the same line", got, toks[K-1])
		}
		if K == n && !br {
			fail("k4", input, "%s: the text is used up but no line end is reported — Scan's segment loop has no other exit and goes round for ever on the empty remainder", got)
		}
		if K < n && !c16kIsBreak(toks[K-1]) && !c16kOpportunity(toks[K-1], toks[K]) {
			fail("k5", input, "%s: the cut between %q and %q is neither after a line terminator nor at a break opportunity — a run of letters (or a word and its trailing space) is split although it fits on a line", got, toks[K-1], toks[K])
		}
		for j := 0; j+1 < K; j++ {
			if !c16kIsBreak(toks[j]) && c16kOpportunity(toks[j], toks[j+1]) {
				fail("k6", input, "%s: there is a break opportunity after cell %d, inside the segment — the two words are wrapped (and, when too long, split per grapheme) as one", got, j)
				break
			}
		}
	}
	if undecided != "" {
		c.undecided("C16.k", name+"/evaluation", fi.Decl.Pos(), "the segmenter could not be evaluated %s", undecided)
		return
	}
	for _, r := range rules {
		key := name + "/" + r.id + " " + r.what
		if r.id == "k4" && !armK4 {
			if fails["k4"] == nil {
				c.ok("C16.k", key, fi.Decl.Pos(), "holds on all %d texts (not required: Scan tests for an empty remainder itself)", runs)
			}
			continue
		}
		if f := fails[r.id]; f != nil {
			c.bad("C16.k", key, fi.Decl.Pos(), "on the cells of %s the segmenter %s", f.input, f.what)
		} else {
			c.ok("C16.k", key, fi.Decl.Pos(), "holds on all %d texts of up to %d graphemes over {\"a\", \" \", \"\\n\", \"\\r\\n\"}", runs, c16kMaxLen)
		}
	}
}
