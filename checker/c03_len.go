package main

// c03_len.go — engine E7: a forward dataflow over go/cfg that tracks, per access
// path, an interval for the LENGTH of a slice/string value, and discharges every
// index / slice expression against the proven lower bound.
//
//   * facts come only from the code: len(p) ⋈ k (six operators, both polarities,
//     both operand orders, `switch len(p) { case k: }`), strings.HasPrefix/
//     HasSuffix/Contains(string(p), lit), p == "lit", p == nil, strings.Split with
//     a non-empty constant separator (len >= 1), composite literals, append,
//     constant re-slicing, `for … range p` (len >= 1 inside the body);
//   * `&&` / `||` are evaluated with short-circuit semantics: the right operand is
//     visited under the facts of the left one (go/cfg keeps them in ONE node);
//   * facts die on assignment to the path or a prefix, on a store through any
//     index expression (element facts), and — for paths reached through a
//     pointer and element facts — on any call into repository code;
//   * join = interval hull, keys present on both sides only; widening after 10
//     visits of a block.
//
// Element invariant: an element of ansi.CSI.Parameters has length >= 1. It is
// not assumed blindly: every writer of that field in packages ansi and vaxis is
// an obligation of rule C03.h (same engine: the appended value must have a
// proven length >= 1 at the append).

import (
	"fmt"
	"go/ast"
	"go/constant"
	"go/token"
	"go/types"
	"sort"
	"strings"
	"unicode/utf8"

	"golang.org/x/tools/go/cfg"
	"golang.org/x/tools/go/packages"
)

const c03Inf = int64(1) << 40

type c03Iv struct{ lo, hi int64 }

var c03Top = c03Iv{0, c03Inf}

func (v c03Iv) String() string {
	if v.hi >= c03Inf {
		return fmt.Sprintf("len >= %d", v.lo)
	}
	if v.lo == v.hi {
		return fmt.Sprintf("len == %d", v.lo)
	}
	return fmt.Sprintf("%d <= len <= %d", v.lo, v.hi)
}

func c03Meet(a, b c03Iv) c03Iv {
	if b.lo > a.lo {
		a.lo = b.lo
	}
	if b.hi < a.hi {
		a.hi = b.hi
	}
	return a
}

type c03St struct {
	bot bool
	m   map[string]c03Iv
}

func c03NewSt() c03St { return c03St{m: map[string]c03Iv{}} }
func c03Bot() c03St   { return c03St{bot: true} }

func (s c03St) clone() c03St {
	if s.bot {
		return s
	}
	n := c03NewSt()
	for k, v := range s.m {
		n.m[k] = v
	}
	return n
}

func c03Join(a, b c03St, widen bool) c03St {
	if a.bot {
		return b.clone()
	}
	if b.bot {
		return a.clone()
	}
	n := c03NewSt()
	for k, va := range a.m {
		vb, ok := b.m[k]
		if !ok {
			continue
		}
		h := c03Iv{va.lo, va.hi}
		if vb.lo < h.lo {
			h.lo = vb.lo
		}
		if vb.hi > h.hi {
			h.hi = vb.hi
		}
		if widen && va != vb {
			h.hi = c03Inf
		}
		if h != c03Top {
			n.m[k] = h
		}
	}
	return n
}

func c03Equal(a, b c03St) bool {
	if a.bot != b.bot {
		return false
	}
	if len(a.m) != len(b.m) {
		return false
	}
	for k, v := range a.m {
		if w, ok := b.m[k]; !ok || w != v {
			return false
		}
	}
	return true
}

// c03Len is one run of the engine over one function body.
type c03Len struct {
	c    *Ctx
	fn   string
	pk   *packages.Package
	info *types.Info
	g    *FG
	par  map[ast.Node]ast.Node
	body *ast.BlockStmt

	csiParams *types.Var // field ansi.CSI.Parameters (element invariant), may be nil

	untracked map[types.Object]bool
	assignCnt map[types.Object]int
	rangeVal  map[types.Object]*ast.RangeStmt
	rangeKey  map[types.Object]*ast.RangeStmt
	killable  map[string]bool
	defs      map[types.Object]ast.Expr

	in map[*cfg.Block]c03St

	record      bool
	wantIndex   bool
	wantWriters bool
	cur         Loc
	ctxOf       func(n ast.Node) string
	NIndex      int
	entry       *c03St                             // facts about the parameters established at every call site (nil: none)
	onCall      func(call *ast.CallExpr, st c03St) // record pass: every call expression with the state in force
	NWriters    int
	localLists  map[types.Object]bool // locals that carry a CSI.Parameters list under construction (computed on demand)
}

func newC03Len(c *Ctx, pk *packages.Package, name string, body *ast.BlockStmt, g *FG, csiParams *types.Var) *c03Len {
	a := &c03Len{c: c, fn: name, pk: pk, info: pk.TypesInfo, g: g, par: c.P.Parents(pk), body: body, csiParams: csiParams,
		untracked: map[types.Object]bool{}, assignCnt: map[types.Object]int{}, rangeVal: map[types.Object]*ast.RangeStmt{},
		rangeKey: map[types.Object]*ast.RangeStmt{}, killable: map[string]bool{}, defs: map[types.Object]ast.Expr{}, in: map[*cfg.Block]c03St{}}
	a.prepass()
	return a
}

func (a *c03Len) prepass() {
	depth := 0
	var walk func(n ast.Node)
	mark := func(e ast.Expr) {
		if o := rootObj(a.info, e); o != nil {
			a.assignCnt[o]++
			if depth > 0 {
				a.untracked[o] = true
			}
		}
	}
	walk = func(root ast.Node) {
		ast.Inspect(root, func(n ast.Node) bool {
			switch t := n.(type) {
			case *ast.FuncLit:
				if n != root {
					depth++
					walk(t.Body)
					depth--
					return false
				}
			case *ast.AssignStmt:
				for _, l := range t.Lhs {
					if id, ok := l.(*ast.Ident); ok && t.Tok == token.DEFINE && a.info.Defs[id] != nil {
						if len(t.Lhs) == len(t.Rhs) && depth == 0 {
							for i2, l2 := range t.Lhs {
								if l2 == l {
									a.defs[a.info.Defs[id]] = t.Rhs[i2]
								}
							}
						}
						continue // fresh definition
					}
					mark(l)
				}
			case *ast.IncDecStmt:
				mark(t.X)
			case *ast.RangeStmt:
				for i, l := range []ast.Expr{t.Key, t.Value} {
					if l == nil {
						continue
					}
					id, ok := l.(*ast.Ident)
					if ok && t.Tok == token.DEFINE && a.info.Defs[id] != nil {
						if i == 0 {
							a.rangeKey[a.info.Defs[id]] = t
						} else {
							a.rangeVal[a.info.Defs[id]] = t
						}
						continue
					}
					mark(l)
				}
			case *ast.UnaryExpr:
				if t.Op == token.AND {
					if _, isLit := unparen(t.X).(*ast.CompositeLit); !isLit {
						if o := rootObj(a.info, t.X); o != nil {
							a.untracked[o] = true
						}
					}
				}
			}
			return true
		})
	}
	walk(a.body)
}

// pathKey canonicalises e as an access path; ok=false for anything else.
func (a *c03Len) pathKey(e ast.Expr) (string, bool) {
	e = unparen(e)
	switch e.(type) {
	case *ast.Ident, *ast.SelectorExpr, *ast.IndexExpr, *ast.StarExpr:
	default:
		return "", false
	}
	t := termOf(a.info, e)
	if strings.HasPrefix(t.ID, "expr:") || t.ID == "" {
		return "", false
	}
	root := rootObj(a.info, e)
	if root == nil || a.untracked[root] {
		return "", false
	}
	if _, isVar := root.(*types.Var); !isVar {
		return "", false
	}
	if strings.Contains(t.ID, "[") || a.viaPtr(e, root) {
		a.killable[t.ID] = true
	}
	return t.ID, true
}

func (a *c03Len) viaPtr(e ast.Expr, root types.Object) bool {
	if root.Parent() == root.Pkg().Scope() {
		return true
	}
	for {
		switch t := e.(type) {
		case *ast.ParenExpr:
			e = t.X
		case *ast.StarExpr:
			return true
		case *ast.SelectorExpr:
			if s, ok := a.info.Selections[t]; ok && s.Indirect() {
				return true
			}
			if _, isPtr := a.info.TypeOf(t.X).Underlying().(*types.Pointer); isPtr {
				return true
			}
			e = t.X
		case *ast.IndexExpr:
			e = t.X
		default:
			return false
		}
	}
}

func (a *c03Len) selectsCSIParams(e ast.Expr) bool {
	if a.csiParams == nil {
		return false
	}
	sel, ok := unparen(e).(*ast.SelectorExpr)
	if !ok {
		return false
	}
	s, ok := a.info.Selections[sel]
	return ok && s.Obj() == a.csiParams
}

// singleDef: the defining expression of a local that is defined once (`x := e`) and never assigned again.
func (a *c03Len) singleDef(e ast.Expr) ast.Expr {
	id, ok := unparen(e).(*ast.Ident)
	if !ok {
		return nil
	}
	o := a.info.ObjectOf(id)
	if o == nil || a.assignCnt[o] != 0 || a.untracked[o] {
		return nil
	}
	return a.defs[o]
}

// isCSIList: e denotes a CSI.Parameters list (the field, or a never-reassigned local copy of it).
func (a *c03Len) isCSIList(e ast.Expr) bool {
	if a.selectsCSIParams(e) {
		return true
	}
	if a.isLocalList(e) {
		return true
	}
	if d := a.singleDef(e); d != nil {
		return a.selectsCSIParams(d)
	}
	return false
}

// isLocalList: e is a local variable in which a CSI.Parameters list is being built: it has the type of the field, its
// value reaches a write of CSI.Parameters (directly, through append / re-slicing, or through another such local), and
// every one of its uses is one the writer rule follows: assignment to it, append(L, …), len/cap(L), range L, L[i],
// L[a:b], and the copy into CSI.Parameters / another such local. Every assignment to such a local is an obligation of
// rule C03.h exactly like a write of the field itself (the element invariant is carried by the local by induction).
func (a *c03Len) isLocalList(e ast.Expr) bool {
	id, ok := unparen(e).(*ast.Ident)
	if !ok || a.csiParams == nil {
		return false
	}
	if a.localLists == nil {
		a.findLocalLists()
	}
	return a.localLists[a.info.ObjectOf(id)]
}

// listSource: the list expression whose elements the value of rhs consists of (besides appended ones):
// L, L[a:b], append(L, …) -> L.
func (a *c03Len) listSource(rhs ast.Expr) ast.Expr {
	rhs = unparen(rhs)
	switch t := rhs.(type) {
	case *ast.SliceExpr:
		return a.listSource(t.X)
	case *ast.CallExpr:
		if id, ok := unparen(t.Fun).(*ast.Ident); ok && len(t.Args) >= 1 {
			if b, ok := a.info.Uses[id].(*types.Builtin); ok && b.Name() == "append" {
				return a.listSource(t.Args[0])
			}
		}
	}
	return rhs
}

func (a *c03Len) findLocalLists() {
	a.localLists = map[types.Object]bool{}
	cand := map[types.Object]bool{}
	inspectNoLit(a.body, func(n ast.Node) bool {
		if id, ok := n.(*ast.Ident); ok {
			if v, ok := a.info.Defs[id].(*types.Var); ok && !v.IsField() && types.Identical(v.Type(), a.csiParams.Type()) {
				cand[v] = true
			}
		}
		return true
	})
	if len(cand) == 0 {
		return
	}
	// flows[o]: the targets the value of o is copied into
	type target struct {
		field bool
		obj   types.Object
	}
	flows := map[types.Object][]target{}
	flow := func(lhs, rhs ast.Expr) {
		src, ok := a.listSource(rhs).(*ast.Ident)
		if !ok {
			return
		}
		o := a.info.ObjectOf(src)
		if !cand[o] {
			return
		}
		lhs = unparen(lhs)
		if a.selectsCSIParams(lhs) {
			flows[o] = append(flows[o], target{field: true})
		} else if lid, ok := lhs.(*ast.Ident); ok {
			flows[o] = append(flows[o], target{obj: a.info.ObjectOf(lid)})
		}
	}
	ast.Inspect(a.body, func(n ast.Node) bool {
		switch t := n.(type) {
		case *ast.AssignStmt:
			if len(t.Lhs) == len(t.Rhs) {
				for i := range t.Lhs {
					flow(t.Lhs[i], t.Rhs[i])
				}
			}
		case *ast.ValueSpec:
			if len(t.Names) == len(t.Values) {
				for i := range t.Names {
					flow(t.Names[i], t.Values[i])
				}
			}
		case *ast.KeyValueExpr:
			if id, ok := t.Key.(*ast.Ident); ok && a.info.ObjectOf(id) == types.Object(a.csiParams) {
				if src, ok := a.listSource(t.Value).(*ast.Ident); ok && cand[a.info.ObjectOf(src)] {
					flows[a.info.ObjectOf(src)] = append(flows[a.info.ObjectOf(src)], target{field: true})
				}
			}
		}
		return true
	})
	// every use is a followed one
	usesOK := func(o types.Object) bool {
		if a.untracked[o] {
			return false
		}
		good := true
		ast.Inspect(a.body, func(n ast.Node) bool {
			id, ok := n.(*ast.Ident)
			if !ok || !good {
				return good
			}
			if a.info.Uses[id] != o {
				return true
			}
			var cur ast.Node = id
			p := a.par[cur]
			for {
				if pe, ok := p.(*ast.ParenExpr); ok {
					cur, p = pe, a.par[pe]
					continue
				}
				break
			}
			switch t := p.(type) {
			case *ast.AssignStmt:
				if len(t.Lhs) != len(t.Rhs) {
					good = false
					return false
				}
				for i, l := range t.Lhs {
					if l == cur && t.Tok != token.ASSIGN && t.Tok != token.DEFINE {
						good = false
					}
					if t.Rhs[i] == cur {
						// plain copy: only into the field or another candidate
						tl := unparen(t.Lhs[i])
						lid, isID := tl.(*ast.Ident)
						if !a.selectsCSIParams(tl) && !(isID && cand[a.info.ObjectOf(lid)]) {
							good = false
						}
					}
				}
			case *ast.ValueSpec:
				for i, v := range t.Values {
					if v == cur && !(i < len(t.Names) && cand[a.info.ObjectOf(t.Names[i])]) {
						good = false
					}
				}
			case *ast.CallExpr:
				fid, isID := unparen(t.Fun).(*ast.Ident)
				var bi *types.Builtin
				if isID {
					bi, _ = a.info.Uses[fid].(*types.Builtin)
				}
				switch {
				case bi != nil && (bi.Name() == "len" || bi.Name() == "cap"):
				case bi != nil && bi.Name() == "append" && len(t.Args) >= 1 && t.Args[0] == cur && !t.Ellipsis.IsValid():
					// the appended-to list; the result must itself be assigned to a followed place (checked where it is written)
					switch up := a.par[t].(type) {
					case *ast.AssignStmt, *ast.ValueSpec, *ast.KeyValueExpr:
						_ = up
					default:
						good = false
					}
				default:
					good = false
				}
			case *ast.RangeStmt:
				if t.X != cur {
					good = false
				}
			case *ast.IndexExpr:
				if t.X != cur {
					good = false
					break
				}
				// L[i] read, or L[i] = v (an obligation of its own); not &L[i], not L[i] = append(L[i], …) in place …
				switch up := a.par[t].(type) {
				case *ast.UnaryExpr:
					if up.Op == token.AND {
						good = false
					}
				case *ast.IncDecStmt:
					good = false
				case *ast.AssignStmt:
					for _, l := range up.Lhs {
						if l == ast.Expr(t) && up.Tok != token.ASSIGN {
							good = false
						}
					}
				case *ast.IndexExpr:
					// L[i][j]: a read is harmless; a store through it cannot shorten the element
				}
			case *ast.SliceExpr:
				if t.X != cur {
					good = false
					break
				}
				switch a.par[t].(type) {
				case *ast.AssignStmt, *ast.ValueSpec, *ast.KeyValueExpr, *ast.CallExpr:
				default:
					good = false
				}
				if ce, ok := a.par[t].(*ast.CallExpr); ok {
					fid, isID := unparen(ce.Fun).(*ast.Ident)
					bi, _ := a.info.Uses[fid].(*types.Builtin)
					if !isID || bi == nil || !(bi.Name() == "len" || bi.Name() == "cap" || (bi.Name() == "append" && ce.Args[0] == ast.Expr(t))) {
						good = false
					}
				}
			case *ast.KeyValueExpr:
				kid, isID := t.Key.(*ast.Ident)
				if !(isID && t.Value == cur && a.info.ObjectOf(kid) == types.Object(a.csiParams)) {
					good = false
				}
			default:
				good = false
			}
			return good
		})
		return good
	}
	// reaches the field
	feeds := map[types.Object]bool{}
	for changed := true; changed; {
		changed = false
		for o := range cand {
			if feeds[o] {
				continue
			}
			for _, t := range flows[o] {
				if t.field || feeds[t.obj] {
					feeds[o] = true
					changed = true
				}
			}
		}
	}
	for o := range feeds {
		if usesOK(o) {
			a.localLists[o] = true
		}
	}
	// a list fed by a local that is not followed cannot be followed either: the writer rule then reports the write of
	// the field / the followed local from an unknown source (undecided), which is what it did before
}

// isCSIElem: e denotes an element of some CSI.Parameters list.
func (a *c03Len) isCSIElem(e ast.Expr) bool {
	e = unparen(e)
	switch t := e.(type) {
	case *ast.IndexExpr:
		return a.isCSIList(t.X)
	case *ast.Ident:
		o := a.info.ObjectOf(t)
		if rs, ok := a.rangeVal[o]; ok && a.assignCnt[o] == 0 && !a.untracked[o] {
			return a.isCSIList(rs.X)
		}
		if d := a.singleDef(t); d != nil {
			if ix, ok := unparen(d).(*ast.IndexExpr); ok {
				return a.isCSIList(ix.X)
			}
		}
	}
	return false
}

func c03SeqLike(t types.Type) (kind string, n int64) {
	if t == nil {
		return "", 0
	}
	u := t.Underlying()
	if p, ok := u.(*types.Pointer); ok {
		if arr, ok := p.Elem().Underlying().(*types.Array); ok {
			return "array", arr.Len()
		}
		return "", 0
	}
	switch x := u.(type) {
	case *types.Slice:
		return "slice", 0
	case *types.Array:
		return "array", x.Len()
	case *types.Basic:
		if x.Info()&types.IsString != 0 {
			return "string", 0
		}
	}
	return "", 0
}

// lenOf: interval of len(e) in state st.
func (a *c03Len) lenOf(st c03St, e ast.Expr) c03Iv {
	e = unparen(e)
	if tv, ok := a.info.Types[e]; ok && tv.Value != nil && tv.Value.Kind() == constant.String {
		n := int64(len(constant.StringVal(tv.Value)))
		return c03Iv{n, n}
	}
	if kind, n := c03SeqLike(a.info.TypeOf(e)); kind == "array" {
		return c03Iv{n, n}
	}
	switch t := e.(type) {
	case *ast.CompositeLit:
		for _, el := range t.Elts {
			if _, kv := el.(*ast.KeyValueExpr); kv {
				return c03Top
			}
		}
		n := int64(len(t.Elts))
		return c03Iv{n, n}
	case *ast.CallExpr:
		if id, ok := unparen(t.Fun).(*ast.Ident); ok {
			if b, ok := a.info.Uses[id].(*types.Builtin); ok && b.Name() == "append" && len(t.Args) >= 1 {
				base := a.lenOf(st, t.Args[0])
				if t.Ellipsis.IsValid() {
					return c03Iv{base.lo, c03Inf}
				}
				n := int64(len(t.Args) - 1)
				hi := base.hi + n
				if base.hi >= c03Inf {
					hi = c03Inf
				}
				return c03Iv{base.lo + n, hi}
			}
		}
		if fn := calleeOf(a.info, t); fn != nil && fullName(fn) == "strings.Split" && len(t.Args) == 2 {
			if s, ok := constString(a.info, t.Args[1]); ok && s != "" {
				return c03Iv{1, c03Inf}
			}
		}
		return c03Top
	case *ast.SliceExpr:
		base := a.lenOf(st, t.X)
		lo := int64(0)
		if t.Low != nil {
			v, ok := constInt(a.info, t.Low)
			if !ok {
				return c03Top
			}
			lo = v
		}
		if t.High != nil {
			v, ok := constInt(a.info, t.High)
			if !ok {
				return c03Top
			}
			return c03Iv{v - lo, v - lo}
		}
		r := c03Iv{base.lo - lo, base.hi - lo}
		if base.hi >= c03Inf {
			r.hi = c03Inf
		}
		if r.lo < 0 {
			r.lo = 0
		}
		return r
	}
	iv := c03Top
	if a.isCSIElem(e) {
		iv.lo = 1
	}
	if key, ok := a.pathKey(e); ok && !st.bot {
		if v, ok := st.m[key]; ok {
			iv = c03Meet(iv, v)
		}
	}
	return iv
}

// set stores iv for path e (meet with the default), returning bot when empty.
func (a *c03Len) set(st c03St, e ast.Expr, iv c03Iv) c03St {
	if st.bot {
		return st
	}
	if iv.lo > iv.hi {
		return c03Bot()
	}
	key, ok := a.pathKey(e)
	if !ok {
		return st
	}
	st.m[key] = iv
	return st
}

func (a *c03Len) kill(st c03St, lhs ast.Expr) {
	if st.bot {
		return
	}
	lhs = unparen(lhs)
	if id, ok := lhs.(*ast.Ident); ok && id.Name == "_" {
		return
	}
	t := termOf(a.info, lhs)
	if strings.HasPrefix(t.ID, "expr:") || t.ID == "" {
		for k := range st.m {
			delete(st.m, k)
		}
		return
	}
	for k := range st.m {
		if k == t.ID || strings.HasPrefix(k, t.ID+".") || strings.HasPrefix(k, t.ID+"[") {
			delete(st.m, k)
		}
	}
	if _, isIdx := lhs.(*ast.IndexExpr); isIdx {
		for k := range st.m {
			if strings.Contains(k, "[") {
				delete(st.m, k)
			}
		}
	}
}

// lenOperand: e is len(<path>) -> the path expression.
func (a *c03Len) lenOperand(e ast.Expr) (ast.Expr, bool) {
	if d := a.singleDef(e); d != nil {
		// n := len(p) … n ⋈ k : same as len(p) ⋈ k as long as p is never assigned in this function
		if p, ok := a.lenOperand(d); ok {
			if _, isIdent := unparen(d).(*ast.Ident); !isIdent {
				if key, ok := a.pathKey(p); ok && !a.bodyAssigns(a.body, key) {
					return p, true
				}
			}
		}
		return nil, false
	}
	call, ok := unparen(e).(*ast.CallExpr)
	if !ok || len(call.Args) != 1 {
		return nil, false
	}
	id, ok := unparen(call.Fun).(*ast.Ident)
	if !ok {
		return nil, false
	}
	if b, ok := a.info.Uses[id].(*types.Builtin); !ok || b.Name() != "len" {
		return nil, false
	}
	if _, ok := a.pathKey(call.Args[0]); !ok {
		return nil, false
	}
	return call.Args[0], true
}

func flipOp(op token.Token) token.Token {
	switch op {
	case token.LSS:
		return token.GTR
	case token.GTR:
		return token.LSS
	case token.LEQ:
		return token.GEQ
	case token.GEQ:
		return token.LEQ
	}
	return op
}

func (a *c03Len) applyCmp(st c03St, path ast.Expr, op token.Token, k int64) c03St {
	if st.bot {
		return st
	}
	iv := a.lenOf(st, path)
	switch op {
	case token.EQL:
		iv = c03Meet(iv, c03Iv{k, k})
	case token.NEQ:
		if iv.lo == k {
			iv.lo++
		}
		if iv.hi == k {
			iv.hi--
		}
	case token.LSS:
		iv = c03Meet(iv, c03Iv{0, k - 1})
	case token.LEQ:
		iv = c03Meet(iv, c03Iv{0, k})
	case token.GTR:
		iv = c03Meet(iv, c03Iv{k + 1, c03Inf})
	case token.GEQ:
		iv = c03Meet(iv, c03Iv{k, c03Inf})
	}
	st = st.clone()
	return a.set(st, path, iv)
}

// strOperand: e is a string-valued view of a path: the path itself (string type) or string(path)
// for []byte / []rune; unit is "byte" or "rune" (how many elements one byte of an ASCII literal is).
func (a *c03Len) strOperand(e ast.Expr) (ast.Expr, string, bool) {
	e = unparen(e)
	if call, ok := e.(*ast.CallExpr); ok && len(call.Args) == 1 {
		if tv, ok := a.info.Types[call.Fun]; ok && tv.IsType() {
			if kind, _ := c03SeqLike(tv.Type); kind == "string" {
				inner := call.Args[0]
				if sl, ok := a.info.TypeOf(inner).Underlying().(*types.Slice); ok {
					if b, ok := sl.Elem().Underlying().(*types.Basic); ok {
						if _, ok := a.pathKey(inner); ok {
							switch b.Kind() {
							case types.Uint8:
								return inner, "byte", true
							case types.Int32:
								return inner, "rune", true
							}
						}
					}
				}
				if kind, _ := c03SeqLike(a.info.TypeOf(inner)); kind == "string" {
					return a.strOperand(inner)
				}
			}
		}
		return nil, "", false
	}
	if kind, _ := c03SeqLike(a.info.TypeOf(e)); kind == "string" {
		if _, ok := a.pathKey(e); ok {
			return e, "byte", true
		}
	}
	return nil, "", false
}

func c03LitLen(s, unit string) (int64, bool) {
	if unit == "rune" {
		if !utf8.ValidString(s) {
			return 0, false
		}
		return int64(utf8.RuneCountInString(s)), true
	}
	return int64(len(s)), true
}

// refine returns the state in which e has truth value pol.
func (a *c03Len) refine(st c03St, e ast.Expr, pol bool) c03St {
	if st.bot {
		return st
	}
	e = unparen(e)
	if tv, ok := a.info.Types[e]; ok && tv.Value != nil && tv.Value.Kind() == constant.Bool {
		if constant.BoolVal(tv.Value) != pol {
			return c03Bot()
		}
		return st
	}
	switch t := e.(type) {
	case *ast.UnaryExpr:
		if t.Op == token.NOT {
			return a.refine(st, t.X, !pol)
		}
	case *ast.BinaryExpr:
		switch t.Op {
		case token.LAND:
			if pol {
				return a.refine(a.refine(st, t.X, true), t.Y, true)
			}
			return c03Join(a.refine(st, t.X, false), a.refine(a.refine(st, t.X, true), t.Y, false), false)
		case token.LOR:
			if !pol {
				return a.refine(a.refine(st, t.X, false), t.Y, false)
			}
			return c03Join(a.refine(st, t.X, true), a.refine(a.refine(st, t.X, false), t.Y, true), false)
		case token.EQL, token.NEQ, token.LSS, token.LEQ, token.GTR, token.GEQ:
			op := t.Op
			if !pol {
				op = negOp(op)
			}
			if p, ok := a.lenOperand(t.X); ok {
				if k, ok := constInt(a.info, t.Y); ok {
					return a.applyCmp(st, p, op, k)
				}
			}
			if p, ok := a.lenOperand(t.Y); ok {
				if k, ok := constInt(a.info, t.X); ok {
					return a.applyCmp(st, p, flipOp(op), k)
				}
			}
			if op == token.EQL {
				for _, pr := range [][2]ast.Expr{{t.X, t.Y}, {t.Y, t.X}} {
					if isNilExpr(a.info, unparen(pr[1])) {
						if kind, _ := c03SeqLike(a.info.TypeOf(pr[0])); kind == "slice" {
							if _, ok := a.pathKey(pr[0]); ok {
								return a.applyCmp(st, pr[0], token.EQL, 0)
							}
						}
					}
					if s, ok := constString(a.info, pr[1]); ok {
						if p, unit, ok := a.strOperand(pr[0]); ok {
							if n, ok := c03LitLen(s, unit); ok {
								return a.applyCmp(st, p, token.EQL, n)
							}
						}
					}
				}
			}
		}
	case *ast.CallExpr:
		if fn := calleeOf(a.info, t); fn != nil && pol && len(t.Args) == 2 {
			switch fullName(fn) {
			case "strings.HasPrefix", "strings.HasSuffix", "strings.Contains":
				if s, ok := constString(a.info, t.Args[1]); ok {
					if p, unit, ok := a.strOperand(t.Args[0]); ok {
						if n, ok := c03LitLen(s, unit); ok {
							return a.applyCmp(st, p, token.GEQ, n)
						}
					}
				}
			}
		}
	}
	return st
}

func (a *c03Len) refineCond(st c03St, cd *Cond, pol bool) c03St {
	if st.bot || cd == nil {
		return st
	}
	if cd.Tag != nil {
		if p, ok := a.lenOperand(cd.Tag); ok {
			if k, ok := constInt(a.info, cd.Expr); ok {
				op := token.EQL
				if !pol {
					op = token.NEQ
				}
				return a.applyCmp(st, p, op, k)
			}
		}
		return st
	}
	return a.refine(st, cd.Expr, pol)
}

// impure: the node contains a call that may run repository code (or an unknown function value).
func (a *c03Len) impure(n ast.Node) bool {
	found := false
	inspectNoLit(n, func(m ast.Node) bool {
		if _, isRange := m.(*ast.RangeStmt); isRange && m != n {
			return false
		}
		call, ok := m.(*ast.CallExpr)
		if !ok || found {
			return !found
		}
		if tv, ok := a.info.Types[call.Fun]; ok && tv.IsType() {
			return true
		}
		if id, ok := unparen(call.Fun).(*ast.Ident); ok {
			if _, ok := a.info.Uses[id].(*types.Builtin); ok {
				return true
			}
		}
		fn := calleeOf(a.info, call)
		if fn == nil || fn.Pkg() == nil || strings.HasPrefix(fn.Pkg().Path(), modPath) {
			found = true
		}
		return true
	})
	return found
}

// node applies one CFG node: obligations first (under the incoming state), then effects.
func (a *c03Len) node(st c03St, n ast.Node) c03St {
	if rs, ok := n.(*ast.RangeStmt); ok {
		if !st.bot {
			st = st.clone()
			for _, l := range []ast.Expr{rs.Key, rs.Value} {
				if l != nil {
					a.kill(st, l)
				}
			}
		}
		return st
	}
	if !st.bot && a.impure(n) {
		st = st.clone()
		for k := range st.m {
			if a.killable[k] {
				delete(st.m, k)
			}
		}
	}
	a.visit(n, st)
	if st.bot {
		return st
	}
	switch s := n.(type) {
	case *ast.AssignStmt:
		st = st.clone()
		if len(s.Lhs) == len(s.Rhs) {
			ivs := make([]c03Iv, len(s.Rhs))
			for i, r := range s.Rhs {
				ivs[i] = a.lenOf(st, r)
			}
			for i, l := range s.Lhs {
				a.kill(st, l)
				if s.Tok != token.ASSIGN && s.Tok != token.DEFINE {
					continue
				}
				if kind, _ := c03SeqLike(a.info.TypeOf(l)); kind == "slice" || kind == "string" {
					if ivs[i] != c03Top {
						st = a.set(st, l, ivs[i])
					}
				}
			}
		} else {
			for _, l := range s.Lhs {
				a.kill(st, l)
			}
		}
	case *ast.IncDecStmt:
		st = st.clone()
		a.kill(st, s.X)
	case *ast.ValueSpec:
		st = a.valueSpec(st.clone(), s)
	case *ast.DeclStmt:
		if gd, ok := s.Decl.(*ast.GenDecl); ok {
			st = st.clone()
			for _, sp := range gd.Specs {
				if vs, ok := sp.(*ast.ValueSpec); ok {
					st = a.valueSpec(st, vs)
				}
			}
		}
	}
	return st
}

func (a *c03Len) valueSpec(st c03St, vs *ast.ValueSpec) c03St {
	for i, name := range vs.Names {
		a.kill(st, name)
		kind, _ := c03SeqLike(a.info.TypeOf(name))
		if kind != "slice" && kind != "string" {
			continue
		}
		switch {
		case len(vs.Values) == len(vs.Names):
			if iv := a.lenOf(st, vs.Values[i]); iv != c03Top {
				st = a.set(st, name, iv)
			}
		case len(vs.Values) == 0:
			st = a.set(st, name, c03Iv{0, 0})
		}
	}
	return st
}

// visit walks the expressions of n in evaluation order with short-circuit refinement
// and raises the index / slice / writer obligations.
func (a *c03Len) visit(n ast.Node, st c03St) {
	if n == nil {
		return
	}
	ast.Inspect(n, func(m ast.Node) bool {
		switch t := m.(type) {
		case nil:
			return true
		case *ast.FuncLit:
			return false
		case *ast.RangeStmt:
			return false
		case *ast.BinaryExpr:
			if t.Op == token.LAND || t.Op == token.LOR {
				a.visit(t.X, st)
				a.visit(t.Y, a.refine(st, t.X, t.Op == token.LAND))
				return false
			}
		case *ast.CallExpr:
			if a.record && a.onCall != nil {
				a.onCall(t, st)
			}
		case *ast.IndexExpr:
			if tv, ok := a.info.Types[t.X]; ok && tv.IsType() {
				return false
			}
			a.visit(t.X, st)
			a.visit(t.Index, st)
			a.indexOb(st, t)
			return false
		case *ast.SliceExpr:
			a.visit(t.X, st)
			for _, x := range []ast.Expr{t.Low, t.High, t.Max} {
				if x != nil {
					a.visit(x, st)
				}
			}
			a.sliceOb(st, t)
			return false
		case *ast.AssignStmt:
			if a.record && a.wantWriters {
				a.writerAssign(st, t)
			}
		case *ast.CompositeLit:
			if a.record && a.wantWriters {
				a.writerLit(st, t)
			}
		case *ast.ValueSpec:
			if a.record && a.wantWriters {
				a.writerSpec(st, t)
			}
		}
		return true
	})
}

func (a *c03Len) key(e ast.Expr) string {
	ctx := ""
	if a.ctxOf != nil {
		ctx = a.ctxOf(e)
	}
	if ctx != "" {
		ctx = "[" + ctx + "] "
	}
	return a.fn + "/" + ctx + types.ExprString(e)
}

func (a *c03Len) stateString(st c03St) string {
	if st.bot {
		return "unreachable"
	}
	return "facts: " + fmt.Sprint(len(st.m)) + " tracked lengths"
}

// bodyAssigns: is the path (or a prefix of it) assigned inside body?
func (a *c03Len) bodyAssigns(body ast.Node, pathID string) bool {
	hit := false
	check := func(l ast.Expr) {
		id := termOf(a.info, unparen(l)).ID
		if id == pathID || strings.HasPrefix(pathID, id+".") || strings.HasPrefix(pathID, id+"[") {
			hit = true
		}
	}
	ast.Inspect(body, func(n ast.Node) bool {
		switch t := n.(type) {
		case *ast.AssignStmt:
			for _, l := range t.Lhs {
				check(l)
			}
		case *ast.IncDecStmt:
			check(t.X)
		case *ast.RangeStmt:
			if t.Key != nil {
				check(t.Key)
			}
			if t.Value != nil {
				check(t.Value)
			}
		}
		return !hit
	})
	return hit
}

// inRangeOver: node n lies in the body of a range statement over the same path, which the body does not assign.
func (a *c03Len) inRangeOver(n ast.Node, pathID string) *ast.RangeStmt {
	for cur := a.par[n]; cur != nil; cur = a.par[cur] {
		if _, isLit := cur.(*ast.FuncLit); isLit {
			return nil
		}
		rs, ok := cur.(*ast.RangeStmt)
		if !ok || !(rs.Body.Pos() <= n.Pos() && n.End() <= rs.Body.End()) {
			continue
		}
		if _, ok := a.pathKey(rs.X); !ok {
			continue
		}
		if termOf(a.info, unparen(rs.X)).ID == pathID && !a.bodyAssigns(rs.Body, pathID) {
			return rs
		}
	}
	return nil
}

func (a *c03Len) indexOb(st c03St, e *ast.IndexExpr) {
	kind, _ := c03SeqLike(a.info.TypeOf(e.X))
	if kind == "" || !a.record || !a.wantIndex {
		return
	}
	if kind == "array" {
		if _, ok := constInt(a.info, e.Index); ok {
			return // checked by the compiler
		}
	}
	a.NIndex++
	key := a.key(e)
	if st.bot {
		a.c.ok("C03.a", key, e.Pos(), "not reachable under the guards on this path")
		return
	}
	iv := a.lenOf(st, e.X)
	pathID := ""
	if _, ok := a.pathKey(e.X); ok {
		pathID = termOf(a.info, unparen(e.X)).ID
	}
	if pathID != "" && iv.lo < 1 {
		if a.inRangeOver(e, pathID) != nil {
			iv.lo = 1
		}
	}
	what := types.ExprString(e.X)
	if k, ok := constInt(a.info, e.Index); ok {
		switch {
		case k >= 0 && k < iv.lo:
			why := iv.String()
			if a.isCSIElem(e.X) && k == 0 {
				why += " (element invariant of CSI.Parameters, rule C03.h)"
			}
			a.c.ok("C03.a", key, e.Pos(), "index %d < len(%s): %s on every path", k, what, why)
		default:
			a.c.bad("C03.a", key, e.Pos(), "index %d of %s is evaluated where only `%s` is established: a truncated, unsolicited or malformed report makes it panic in the input goroutine", k, what, iv)
		}
		return
	}
	// i is the key of an enclosing range over the same path
	if id, ok := unparen(e.Index).(*ast.Ident); ok && pathID != "" {
		o := a.info.ObjectOf(id)
		if rs, ok := a.rangeKey[o]; ok && a.assignCnt[o] == 0 && !a.untracked[o] && a.inRangeOver(e, pathID) == rs {
			a.c.ok("C03.a", key, e.Pos(), "index is the key of the enclosing range over %s", what)
			return
		}
	}
	// len(X)-k
	if t, k := linForm(a.info, e.Index); pathID != "" && t.ID == "len("+pathID+")" && k < 0 {
		if -k <= iv.lo {
			a.c.ok("C03.a", key, e.Pos(), "index len-%d with %s", -k, iv)
		} else {
			a.c.bad("C03.a", key, e.Pos(), "index len(%s)%d is evaluated where only `%s` is established", what, k, iv)
		}
		return
	}
	// counted loop: for i := c; i < len(X); i++ { … X[i] … }  (or downwards from len(X)-1 to 0)
	if pathID != "" {
		if why := a.countedLoopIndex(e, pathID); why != "" {
			a.c.ok("C03.a", key, e.Pos(), "%s", why)
			return
		}
	}
	// dominating linear guards 0 <= i < len(X)
	if pathID != "" {
		facts := a.g.FactsAt(a.cur)
		it, ik := linForm(a.info, e.Index)
		lenT := Term{ID: "len(" + pathID + ")"}
		if impliesLin(facts, Term{}, it, ik) && impliesLin(facts, it, lenT, -1-ik) {
			a.c.ok("C03.a", key, e.Pos(), "dominating guards give 0 <= index < len(%s)", what)
			return
		}
		if b, ok := a.info.TypeOf(e.Index).Underlying().(*types.Basic); ok && b.Info()&types.IsUnsigned != 0 && impliesLin(facts, it, lenT, -1-ik) {
			a.c.ok("C03.a", key, e.Pos(), "dominating guard gives index < len(%s), index is unsigned", what)
			return
		}
	}
	a.c.undecided("C03.a", key, e.Pos(), "the index expression %s is not a constant, a range key or a guarded variable the length analysis understands", types.ExprString(e.Index))
}

// countedLoopIndex: e.Index is i+k (k >= 0 … handled: k == 0) with i the induction variable of an enclosing
// for statement that keeps 0 <= i < len(X) inside its body.
func (a *c03Len) countedLoopIndex(e *ast.IndexExpr, pathID string) string {
	id, ok := unparen(e.Index).(*ast.Ident)
	if !ok {
		return ""
	}
	iv := a.info.ObjectOf(id)
	if iv == nil || a.untracked[iv] {
		return ""
	}
	lenID := "len(" + pathID + ")"
	for cur := a.par[ast.Node(e)]; cur != nil; cur = a.par[cur] {
		if _, isLit := cur.(*ast.FuncLit); isLit {
			return ""
		}
		fs, ok := cur.(*ast.ForStmt)
		if !ok || fs.Cond == nil || fs.Init == nil || fs.Post == nil || !(fs.Body.Pos() <= e.Pos() && e.End() <= fs.Body.End()) {
			continue
		}
		init, ok := fs.Init.(*ast.AssignStmt)
		if !ok || len(init.Lhs) != 1 || len(init.Rhs) != 1 {
			continue
		}
		lid, ok := init.Lhs[0].(*ast.Ident)
		if !ok || a.info.ObjectOf(lid) != iv {
			continue
		}
		// the body assigns neither i nor X
		if a.bodyAssigns(fs.Body, termOf(a.info, id).ID) || a.bodyAssigns(fs.Body, pathID) {
			return ""
		}
		step := int64(0)
		switch p := fs.Post.(type) {
		case *ast.IncDecStmt:
			if pid, ok := unparen(p.X).(*ast.Ident); ok && a.info.ObjectOf(pid) == iv {
				step = 1
				if p.Tok == token.DEC {
					step = -1
				}
			}
		case *ast.AssignStmt:
			if len(p.Lhs) == 1 && len(p.Rhs) == 1 {
				if pid, ok := unparen(p.Lhs[0]).(*ast.Ident); ok && a.info.ObjectOf(pid) == iv {
					if v, ok := constInt(a.info, p.Rhs[0]); ok && v > 0 {
						switch p.Tok {
						case token.ADD_ASSIGN:
							step = v
						case token.SUB_ASSIGN:
							step = -v
						}
					}
					if b, ok := unparen(p.Rhs[0]).(*ast.BinaryExpr); ok && p.Tok == token.ASSIGN {
						if xid, ok := unparen(b.X).(*ast.Ident); ok && a.info.ObjectOf(xid) == iv {
							if v, ok := constInt(a.info, b.Y); ok && v > 0 {
								if b.Op == token.ADD {
									step = v
								} else if b.Op == token.SUB {
									step = -v
								}
							}
						}
					}
				}
			}
		}
		if step == 0 {
			return ""
		}
		atoms := exprAtoms(a.info, fs.Cond, true)
		it := termOf(a.info, id)
		lenT := Term{ID: lenID}
		if step > 0 {
			// i starts at a constant >= 0, only grows, and the condition gives i < len(X)
			c0, ok := constInt(a.info, init.Rhs[0])
			upper := impliesLin(atoms, it, lenT, -1)
			if !upper && c0 == 0 && step == 1 {
				// i != len(X) with i counting up from 0 by one
				for _, at := range atoms {
					if at.Kind == "ne" && at.K == 0 && ((at.A.ID == it.ID && at.B.ID == lenID) || (at.B.ID == it.ID && at.A.ID == lenID)) {
						upper = true
					}
				}
			}
			if ok && c0 >= 0 && upper {
				return fmt.Sprintf("counted loop: %s starts at %d, only increases, and the loop condition keeps it below len", id.Name, c0)
			}
			return ""
		}
		// downwards: i starts at len(X)-k (k >= 1), only shrinks, condition gives i >= 0
		t0, k0 := linForm(a.info, init.Rhs[0])
		if t0.ID == lenID && k0 <= -1 && (impliesLin(atoms, Term{}, it, 0)) {
			return fmt.Sprintf("counted loop: %s starts at len%d, only decreases, and the loop condition keeps it >= 0", id.Name, k0)
		}
		return ""
	}
	return ""
}

func (a *c03Len) sliceOb(st c03St, e *ast.SliceExpr) {
	kind, _ := c03SeqLike(a.info.TypeOf(e.X))
	if kind == "" || !a.record || !a.wantIndex {
		return
	}
	a.NIndex++
	key := a.key(e)
	if st.bot {
		a.c.ok("C03.a", key, e.Pos(), "not reachable under the guards on this path")
		return
	}
	iv := a.lenOf(st, e.X)
	pathID := ""
	if _, ok := a.pathKey(e.X); ok {
		pathID = termOf(a.info, unparen(e.X)).ID
	}
	what := types.ExprString(e.X)
	need := int64(0)
	for _, b := range []ast.Expr{e.Low, e.High, e.Max} {
		if b == nil {
			continue
		}
		if k, ok := constInt(a.info, b); ok {
			if k > need {
				need = k
			}
			continue
		}
		t, k := linForm(a.info, b)
		if pathID != "" && t.ID == "len("+pathID+")" && k <= 0 {
			if -k > iv.lo {
				a.c.bad("C03.a", key, e.Pos(), "slice bound len(%s)%d is evaluated where only `%s` is established", what, k, iv)
				return
			}
			continue
		}
		a.c.undecided("C03.a", key, e.Pos(), "the slice bound %s is not a constant or len(%s)-k", types.ExprString(b), what)
		return
	}
	if need <= iv.lo {
		a.c.ok("C03.a", key, e.Pos(), "slice bounds <= %d with %s", need, iv)
	} else {
		a.c.bad("C03.a", key, e.Pos(), "slice bound %d of %s is evaluated where only `%s` is established: a short report makes it panic", need, what, iv)
	}
}

// ---- writers of CSI.Parameters (rule C03.h)

func (a *c03Len) elemOK(st c03St, e ast.Expr) (bool, string) {
	e = unparen(e)
	if cl, ok := e.(*ast.CompositeLit); ok {
		if len(cl.Elts) >= 1 {
			return true, fmt.Sprintf("literal with %d element(s)", len(cl.Elts))
		}
		return false, "empty literal"
	}
	iv := a.lenOf(st, e)
	return iv.lo >= 1, iv.String()
}

func (a *c03Len) writerValue(st c03St, what string, pos token.Pos, rhs ast.Expr, self ast.Expr) {
	key := a.fn + "/" + what
	rhs = unparen(rhs)
	a.NWriters++
	if st.bot {
		a.c.ok("C03.h", key, pos, "not reachable")
		return
	}
	switch t := rhs.(type) {
	case *ast.CallExpr:
		if id, ok := unparen(t.Fun).(*ast.Ident); ok {
			if b, ok := a.info.Uses[id].(*types.Builtin); ok && b.Name() == "append" && len(t.Args) >= 1 {
				if !a.isCSIListValue(t.Args[0]) {
					if iv := a.lenOf(st, t.Args[0]); iv.hi != 0 {
						a.c.undecided("C03.h", key, pos, "append onto %s, which is neither a CSI.Parameters list nor provably empty", types.ExprString(t.Args[0]))
						return
					}
				}
				if t.Ellipsis.IsValid() {
					a.c.undecided("C03.h", key, pos, "variadic append of a list whose elements are not tracked")
					return
				}
				for _, arg := range t.Args[1:] {
					if ok, why := a.elemOK(st, arg); !ok {
						a.c.bad("C03.h", key, pos, "the parameter %s is appended to CSI.Parameters where only `%s` is established: consumers index element [0] of every parameter without a length test", types.ExprString(arg), why)
						return
					}
				}
				a.c.ok("C03.h", key, pos, "every appended parameter has a proven length >= 1 at the append")
				return
			}
		}
	case *ast.CompositeLit:
		for _, el := range t.Elts {
			if kv, ok := el.(*ast.KeyValueExpr); ok {
				el = kv.Value
			}
			if ok, why := a.elemOK(st, el); !ok {
				a.c.bad("C03.h", key, pos, "the parameter list literal contains an element with `%s`", why)
				return
			}
		}
		a.c.ok("C03.h", key, pos, "every element of the literal is non-empty")
		return
	case *ast.Ident:
		if isNilExpr(a.info, t) {
			a.c.ok("C03.h", key, pos, "nil list: no elements")
			return
		}
	}
	if a.isCSIListValue(rhs) {
		a.c.ok("C03.h", key, pos, "copy / re-slice of a CSI.Parameters list (or of a local list built under the same obligations)")
		return
	}
	if iv := a.lenOf(st, rhs); iv.hi == 0 {
		a.c.ok("C03.h", key, pos, "empty list (len == 0): no elements")
		return
	}
	a.c.undecided("C03.h", key, pos, "CSI.Parameters is written from %s, whose elements the analysis cannot bound", types.ExprString(rhs))
}

// isCSIListValue: e is a CSI.Parameters list, a followed local list, or a re-slice of one (elements are kept or dropped,
// never changed).
func (a *c03Len) isCSIListValue(e ast.Expr) bool {
	e = unparen(e)
	if sl, ok := e.(*ast.SliceExpr); ok {
		return a.isCSIListValue(sl.X)
	}
	return a.selectsCSIParams(e) || a.isLocalList(e)
}

// writerSpec: `var L [][]int` / `var L = v` for a followed local list.
func (a *c03Len) writerSpec(st c03St, vs *ast.ValueSpec) {
	for i, nm := range vs.Names {
		if !a.isLocalList(nm) {
			continue
		}
		switch {
		case len(vs.Values) == 0:
			a.NWriters++
			a.c.ok("C03.h", a.fn+"/var "+nm.Name, vs.Pos(), "declared nil: no elements")
		case len(vs.Values) == len(vs.Names):
			a.writerValue(st, nm.Name+" = "+c03Short(vs.Values[i]), vs.Pos(), vs.Values[i], nm)
		default:
			a.NWriters++
			a.c.undecided("C03.h", a.fn+"/var "+nm.Name+" multi-value", vs.Pos(), "a list that reaches CSI.Parameters is initialised by a multi-value expression")
		}
	}
}

func (a *c03Len) writerAssign(st c03St, as *ast.AssignStmt) {
	for i, l := range as.Lhs {
		l = unparen(l)
		var rhs ast.Expr
		if len(as.Lhs) == len(as.Rhs) {
			rhs = as.Rhs[i]
		}
		switch {
		case a.selectsCSIParams(l) || a.isLocalList(l):
			if rhs == nil || (as.Tok != token.ASSIGN && as.Tok != token.DEFINE) {
				a.NWriters++
				a.c.undecided("C03.h", a.fn+"/"+types.ExprString(l)+" multi-value write", as.Pos(), "CSI.Parameters is written by a multi-value assignment")
				continue
			}
			a.writerValue(st, types.ExprString(l)+" = "+c03Short(rhs), as.Pos(), rhs, l)
		default:
			if ix, ok := l.(*ast.IndexExpr); ok && a.isCSIList(ix.X) {
				a.NWriters++
				key := a.fn + "/" + types.ExprString(l) + " = " + c03Short(rhs)
				if rhs == nil {
					a.c.undecided("C03.h", key, as.Pos(), "element written by a multi-value assignment")
					continue
				}
				if ok, why := a.elemOK(st, rhs); ok {
					a.c.ok("C03.h", key, as.Pos(), "element stays non-empty: %s", why)
				} else {
					a.c.bad("C03.h", key, as.Pos(), "an element of CSI.Parameters is replaced by a value with `%s`", why)
				}
			}
		}
	}
}

func (a *c03Len) writerLit(st c03St, cl *ast.CompositeLit) {
	if a.csiParams == nil {
		return
	}
	nt, ok := a.info.TypeOf(cl).(*types.Named)
	if !ok {
		return
	}
	stt, ok := nt.Underlying().(*types.Struct)
	if !ok {
		return
	}
	idx := -1
	for i := 0; i < stt.NumFields(); i++ {
		if stt.Field(i) == a.csiParams {
			idx = i
		}
	}
	if idx < 0 {
		return
	}
	for i, el := range cl.Elts {
		if kv, ok := el.(*ast.KeyValueExpr); ok {
			if id, ok := kv.Key.(*ast.Ident); ok && a.info.ObjectOf(id) == a.csiParams {
				a.writerValue(st, "CSI{Parameters: "+c03Short(kv.Value)+"}", kv.Pos(), kv.Value, nil)
			}
		} else if i == idx {
			a.writerValue(st, "CSI{Parameters: "+c03Short(el)+"}", el.Pos(), el, nil)
		}
	}
}

func c03Short(e ast.Expr) string {
	if e == nil {
		return "<multi>"
	}
	s := types.ExprString(e)
	if len(s) > 60 {
		s = s[:57] + "..."
	}
	return s
}

// run computes the fixpoint, then replays every block once with recording on.
func (a *c03Len) run() {
	if a.g == nil || len(a.g.Blocks) == 0 {
		return
	}
	entry := a.g.Blocks[0]
	for _, b := range a.g.Blocks {
		a.in[b] = c03Bot()
	}
	a.in[entry] = c03NewSt()
	if a.entry != nil && !a.entry.bot {
		a.in[entry] = a.entry.clone()
	}
	visits := map[*cfg.Block]int{}
	a.record = false
	for changed, rounds := true, 0; changed && rounds < 200; rounds++ {
		changed = false
		for _, b := range a.g.Blocks {
			outs := a.block(b)
			for i, s := range b.Succs {
				visits[s]++
				j := c03Join(a.in[s], outs[i], visits[s] > 10*len(a.g.Blocks))
				if !c03Equal(j, a.in[s]) {
					a.in[s] = j
					changed = true
				}
			}
		}
	}
	a.record = true
	blocks := append([]*cfg.Block(nil), a.g.Blocks...)
	sort.SliceStable(blocks, func(i, j int) bool {
		pi, pj := token.NoPos, token.NoPos
		if len(blocks[i].Nodes) > 0 {
			pi = blocks[i].Nodes[0].Pos()
		}
		if len(blocks[j].Nodes) > 0 {
			pj = blocks[j].Nodes[0].Pos()
		}
		return pi < pj
	})
	for _, b := range blocks {
		a.block(b)
	}
	a.record = false
}

// block transfers b and returns the state on each outgoing edge.
func (a *c03Len) block(b *cfg.Block) []c03St {
	st := a.in[b]
	for i, n := range b.Nodes {
		a.cur = Loc{b, i}
		st = a.node(st, n)
	}
	outs := make([]c03St, len(b.Succs))
	for i := range outs {
		outs[i] = st
	}
	if len(b.Succs) == 2 {
		if b.Kind == cfg.KindRangeLoop && len(b.Nodes) > 0 {
			if rs, ok := b.Nodes[len(b.Nodes)-1].(*ast.RangeStmt); ok && !st.bot {
				if _, ok := a.pathKey(rs.X); ok {
					if kind, _ := c03SeqLike(a.info.TypeOf(rs.X)); kind == "slice" || kind == "string" {
						id := termOf(a.info, unparen(rs.X)).ID
						if !a.bodyAssigns(rs.Body, id) {
							outs[0] = a.applyCmp(st, rs.X, token.GEQ, 1)
						}
					}
				}
			}
		} else if cd := a.g.BranchCond(b); cd != nil {
			outs[0] = a.refineCond(st, cd, true)
			outs[1] = a.refineCond(st, cd, false)
		}
	}
	return outs
}
