package main

// C20 — extensions of the symbolic executor c20Exec that make the rules independent of how the code is cut
// into helper functions and temporaries:
//
//  (1) Helper functions the rules do not know (unexported, same package, name not in refFuncNames, i.e. the
//      product of an "extract function" refactoring) are EXECUTED in the caller's state wherever they are called
//      (expression position, function literals, several results, named results, branches inside the helper):
//      every path through the helper continues the caller's path with the helper's results. Receiver and
//      pointer parameters are aliased to the caller's access paths, so field reads and writes inside the helper
//      are reads and writes of the caller's fields.
//  (2) Boolean variables defined by a comparison or by &&, ||, ! of such variables stand for their definition
//      when they are branched on (the operands are the values at the definition).
//  (3) Struct values built by a composite literal and then modified field by field (promoted fields of embedded
//      structs included) are tracked per field; a field the literal did not set has the zero value.

import (
	"fmt"
	"go/ast"
	"go/token"
	"go/types"
	"strings"

	"golang.org/x/tools/go/cfg"
)

// ---------------------------------------------------------------------------
// access paths

func c20StructOf(t types.Type) *types.Struct {
	if p, ok := t.Underlying().(*types.Pointer); ok {
		t = p.Elem()
	}
	s, _ := t.Underlying().(*types.Struct)
	return s
}

// c20TermOf is termOf with the implicit embedded fields of promoted selections written out
// (cell.Grapheme -> cell.Character.Grapheme), so that one field has one access path.
func c20TermOf(info *types.Info, e ast.Expr) Term {
	t := termOf(info, e)
	if strings.HasPrefix(t.ID, "expr:") || strings.ContainsAny(t.ID, "[(") {
		return t
	}
	var parts []string
	promoted := false
	cur := unparen(e)
	for {
		switch tt := cur.(type) {
		case *ast.ParenExpr:
			cur = tt.X
			continue
		case *ast.StarExpr:
			cur = tt.X
			continue
		case *ast.SelectorExpr:
			sel, ok := info.Selections[tt]
			if !ok {
				return t
			}
			names := []string{tt.Sel.Name}
			if idx := sel.Index(); len(idx) > 1 && sel.Kind() == types.FieldVal {
				typ := sel.Recv()
				var impl []string
				for _, i := range idx[:len(idx)-1] {
					s := c20StructOf(typ)
					if s == nil || i >= s.NumFields() {
						return t
					}
					impl = append(impl, s.Field(i).Name())
					typ = s.Field(i).Type()
				}
				names = append(impl, tt.Sel.Name)
				promoted = true
			}
			parts = append(names, parts...)
			cur = tt.X
			continue
		case *ast.Ident:
			if !promoted {
				return t
			}
			o := info.ObjectOf(tt)
			if o == nil {
				return t
			}
			return Term{ID: fmt.Sprintf("%p%s", o, joinDot(parts)), Disp: t.Disp}
		}
		return t
	}
}

// pathTerm: the canonical access path of e in the current activation (aliases of the activation applied).
func (x *c20Exec) pathTerm(e ast.Expr) Term {
	t := x.derefTerm(e, 0)
	for from, to := range x.alias {
		if t.ID == from || strings.HasPrefix(t.ID, from+".") {
			t.ID = to + t.ID[len(from):]
			if d, ok := x.aliasDisp[from]; ok && (t.Disp == d[0] || strings.HasPrefix(t.Disp, d[0]+".")) {
				t.Disp = d[1] + t.Disp[len(d[0]):]
			}
			break
		}
	}
	return t
}

// ---------------------------------------------------------------------------
// struct literals

func (x *c20Exec) evalLit(st *c20State, lit *ast.CompositeLit) *c20Val {
	typ := x.info.TypeOf(lit)
	if typ == nil {
		return nil
	}
	s, ok := typ.Underlying().(*types.Struct)
	if !ok {
		return nil
	}
	v := &c20Val{kind: "lit", disp: types.ExprString(lit), flds: map[string]*c20Val{}}
	for i, el := range lit.Elts {
		name := ""
		val := el
		if kv, isKV := el.(*ast.KeyValueExpr); isKV {
			id, isID := kv.Key.(*ast.Ident)
			if !isID {
				return nil
			}
			name, val = id.Name, kv.Value
		} else if i < s.NumFields() {
			name = s.Field(i).Name()
		} else {
			return nil
		}
		var fv *c20Val
		if sub, isLit := unparen(val).(*ast.CompositeLit); isLit {
			fv = x.evalLit(st, sub)
		}
		if fv == nil {
			fv = x.eval(st, val)
		}
		v.flds[name] = fv
		if fv.kind == "lit" {
			for p, sv := range fv.flds {
				v.flds[name+"."+p] = sv
			}
		}
		v.args = append(v.args, fv)
	}
	return x.newVal(st, v)
}

// assign binds lhs to v; a struct value carries its fields along (from the literal, or from the variable copied).
func (x *c20Exec) assign(st *c20State, lhs, rhs ast.Expr, v *c20Val) {
	var copied map[string]*c20Val
	if v.kind == "lit" {
		if rt := x.pathTerm(rhs); !strings.HasPrefix(rt.ID, "expr:") {
			copied = map[string]*c20Val{} // a copy of a variable: its fields as they are now
			for k, fv := range st.env {
				if strings.HasPrefix(k, rt.ID+".") {
					copied[k[len(rt.ID)+1:]] = fv
				}
			}
		} else {
			copied = v.flds // a literal, or the struct a helper returned
		}
	}
	x.bind(st, lhs, v)
	if id, ok := unparen(lhs).(*ast.Ident); ok && id.Name == "_" {
		return
	}
	if copied != nil {
		key := x.pathTerm(lhs).ID
		for p, fv := range copied {
			st.env[key+"."+p] = fv
		}
	}
}

// zeroOfLit: the access path t is not bound, but a prefix of it is bound to a struct literal value: the field
// has the zero value.
func (x *c20Exec) zeroOfLit(st *c20State, t Term, e ast.Expr) *c20Val {
	if strings.ContainsAny(t.ID, "[(:") {
		return nil
	}
	id := t.ID
	for {
		i := strings.LastIndexByte(id, '.')
		if i < 0 {
			return nil
		}
		id = id[:i]
		if v, ok := st.env[id]; ok {
			if v.kind != "lit" {
				return nil
			}
			break
		}
	}
	z := &c20Val{kind: "const", zero: true, disp: "zero value of " + t.Disp}
	if typ := x.info.TypeOf(e); typ != nil {
		if b, ok := typ.Underlying().(*types.Basic); ok {
			switch {
			case b.Info()&types.IsNumeric != 0:
				z.hasK = true
			case b.Info()&types.IsBoolean != 0:
				z.isB = true
			}
		}
	}
	x.newVal(st, z)
	st.env[t.ID] = z
	return z
}

// fieldsOf returns a reader of the fields of the struct value e denotes: (value, known). value == nil with
// known == true means the zero value; known == false means the executor does not know the field.
func (x *c20Exec) fieldsOf(st *c20State, e ast.Expr) func(path string) (*c20Val, bool) {
	e = unparen(e)
	proper := func(path string) []string {
		var out []string
		for i := len(path) - 1; i > 0; i-- {
			if path[i] == '.' {
				out = append(out, path[:i])
			}
		}
		return out
	}
	if lit, isLit := e.(*ast.CompositeLit); isLit {
		v := x.evalLit(st, lit)
		if v == nil {
			return nil
		}
		return func(path string) (*c20Val, bool) {
			if fv := v.flds[path]; fv != nil {
				return fv, true
			}
			for _, p := range proper(path) {
				if pv := v.flds[p]; pv != nil && pv.kind != "lit" {
					return nil, false
				}
			}
			return nil, true
		}
	}
	t := x.pathTerm(e)
	if strings.HasPrefix(t.ID, "expr:") {
		// e.g. the result of a helper that builds the struct
		v := x.eval(st, e)
		if v.kind != "lit" {
			return nil
		}
		return func(path string) (*c20Val, bool) {
			if fv := v.flds[path]; fv != nil {
				if fv.kind == "const" && fv.zero {
					return nil, true
				}
				return fv, true
			}
			for _, p := range proper(path) {
				if pv := v.flds[p]; pv != nil && pv.kind != "lit" {
					return nil, false
				}
			}
			return nil, true
		}
	}
	root, ok := st.env[t.ID]
	if !ok || root.kind != "lit" {
		return nil
	}
	return func(path string) (*c20Val, bool) {
		if fv := st.env[t.ID+"."+path]; fv != nil {
			if fv.kind == "const" && fv.zero {
				return nil, true
			}
			return fv, true
		}
		for _, p := range proper(path) {
			if pv := st.env[t.ID+"."+p]; pv != nil && pv.kind != "lit" {
				return nil, false
			}
		}
		return nil, true
	}
}

// cellOf reads a Cell value (a literal, or a variable built from a literal and field assignments): the glyph
// constant and the foreground / background colour values (nil = the default colour, not set).
func (x *c20Exec) cellOf(st *c20State, e ast.Expr) (glyph string, fg, bg *c20Val, ok bool) {
	if t := x.info.TypeOf(e); t == nil || !c20IsNamed(t, modPath, "Cell") {
		return "", nil, nil, false
	}
	if _, isPtr := x.info.TypeOf(e).Underlying().(*types.Pointer); isPtr {
		return "", nil, nil, false
	}
	get := x.fieldsOf(st, e)
	if get == nil {
		return "", nil, nil, false
	}
	g, known := get("Character.Grapheme")
	if !known || g == nil || g.kind != "const" || g.hasK || g.isB || g.zero {
		return "", nil, nil, false
	}
	fg, k1 := get("Style.Foreground")
	bg, k2 := get("Style.Background")
	if !k1 || !k2 {
		return "", nil, nil, false
	}
	return g.str, fg, bg, true
}

// ---------------------------------------------------------------------------
// boolean values

func c20IsBoolStruct(v *c20Val) bool {
	switch v.kind {
	case "cmp", "not", "land", "lor":
		return true
	}
	return false
}

// c20ValDNF: the alternatives (conjunctions of value leaves) under which the boolean value v is pol.
func c20ValDNF(v *c20Val, pol bool) [][]c20Leaf {
	switch v.kind {
	case "not":
		return c20ValDNF(v.args[0], !pol)
	case "land", "lor":
		both := (v.kind == "land") == pol
		if both {
			var out [][]c20Leaf
			for _, a := range c20ValDNF(v.args[0], pol) {
				for _, b := range c20ValDNF(v.args[1], pol) {
					out = append(out, append(append([]c20Leaf(nil), a...), b...))
				}
			}
			return out
		}
		out := c20ValDNF(v.args[0], pol)
		for _, a := range c20ValDNF(v.args[0], !pol) {
			for _, b := range c20ValDNF(v.args[1], pol) {
				out = append(out, append(append([]c20Leaf(nil), a...), b...))
			}
		}
		return out
	}
	return [][]c20Leaf{{{bv: v, pol: pol}}}
}

// expandAlts: a leaf that is a variable holding a structured boolean value is replaced by the alternatives of
// that value.
func (x *c20Exec) expandAlts(st *c20State, alts [][]c20Leaf) [][]c20Leaf {
	var out [][]c20Leaf
	for _, alt := range alts {
		cur := [][]c20Leaf{nil}
		for _, l := range alt {
			var sub [][]c20Leaf
			if l.e != nil && l.tag == nil && l.bv == nil {
				sub = x.structCmpAlts(st, l.e, l.pol) // A == B over struct values: field by field (c20ctx.go)
			}
			if sub == nil && l.e != nil && l.tag == nil && l.bv == nil {
				switch unparen(l.e).(type) {
				case *ast.Ident, *ast.SelectorExpr:
					if tv, ok := x.info.Types[unparen(l.e)]; !ok || tv.Value == nil {
						if v := x.eval(st, l.e); c20IsBoolStruct(v) {
							sub = c20ValDNF(v, l.pol)
						}
					}
				}
			}
			if sub == nil {
				sub = [][]c20Leaf{{l}}
			}
			var next [][]c20Leaf
			for _, c := range cur {
				for _, s := range sub {
					next = append(next, append(append([]c20Leaf(nil), c...), s...))
				}
			}
			cur = next
			if len(cur) > 256 {
				return alts // too many alternatives: leave the condition as it is written
			}
		}
		out = append(out, cur...)
	}
	return out
}

// applyBool: the boolean value v is pol on this path.
func (x *c20Exec) applyBool(st *c20State, v *c20Val, pol bool, note bool) {
	if note {
		if pol {
			st.conds = append(st.conds, v.disp)
		} else {
			st.conds = append(st.conds, "!("+v.disp+")")
		}
	}
	switch v.kind {
	case "const":
		if v.isB {
			if v.bval != pol {
				st.dead = true
			}
			return
		}
	case "cmp":
		x.compareVals(st, v.args[0], v.op, v.args[1], pol)
		return
	case "not":
		x.applyBool(st, v.args[0], !pol, false)
		return
	case "land", "lor":
		if alts := c20ValDNF(v, pol); len(alts) == 1 {
			for _, l := range alts[0] {
				x.applyBool(st, l.bv, l.pol, false)
				if st.dead {
					return
				}
			}
			return
		}
		st.opaque++
		for d := range v.deps {
			st.opqDep[d] = true
		}
		return
	case "call", "opaque":
		st.opaque++
		for d := range v.deps {
			st.opqDep[d] = true
		}
		return
	}
	if old, ok := st.bools[v.id]; ok && old != pol {
		st.dead = true
		return
	}
	st.bools[v.id] = pol
}

// ---------------------------------------------------------------------------
// helper functions executed in the caller's state

const c20MaxHelperNodes = 240
const c20MaxHelperDepth = 4

type c20HelperInfo struct {
	lit    *ast.FuncLit     // a local closure (c20ctx.go); fi is nil then
	g      *FG              // its graph
	fn     *types.Func      // nil for a closure
	sig    *types.Signature // of the function or the literal
	fi     *FuncInfo
	ok     bool
	pure   bool // assigns only to its own variables
	params []types.Object
	recv   types.Object
	named  []types.Object // named results
	wrote  map[types.Object]bool
}

var c20HelperCache = map[*types.Func]*c20HelperInfo{}

// helperInfo: is fn a helper the executor may run? (a function of the analysed package that the rules do not
// look up by name: not in the reference list of function names, not exported; small; no closures, defers,
// goroutines, selects, gotos, recover)
func (x *c20Exec) helperInfo(fn *types.Func) *c20HelperInfo {
	if fn == nil || x.noHelpers {
		return nil
	}
	if h, ok := c20HelperCache[fn]; ok {
		if h.ok && h.fi.Pkg.TypesInfo == x.info {
			return h
		}
		return nil
	}
	h := &c20HelperInfo{wrote: map[types.Object]bool{}}
	c20HelperCache[fn] = h
	if fn.Exported() || refFuncNames[fn.Name()] || fn.Name() == "init" || fn.Name() == "main" {
		return nil
	}
	fi := x.c.P.FuncOfObj(fn)
	if fi == nil || fi.Decl.Body == nil || fi.Pkg.TypesInfo != x.info {
		return nil
	}
	sig := fn.Type().(*types.Signature)
	if sig.Variadic() || sig.TypeParams() != nil || sig.RecvTypeParams() != nil {
		return nil
	}
	if c15CountNodes(fi.Decl.Body) > c20MaxHelperNodes {
		return nil
	}
	info := x.info
	okBody := true
	ast.Inspect(fi.Decl.Body, func(n ast.Node) bool {
		switch t := n.(type) {
		case *ast.DeferStmt, *ast.GoStmt, *ast.FuncLit, *ast.SelectStmt:
			okBody = false
		case *ast.BranchStmt:
			if t.Tok == token.GOTO {
				okBody = false
			}
		case *ast.CallExpr:
			if cal := calleeOf(info, t); cal != nil && cal == fn {
				okBody = false
			}
			if id, isID := t.Fun.(*ast.Ident); isID && id.Name == "recover" {
				okBody = false
			}
		}
		return okBody
	})
	if !okBody {
		return nil
	}
	for _, f := range fi.Decl.Type.Params.List {
		if len(f.Names) == 0 {
			return nil
		}
		for _, n := range f.Names {
			h.params = append(h.params, info.Defs[n])
		}
	}
	if fi.Decl.Recv != nil && len(fi.Decl.Recv.List) == 1 && len(fi.Decl.Recv.List[0].Names) == 1 {
		h.recv = info.Defs[fi.Decl.Recv.List[0].Names[0]]
	}
	if fi.Decl.Type.Results != nil {
		for _, f := range fi.Decl.Type.Results.List {
			for _, n := range f.Names {
				h.named = append(h.named, info.Defs[n])
			}
		}
	}
	// what it writes
	h.pure = true
	body := fi.Decl.Body
	noteWrite := func(lhs ast.Expr) {
		lhs = unparen(lhs)
		if id, ok := lhs.(*ast.Ident); ok {
			if id.Name == "_" {
				return
			}
			o := info.ObjectOf(id)
			if o != nil {
				h.wrote[o] = true
			}
			if v, ok := o.(*types.Var); !ok || v.Parent() == nil || v.Pkg() == nil || v.Parent() == v.Pkg().Scope() {
				h.pure = false // package-level variable
			}
			return
		}
		// a field, an element, a dereference: the root decides
		root := rootObj(info, lhs)
		if root != nil {
			h.wrote[root] = true
		}
		v, isVar := root.(*types.Var)
		if !isVar || v.Pos() < body.Pos() || v.Pos() > body.End() {
			h.pure = false // through a parameter, the receiver or a package-level variable
			return
		}
		switch v.Type().Underlying().(type) {
		case *types.Pointer, *types.Slice, *types.Map:
			h.pure = false
		}
	}
	ast.Inspect(body, func(n ast.Node) bool {
		switch t := n.(type) {
		case *ast.AssignStmt:
			for _, l := range t.Lhs {
				noteWrite(l)
			}
		case *ast.IncDecStmt:
			noteWrite(t.X)
		case *ast.RangeStmt:
			if t.Tok == token.ASSIGN {
				if t.Key != nil {
					noteWrite(t.Key)
				}
				if t.Value != nil {
					noteWrite(t.Value)
				}
			}
		}
		return true
	})
	h.fi, h.ok = fi, true
	h.fn, h.sig = fn, sig
	return h
}

// helperCalls: the calls of executable helpers inside CFG node n, innermost first. A call in the right operand
// of && or || is only taken when the helper assigns nothing but its own variables (it is executed whether or
// not the left operand decides).
func (x *c20Exec) helperCalls(n ast.Node) []*ast.CallExpr {
	if x.noHelpers || len(x.stack) >= c20MaxHelperDepth {
		return nil
	}
	var pre []*ast.CallExpr
	var visit func(m ast.Node, guarded bool)
	visit = func(m ast.Node, guarded bool) {
		if m == nil {
			return
		}
		ast.Inspect(m, func(k ast.Node) bool {
			switch t := k.(type) {
			case *ast.FuncLit:
				return false
			case *ast.BinaryExpr:
				if t.Op == token.LAND || t.Op == token.LOR {
					visit(t.X, guarded)
					visit(t.Y, true)
					return false
				}
			case *ast.CallExpr:
				fn := calleeOf(x.info, t)
				if h := x.calleeHelper(t); h != nil && (!guarded || h.pure) {
					onStack := false
					for _, s := range x.stack {
						if s == fn && fn != nil {
							onStack = true
						}
					}
					if !onStack {
						pre = append(pre, t)
					}
				}
			}
			return true
		})
	}
	switch n.(type) {
	case *ast.DeferStmt, *ast.GoStmt:
		return nil // not executed here
	}
	visit(n, false)
	// innermost first
	for i, j := 0, len(pre)-1; i < j; i, j = i+1, j-1 {
		pre[i], pre[j] = pre[j], pre[i]
	}
	return pre
}

func (x *c20Exec) resolveCalls(st *c20State, calls []*ast.CallExpr, k func(*c20State)) {
	if len(calls) == 0 {
		k(st)
		return
	}
	x.execHelper(st, calls[0], func(st2 *c20State) { x.resolveCalls(st2, calls[1:], k) })
}

// execHelper runs the callee of call from state st; every path through it that returns continues with k.
func (x *c20Exec) execHelper(st *c20State, call *ast.CallExpr, k func(*c20State)) {
	fn := calleeOf(x.info, call)
	h := x.calleeHelper(call)
	if h == nil {
		k(st)
		return
	}
	gc := h.g
	if h.fi != nil {
		gc = x.c.P.Graph(h.fi)
	}
	if gc == nil || len(gc.Blocks) == 0 {
		k(st)
		return
	}
	// arguments in the caller's activation
	type bindArg struct {
		obj  types.Object
		expr ast.Expr
		val  *c20Val
	}
	var binds []bindArg
	if h.recv != nil {
		sel, ok := unparen(call.Fun).(*ast.SelectorExpr)
		if !ok {
			k(st)
			return
		}
		binds = append(binds, bindArg{h.recv, sel.X, x.eval(st, sel.X)})
	}
	if len(call.Args) != len(h.params) {
		k(st)
		return
	}
	for i, a := range call.Args {
		binds = append(binds, bindArg{h.params[i], a, x.eval(st, a)})
	}
	newAlias := map[string]string{}
	newDisp := map[string][2]string{}
	for _, b := range binds {
		if b.obj == nil {
			continue
		}
		key := fmt.Sprintf("%p", b.obj)
		_, isPtr := b.obj.Type().Underlying().(*types.Pointer)
		arg := unparen(b.expr)
		if u, ok := arg.(*ast.UnaryExpr); ok && u.Op == token.AND {
			arg = unparen(u.X) // &v passed for a pointer parameter: the parameter's fields are v's fields
		}
		// only values that have fields are aliased (a scalar parameter is simply bound to the argument's value)
		if c20StructOf(b.obj.Type()) != nil && (isPtr || !h.wrote[b.obj]) {
			if t := x.pathTerm(arg); !strings.HasPrefix(t.ID, "expr:") && !strings.ContainsAny(t.ID, "[(") && t.ID != key {
				newAlias[key] = t.ID
				newDisp[key] = [2]string{b.obj.Name(), t.Disp}
			}
		}
	}
	// enter
	saveG, saveAlias, saveDisp, saveStack := x.g, x.alias, x.aliasDisp, x.stack
	if h.lit != nil {
		// a closure sees the variables of the function around it: the aliases of that activation stay in force
		for k2, v2 := range saveAlias {
			if _, own := newAlias[k2]; !own {
				newAlias[k2] = v2
			}
		}
		for k2, v2 := range saveDisp {
			if _, own := newDisp[k2]; !own {
				newDisp[k2] = v2
			}
		}
	}
	enter := func() {
		x.g, x.alias, x.aliasDisp = gc, newAlias, newDisp
		x.stack = append(append([]*types.Func(nil), saveStack...), fn)
	}
	leave := func() { x.g, x.alias, x.aliasDisp, x.stack = saveG, saveAlias, saveDisp, saveStack }
	for _, b := range gc.Blocks {
		delete(st.iters, b)
	}
	x.registerRangeVars(gc)
	x.registerIndexLoops(gc)
	for _, b := range binds {
		if b.obj != nil {
			if _, aliased := newAlias[fmt.Sprintf("%p", b.obj)]; !aliased {
				x.bindKey(st, fmt.Sprintf("%p", b.obj), b.val)
				if b.val.kind == "lit" {
					// a struct passed by value: its fields go along
					if rt := x.pathTerm(b.expr); !strings.HasPrefix(rt.ID, "expr:") {
						for k2, fv := range st.env {
							if strings.HasPrefix(k2, rt.ID+".") {
								st.env[fmt.Sprintf("%p", b.obj)+k2[len(rt.ID):]] = fv
							}
						}
					}
				}
			}
		}
	}
	for _, o := range h.named {
		if o != nil {
			z := &c20Val{kind: "const", disp: "zero value"}
			if b, ok := o.Type().Underlying().(*types.Basic); ok && b.Info()&types.IsNumeric != 0 {
				z.hasK = true
			}
			x.bindKey(st, fmt.Sprintf("%p", o), x.newVal(st, z))
		}
	}
	sig := h.sig
	nres := sig.Results().Len()
	finish := func(st2 *c20State, res []*c20Val) {
		if st2.callRes == nil {
			st2.callRes = map[*ast.CallExpr][]*c20Val{}
		}
		st2.callRes[call] = res
		leave()
		k(st2)
		enter()
	}
	enter()
	x.dfsFrom(gc.Blocks[0], 0, st, func(st2 *c20State, l Loc, n ast.Node) bool {
		ret, ok := n.(*ast.ReturnStmt)
		if !ok {
			return false
		}
		var res []*c20Val
		switch {
		case len(ret.Results) == nres:
			for _, r := range ret.Results {
				res = append(res, x.snapshotLit(st2, r, x.eval(st2, r)))
			}
		case len(ret.Results) == 0 && len(h.named) == nres:
			for _, o := range h.named {
				v := st2.env[fmt.Sprintf("%p", o)]
				if v == nil {
					v = x.newVal(st2, &c20Val{kind: "opaque", disp: o.Name()})
				}
				res = append(res, v)
			}
		case len(ret.Results) == 1:
			rv := x.eval(st2, ret.Results[0])
			if rv.kind == "tuple" && len(rv.args) == nres {
				res = rv.args
			} else {
				for i := 0; i < nres; i++ {
					r := &c20Val{kind: "result", k: int64(i), hasK: true, args: []*c20Val{rv}, disp: fmt.Sprintf("%s#%d", rv.disp, i), deps: map[string]bool{}}
					x.newVal(st2, r)
					r.deps[fmt.Sprintf("res%d@%d", i, rv.id)] = true
					res = append(res, r)
				}
			}
		default:
			for i := 0; i < nres; i++ {
				res = append(res, x.newVal(st2, &c20Val{kind: "opaque", disp: types.ExprString(call)}))
			}
		}
		finish(st2, res)
		return true
	}, func(st2 *c20State, b *cfg.Block) {
		// fell off the end of a function without results
		if nres == 0 {
			finish(st2, nil)
		}
	})
	leave()
}

func (x *c20Exec) registerRangeVars(g *FG) {
	inspectNoLit(g.Body, func(n ast.Node) bool {
		if rs, ok := n.(*ast.RangeStmt); ok {
			for _, e := range []ast.Expr{rs.Key, rs.Value} {
				if id, ok := e.(*ast.Ident); ok {
					x.rangeVar[id] = rs
				}
			}
		}
		return true
	})
}

// snapshotLit: a struct variable that was built from a literal and then modified is returned (or passed on) as
// a value: its fields as they are now.
func (x *c20Exec) snapshotLit(st *c20State, e ast.Expr, v *c20Val) *c20Val {
	if v.kind != "lit" {
		return v
	}
	t := x.pathTerm(e)
	if strings.HasPrefix(t.ID, "expr:") {
		return v
	}
	n := &c20Val{kind: "lit", disp: v.disp, flds: map[string]*c20Val{}}
	for k, fv := range st.env {
		if strings.HasPrefix(k, t.ID+".") {
			n.flds[k[len(t.ID)+1:]] = fv
			n.args = append(n.args, fv)
		}
	}
	return x.newVal(st, n)
}
