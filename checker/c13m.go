package main

// C13.m — the event type of a key is not part of the key: repeats and pasted keys arrive like presses.
//
// Key.EventType says how the key came about, not which key it is: EventPress (the zero value, the only
// value a legacy host produces outside a paste), EventRepeat (a held key on a host that speaks the kitty
// keyboard protocol with event reporting), EventRelease (same hosts) and EventPaste (every key Vaxis
// decodes between PasteStartEvent and PasteEndEvent carries it, vaxis.go handleSequence). "A key …
// handed to the embedded terminal is written to the child in an encoding which … yields an event
// matching the original key and modifiers" holds for the key whatever its EventType: a repeated or
// pasted key the widget is handed must reach the child as the same key, which in the xterm legacy
// encoding (no notion of event types) means as the press does. C13.a/b/f/l enumerate keys x modifiers
// x modes with EventType left at its zero value, so a guard on the event type in front of the encoder
// (seed C13_a_r11: `if msg.EventType != vaxis.EventPress { return }` "to drop kitty key releases" —
// a bracketed paste reaches the child as ESC[200~ ESC[201~ with nothing in between, a held arrow moves
// once) is invisible to them.
//
// The rule evaluates the public entry point Model.Update (the evaluator of C13.a) on every key class
// with EventType = EventPress, EventRepeat and EventPaste and compares what is written:
//
//   same bytes                                   ok (whatever the code looks like: guard, switch,
//                                                helper, table of forwarded event types …)
//   press writes something, the variant nothing  VIOLATED (the key is dropped)
//   different non-empty bytes                    ok iff both decode, through Vaxis's own input pipeline
//                                                (handleSequence, as in C13.a), to the same events;
//                                                VIOLATED otherwise
//   press writes nothing                         not judged here (C13.a/f judge dropped presses)
//
// For EventPaste a widget may legitimately hold the keys back until the end of the paste; when the
// single call differs from the press the rule therefore also evaluates the history PasteStartEvent,
// Key(EventPaste), PasteEndEvent on the Model New() builds, with 2004 set and reset, and accepts iff
// all that is written over the three calls is boundary + press bytes + boundary.
//
// EventRelease is deliberately NOT judged: the unchanged tree writes a release exactly as a press (the
// child of a widget on a kitty host with event reporting sees the key twice); the property text does
// not say what a release must do, and dropping it is the repair a maintainer would make.

import (
	"fmt"
	"sort"
	"unicode"
)

func init() { registerExtra("C13", c13KeyEventTypes) }

func c13KeyEventTypes(c *Ctx) {
	c.Clauses = append(c.Clauses, "C13.m the event type is not part of the key: for every special key of C13.a (and Enter/Tab/Esc/Backspace), every subset of Shift/Alt/Ctrl, every DECCKM/DECKPAM setting, and for printable keys (plain, Shift, Ctrl, Alt chords, with and without associated text), a Key with EventType EventRepeat or EventPaste makes Update write what the same Key with EventPress writes (or bytes decoding to the same event; for EventPaste also: the key is written at the latest when the paste ends); a repeated or pasted key for which nothing is written while the press writes something is dropped")
	c.expect("C13.m", 40)
	x := c13lastEnv
	if x == nil || x.c != c {
		return // runC13 stopped early and said why
	}
	x.ruleM()
}

func (x *c13Env) ruleM() {
	press := x.consts["EventPress"]
	rep, okr := x.consts["EventRepeat"]
	pst, okp := x.consts["EventPaste"]
	if !okr || !okp {
		x.c.undecided("C13.m", "setup/EventRepeat, EventPaste", 0, "constants vaxis.EventRepeat / vaxis.EventPaste not found: the event types of Key have changed shape")
		return
	}
	sh, al, ct := x.consts["ModShift"], x.consts["ModAlt"], x.consts["ModCtrl"]
	keyT := x.typ(x.root, "Key")
	if x.fieldType(keyT, "EventType") == nil {
		x.c.undecided("C13.m", "setup/Key.EventType", 0, "vaxis.Key has no field EventType: the event types of Key have changed shape")
		return
	}
	variants := []struct {
		name string
		et   int64
	}{{"EventRepeat", rep}, {"EventPaste", pst}}

	write := func(model c13V, ev c13V) (c13Res, string, string) {
		r := x.run(x.fnUpdate, model, ev)
		if r.undecided != "" {
			return r, r.undecided, ""
		}
		if r.panicked != "" {
			return r, "", "Update panics: " + r.panicked
		}
		return r, "", ""
	}
	// sameEvents: both byte strings decode to the same events
	sameEvents := func(a, b string) (bool, string) {
		ea, _, ua, ba := x.decode(a)
		eb, _, ub, bb := x.decode(b)
		if ua != "" || ub != "" {
			return false, ua + ub
		}
		if ba != "" || bb != "" {
			return false, ""
		}
		return x.render(c13V{k: c13Slice, el: ea}, 0) == x.render(c13V{k: c13Slice, el: eb}, 0), ""
	}
	// heldBack: PasteStartEvent, the pasted key, PasteEndEvent on a Model as New() builds it; true iff
	// over the three calls boundary + want + boundary is written, with 2004 set and reset
	heldBack := func(flags map[string]bool, ev c13V, want string) bool {
		for _, paste := range []bool{true, false} {
			f2 := map[string]bool{}
			for k, v := range flags {
				f2[k] = v
			}
			f2["paste"] = paste
			model, _ := x.modelNew(f2)
			total, bounds := "", ""
			for i, e := range []c13V{x.structV(x.typ(x.root, "PasteStartEvent"), nil), ev, x.structV(x.typ(x.root, "PasteEndEvent"), nil)} {
				r := x.runAll(x.fnUpdate, model, e)
				if r.undecided != "" || r.panicked != "" || r.recv.st == nil {
					return false
				}
				model = r.recv
				total += r.writes
				if i == 0 {
					bounds = r.writes
				}
			}
			if len(total) < len(bounds) || total[:len(bounds)] != bounds || len(total) < len(bounds)+len(want) || total[len(bounds):len(bounds)+len(want)] != want {
				return false
			}
			if rest := total[len(bounds)+len(want):]; paste != (rest != "") {
				return false
			}
		}
		return true
	}
	compare := func(v *c13Verdict, mods int64, mk func(m, et int64) c13V) {
		for cfg := 0; cfg < 4; cfg++ {
			flags := map[string]bool{"deckpam": cfg&1 != 0, "decckm": cfg&2 != 0}
			cs := c13FlagString(flags)
			v.n++
			rb, und, bad := write(x.model(flags), mk(mods, press))
			if und != "" {
				v.unk("mods %s modes %s: %s", x.modString(mods), cs, und)
				continue
			}
			if bad != "" || rb.writes == "" {
				continue // a press that panics or is dropped is judged by C13.a/f/l
			}
			base := rb.writes
			for _, vr := range variants {
				v.n++
				ev := mk(mods, vr.et)
				r, und, bad := write(x.model(flags), ev)
				if und != "" {
					// the outcome depends on state Update keeps between calls (unknown in the stand-in Model):
					// the Model as New() builds it, every method of the widget interpreted
					mn, _ := x.modelNew(flags)
					if r2 := x.runAll(x.fnUpdate, mn, ev); r2.undecided == "" {
						r, und, bad = r2, "", ""
						if r2.panicked != "" {
							bad = "Update panics: " + r2.panicked
						}
					}
				}
				switch {
				case vr.et == pst && und != "" && heldBack(flags, ev, base):
					// decided over the whole paste
				case und != "":
					v.unk("%s mods %s modes %s: %s", vr.name, x.modString(mods), cs, und)
				case bad != "":
					v.fail("%s mods %s modes %s: %s (the press writes %q)", vr.name, x.modString(mods), cs, bad, base)
				case r.writes == base:
				case vr.et == pst && heldBack(flags, ev, base):
					// held back until the paste ends
				case r.writes == "":
					why := ""
					if len(v.bad) == 0 {
						why = ": " + c13mWhen(vr.name)
					}
					v.fail("%s mods %s modes %s: nothing is written to the child, but %q for the same key with EventPress (a key handed to the embedded terminal is dropped because of its event type%s)",
						vr.name, x.modString(mods), cs, base, why)
				default:
					same, und := sameEvents(r.writes, base)
					switch {
					case und != "":
						v.unk("%s mods %s modes %s: %q is written, %q for the press; decoding: %s", vr.name, x.modString(mods), cs, r.writes, base, und)
					case !same:
						v.fail("%s mods %s modes %s: %q is written, but %q for the same key with EventPress, and the two do not decode to the same key (%s)",
							vr.name, x.modString(mods), cs, r.writes, base, c13mWhen(vr.name))
					}
				}
			}
		}
	}

	// ---- special keys
	ref := x.refKeys()
	seen := map[int64]bool{}
	var keys []int64
	for _, k := range ref {
		if !seen[k] {
			seen[k] = true
			keys = append(keys, k)
		}
	}
	var extras []int64
	for obj, gv := range x.m.globals {
		if obj.Pkg() != x.term || gv.k != c13Map || gv.m == nil {
			continue
		}
		for _, k := range gv.m.keys {
			if k.k == c13Int && k.i > unicode.MaxRune && !seen[k.i] {
				seen[k.i] = true
				extras = append(extras, k.i)
			}
		}
	}
	sort.Slice(extras, func(i, j int) bool { return extras[i] < extras[j] })
	keys = append(keys, extras...)
	for _, n := range []string{"KeyEnter", "KeyTab", "KeyEsc", "KeyBackspace"} {
		if k, ok := x.consts[n]; ok && !seen[k] {
			seen[k] = true
			keys = append(keys, k)
		}
	}
	for _, code := range keys {
		code := code
		v := &c13Verdict{}
		for sub := 0; sub < 8; sub++ {
			var mods int64
			if sub&1 != 0 {
				mods |= sh
			}
			if sub&2 != 0 {
				mods |= al
			}
			if sub&4 != 0 {
				mods |= ct
			}
			compare(v, mods, func(m, et int64) c13V {
				return x.structV(keyT, map[string]c13V{"Keycode": {k: c13Int, i: code}, "Modifiers": {k: c13Int, i: m}, "EventType": {k: c13Int, i: et}})
			})
		}
		x.emit("C13.m", fmt.Sprintf("term.(*Model).Update/%s repeated / pasted = pressed", x.kname(code)), x.fnUpdate, v,
			"EventRepeat and EventPaste write what EventPress writes, under every subset of Shift/Alt/Ctrl and every DECCKM/DECKPAM setting")
	}

	// ---- printable keys (what a paste consists of, and what a held letter repeats)
	type tk struct {
		label         string
		code, shifted int64
		mods          int64
		text          string
	}
	var tks []tk
	for _, r := range []rune{'a', 'q', 'z'} {
		up := unicode.ToUpper(r)
		tks = append(tks,
			tk{fmt.Sprintf("%c (text %q)", r, string(r)), int64(r), 0, 0, string(r)},
			tk{fmt.Sprintf("%c (no text)", r), int64(r), 0, 0, ""},
			tk{fmt.Sprintf("Shift+%c (text %q)", r, string(up)), int64(r), int64(up), sh, string(up)},
			tk{fmt.Sprintf("%c (text %q, as decoded from a pasted capital)", up, string(up)), int64(up), 0, 0, string(up)},
			tk{fmt.Sprintf("Ctrl+%c", r), int64(r), 0, ct, ""},
			tk{fmt.Sprintf("Alt+%c", r), int64(r), 0, al, ""},
			tk{fmt.Sprintf("Alt+%c (text %q)", r, string(r)), int64(r), 0, al, string(r)},
		)
	}
	for _, r := range []rune{'1', '7', ' ', '/', 'é', '世'} {
		tks = append(tks,
			tk{fmt.Sprintf("%q (text)", string(r)), int64(r), 0, 0, string(r)},
			tk{fmt.Sprintf("%q (no text)", string(r)), int64(r), 0, 0, ""},
		)
	}
	for _, t := range tks {
		t := t
		v := &c13Verdict{}
		mk := func(m, et int64) c13V {
			f := map[string]c13V{"Keycode": {k: c13Int, i: t.code}, "Modifiers": {k: c13Int, i: m}, "EventType": {k: c13Int, i: et}}
			if t.text != "" {
				f["Text"] = c13str(t.text)
			}
			if t.shifted != 0 {
				f["ShiftedCode"] = c13V{k: c13Int, i: t.shifted}
			}
			return x.structV(keyT, f)
		}
		compare(v, t.mods, mk)
		x.emit("C13.m", "term.(*Model).Update/printable "+t.label+" repeated / pasted = pressed", x.fnUpdate, v,
			"EventRepeat and EventPaste write what EventPress writes")
	}
}

func c13mWhen(variant string) string {
	if variant == "EventPaste" {
		return "every key Vaxis decodes between PasteStartEvent and PasteEndEvent carries EventPaste — a bracketed paste reaches the child as ESC[200~ ESC[201~ without these keys"
	}
	return "a held key on a host speaking the kitty keyboard protocol arrives with EventRepeat — it acts once"
}
