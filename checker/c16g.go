package main

// C16.g — progress of the long-word split (written by the main author after an independently
// seeded regression): a grapheme is deferred to the next line only if the current line already
// has content. If the deferring condition can hold on an empty line, a grapheme wider than the
// line is deferred forever and Scan never terminates (the property exempts such a grapheme from
// the width bound precisely so that it can be emitted alone).
//
// Formulation (independent of how the test is spelt): in the loop that hands the graphemes of the
// long word to the token one by one (its body appends to s.token and advances the line width by the
// grapheme's Width), every path through one iteration that does NOT append the grapheme to the token
// ("deferring path") must be infeasible on an empty line, i.e. under  w == 0  and  s.width >= 1
// (Scan returns early for width 0) some branch decision taken on that path is contradicted.
// The decisions are evaluated as formulas (c15Formula/c15Eval), so `C`, `!(!C)`, De Morgan forms,
// if/else with the branches swapped, early-continue forms and named booleans (propagated by the
// normaliser) are all the same to the rule.

import (
	"fmt"
	"go/ast"
	"go/token"
	"go/types"
	"strings"
)

type c16gDecision struct {
	expr ast.Expr
	pol  bool
}

type c16gPath struct {
	conds    []c16gDecision
	appended bool
	done     bool
	odd      string
}

func (p c16gPath) clone() c16gPath {
	q := p
	q.conds = append([]c16gDecision{}, p.conds...)
	return q
}

// c16gIsTokenAppend:  X.token = append(X.token, ...)
func c16gIsTokenAppend(n ast.Node) bool {
	as, ok := n.(*ast.AssignStmt)
	if !ok || len(as.Lhs) != 1 || len(as.Rhs) != 1 {
		return false
	}
	sel, ok := unparen(as.Lhs[0]).(*ast.SelectorExpr)
	if !ok || sel.Sel.Name != "token" {
		return false
	}
	call, ok := unparen(as.Rhs[0]).(*ast.CallExpr)
	if !ok || len(call.Args) < 2 {
		return false
	}
	id, ok := call.Fun.(*ast.Ident)
	return ok && id.Name == "append"
}

// c16gWidthAdvance:  acc += <…Width…>  /  acc = acc + <…Width…>  on a plain local; returns acc.
func c16gWidthAdvance(info *types.Info, n ast.Node) types.Object {
	as, ok := n.(*ast.AssignStmt)
	if !ok || len(as.Lhs) != 1 || len(as.Rhs) != 1 {
		return nil
	}
	id, ok := unparen(as.Lhs[0]).(*ast.Ident)
	if !ok {
		return nil
	}
	o := info.ObjectOf(id)
	if o == nil {
		return nil
	}
	if as.Tok != token.ADD_ASSIGN {
		if _, isAdv := c16Advance(info, as, o); !isAdv || as.Tok != token.ASSIGN {
			return nil
		}
	}
	if !containsNode(as.Rhs[0], func(m ast.Node) bool {
		s, ok := m.(*ast.SelectorExpr)
		return ok && s.Sel.Name == "Width"
	}) {
		return nil
	}
	return o
}

// c16gOwn visits the nodes of a loop body that belong to this loop (not to nested loops or closures).
func c16gOwn(body ast.Node, f func(ast.Node)) {
	ast.Inspect(body, func(n ast.Node) bool {
		if n == nil {
			return false
		}
		if n != body {
			switch n.(type) {
			case *ast.ForStmt, *ast.RangeStmt, *ast.FuncLit:
				return false
			}
		}
		f(n)
		return true
	})
}

func c16gHasEvents(n ast.Node) bool {
	found := false
	c16gOwn(n, func(m ast.Node) {
		switch m.(type) {
		case *ast.BranchStmt, *ast.ReturnStmt:
			found = true
		}
		if c16gIsTokenAppend(m) {
			found = true
		}
	})
	return found
}

func c16gExec(list []ast.Stmt, in c16gPath) []c16gPath {
	paths := []c16gPath{in}
	for _, st := range list {
		var next []c16gPath
		for _, p := range paths {
			if p.done {
				next = append(next, p)
				continue
			}
			next = append(next, c16gStep(st, p)...)
		}
		paths = next
	}
	return paths
}

func c16gStep(st ast.Stmt, p c16gPath) []c16gPath {
	switch t := st.(type) {
	case *ast.BlockStmt:
		return c16gExec(t.List, p)
	case *ast.LabeledStmt:
		return c16gStep(t.Stmt, p)
	case *ast.BranchStmt, *ast.ReturnStmt:
		p.done = true
		return []c16gPath{p}
	case *ast.IfStmt:
		if !c16gHasEvents(t) {
			return []c16gPath{p}
		}
		a := p.clone()
		a.conds = append(a.conds, c16gDecision{t.Cond, true})
		outs := c16gExec(t.Body.List, a)
		b := p.clone()
		b.conds = append(b.conds, c16gDecision{t.Cond, false})
		if t.Else != nil {
			outs = append(outs, c16gStep(t.Else, b)...)
		} else {
			outs = append(outs, b)
		}
		return outs
	case *ast.ForStmt, *ast.RangeStmt:
		return []c16gPath{p} // nested loops only move the deferred graphemes
	case *ast.AssignStmt:
		if c16gIsTokenAppend(t) {
			p.appended = true
		}
		return []c16gPath{p}
	case *ast.SwitchStmt, *ast.TypeSwitchStmt, *ast.SelectStmt:
		if c16gHasEvents(t) {
			p.odd = fmt.Sprintf("%T", st)
		}
		return []c16gPath{p}
	}
	return []c16gPath{p}
}

func c16Progress(c *Ctx) {
	for _, name := range []string{"vxfw/text.(*SoftwrapScanner).Scan", "vxfw/richtext.(*SoftwrapScanner).Scan"} {
		fi := c.P.Func(name)
		if fi == nil {
			c.undecided("C16.g", name, 0, "Scan not found")
			continue
		}
		info := fi.Pkg.TypesInfo
		var recv types.Object
		if fd := fi.Decl; fd.Recv != nil && len(fd.Recv.List) == 1 && len(fd.Recv.List[0].Names) == 1 {
			recv = info.Defs[fd.Recv.List[0].Names[0]]
		}
		found := 0
		ast.Inspect(fi.Decl.Body, func(n ast.Node) bool {
			var body *ast.BlockStmt
			switch t := n.(type) {
			case *ast.RangeStmt:
				body = t.Body
			case *ast.ForStmt:
				body = t.Body
			}
			if body == nil {
				return true
			}
			// the split loop: one iteration adds to the token and advances a width accumulator by a Width
			var acc types.Object
			appends := false
			c16gOwn(body, func(m ast.Node) {
				if o := c16gWidthAdvance(info, m); o != nil {
					acc = o
				}
				if c16gIsTokenAppend(m) {
					appends = true
				}
			})
			if acc == nil || !appends {
				return true
			}
			paths := c16gExec(body.List, c16gPath{})
			// the empty line: acc == 0, and the width is at least 1
			accL := c15TermLin(ptrID(acc), acc.Name(), c15IsUnsigned(acc.Type()))
			assume := []c15Lin{accL, accL.neg()}
			if recv != nil {
				assume = append(assume, c15TermLin(fmt.Sprintf("%p", recv)+".width", recv.Name()+".width", true).neg().plus(1))
			}
			deferring, okAll := 0, true
			bad, odd := "", ""
			for _, p := range paths {
				if p.odd != "" {
					odd = p.odd
				}
				if p.appended {
					continue
				}
				deferring++
				refuted := false
				var desc []string
				for _, d := range p.conds {
					v := c15Eval(c15Formula(info, d.expr), assume, nil)
					if (d.pol && v == -1) || (!d.pol && v == 1) {
						refuted = true
					}
					x := types.ExprString(d.expr)
					if !d.pol {
						x = "!(" + x + ")"
					}
					desc = append(desc, x)
				}
				if !refuted {
					okAll = false
					if bad == "" {
						bad = strings.Join(desc, " && ")
						if bad == "" {
							bad = "unconditional"
						}
					}
				}
			}
			if odd != "" {
				found++
				c.undecided("C16.g", name+"/a grapheme is deferred only from a line that already has content", n.Pos(), "the grapheme loop branches with a %s the rule does not follow", odd)
				return true
			}
			if deferring == 0 {
				return true
			}
			found++
			c.check(okAll, "C16.g", name+"/a grapheme is deferred only from a line that already has content", n.Pos(),
				"every way of not adding the grapheme to the token is excluded when the line is empty ("+acc.Name()+" == 0, width >= 1)", "the deferring condition `"+bad+"` can hold on an empty line: a grapheme wider than the line is never emitted and Scan does not terminate")
			return true
		})
		if found == 0 {
			c.undecided("C16.g", name+"/long-word split loop", fi.Decl.Pos(), "no deferring branch found in a grapheme loop that accumulates a width")
		}
	}
}

func ptrID(o types.Object) string { return termOfObj(o) }

func termOfObj(o types.Object) string {
	return (Term{ID: objID(o)}).ID
}

func objID(o types.Object) string {
	return sprintfPtr(o)
}
