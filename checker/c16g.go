package main

// C16.g — progress of the long-word split (written by the main author after an independently
// seeded regression): a grapheme is deferred to the next line only if the current line already
// has content. If the deferring condition can hold on an empty line, a grapheme wider than the
// line is deferred forever and Scan never terminates (the property exempts such a grapheme from
// the width bound precisely so that it can be emitted alone).

import (
	"go/ast"
	"go/token"
	"go/types"
)

func c16Progress(c *Ctx) {
	for _, name := range []string{"vxfw/text.(*SoftwrapScanner).Scan", "vxfw/richtext.(*SoftwrapScanner).Scan"} {
		fi := c.P.Func(name)
		if fi == nil {
			c.undecided("C16.g", name, 0, "Scan not found")
			continue
		}
		info := fi.Pkg.TypesInfo
		found := 0
		ast.Inspect(fi.Decl.Body, func(n ast.Node) bool {
			rs, ok := n.(*ast.RangeStmt)
			if !ok {
				return true
			}
			// the split loop: its body adds to the width accumulator `w += …Width`
			var acc types.Object
			for _, st := range rs.Body.List {
				if as, ok := st.(*ast.AssignStmt); ok && as.Tok == token.ADD_ASSIGN && len(as.Lhs) == 1 {
					if id, ok := as.Lhs[0].(*ast.Ident); ok && containsNode(as.Rhs[0], func(m ast.Node) bool {
						s, ok := m.(*ast.SelectorExpr)
						return ok && s.Sel.Name == "Width"
					}) {
						acc = info.ObjectOf(id)
					}
				}
			}
			if acc == nil {
				return true
			}
			for _, st := range rs.Body.List {
				ifs, ok := st.(*ast.IfStmt)
				if !ok {
					continue
				}
				defers := false
				for _, b := range ifs.Body.List {
					if br, ok := b.(*ast.BranchStmt); ok && (br.Tok == token.BREAK || br.Tok == token.CONTINUE) {
						defers = true
					}
				}
				if !defers {
					continue
				}
				found++
				accT := termOf(info, &ast.Ident{Name: acc.Name()})
				accT = Term{ID: ptrID(acc), Disp: acc.Name()}
				okAll := true
				bad := ""
				for _, d := range splitOr(ifs.Cond) {
					okD := false
					for _, cj := range splitAnd(d) {
						for _, a := range exprAtoms(info, cj, true) {
							if a.Kind != "lin" {
								continue
							}
							// w >= 1 : 0 - w <= -1
							if a.A.ID == "" && a.A.Disp == "" && a.B.ID == accT.ID && a.K <= -1 {
								okD = true
							}
							// w >= <line width field> : width - w <= 0 (the scanner returns early for width 0)
							if a.B.ID == accT.ID && a.K <= 0 && a.A.Disp != "" && isWidthField(a.A.Disp) {
								okD = true
							}
						}
						if be, ok := unparen(cj).(*ast.BinaryExpr); ok && be.Op == token.NEQ {
							if id, ok := unparen(be.X).(*ast.Ident); ok && info.ObjectOf(id) == acc {
								if v, isC := constInt(info, be.Y); isC && v == 0 {
									okD = true
								}
							}
						}
					}
					if !okD {
						okAll = false
						bad = types.ExprString(d)
					}
				}
				c.check(okAll, "C16.g", name+"/a grapheme is deferred only from a line that already has content", ifs.Pos(),
					"every alternative of the deferring condition implies the line is non-empty", "the deferring condition `"+bad+"` can hold on an empty line: a grapheme wider than the line is never emitted and Scan does not terminate")
			}
			return true
		})
		if found == 0 {
			c.undecided("C16.g", name+"/long-word split loop", fi.Decl.Pos(), "no deferring branch found in a grapheme loop that accumulates a width")
		}
	}
}

func ptrID(o types.Object) string { return termOfObj(o) }

func termOfObj(o types.Object) string {
	return (Term{ID: objID(o)}).ID
}

func objID(o types.Object) string {
	return sprintfPtr(o)
}

func isWidthField(disp string) bool {
	return len(disp) >= 6 && disp[len(disp)-6:] == ".width"
}

func splitOr(e ast.Expr) []ast.Expr {
	e = unparen(e)
	if b, ok := e.(*ast.BinaryExpr); ok && b.Op == token.LOR {
		return append(splitOr(b.X), splitOr(b.Y)...)
	}
	return []ast.Expr{e}
}

func splitAnd(e ast.Expr) []ast.Expr {
	e = unparen(e)
	if b, ok := e.(*ast.BinaryExpr); ok && b.Op == token.LAND {
		return append(splitAnd(b.X), splitAnd(b.Y)...)
	}
	return []ast.Expr{e}
}
