package main

// C11 — windows clip. The clipping clause is decided completely by an
// inductive argument over the parent chain; every step is an obligation here:
//   a  only screen.resize/setCell/setStyle (and render, through screenLast only) touch screen.buf;
//      rows/cols/buf are assigned only in resize with len(buf)=rows, len(buf[i])=cols; no alias of buf escapes
//      (a function-local pointer/row alias that is only used in place counts as the access it stands for: c11alias.go)
//   b  the stores in setCell/setStyle are reachable only under 0<=col<s.cols && 0<=row<s.rows (strict)
//   c  Window.SetCell/SetStyle delegate only under 0<=col<win.Width && 0<=row<win.Height with
//      arguments exactly col+win.Column,row+win.Row, to the screen iff Parent==nil else to the parent
//      (symbolic evaluation c11sym.go; a hand-written walk up the parent chain is judged by induction: c11loop.go)
//   d  screen.setCell/setStyle are called only from Window.SetCell/SetStyle
//   e  the screen handles (Vaxis.screenNext/screenLast) do not escape their owners
//   f  Characters builds every Character from a uniseg cluster
//   g,h,k  the text helpers move the cursor by the character width / to column 0 of the next row exactly when the
//      row is full / at every line break (c11text.go, field-sensitive symbolic evaluation c11fields.go)
//   i  (c19x.go) a line break is recognised by containment of a newline;  j (loopprog.go) loop progress
//   l  Window.New links the child to the window it is created from with exactly the requested offsets (c11text.go)

import (
	"fmt"
	"go/ast"
	"go/token"
	"go/types"
	"strings"

	"golang.org/x/tools/go/cfg"
	"golang.org/x/tools/go/packages"
)

func runC11(c *Ctx) {
	c.Clauses = []string{
		"C11.a sole owners of screen.buf/rows/cols; resize establishes len(buf)=rows and len(buf[i])=cols; no alias of the buffer escapes",
		"C11.b stores in screen.setCell/setStyle dominated by the strict four-sided guard",
		"C11.c Window.SetCell/SetStyle delegate only under their own strict four-sided guard with offsets added exactly once, to the screen iff Parent==nil",
		"C11.d screen.setCell/setStyle called only from Window.SetCell/SetStyle",
		"C11.e screenNext/screenLast handles do not escape (every use is a method-call receiver or a buffer access in the owners)",
		"C11.f Characters builds every Character from a cluster boundary computed by uniseg (or a constant) with that cluster's width",
		"C11.g text helpers advance the column by the character width between two placed cells (or start a new row)",
		"C11.h Print/Wrap start a new row exactly when the advanced column reaches the window width",
		"C11.k Print/Wrap start a new row at column 0 at every line-break cluster, on every path (a helper in which no branch is recognisably the line-break branch: by the evaluation of C11.o)",
		"C11.l Window.New links the child to the window it is created from (or an identical copy) with exactly the requested offsets",
	}
	c.NotDec = []string{"that uniseg's cluster boundaries and widths are themselves right; exact wrap positions chosen by Wrap (values computed at run time)"}
	c.expect("C11.a", 12)
	c.expect("C11.b", 8)
	c.expect("C11.c", 20)
	c.expect("C11.d", 2)
	c.expect("C11.e", 6)

	// local closures in the text helpers are spliced in at their calls first (c11norm.go)
	c11Normalise(c)
	pk := c.P.Pkg("vaxis")
	info := pk.TypesInfo
	scrObj, _ := pk.Types.Scope().Lookup("screen").(*types.TypeName)
	if scrObj == nil {
		c.undecided("C11.a", "vaxis.screen", 0, "type screen not found")
		return
	}
	st, _ := scrObj.Type().Underlying().(*types.Struct)
	fields := map[string]*types.Var{}
	for i := 0; st != nil && i < st.NumFields(); i++ {
		fields[st.Field(i).Name()] = st.Field(i)
	}
	for _, f := range []string{"buf", "rows", "cols"} {
		if fields[f] == nil {
			c.undecided("C11.a", "vaxis.screen."+f, scrObj.Pos(), "field %s not found in screen", f)
			return
		}
	}
	parents := c.P.Parents(pk)
	enclosingDecl := func(n ast.Node) *ast.FuncDecl {
		for cur := n; cur != nil; cur = parents[cur] {
			if fd, ok := cur.(*ast.FuncDecl); ok {
				return fd
			}
		}
		return nil
	}
	enclosing := func(n ast.Node) string {
		if fd := enclosingDecl(n); fd != nil {
			return "vaxis." + funcDeclName(fd)
		}
		return "vaxis.<package level>"
	}
	// code of an unexported function that nothing refers to never runs (typically a helper that the global
	// pre-normalisation inlined into all of its callers: the copies in the callers are what is judged)
	dead := c11DeadFuncs(pk)

	// ---- C11.a: every use of screen.buf / rows / cols
	owners := map[string]bool{"vaxis.(*screen).resize": true, "vaxis.(*screen).setCell": true, "vaxis.(*screen).setStyle": true}
	for _, file := range pk.Syntax {
		ast.Inspect(file, func(n ast.Node) bool {
			sel, ok := n.(*ast.SelectorExpr)
			if !ok {
				return true
			}
			s, ok := info.Selections[sel]
			if !ok || s.Kind() != types.FieldVal {
				return true
			}
			fv, _ := s.Obj().(*types.Var)
			if fv != fields["buf"] && fv != fields["rows"] && fv != fields["cols"] {
				return true
			}
			fn := enclosing(sel)
			acc := c11ClassifyAccessX(info, parents, sel, true)
			key := fmt.Sprintf("%s/%s %s via %s", fn, acc.kind, fv.Name(), types.ExprString(sel.X))
			encl := enclosingDecl(sel)
			// a single-definition local that stands for the handle (last := vx.screenLast) is looked through
			viaExpr := c11ResolveLocal(info, encl, sel.X)
			switch {
			case encl != nil && dead[encl]:
				c.ok("C11.a", key, sel.Pos(), "inside an unexported function that is never referenced (dead code)")
			case fv != fields["buf"]:
				if acc.kind == "write" && fn != "vaxis.(*screen).resize" {
					c.bad("C11.a", key, sel.Pos(), "screen.%s is assigned outside resize: len(buf) = rows / len(buf[i]) = cols is no longer an invariant", fv.Name())
				} else {
					c.ok("C11.a", key, sel.Pos(), "allowed access")
				}
			case owners[fn]:
				unresolved := ""
				if fn != "vaxis.(*screen).resize" {
					for _, w := range acc.aliasWrites {
						if ch := c11BufChain(info, encl, w, fields["buf"]); ch == nil || len(ch.idx) != 2 {
							unresolved = types.ExprString(w)
						}
					}
				}
				if unresolved != "" {
					c.bad("C11.a", key, sel.Pos(), "the buffer is written through a local alias (%s) that does not resolve to buf[row][col]: the guard of that store cannot be judged", unresolved)
				} else if acc.kind == "escape" && fn != "vaxis.(*screen).resize" {
					c.bad("C11.a", key, sel.Pos(), "the buffer (or a row of it) is aliased: %s", acc.why)
				} else {
					c.ok("C11.a", key, sel.Pos(), "owner function")
				}
			case fn == "vaxis.(*Vaxis).render":
				via := types.ExprString(viaExpr)
				switch {
				case acc.kind == "escape":
					c.bad("C11.a", key, sel.Pos(), "render aliases the screen buffer: %s", acc.why)
				case acc.kind == "write" && !strings.HasSuffix(via, "screenLast"):
					c.bad("C11.a", key, sel.Pos(), "render stores into the application's screen (%s); it may only store into screenLast", via)
				default:
					c.ok("C11.a", key, sel.Pos(), "render reads the next frame and writes only the last-frame copy")
				}
			default:
				if acc.kind == "read" {
					c.ok("C11.a", key, sel.Pos(), "read-only use (len/index/range) outside the owners")
				} else if acc.kind == "write" && canonPath(info, viaExpr) == "Vaxis.screenLast" {
					// the last-frame copy is the renderer's own bookkeeping, not the application's screen
					c.ok("C11.a", key, sel.Pos(), "store into the renderer's last-frame copy (helper of render)")
				} else {
					c.bad("C11.a", key, sel.Pos(), "screen.buf is %s outside its owners (resize/setCell/setStyle/render): a write that bypasses the clip guard%s", acc.kind, acc.why)
				}
			}
			return true
		})
	}
	// resize shape
	if rz := c.P.Func("vaxis.(*screen).resize"); rz != nil {
		c11ResizeShape(c, rz, info)
	} else {
		c.undecided("C11.a", "vaxis.(*screen).resize", 0, "resize not found")
	}

	// ---- C11.b: guards of stores in setCell / setStyle (and any other owner except resize)
	for _, name := range []string{"vaxis.(*screen).setCell", "vaxis.(*screen).setStyle"} {
		fi := c.P.Func(name)
		if fi == nil {
			c.undecided("C11.b", name, 0, "function not found")
			continue
		}
		g := c.P.Graph(fi)
		storeLhs := func(n ast.Node) []ast.Expr {
			switch t := n.(type) {
			case *ast.AssignStmt:
				return t.Lhs
			case *ast.IncDecStmt:
				return []ast.Expr{t.X}
			}
			return nil
		}
		stores := g.Find(func(n ast.Node) bool {
			for _, l := range storeLhs(n) {
				if c11BufChain(info, fi.Decl, l, fields["buf"]) != nil {
					return true
				}
			}
			return false
		})
		if len(stores) == 0 {
			c.undecided("C11.b", name+"/store", fi.Decl.Pos(), "no store into buf found in %s", name)
		}
		for _, h := range stores {
			as := h.Node
			for _, l := range storeLhs(h.Node) {
				ch := c11BufChain(info, fi.Decl, l, fields["buf"])
				if ch == nil {
					continue
				}
				facts := g.FactsAt(h.Loc)
				recv := termOf(info, ch.recv)
				rowsT := Term{ID: recv.ID + ".rows", Disp: recv.Disp + ".rows"}
				colsT := Term{ID: recv.ID + ".cols", Disp: recv.Disp + ".cols"}
				if len(ch.idx) != 2 {
					c.undecided("C11.b", name+"/store shape", as.Pos(), "store is not of the form buf[row][col]")
					continue
				}
				rowT, rk := linForm(info, ch.idx[0])
				colT, ck := linForm(info, ch.idx[1])
				type need struct {
					what string
					ok   bool
				}
				needs := []need{
					{"row >= 0", impliesLin(facts, Term{}, rowT, rk)},
					{"row < rows", impliesLin(facts, rowT, rowsT, -1-rk)},
					{"col >= 0", impliesLin(facts, Term{}, colT, ck)},
					{"col < cols", impliesLin(facts, colT, colsT, -1-ck)},
				}
				for _, nd := range needs {
					key := fmt.Sprintf("%s/store guarded by %s", name, nd.what)
					if nd.ok {
						c.ok("C11.b", key, as.Pos(), "dominating facts: %s", atomsString(facts))
					} else {
						c.bad("C11.b", key, as.Pos(), "the store %s is reachable without %s (facts in force: %s)", types.ExprString(l), nd.what, atomsString(facts))
					}
				}
			}
		}
	}

	// ---- C11.c: Window.SetCell / SetStyle
	winObj, _ := pk.Types.Scope().Lookup("Window").(*types.TypeName)
	for _, pair := range [][2]string{{"SetCell", "setCell"}, {"SetStyle", "setStyle"}} {
		name := "vaxis.Window." + pair[0]
		fi := c.P.Func(name)
		if fi == nil || winObj == nil {
			c.undecided("C11.c", name, 0, "function not found")
			continue
		}
		c11Window(c, fi, info, pair[0], pair[1], winObj)
	}

	c11TextHelpers(c)
	c.expect("C11.f", 2)
	c.expect("C11.g", 4)
	c.expect("C11.h", 2)
	c.expect("C11.k", 2)
	c.expect("C11.l", 3)
	c11WindowNew(c)

	// ---- C11.d: sole callers; C11.e: handles do not escape
	vxObj, _ := pk.Types.Scope().Lookup("Vaxis").(*types.TypeName)
	var fNext, fLast *types.Var
	if vxObj != nil {
		if vst, ok := vxObj.Type().Underlying().(*types.Struct); ok {
			for i := 0; i < vst.NumFields(); i++ {
				switch vst.Field(i).Name() {
				case "screenNext":
					fNext = vst.Field(i)
				case "screenLast":
					fLast = vst.Field(i)
				}
			}
		}
	}
	for _, p := range c.P.All {
		pinfo := p.TypesInfo
		par := c.P.Parents(p)
		pdead := dead
		if p != pk {
			pdead = c11DeadFuncs(p)
		}
		for _, file := range p.Syntax {
			ast.Inspect(file, func(n ast.Node) bool {
				sel, ok := n.(*ast.SelectorExpr)
				if !ok {
					return true
				}
				s, ok := pinfo.Selections[sel]
				if !ok {
					return true
				}
				encl := ""
				var enclFd *ast.FuncDecl
				for cur := ast.Node(sel); cur != nil; cur = par[cur] {
					if fd, ok := cur.(*ast.FuncDecl); ok {
						encl = shortPkg(p.PkgPath) + "." + funcDeclName(fd)
						enclFd = fd
						break
					}
				}
				if s.Kind() == types.MethodVal {
					m := s.Obj().(*types.Func)
					full := repoName(m)
					if full == "vaxis.screen.setCell" || full == "vaxis.screen.setStyle" {
						want := "vaxis.Window.SetCell"
						if m.Name() == "setStyle" {
							want = "vaxis.Window.SetStyle"
						}
						call, isCall := par[sel].(*ast.CallExpr)
						key := fmt.Sprintf("%s/calls screen.%s", encl, m.Name())
						switch {
						case enclFd != nil && pdead[enclFd]:
							c.ok("C11.d", key, sel.Pos(), "inside an unexported function that is never referenced (dead code)")
						case !isCall || call.Fun != sel:
							c.bad("C11.d", key, sel.Pos(), "screen.%s is taken as a method value; callers can no longer be enumerated", m.Name())
						case encl != want:
							c.bad("C11.d", key, sel.Pos(), "screen.%s is called from %s; only %s (which clips) may call it", m.Name(), encl, want)
						default:
							c.ok("C11.d", key, sel.Pos(), "sole caller")
						}
					}
					return true
				}
				fv, _ := s.Obj().(*types.Var)
				if s.Kind() == types.FieldVal && fv != nil && (fv == fNext || fv == fLast) {
					use := handleUse(pinfo, par, sel)
					key := fmt.Sprintf("%s/%s %s", encl, fv.Name(), use)
					switch {
					case enclFd != nil && pdead[enclFd]:
						c.ok("C11.e", key, sel.Pos(), "inside an unexported function that is never referenced (dead code)")
					case strings.HasPrefix(use, "call "), use == "buffer access", use == "local alias used in place":
						c.ok("C11.e", key, sel.Pos(), "handle used in place")
					case use == "assign" && (encl == "vaxis.New"):
						c.ok("C11.e", key, sel.Pos(), "constructor installs the screen")
					default:
						c.bad("C11.e", key, sel.Pos(), "the screen handle %s escapes (%s): drawing could bypass Window.SetCell", fv.Name(), use)
					}
				}
				return true
			})
		}
	}
}

type access struct {
	kind string // read | write | escape
	why  string
	// left-hand sides of stores made through a function-local alias of the accessed value (c11alias.go)
	aliasWrites []ast.Expr
}

func c11AccessOfAlias(r c11AliasResult) access {
	return access{kind: r.kind, why: r.why, aliasWrites: r.writes}
}

// classifyAccess classifies a use of s.buf (sel) by its syntactic context.
func classifyAccess(info *types.Info, parents map[ast.Node]ast.Node, sel *ast.SelectorExpr) access {
	return c11ClassifyAccessX(info, parents, sel, false)
}

// c11ClassifyAccessX: with aliasAware, a slice of / pointer into the value that is bound to a function-local variable
// which is only used in place is classified by the uses of that variable (c11alias.go) instead of as an escape.
func c11ClassifyAccessX(info *types.Info, parents map[ast.Node]ast.Node, sel *ast.SelectorExpr, aliasAware bool) access {
	// climb the maximal index/selector chain
	var top ast.Expr = sel
	for {
		p := parents[top]
		switch t := p.(type) {
		case *ast.IndexExpr:
			if t.X == top {
				top = t
				continue
			}
		case *ast.SelectorExpr:
			if t.X == top {
				top = t
				continue
			}
		case *ast.ParenExpr:
			top = t
			continue
		}
		break
	}
	p := parents[top]
	switch t := p.(type) {
	case *ast.AssignStmt:
		for _, l := range t.Lhs {
			if l == top {
				return access{kind: "write"}
			}
		}
	case *ast.IncDecStmt:
		return access{kind: "write"}
	case *ast.UnaryExpr:
		if t.Op == token.AND {
			// a pointer to an element bound to a local that is only used in place is not an escape
			if b := c11BoundLocal(info, parents, t); b != nil && aliasAware {
				if r := c11AliasUses(info, parents, b, 0); r.kind != "escape" {
					return c11AccessOfAlias(r)
				} else {
					return access{kind: "escape", why: "address taken; " + r.why}
				}
			}
			return access{kind: "escape", why: "address taken"}
		}
	case *ast.CallExpr:
		if id, ok := t.Fun.(*ast.Ident); ok && (id.Name == "len" || id.Name == "cap") {
			return access{kind: "read"}
		}
	case *ast.RangeStmt:
		if t.X == top {
			// ranging over rows yields row slices only if a value variable is bound
			if vt := info.TypeOf(t.Value); t.Value != nil && vt != nil {
				if _, isSlice := vt.Underlying().(*types.Slice); isSlice {
					if vid, ok := t.Value.(*ast.Ident); ok && aliasAware {
						if vid.Name == "_" {
							return access{kind: "read"}
						}
						if r := c11AliasUses(info, parents, vid, 0); r.kind != "escape" {
							return c11AccessOfAlias(r)
						} else {
							return access{kind: "escape", why: "range binds a row slice to a variable; " + r.why}
						}
					}
					return access{kind: "escape", why: "range binds a row slice to a variable"}
				}
			}
			return access{kind: "read"}
		}
	case *ast.SliceExpr:
		return access{kind: "escape", why: "re-sliced"}
	}
	if tt := info.TypeOf(top); tt != nil {
		if _, isSlice := tt.Underlying().(*types.Slice); isSlice {
			if b := c11BoundLocal(info, parents, top); b != nil && aliasAware {
				if r := c11AliasUses(info, parents, b, 0); r.kind != "escape" {
					return c11AccessOfAlias(r)
				} else {
					return access{kind: "escape", why: "a slice value of the buffer flows into " + fmt.Sprintf("%T", p) + "; " + r.why}
				}
			}
			return access{kind: "escape", why: "a slice value of the buffer flows into " + fmt.Sprintf("%T", p)}
		}
	}
	return access{kind: "read"}
}

type bufChain struct {
	recv ast.Expr
	idx  []ast.Expr
}

// bufIndexChain matches recv.buf[i][j](.field)* and returns recv and the indexes.
func bufIndexChain(info *types.Info, e ast.Expr, buf *types.Var) *bufChain {
	var idx []ast.Expr
	cur := e
	for {
		switch t := cur.(type) {
		case *ast.SelectorExpr:
			if s, ok := info.Selections[t]; ok && s.Obj() == buf {
				return &bufChain{recv: t.X, idx: idx}
			}
			if len(idx) > 0 {
				return nil
			}
			cur = t.X
		case *ast.IndexExpr:
			idx = append([]ast.Expr{t.Index}, idx...)
			cur = t.X
		case *ast.ParenExpr:
			cur = t.X
		default:
			return nil
		}
	}
}

func c11ResizeShape(c *Ctx, fi *FuncInfo, info *types.Info) {
	fd := fi.Decl
	var params []types.Object
	for _, f := range fd.Type.Params.List {
		for _, n := range f.Names {
			params = append(params, info.Defs[n])
		}
	}
	var bufLen, rowLen, rowsSrc, colsSrc types.Object
	ast.Inspect(fd.Body, func(n ast.Node) bool {
		as, ok := n.(*ast.AssignStmt)
		if !ok || len(as.Lhs) != 1 || len(as.Rhs) != 1 {
			return true
		}
		lhs := types.ExprString(stripRecv(as.Lhs[0]))
		mk := func(e ast.Expr) types.Object {
			call, ok := e.(*ast.CallExpr)
			if !ok || len(call.Args) != 2 {
				return nil
			}
			if id, ok := call.Fun.(*ast.Ident); !ok || id.Name != "make" {
				return nil
			}
			if id, ok := call.Args[1].(*ast.Ident); ok {
				return info.Uses[id]
			}
			return nil
		}
		switch {
		case lhs == "buf":
			bufLen = mk(as.Rhs[0])
		case strings.HasPrefix(lhs, "buf["):
			rowLen = mk(as.Rhs[0])
		case lhs == "rows":
			if id, ok := as.Rhs[0].(*ast.Ident); ok {
				rowsSrc = info.Uses[id]
			}
		case lhs == "cols":
			if id, ok := as.Rhs[0].(*ast.Ident); ok {
				colsSrc = info.Uses[id]
			}
		}
		return true
	})
	isParam := func(o types.Object) bool {
		for _, p := range params {
			if p == o && o != nil {
				return true
			}
		}
		return false
	}
	c.check(isParam(bufLen) && bufLen == rowsSrc, "C11.a", "vaxis.(*screen).resize/len(buf) == rows", fd.Pos(),
		"buf = make([][]Cell, R) and rows = R for the same parameter R", "resize no longer allocates len(buf) == rows (the row guard in setCell is then not a bound on the buffer)")
	c.check(isParam(rowLen) && rowLen == colsSrc && rowLen != bufLen, "C11.a", "vaxis.(*screen).resize/len(buf[i]) == cols", fd.Pos(),
		"every row = make([]Cell, C) and cols = C for the same parameter C", "resize no longer allocates every row with len == cols (the column guard in setCell is then not a bound on the row)")
	// every row is allocated: the row allocation sits in a loop over all rows (range over buf, or an index
	// loop from 0 while < rows / len(buf) stepping by one)
	inRange := false
	rowStore := func(body *ast.BlockStmt, idx string) bool {
		found := false
		ast.Inspect(body, func(m ast.Node) bool {
			if as, ok := m.(*ast.AssignStmt); ok && len(as.Lhs) == 1 {
				if ix, ok := as.Lhs[0].(*ast.IndexExpr); ok && types.ExprString(stripRecv(ix.X)) == "buf" && types.ExprString(ix.Index) == idx {
					found = true
				}
			}
			return true
		})
		return found
	}
	ast.Inspect(fd.Body, func(n ast.Node) bool {
		switch rs := n.(type) {
		case *ast.RangeStmt:
			if types.ExprString(stripRecv(rs.X)) == "buf" && rs.Key != nil && rowStore(rs.Body, types.ExprString(rs.Key)) {
				inRange = true
			}
		case *ast.ForStmt:
			// for i := 0; i < R; i++ / i += 1 with R the rows parameter, s.rows (after assignment) or len(s.buf)
			init, ok1 := rs.Init.(*ast.AssignStmt)
			cond, ok2 := rs.Cond.(*ast.BinaryExpr)
			if !ok1 || !ok2 || len(init.Lhs) != 1 || len(init.Rhs) != 1 || cond.Op != token.LSS {
				return true
			}
			iv, ok := init.Lhs[0].(*ast.Ident)
			if !ok {
				return true
			}
			if v, isC := constInt(info, init.Rhs[0]); !isC || v != 0 {
				return true
			}
			if id, ok := cond.X.(*ast.Ident); !ok || id.Name != iv.Name {
				return true
			}
			bound := types.ExprString(stripRecv(cond.Y))
			okBound := bound == "len(buf)"
			if id, ok := cond.Y.(*ast.Ident); ok && info.Uses[id] == bufLen && bufLen != nil {
				okBound = true
			}
			step := false
			switch p := rs.Post.(type) {
			case *ast.IncDecStmt:
				step = p.Tok == token.INC
			case *ast.AssignStmt:
				if p.Tok == token.ADD_ASSIGN && len(p.Rhs) == 1 {
					if v, isC := constInt(info, p.Rhs[0]); isC && v == 1 {
						step = true
					}
				}
			}
			if okBound && step && rowStore(rs.Body, iv.Name) {
				inRange = true
			}
		}
		return true
	})
	c.check(inRange, "C11.a", "vaxis.(*screen).resize/all rows allocated", fd.Pos(), "rows are allocated in a range over buf", "not every row of buf is allocated in resize")
}

func c11Window(c *Ctx, fi *FuncInfo, info *types.Info, self, screenMethod string, winObj *types.TypeName) {
	name := fi.Name
	g := c.P.Graph(fi)
	fd := fi.Decl
	if fd.Recv == nil || len(fd.Recv.List) != 1 || len(fd.Recv.List[0].Names) != 1 {
		c.undecided("C11.c", name+"/receiver", fd.Pos(), "unnamed receiver")
		return
	}
	recvObj := info.Defs[fd.Recv.List[0].Names[0]]
	var params []types.Object
	for _, f := range fd.Type.Params.List {
		for _, n := range f.Names {
			params = append(params, info.Defs[n])
		}
	}
	if len(params) < 2 {
		c.undecided("C11.c", name+"/params", fd.Pos(), "expected (col, row, ...) parameters")
		return
	}
	// which parameter is the column? by name of the parameter in the callee screen method / by its own name
	colP, rowP := params[0], params[1]
	if params[0].Name() == "row" || params[1].Name() == "col" {
		colP, rowP = params[1], params[0]
	}

	calls := g.Calls(func(fn *types.Func, call *ast.CallExpr) bool {
		if fn == nil {
			return false
		}
		rn := repoName(fn)
		return rn == "vaxis.screen."+screenMethod || rn == "vaxis.Window."+self
	})

	// Symbolic evaluation of every path (c11sym.go): the obligations are about the ENTRY values of col, row and of
	// the receiver's fields, whatever names and intermediate assignments the code uses on the way to the hand-off.
	// A loop that walks up the parent chain (the recursion unrolled by hand) is judged by induction (c11loop.go):
	// at the loop head the triple (w, col, row) stands for a pending w.SetCell(col, row); one iteration must
	// either drop the cell, hand it to the screen, or come back to the head with (w.Parent, col+w.Column, row+w.Row)
	// — the same obligations as for the recursive call, with w in the place of the receiver.
	ex := c11NewExec(c.P, info, fi.Pkg.Types)
	fr := &c11Frame{g: g, fd: fd, assigned: c11Assigned(info, fd.Body), addr: c11AddrTaken(info, fd.Body)}
	recvRoot := fmt.Sprintf("%p", recvObj)
	ex.disp[recvRoot] = recvObj.Name()
	sym := func(o types.Object) c11Lin {
		s := fmt.Sprintf("%p", o)
		ex.disp[s] = o.Name()
		return c11Sym(s)
	}
	col0, row0 := sym(colP), sym(rowP)
	// the reference of the obligations: the window and the coordinates of the pending SetCell
	refRoot, refCol, refRow := recvRoot, col0, row0
	fld := func(n string) c11Lin {
		s := refRoot + "." + n
		ex.disp[s] = ex.disp[refRoot] + "." + n
		return c11Sym(s)
	}
	one := c11Const(1)
	type verdict struct {
		reached int
		fail    map[string]string // obligation key -> reason on the first failing path
		order   []string
		okWhy   map[string]string
		pos     map[string]token.Pos
	}
	newVerdict := func() *verdict {
		return &verdict{fail: map[string]string{}, okWhy: map[string]string{}, pos: map[string]token.Pos{}}
	}
	note := func(v *verdict, key string, pos token.Pos, ok bool, okWhy, badWhy string) {
		if _, seen := v.pos[key]; !seen {
			v.pos[key] = pos
			v.order = append(v.order, key)
			v.okWhy[key] = okWhy
		}
		if !ok {
			if _, had := v.fail[key]; !had {
				v.fail[key] = badWhy
			}
		}
	}
	guardNotes := func(v *verdict, st *c11State, tag string, pos token.Pos) {
		factsStr := ex.factsString(st.facts)
		needs := []struct {
			what   string
			target c11Lin // target <= 0
		}{
			{"col >= 0", refCol.scale(-1)},
			{"col < Width", refCol.add(fld("Width"), -1).add(one, 1)},
			{"row >= 0", refRow.scale(-1)},
			{"row < Height", refRow.add(fld("Height"), -1).add(one, 1)},
		}
		for _, nd := range needs {
			key := fmt.Sprintf("%s/->%s guarded by %s", name, tag, nd.what)
			note(v, key, pos, c11Implies(st.facts, nd.target), "holds on every path; facts on the first one: "+factsStr,
				fmt.Sprintf("the delegating call is reachable without %s (facts in force: %s): a cell outside the window is accepted", nd.what, factsStr))
		}
	}
	byLoc := map[Loc][]*ast.CallExpr{}
	verdicts := map[*ast.CallExpr]*verdict{}
	for _, h := range calls {
		call := h.Node.(*ast.CallExpr)
		byLoc[h.Loc] = append(byLoc[h.Loc], call)
		verdicts[call] = newVerdict()
	}
	fr.onNode = func(st *c11State, l Loc, _ ast.Node) {
		for _, call := range byLoc[l] {
			v := verdicts[call]
			v.reached++
			fn := calleeOf(info, call)
			toScreen := repoName(fn) == "vaxis.screen."+screenMethod
			tag := "parent"
			if toScreen {
				tag = "screen"
			}
			guardNotes(v, st, tag, call.Pos())
			// arguments: callee's (col,row) parameters receive col+Column,row+Row (entry values)
			sig := fn.Type().(*types.Signature)
			if sig.Params().Len() < 2 || len(call.Args) < 2 {
				note(v, name+"/->"+tag+" args", call.Pos(), false, "", "unexpected callee signature")
				continue
			}
			for i := 0; i < 2; i++ {
				pn := sig.Params().At(i).Name()
				wantP, want0, wantF := colP, refCol, "Column"
				if pn == "row" || (pn != "col" && i == 1) {
					wantP, want0, wantF = rowP, refRow, "Row"
				}
				got := ex.evalInt(st, call.Args[i])
				key := fmt.Sprintf("%s/->%s arg %s = %s + %s.%s", name, tag, pn, wantP.Name(), recvObj.Name(), wantF)
				shown := types.ExprString(call.Args[i])
				if val := ex.linString(got); val != shown {
					shown += " (= " + val + ")"
				}
				note(v, key, call.Args[i].Pos(), got.equal(want0.add(fld(wantF), 1)), "offset added exactly once",
					fmt.Sprintf("argument is %s, the clipping argument needs exactly %s + %s.%s: an accepted cell does not land at origin plus offset", shown, wantP.Name(), recvObj.Name(), wantF))
			}
			// receiver of the delegating call and the Parent test
			sel, _ := unparen(call.Fun).(*ast.SelectorExpr)
			var rp c11Path
			if sel != nil {
				rp = ex.resolvePath(st, sel.X)
			}
			parentKey := refRoot + ".Parent"
			ex.disp[parentKey] = ex.disp[refRoot] + ".Parent"
			if toScreen {
				okRecv := rp.ok && rp.root == refRoot && len(rp.parts) == 2 && rp.parts[0] == "Vx" && rp.parts[1] == "screenNext"
				note(v, name+"/->screen receiver is win.Vx.screenNext", call.Pos(), okRecv, "draws into the next-frame screen of its own Vaxis", "the root window does not draw into win.Vx.screenNext")
				note(v, name+"/->screen only when Parent == nil", call.Pos(), c11ImpliesNil(st.facts, parentKey, true), "root windows only", "a window with a parent writes to the screen directly, bypassing the ancestors' clipping")
			} else {
				okRecv := rp.ok && rp.root == refRoot && len(rp.parts) == 1 && rp.parts[0] == "Parent"
				note(v, name+"/->parent receiver is win.Parent", call.Pos(), okRecv, "delegates to its own parent", "the window delegates to something other than its parent")
				note(v, name+"/->parent only when Parent != nil", call.Pos(), c11ImpliesNil(st.facts, parentKey, false), "non-root windows only", "delegation to a nil parent is reachable")
			}
		}
	}
	// phase A: from the entry to the hand-offs or to the first loop head of each path
	var arrivals []c11Arrival
	fr.heads = c11LoopHeads(g)
	fr.onLoopHead = func(st *c11State, b *cfg.Block) bool {
		if len(arrivals) < 32 {
			arrivals = append(arrivals, c11Arrival{head: b, st: st.clone()})
		} else {
			ex.overflow = true
		}
		return true
	}
	ex.run(c11NewState(), fr, g.Blocks[0], 0, nil)
	// phase B: every arrival continued from the loop head in the generic state of an arbitrary iteration
	stepVerdicts := map[*cfg.Block]*verdict{}
	var stepOrder []*cfg.Block
	walks := 0
	for ai, a := range arrivals {
		if ex.overflow {
			break
		}
		// designated variables: those the loop assigns and that hold, on arrival, exactly the receiver / col / row
		gs, assigned := ex.c11GenericState(fr, a)
		var wVars, cVars, rVars []types.Object
		for o := range assigned {
			v, isVar := o.(*types.Var)
			if !isVar {
				continue
			}
			switch {
			case ex.isIntType(v.Type()):
				val, has := a.st.ints[o]
				if !has {
					val = c11Sym(ex.objSym(a.st, o))
				}
				if val.equal(col0) {
					cVars = append(cVars, o)
				} else if val.equal(row0) {
					rVars = append(rVars, o)
				}
			default:
				t := v.Type()
				if pt, ok := t.Underlying().(*types.Pointer); ok {
					t = pt.Elem()
				}
				if nt, ok := t.(*types.Named); !ok || nt.Obj() != winObj {
					continue
				}
				pth, has := a.st.alias[o]
				if !has {
					pth = c11Path{root: ex.objSym(a.st, o), ok: true}
				}
				if pth.ok && pth.root == recvRoot && len(pth.parts) == 0 {
					wVars = append(wVars, o)
				}
			}
		}
		refRoot, refCol, refRow = recvRoot, col0, row0
		if len(wVars) > 0 {
			walks++
			refRoot = fmt.Sprintf("W@%d", ai)
			ex.disp[refRoot] = wVars[0].Name()
			for _, o := range wVars {
				gs.alias[o] = c11Path{root: refRoot, ok: true}
			}
			if len(cVars) > 0 {
				s := fmt.Sprintf("C@%d", ai)
				ex.disp[s] = cVars[0].Name()
				refCol = c11Sym(s)
				for _, o := range cVars {
					gs.ints[o] = refCol
				}
			}
			if len(rVars) > 0 {
				s := fmt.Sprintf("R@%d", ai)
				ex.disp[s] = rVars[0].Name()
				refRow = c11Sym(s)
				for _, o := range rVars {
					gs.ints[o] = refRow
				}
			}
		}
		head := a.head
		walker := len(wVars) > 0
		fr.onLoopHead = func(st *c11State, b *cfg.Block) bool {
			if b != head || st.visits[b] == 0 {
				return false // the start of this walk, or another (nested / later) loop: unrolled as before
			}
			if !walker {
				return true // the generic state already stands for every iteration
			}
			// the induction step: the next iteration starts with (w.Parent, col + w.Column, row + w.Row)
			v := stepVerdicts[b]
			if v == nil {
				v = newVerdict()
				stepVerdicts[b] = v
				stepOrder = append(stepOrder, b)
			}
			v.reached++
			pos := fd.Pos()
			if b.Stmt != nil {
				pos = b.Stmt.Pos()
			}
			guardNotes(v, st, "parent", pos)
			for _, ax := range []struct {
				vars []types.Object
				p    types.Object
				ref  c11Lin
				f    string
			}{{cVars, colP, refCol, "Column"}, {rVars, rowP, refRow, "Row"}} {
				key := fmt.Sprintf("%s/->parent arg %s = %s + %s.%s", name, ax.p.Name(), ax.p.Name(), recvObj.Name(), ax.f)
				okArg := len(ax.vars) > 0
				shown := "unchanged"
				for _, o := range ax.vars {
					got, has := st.ints[o]
					if !has {
						got = c11Sym(ex.objSym(st, o))
					}
					if !got.equal(ax.ref.add(fld(ax.f), 1)) {
						okArg = false
					}
					shown = ex.linString(got)
				}
				note(v, key, pos, okArg, "offset added exactly once before the walk moves to the parent",
					fmt.Sprintf("the next level of the walk continues with %s = %s, the clipping argument needs exactly %s + %s.%s: an accepted cell does not land at origin plus offset", ax.p.Name(), shown, ax.p.Name(), recvObj.Name(), ax.f))
			}
			okRecv := true
			for _, o := range wVars {
				pth, has := st.alias[o]
				if !has || !pth.ok || pth.root != refRoot || len(pth.parts) != 1 || pth.parts[0] != "Parent" {
					okRecv = false
				}
			}
			parentKey := refRoot + ".Parent"
			ex.disp[parentKey] = ex.disp[refRoot] + ".Parent"
			note(v, name+"/->parent receiver is win.Parent", pos, okRecv, "the walk moves to the window's own parent", "the walk continues with something other than the window's parent")
			note(v, name+"/->parent only when Parent != nil", pos, c11ImpliesNil(st.facts, parentKey, false), "non-root windows only", "the walk can move to a nil parent")
			return true
		}
		ex.run(gs, fr, a.head, 0, nil)
	}
	refRoot, refCol, refRow = recvRoot, col0, row0
	if len(calls)+walks < 2 {
		c.undecided("C11.c", name+"/delegation", fd.Pos(), "expected a delegating call to the screen and one to the parent window (or a walk up the parent chain), found %d", len(calls)+walks)
	}
	if ex.overflow {
		c.undecided("C11.c", name+"/paths", fd.Pos(), "too many paths for the symbolic evaluation of %s", name)
		return
	}
	emit := func(v *verdict) {
		for _, key := range v.order {
			if why, bad := v.fail[key]; bad {
				c.bad("C11.c", key, v.pos[key], "%s", why)
			} else {
				c.ok("C11.c", key, v.pos[key], "%s", v.okWhy[key])
			}
		}
	}
	for _, h := range calls {
		call := h.Node.(*ast.CallExpr)
		v := verdicts[call]
		if v.reached == 0 {
			c.undecided("C11.c", name+"/delegation reachable", call.Pos(), "no feasible path reaches the delegating call %s", types.ExprString(call.Fun))
			continue
		}
		emit(v)
	}
	for _, b := range stepOrder {
		emit(stepVerdicts[b])
	}
	// The symbolic evaluation follows plain assignments. A write through a pointer to, or a closure over, the
	// coordinates or the receiver makes them unknown at the next opaque call / indirect write, which fails the
	// obligations above if (and only if) that happens before a hand-off; so this instance is informational.
	hidden := false
	for _, o := range []types.Object{recvObj, colP, rowP} {
		hidden = hidden || fr.addr[o]
	}
	if !hidden {
		c.ok("C11.c", name+"/coordinates and window changed by plain assignments only", fd.Pos(), "no address of col,row or the receiver is taken and no closure captures them")
	}
}

// c11DeadFuncs: the unexported functions and methods of pk that nothing refers to (fixpoint: references from
// dead functions do not count). A method is kept alive by an interface of the package that declares its name.
func c11DeadFuncs(pk *packages.Package) map[*ast.FuncDecl]bool {
	info := pk.TypesInfo
	type cand struct {
		fd  *ast.FuncDecl
		obj types.Object
	}
	var cands []cand
	ifaceNames := map[string]bool{}
	for _, f := range pk.Syntax {
		ast.Inspect(f, func(n ast.Node) bool {
			if it, ok := n.(*ast.InterfaceType); ok && it.Methods != nil {
				for _, m := range it.Methods.List {
					for _, nm := range m.Names {
						ifaceNames[nm.Name] = true
					}
				}
			}
			return true
		})
		for _, d := range f.Decls {
			fd, ok := d.(*ast.FuncDecl)
			if !ok || fd.Body == nil || ast.IsExported(fd.Name.Name) || fd.Name.Name == "init" || fd.Name.Name == "main" || fd.Name.Name == "_" {
				continue
			}
			if o := info.Defs[fd.Name]; o != nil {
				cands = append(cands, cand{fd, o})
			}
		}
	}
	// uses by enclosing declaration
	type use struct {
		obj  types.Object
		from *ast.FuncDecl // nil: package level
	}
	var uses []use
	for _, f := range pk.Syntax {
		for _, d := range f.Decls {
			fd, _ := d.(*ast.FuncDecl)
			ast.Inspect(d, func(n ast.Node) bool {
				if id, ok := n.(*ast.Ident); ok {
					if o := info.Uses[id]; o != nil {
						if fn, ok := o.(*types.Func); ok {
							uses = append(uses, use{fn.Origin(), fd})
						}
					}
				}
				return true
			})
		}
	}
	dead := map[*ast.FuncDecl]bool{}
	for changed := true; changed; {
		changed = false
		for _, cd := range cands {
			if dead[cd.fd] {
				continue
			}
			if cd.fd.Recv != nil && ifaceNames[cd.fd.Name.Name] {
				continue
			}
			live := false
			for _, u := range uses {
				if u.obj == cd.obj && (u.from == nil || (!dead[u.from] && u.from != cd.fd)) {
					live = true
					break
				}
			}
			if !live {
				dead[cd.fd] = true
				changed = true
			}
		}
	}
	return dead
}

// c11ResolveLocal: if e is a local variable of fd with exactly one definition `x := <path>` (or var x = <path>)
// and no other assignment and no address taken, return <path> (recursively); otherwise e.
func c11ResolveLocal(info *types.Info, fd *ast.FuncDecl, e ast.Expr) ast.Expr {
	for depth := 0; depth < 4 && fd != nil; depth++ {
		id, ok := unparen(e).(*ast.Ident)
		if !ok {
			return e
		}
		obj, ok := info.ObjectOf(id).(*types.Var)
		if !ok || obj.IsField() || obj.Pos() < fd.Body.Pos() || obj.Pos() >= fd.Body.End() {
			return e
		}
		var def ast.Expr
		ndef, spoiled := 0, false
		ast.Inspect(fd.Body, func(n ast.Node) bool {
			switch s := n.(type) {
			case *ast.AssignStmt:
				for i, l := range s.Lhs {
					if lid, ok := l.(*ast.Ident); ok && info.ObjectOf(lid) == obj {
						ndef++
						if len(s.Lhs) == len(s.Rhs) && (s.Tok == token.DEFINE || s.Tok == token.ASSIGN) {
							def = s.Rhs[i]
						} else {
							spoiled = true
						}
					}
				}
			case *ast.ValueSpec:
				for i, nm := range s.Names {
					if info.ObjectOf(nm) == obj {
						ndef++
						if len(s.Names) == len(s.Values) {
							def = s.Values[i]
						} else {
							spoiled = true
						}
					}
				}
			case *ast.IncDecStmt:
				if lid, ok := s.X.(*ast.Ident); ok && info.ObjectOf(lid) == obj {
					spoiled = true
				}
			case *ast.RangeStmt:
				for _, l := range []ast.Expr{s.Key, s.Value} {
					if lid, ok := l.(*ast.Ident); ok && info.ObjectOf(lid) == obj {
						spoiled = true
					}
				}
			case *ast.UnaryExpr:
				if s.Op == token.AND {
					if lid, ok := unparen(s.X).(*ast.Ident); ok && info.ObjectOf(lid) == obj {
						spoiled = true
					}
				}
			}
			return true
		})
		if ndef != 1 || spoiled || def == nil {
			return e
		}
		// the definition must be an access path whose root is not reassigned either (parameters/receivers)
		switch unparen(def).(type) {
		case *ast.Ident, *ast.SelectorExpr:
			e = def
		default:
			return e
		}
	}
	return e
}

// c11AliasInPlace: the local variable defined by id (x := vx.screenNext) is used only as the receiver of method
// calls, for field access (x.buf...) or in nil comparisons: the handle does not leave the function through it.
func c11AliasInPlace(info *types.Info, parents map[ast.Node]ast.Node, id *ast.Ident) bool {
	obj, ok := info.ObjectOf(id).(*types.Var)
	if !ok || obj.IsField() || id.Name == "_" {
		return false
	}
	var fd *ast.FuncDecl
	for cur := ast.Node(id); cur != nil; cur = parents[cur] {
		if d, ok := cur.(*ast.FuncDecl); ok {
			fd = d
			break
		}
	}
	if fd == nil || fd.Body == nil || obj.Pos() < fd.Pos() || obj.Pos() >= fd.End() {
		return false
	}
	okAll := true
	ast.Inspect(fd.Body, func(n ast.Node) bool {
		u, isId := n.(*ast.Ident)
		if !isId || info.Uses[u] != obj {
			return true
		}
		switch p := parents[u].(type) {
		case *ast.SelectorExpr:
			if p.X == u {
				if s, ok := info.Selections[p]; ok {
					if s.Kind() == types.MethodVal {
						if call, ok := parents[p].(*ast.CallExpr); ok && call.Fun == p {
							return true
						}
					} else if s.Kind() == types.FieldVal {
						return true // classified by C11.a (buf/rows/cols)
					}
				}
			}
		case *ast.BinaryExpr:
			if p.Op == token.EQL || p.Op == token.NEQ {
				other := p.X
				if other == ast.Expr(u) {
					other = p.Y
				}
				if isNilExpr(info, unparen(other)) {
					return true
				}
			}
		case *ast.AssignStmt:
			// re-assignment of the alias itself (x = ...) is a definition, not a use that leaks
			for _, l := range p.Lhs {
				if l == ast.Expr(u) {
					return true
				}
			}
			// `_ = x` (the inliner's "parameter is used" marker, or a hand-written one): the value is discarded, nothing
			// can reach the screen through it
			if len(p.Lhs) == len(p.Rhs) {
				for i, r := range p.Rhs {
					if r == ast.Expr(u) {
						if b, ok := p.Lhs[i].(*ast.Ident); ok && b.Name == "_" {
							return true
						}
					}
				}
			}
		}
		okAll = false
		return true
	})
	return okAll
}

// handleUse classifies a use of vx.screenNext / vx.screenLast.
func handleUse(info *types.Info, parents map[ast.Node]ast.Node, sel *ast.SelectorExpr) string {
	switch p := parents[sel].(type) {
	case *ast.SelectorExpr:
		if p.X == sel {
			if s, ok := info.Selections[p]; ok {
				if s.Kind() == types.MethodVal {
					if call, ok := parents[p].(*ast.CallExpr); ok && call.Fun == p {
						return "call " + p.Sel.Name
					}
					return "method value " + p.Sel.Name
				}
				if p.Sel.Name == "buf" {
					return "buffer access"
				}
				return "field " + p.Sel.Name
			}
		}
	case *ast.AssignStmt:
		for _, l := range p.Lhs {
			if l == sel {
				return "assign"
			}
		}
		if len(p.Lhs) == len(p.Rhs) {
			for i, r := range p.Rhs {
				if r == sel {
					if id, ok := p.Lhs[i].(*ast.Ident); ok && c11AliasInPlace(info, parents, id) {
						return "local alias used in place"
					}
				}
			}
		}
		return "copied to a variable"
	case *ast.ValueSpec:
		if len(p.Names) == len(p.Values) {
			for i, r := range p.Values {
				if r == sel && c11AliasInPlace(info, parents, p.Names[i]) {
					return "local alias used in place"
				}
			}
		}
	case *ast.CallExpr:
		return "passed as argument"
	case *ast.ReturnStmt:
		return "returned"
	case *ast.UnaryExpr:
		return "address taken"
	}
	return fmt.Sprintf("used in %T", parents[sel])
}

// ---- text helpers (second clause of C11): structural necessary conditions
//   f  Characters builds every Character from a cluster returned by uniseg (or a constant), never from raw bytes
//   g  after a cell is placed, the column advances by that character's width before the next cluster is placed
//   h  Print/Wrap start a new row exactly when the row is full (col >= cols)

func c11TextHelpers(c *Ctx) {
	pk := c.P.Pkg("vaxis")
	info := pk.TypesInfo
	// f
	if fi := c.P.Func("vaxis.Characters"); fi != nil {
		// places (variables, or fields of local structs: ch.Grapheme, sc.rest) that receive the cluster / the width /
		// the StepString boundaries result of a uniseg segmenter call
		clusterVars := map[string]bool{}
		widthVars := map[string]bool{}
		boundVars := map[string]bool{}
		place := func(e ast.Expr) string { return c11fPlace(info, e) }
		nChars := 0 // Characters judged
		ast.Inspect(fi.Decl.Body, func(n ast.Node) bool {
			as, ok := n.(*ast.AssignStmt)
			if !ok || len(as.Rhs) != 1 {
				return true
			}
			call, ok := as.Rhs[0].(*ast.CallExpr)
			if !ok {
				return true
			}
			fn := calleeOf(info, call)
			if fn == nil || fn.Pkg() == nil || fn.Pkg().Path() != "github.com/rivo/uniseg" {
				return true
			}
			if (fn.Name() == "FirstGraphemeClusterInString" || fn.Name() == "StepString") && len(as.Lhs) == 4 {
				if k := place(as.Lhs[0]); k != "" {
					clusterVars[k] = true
					if sel, ok := unparen(as.Lhs[0]).(*ast.SelectorExpr); ok && sel.Sel.Name == "Grapheme" && c11IsCharacter(info.TypeOf(sel.X)) {
						// the segmenter stores its cluster in a Character directly
						nChars++
						c.ok("C11.f", fmt.Sprintf("vaxis.Characters/Character{%s,...} built from a uniseg cluster", types.ExprString(as.Lhs[0])), as.Pos(), "the cluster result of %s is stored in the Character", fn.Name())
						if wsel, ok := unparen(as.Lhs[2]).(*ast.SelectorExpr); ok && wsel.Sel.Name == "Width" && c11IsCharacter(info.TypeOf(wsel.X)) {
							c.check(fn.Name() == "FirstGraphemeClusterInString" && place(wsel.X) == place(sel.X), "C11.f", fmt.Sprintf("vaxis.Characters/width stored in %s is the cluster's width", types.ExprString(as.Lhs[2])), as.Pos(),
								"width is the one uniseg returned for this cluster", "the width stored with the cluster is not the width uniseg computed for it")
						}
					}
				}
				if k := place(as.Lhs[2]); k != "" {
					if fn.Name() == "FirstGraphemeClusterInString" {
						widthVars[k] = true
					} else {
						boundVars[k] = true
					}
				}
			}
			return true
		})
		isUniseg := func(e ast.Expr, names ...string) *ast.CallExpr {
			cl, ok := unparen(e).(*ast.CallExpr)
			if !ok {
				return nil
			}
			fn := calleeOf(info, cl)
			if fn == nil || fn.Pkg() == nil || fn.Pkg().Path() != "github.com/rivo/uniseg" {
				return nil
			}
			full := strings.TrimPrefix(fullName(fn), "github.com/rivo/uniseg.")
			for _, n := range names {
				if n == full {
					return cl
				}
			}
			return nil
		}
		// a cluster: a place a segmenter call stored its cluster in, or the current cluster of a uniseg iterator
		isCluster := func(e ast.Expr) bool {
			if k := place(e); k != "" && clusterVars[k] {
				return true
			}
			return isUniseg(e, "Graphemes.Str") != nil
		}
		// the cluster's width: the width result, the width bits of StepString's boundaries, the iterator's width, or
		// uniseg's width of a cluster
		isWidth := func(e ast.Expr) bool {
			e = unparen(e)
			if k := place(e); k != "" && widthVars[k] {
				return true
			}
			if be, ok := e.(*ast.BinaryExpr); ok && be.Op == token.SHR {
				if k := place(be.X); k != "" && boundVars[k] {
					if v, isC := constInt(info, be.Y); isC && v == 4 { // uniseg.ShiftWidth
						return true
					}
				}
			}
			if isUniseg(e, "Graphemes.Width") != nil {
				return true
			}
			if cl := isUniseg(e, "StringWidth"); cl != nil && len(cl.Args) == 1 && isCluster(cl.Args[0]) {
				return true
			}
			return false
		}
		ast.Inspect(fi.Decl.Body, func(x ast.Node) bool {
			cl, ok := x.(*ast.CompositeLit)
			if !ok || typeName(info.TypeOf(cl)) != modPath+".Character" {
				return true
			}
			nChars++
			var gExpr, wExpr ast.Expr
			for i, el := range cl.Elts {
				if kv, ok := el.(*ast.KeyValueExpr); ok {
					switch types.ExprString(kv.Key) {
					case "Grapheme":
						gExpr = kv.Value
					case "Width":
						wExpr = kv.Value
					}
				} else if i == 0 {
					gExpr = el
				} else if i == 1 {
					wExpr = el
				}
			}
			key := fmt.Sprintf("vaxis.Characters/Character{%s,...} built from a uniseg cluster", exprOrNil(gExpr))
			okG := false
			if gExpr == nil {
				// no grapheme in the literal: the zero value (a Character whose fields are stored afterwards is
				// judged where the fields are written: they are places like any variable)
				okG = true
			} else if _, isConst := constString(info, gExpr); isConst {
				okG = true
			} else if isCluster(gExpr) {
				okG = true
			}
			c.check(okG, "C11.f", key, cl.Pos(), "grapheme is the cluster returned by uniseg (or a constant)", "a Character is built from "+exprOrNil(gExpr)+", not from a cluster boundary computed by uniseg: a grapheme cluster can be split across cells")
			if wExpr != nil && okG {
				if _, isConst := constInt(info, wExpr); !isConst {
					c.check(isWidth(wExpr), "C11.f", fmt.Sprintf("vaxis.Characters/width of %s is the cluster's width", exprOrNil(gExpr)), cl.Pos(),
						"width is the one uniseg returned for this cluster", "the width stored with the cluster is not the width uniseg computed for it")
				}
			}
			return true
		})
		// fields of a Character written one by one (ch.Grapheme = ..., ch.Width = ...) outside a segmenter call
		ast.Inspect(fi.Decl.Body, func(x ast.Node) bool {
			as, ok := x.(*ast.AssignStmt)
			if !ok || len(as.Lhs) != len(as.Rhs) {
				return true
			}
			for i, l := range as.Lhs {
				sel, ok := unparen(l).(*ast.SelectorExpr)
				if !ok || !c11IsCharacter(info.TypeOf(sel.X)) {
					continue
				}
				r := as.Rhs[i]
				switch sel.Sel.Name {
				case "Grapheme":
					nChars++
					_, isConst := constString(info, r)
					c.check(isConst || isCluster(r), "C11.f", fmt.Sprintf("vaxis.Characters/Character{%s,...} built from a uniseg cluster", exprOrNil(r)), as.Pos(),
						"grapheme is the cluster returned by uniseg (or a constant)", "a Character is built from "+exprOrNil(r)+", not from a cluster boundary computed by uniseg: a grapheme cluster can be split across cells")
				case "Width":
					if _, isConst := constInt(info, r); !isConst {
						c.check(isWidth(r), "C11.f", fmt.Sprintf("vaxis.Characters/width stored in %s is the cluster's width", exprOrNil(l)), as.Pos(),
							"width is the one uniseg returned for this cluster", "the width stored with the cluster is not the width uniseg computed for it")
					}
				}
			}
			return true
		})
		if nChars == 0 {
			c.undecided("C11.f", "vaxis.Characters", fi.Decl.Pos(), "no Character literal found")
		}
	} else {
		c.undecided("C11.f", "vaxis.Characters", 0, "Characters not found")
	}
	// g, h (and k): symbolic evaluation of one generic iteration of the text loops (c11text.go)
	c11TextCursorRules(c)
}

// c11fPlace: a stable name for a variable or a field path rooted at a variable (ch.Grapheme, sc.rest); "" otherwise.
func c11fPlace(info *types.Info, e ast.Expr) string {
	switch x := unparen(e).(type) {
	case *ast.Ident:
		if o := info.ObjectOf(x); o != nil {
			if _, isVar := o.(*types.Var); isVar {
				return fmt.Sprintf("%p", o)
			}
		}
	case *ast.SelectorExpr:
		if s, ok := info.Selections[x]; ok && s.Kind() == types.FieldVal {
			if r := c11fPlace(info, x.X); r != "" {
				return r + "." + x.Sel.Name
			}
		}
	case *ast.StarExpr:
		return c11fPlace(info, x.X)
	}
	return ""
}

func exprOrNil(e ast.Expr) string {
	if e == nil {
		return "<nil>"
	}
	return types.ExprString(e)
}
