package main

import (
	"encoding/json"
	"flag"
	"fmt"
	"go/ast"
	"go/constant"
	"go/token"
	"go/types"
	"os"
	"path/filepath"
	"runtime/debug"
	"sort"
	"strings"
	"time"
)

type tokenPos = token.Pos

func constToInt(tv types.TypeAndValue) (int64, bool) {
	if tv.Value == nil {
		return 0, false
	}
	if tv.Value.Kind() == constant.Int {
		return constant.Int64Val(tv.Value)
	}
	if tv.Value.Kind() == constant.Float {
		f, _ := constant.Float64Val(tv.Value)
		if f == float64(int64(f)) {
			return int64(f), true
		}
	}
	return 0, false
}

var registry = map[string]*PropSpec{}

func register(id string, needSSA bool, run func(*Ctx)) {
	registry[id] = &PropSpec{ID: id, NeedSSA: needSSA, Run: run}
}

var extraRules = map[string][]func(*Ctx){}

// registerExtra adds rules (written after a check was integrated) to a property's run.
func registerExtra(id string, f func(*Ctx)) { extraRules[id] = append(extraRules[id], f) }

func init() {
	register("C02", false, runC02)
	register("C11", false, runC11)
	register("C04", false, runC04)
}

func main() {
	prop := flag.String("p", "", "property id (C01..C20)")
	tier := flag.String("tier", "quick", "quick|thorough")
	repo := flag.String("repo", "/repo", "repository root")
	verif := flag.String("verif", "/verif", "verif root (evidence, known findings)")
	goos := flag.String("goos", "", "GOOS to analyse (default: host)")
	replay := flag.String("replay", "", "replay file: re-evaluate only that obligation")
	list := flag.Bool("list", false, "list registered properties")
	noEvidence := flag.Bool("no-evidence", false, "do not write evidence (self-test variants)")
	dump := flag.String("dump", "", "debug: dump emission table of a package (vaxis | widgets/term)")
	flag.Parse()
	if *dump != "" {
		abs, _ := filepath.Abs(*repo)
		p, err := Load(abs, *goos, false)
		if err != nil {
			fmt.Println(err)
			os.Exit(2)
		}
		installAccessorResolver(p)
		dumpEmissions(p, *dump)
		return
	}
	if *list {
		ids := []string{}
		for id := range registry {
			ids = append(ids, id)
		}
		sort.Strings(ids)
		fmt.Println(strings.Join(ids, " "))
		return
	}
	onlyKey := ""
	if *replay != "" {
		b, err := os.ReadFile(*replay)
		if err != nil {
			fmt.Println("cannot read replay file:", err)
			os.Exit(2)
		}
		var o Obligation
		if err := json.Unmarshal(b, &o); err != nil {
			fmt.Println("bad replay file:", err)
			os.Exit(2)
		}
		*prop = o.Prop
		onlyKey = o.Key
	}
	spec := registry[*prop]
	if spec == nil {
		fmt.Printf("unknown property %q\n", *prop)
		os.Exit(2)
	}
	// widgets/term does not type-check for GOOS=windows upstream (syscall.SysProcAttr.Setsid); properties
	// anchored in it are not analysable in that configuration and are skipped there, not failed.
	if *goos == "windows" && map[string]bool{"C05": true, "C06": true, "C12": true, "C13": true}[spec.ID] {
		fmt.Printf("SUMMARY property=%s tier=%s skipped: package widgets/term does not build for GOOS=windows upstream\n", spec.ID, *tier)
		return
	}
	abs, _ := filepath.Abs(*repo)
	start := time.Now()
	c := &Ctx{Prop: spec.ID, Tier: *tier, counts: map[string]int{}, minima: map[string]int{}, verifDir: *verif}
	cmdline := "vxcheck " + strings.Join(os.Args[1:], " ")
	loadNeedSSA = spec.NeedSSA
	p, err := Load(abs, *goos, spec.NeedSSA)
	if err != nil {
		c.P = &Program{Repo: abs, GOOS: *goos}
		c.add("LOAD", "load", token.NoPos, Undecided, true, "%v", err)
		os.Exit(c.finishMaybe(start, onlyKey, cmdline, *noEvidence))
	}
	c.P = p
	installAccessorResolver(p)
	if os.Getenv("VX_DUMP_FUNCS") != "" {
		dumpFuncNames(p)
		return
	}
	func() {
		defer func() {
			if r := recover(); r != nil {
				c.add("PANIC", "normalise", token.NoPos, Undecided, true, "checker panic while normalising: %v\n%s", r, debug.Stack())
			}
		}()
		globalNormalise(c)
		// the root package additionally gets the finer normalisation written for C01/C07 (closures, tables, phase
		// splits, colliding helper names — only constructs that are new relative to the reference tree)
		c01Normalise(c)
	}()
	func() {
		defer func() {
			if r := recover(); r != nil {
				c.add("PANIC", "checker", token.NoPos, Undecided, true, "checker panic: %v\n%s", r, debug.Stack())
			}
		}()
		spec.Run(c)
		for _, f := range extraRules[spec.ID] {
			f(c)
		}
	}()
	os.Exit(c.finishMaybe(start, onlyKey, cmdline, *noEvidence))
}

func (c *Ctx) finishMaybe(start time.Time, onlyKey, cmdline string, noEvidence bool) int {
	return c.finish(start, onlyKey, cmdline, !noEvidence)
}

func installAccessorResolver(p *Program) {
	theProgram = p
	for _, pk := range p.All {
		buildAliasTable(pk.TypesInfo, pk.Syntax)
		// a struct type held in two fields of one struct (screenNext, screenLast *screen) cannot anchor a path:
		// the path must say which of the two it goes through
		for _, nm := range pk.Types.Scope().Names() {
			tn, ok := pk.Types.Scope().Lookup(nm).(*types.TypeName)
			if !ok {
				continue
			}
			st, ok := tn.Type().Underlying().(*types.Struct)
			if !ok {
				continue
			}
			count := map[*types.TypeName]int{}
			for i := 0; i < st.NumFields(); i++ {
				t := st.Field(i).Type()
				if pt, ok := t.(*types.Pointer); ok {
					t = pt.Elem()
				}
				if n, ok := t.(*types.Named); ok {
					count[n.Obj()]++
				}
			}
			for o, k := range count {
				if k > 1 {
					ambiguousAnchor[o] = true
				}
			}
		}
	}
	evals := map[*types.Info]*strEval{}
	stringResolver = func(info *types.Info, call *ast.CallExpr) (string, bool) {
		fn := calleeOf(info, call)
		if fn == nil || p.FuncOfObj(fn) == nil {
			return "", false
		}
		if bt, ok := info.TypeOf(call).Underlying().(*types.Basic); !ok || bt.Info()&types.IsString == 0 {
			return "", false
		}
		se := evals[info]
		if se == nil {
			for _, pk := range p.All {
				if pk.TypesInfo == info {
					se = newStrEval(p, pk)
				}
			}
			if se == nil {
				return "", false
			}
			evals[info] = se
		}
		vals, ok := se.eval(call, nil)
		if !ok || len(vals) != 1 || strings.Contains(vals[0], "%") {
			return "", false
		}
		return vals[0], true
	}
	accessorResolver = func(info *types.Info, call *ast.CallExpr) string {
		fn := calleeOf(info, call)
		if fn == nil {
			return ""
		}
		fi := p.FuncOfObj(fn)
		if fi == nil || fi.Decl.Body == nil || len(fi.Decl.Body.List) != 1 || fi.Decl.Recv == nil {
			return ""
		}
		rs, ok := fi.Decl.Body.List[0].(*ast.ReturnStmt)
		if !ok || len(rs.Results) != 1 {
			return ""
		}
		if bt, ok := fi.Pkg.TypesInfo.TypeOf(rs.Results[0]).Underlying().(*types.Basic); !ok || bt.Info()&types.IsBoolean == 0 {
			return ""
		}
		return canonExpr(fi.Pkg.TypesInfo, rs.Results[0])
	}
}
