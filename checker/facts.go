package main

// Facts: normalised atoms extracted from branch conditions, and the set of
// atoms in force at a CFG location (conditions whose edge lies on every path
// to the location and whose variables are not reassigned in between).

import (
	"fmt"
	"go/ast"
	"go/constant"
	"go/token"
	"go/types"
	"strings"
)

// Term is a canonical access path or an opaque expression.
type Term struct {
	ID   string // identity: root object pointer + field path (or printed expression for opaque terms)
	Disp string // display
}

// Atom kinds:
//   lin : A - B <= K            (A or B may be the empty term = constant 0)
//   eq  : A - B == K
//   ne  : A - B != K
//   bool: A is true (Pol) / false (!Pol)
//   nil : A == nil (Pol) / != nil (!Pol)
type Atom struct {
	Kind string
	A, B Term
	K    int64
	Pol  bool
}

func (a Atom) String() string {
	switch a.Kind {
	case "lin", "eq", "ne":
		op := map[string]string{"lin": "<=", "eq": "==", "ne": "!="}[a.Kind]
		l := a.A.Disp
		if l == "" {
			l = "0"
		}
		if a.B.Disp != "" {
			l += " - " + a.B.Disp
		}
		return fmt.Sprintf("%s %s %d", l, op, a.K)
	case "bool":
		if a.Pol {
			return a.A.Disp
		}
		return "!" + a.A.Disp
	case "nil":
		if a.Pol {
			return a.A.Disp + " == nil"
		}
		return a.A.Disp + " != nil"
	}
	return "?"
}

// termOf canonicalises e as an access path (ident, selector chain, len(path), deref, paren).
func termOf(info *types.Info, e ast.Expr) Term {
	e = unparen(e)
	var parts []string
	cur := e
	for {
		switch t := cur.(type) {
		case *ast.ParenExpr:
			cur = t.X
			continue
		case *ast.StarExpr:
			cur = t.X
			continue
		case *ast.SelectorExpr:
			if _, ok := info.Selections[t]; ok {
				parts = append([]string{t.Sel.Name}, parts...)
				cur = t.X
				continue
			}
			// package-qualified
			if o := info.ObjectOf(t.Sel); o != nil {
				return Term{ID: fmt.Sprintf("%p%s", o, joinDot(parts)), Disp: types.ExprString(e)}
			}
		case *ast.Ident:
			if o := info.ObjectOf(t); o != nil {
				return Term{ID: fmt.Sprintf("%p%s", o, joinDot(parts)), Disp: types.ExprString(e)}
			}
		case *ast.CallExpr:
			if id, ok := t.Fun.(*ast.Ident); ok && id.Name == "len" && len(t.Args) == 1 && len(parts) == 0 {
				inner := termOf(info, t.Args[0])
				return Term{ID: "len(" + inner.ID + ")", Disp: "len(" + inner.Disp + ")"}
			}
			// conversion int(x), uint(x) etc: transparent for ordering facts on the same value
			if tv, ok := info.Types[t.Fun]; ok && tv.IsType() && len(t.Args) == 1 && len(parts) == 0 {
				if b, ok := tv.Type.Underlying().(*types.Basic); ok && b.Info()&types.IsInteger != 0 {
					if bt, ok := info.TypeOf(t.Args[0]).Underlying().(*types.Basic); ok && bt.Info()&types.IsInteger != 0 {
						return termOf(info, t.Args[0])
					}
				}
			}
		case *ast.IndexExpr:
			if len(parts) == 0 {
				inner := termOf(info, t.X)
				idx := types.ExprString(t.Index)
				if v, ok := constInt(info, t.Index); ok {
					idx = fmt.Sprint(v)
				} else {
					idx = termOf(info, t.Index).ID
				}
				return Term{ID: inner.ID + "[" + idx + "]", Disp: types.ExprString(e)}
			}
		}
		break
	}
	s := types.ExprString(e)
	return Term{ID: "expr:" + s, Disp: s}
}

func joinDot(parts []string) string {
	if len(parts) == 0 {
		return ""
	}
	return "." + strings.Join(parts, ".")
}

func unparen(e ast.Expr) ast.Expr {
	for {
		p, ok := e.(*ast.ParenExpr)
		if !ok {
			return e
		}
		e = p.X
	}
}

// linForm decomposes an integer expression into term + constant (x, x+1, x-1, 3, len(p)-1 ...).
// For anything else the whole expression becomes an opaque term.
func linForm(info *types.Info, e ast.Expr) (Term, int64) {
	e = unparen(e)
	if v, ok := constInt(info, e); ok {
		return Term{}, v
	}
	if b, ok := e.(*ast.BinaryExpr); ok && (b.Op == token.ADD || b.Op == token.SUB) {
		if v, ok := constInt(info, b.Y); ok {
			t, k := linForm(info, b.X)
			if b.Op == token.ADD {
				return t, k + v
			}
			return t, k - v
		}
		if v, ok := constInt(info, b.X); ok && b.Op == token.ADD {
			t, k := linForm(info, b.Y)
			return t, k + v
		}
	}
	return termOf(info, e), 0
}

func isIntegerExpr(info *types.Info, e ast.Expr) bool {
	t := info.TypeOf(e)
	if t == nil {
		return false
	}
	b, ok := t.Underlying().(*types.Basic)
	return ok && b.Info()&types.IsInteger != 0
}

// condAtoms returns the atoms implied by cond having truth value pol.
func condAtoms(info *types.Info, c *Cond, pol bool) []Atom {
	if c.Alts != nil {
		return nil // disjunction: no conjunctive atoms
	}
	if c.Tag != nil {
		return cmpAtoms(info, c.Tag, token.EQL, c.Expr, pol)
	}
	return exprAtoms(info, c.Expr, pol)
}

func exprAtoms(info *types.Info, e ast.Expr, pol bool) []Atom {
	e = unparen(e)
	switch t := e.(type) {
	case *ast.UnaryExpr:
		if t.Op == token.NOT {
			return exprAtoms(info, t.X, !pol)
		}
	case *ast.BinaryExpr:
		switch t.Op {
		case token.LAND:
			if pol {
				return append(exprAtoms(info, t.X, true), exprAtoms(info, t.Y, true)...)
			}
			return nil
		case token.LOR:
			if !pol {
				return append(exprAtoms(info, t.X, false), exprAtoms(info, t.Y, false)...)
			}
			return nil
		case token.EQL, token.NEQ, token.LSS, token.LEQ, token.GTR, token.GEQ:
			return cmpAtoms(info, t.X, t.Op, t.Y, pol)
		}
	}
	if tv, ok := info.Types[e]; ok && tv.Value != nil {
		return nil
	}
	return []Atom{{Kind: "bool", A: termOf(info, e), Pol: pol}}
}

func negOp(op token.Token) token.Token {
	switch op {
	case token.EQL:
		return token.NEQ
	case token.NEQ:
		return token.EQL
	case token.LSS:
		return token.GEQ
	case token.GEQ:
		return token.LSS
	case token.GTR:
		return token.LEQ
	case token.LEQ:
		return token.GTR
	}
	return op
}

func cmpAtoms(info *types.Info, x ast.Expr, op token.Token, y ast.Expr, pol bool) []Atom {
	if !pol {
		op = negOp(op)
	}
	x, y = unparen(x), unparen(y)
	// nil comparisons
	if isNilExpr(info, y) || isNilExpr(info, x) {
		other := x
		if isNilExpr(info, x) {
			other = y
		}
		if op == token.EQL || op == token.NEQ {
			return []Atom{{Kind: "nil", A: termOf(info, other), Pol: op == token.EQL}}
		}
		return nil
	}
	// boolean comparisons: b == true
	if tx := info.TypeOf(x); tx != nil {
		if b, ok := tx.Underlying().(*types.Basic); ok && b.Info()&types.IsBoolean != 0 && (op == token.EQL || op == token.NEQ) {
			if tv, ok := info.Types[y]; ok && tv.Value != nil {
				val := tv.Value.String() == "true"
				return exprAtoms(info, x, val == (op == token.EQL))
			}
			if tv, ok := info.Types[x]; ok && tv.Value != nil {
				val := tv.Value.String() == "true"
				return exprAtoms(info, y, val == (op == token.EQL))
			}
			return nil
		}
	}
	if !isIntegerExpr(info, x) || !isIntegerExpr(info, y) {
		if op == token.EQL || op == token.NEQ {
			kind := "eq"
			if op == token.NEQ {
				kind = "ne"
			}
			return []Atom{{Kind: kind, A: termOf(info, x), B: termOf(info, y)}}
		}
		return nil
	}
	tx, kx := linForm(info, x)
	ty, ky := linForm(info, y)
	// x + kx OP y + ky   <=>   x - y OP ky - kx
	d := ky - kx
	switch op {
	case token.LSS: // x - y <= d-1
		return []Atom{{Kind: "lin", A: tx, B: ty, K: d - 1}}
	case token.LEQ:
		return []Atom{{Kind: "lin", A: tx, B: ty, K: d}}
	case token.GTR: // y - x <= -d-1
		return []Atom{{Kind: "lin", A: ty, B: tx, K: -d - 1}}
	case token.GEQ:
		return []Atom{{Kind: "lin", A: ty, B: tx, K: -d}}
	case token.EQL:
		return []Atom{{Kind: "eq", A: tx, B: ty, K: d}, {Kind: "lin", A: tx, B: ty, K: d}, {Kind: "lin", A: ty, B: tx, K: -d}}
	case token.NEQ:
		return []Atom{{Kind: "ne", A: tx, B: ty, K: d}}
	}
	return nil
}

func isNilExpr(info *types.Info, e ast.Expr) bool {
	id, ok := e.(*ast.Ident)
	if !ok {
		return false
	}
	_, isNil := info.Uses[id].(*types.Nil)
	return isNil
}

// FactsAt returns the atoms in force at l: for every guard edge on all paths
// to l, the atoms of its condition, unless a variable of the condition is
// assigned between the edge and l.
func (g *FG) FactsAt(l Loc) []Atom {
	var out []Atom
	for _, gd := range g.Guards(l) {
		atoms := condAtoms(g.Info, gd.Cond, gd.Pol)
		if len(atoms) == 0 {
			continue
		}
		var condNode ast.Node = gd.Cond.Expr
		objs := objsIn(g.Info, condNode)
		if gd.Cond.Tag != nil {
			for o := range objsIn(g.Info, gd.Cond.Tag) {
				objs[o] = true
			}
		}
		if len(objs) > 0 && g.AssignedBetween(gd, l, objs) {
			continue
		}
		out = append(out, atoms...)
	}
	return out
}

// impliesLin: do the known atoms imply A - B <= K ?
func impliesLin(known []Atom, a, b Term, k int64) bool {
	for _, f := range known {
		if f.Kind == "lin" && f.A.ID == a.ID && f.B.ID == b.ID && f.K <= k {
			return true
		}
	}
	return false
}

func impliesBool(known []Atom, t Term, pol bool) bool {
	for _, f := range known {
		if f.Kind == "bool" && f.A.ID == t.ID && f.Pol == pol {
			return true
		}
	}
	return false
}

func impliesNil(known []Atom, t Term, isNil bool) bool {
	for _, f := range known {
		if f.Kind == "nil" && f.A.ID == t.ID && f.Pol == isNil {
			return true
		}
	}
	return false
}

func atomsString(as []Atom) string {
	var s []string
	for _, a := range as {
		s = append(s, a.String())
	}
	return strings.Join(s, " ∧ ")
}

// ---- boolean evaluation of path conditions under an assignment of named atoms

// evalBool evaluates e under sigma (canonical expression -> value). known=false if an atom is missing.
func evalBool(p *Program, info *types.Info, e ast.Expr, sigma map[string]bool) (val, known bool) {
	e = unparen(e)
	if tv, ok := info.Types[e]; ok && tv.Value != nil && tv.Value.Kind() == constant.Bool {
		return constant.BoolVal(tv.Value), true
	}
	switch t := e.(type) {
	case *ast.UnaryExpr:
		if t.Op == token.NOT {
			v, k := evalBool(p, info, t.X, sigma)
			return !v, k
		}
	case *ast.BinaryExpr:
		switch t.Op {
		case token.LAND:
			a, ka := evalBool(p, info, t.X, sigma)
			b, kb := evalBool(p, info, t.Y, sigma)
			if ka && !a || kb && !b {
				return false, true
			}
			return a && b, ka && kb
		case token.LOR:
			a, ka := evalBool(p, info, t.X, sigma)
			b, kb := evalBool(p, info, t.Y, sigma)
			if ka && a || kb && b {
				return true, true
			}
			return a || b, ka && kb
		case token.EQL, token.NEQ:
			if bt, ok := info.TypeOf(t.X).Underlying().(*types.Basic); ok && bt.Info()&types.IsBoolean != 0 {
				a, ka := evalBool(p, info, t.X, sigma)
				b, kb := evalBool(p, info, t.Y, sigma)
				return (a == b) == (t.Op == token.EQL), ka && kb
			}
		}
	case *ast.Ident:
		// a boolean local defined once by a condition is evaluated as that condition (flagDefOf, emit.go)
		if def := flagDefOf(info, t); def != nil {
			if v, k := evalBool(p, info, def, sigma); k {
				return v, true
			}
		}
	case *ast.CallExpr:
		// accessor method with a single `return <expr>` body and no arguments
		if len(t.Args) == 0 && p != nil {
			if fn := calleeOf(info, t); fn != nil {
				if fi := p.FuncOfObj(fn); fi != nil && fi.Decl.Body != nil && len(fi.Decl.Body.List) == 1 {
					if rs, ok := fi.Decl.Body.List[0].(*ast.ReturnStmt); ok && len(rs.Results) == 1 {
						return evalBool(p, fi.Pkg.TypesInfo, rs.Results[0], sigma)
					}
				}
			}
		}
	}
	v, ok := sigma[canonExpr(info, e)]
	return v, ok
}

// condHolds evaluates a guard under sigma.
func condHolds(p *Program, info *types.Info, gd Guard, sigma map[string]bool) (holds, known bool) {
	if gd.Cond.Alts != nil {
		any, allKnown := false, true
		for _, a := range gd.Cond.Alts {
			h, k := condHolds(p, info, Guard{Cond: &Cond{Expr: a, Tag: gd.Cond.Tag}, Pol: true}, sigma)
			if !k {
				allKnown = false
			} else if h {
				any = true
			}
		}
		if any {
			return gd.Pol, true
		}
		return !gd.Pol, allKnown
	}
	if gd.Cond.Tag != nil {
		// switch <bool> { case true: }
		if bt, ok := info.TypeOf(gd.Cond.Tag).Underlying().(*types.Basic); ok && bt.Info()&types.IsBoolean != 0 {
			a, ka := evalBool(p, info, gd.Cond.Tag, sigma)
			b, kb := evalBool(p, info, gd.Cond.Expr, sigma)
			return (a == b) == gd.Pol, ka && kb
		}
		return false, false
	}
	v, k := evalBool(p, info, gd.Cond.Expr, sigma)
	return v == gd.Pol, k
}

// reachableUnder: do all guards of l hold under sigma? unknown guards are reported via known=false
// (they are ignored for the verdict `holds`, i.e. treated as possibly true).
func (g *FG) reachableUnder(l Loc, sigma map[string]bool) (holds bool, known bool) {
	holds, known = true, true
	for _, gd := range g.Guards(l) {
		h, k := condHolds(g.P, g.Info, gd, sigma)
		if !k {
			known = false
			continue
		}
		if !h {
			holds = false
		}
	}
	return
}

func sprintfPtr(o types.Object) string { return fmt.Sprintf("%p", o) }
