package main

// Pointer aliases for the B-screen engine (C05/C06).
//
// A local pointer variable, or a call of a small accessor that returns the address of a receiver field
// (`state := vt.savedCursor()`, `p := &vt.cursor`, `*vt.slot() = v`), denotes one of a finite set of field
// paths. The engine resolves such an expression to the paths it may point to:
//
//   one target   -> the expression IS that path (reads and writes are those of the field);
//   two or more  -> a read sees the join of the targets' values (snapshot taken where the pointer is bound,
//                   invalidated when a target is written), a write is a weak update of every target;
//   unknown      -> as before (an untracked local).
//
// The resolution is flow-insensitive per variable (the union over all its definitions) and only follows
// paths made of struct-valued fields rooted at the receiver or at a local, so a target cannot be re-seated
// between the definition and the use.

import (
	"go/ast"
	"go/token"
	"go/types"
	"sort"
	"strings"
)

type c05PtrCache struct {
	vars  map[*types.Var][]string
	busy  map[*types.Var]bool
	calls map[*FuncInfo][]string
	cbusy map[*FuncInfo]bool
}

var c05Ptr = map[*c05Eng]*c05PtrCache{}

func (e *c05Eng) ptrCache() *c05PtrCache {
	pc := c05Ptr[e]
	if pc == nil {
		pc = &c05PtrCache{vars: map[*types.Var][]string{}, busy: map[*types.Var]bool{}, calls: map[*FuncInfo][]string{}, cbusy: map[*FuncInfo]bool{}}
		c05Ptr[e] = pc
	}
	return pc
}

func isPtrToStruct(t types.Type) bool {
	if t == nil {
		return false
	}
	p, ok := t.Underlying().(*types.Pointer)
	return ok && isStructType(p.Elem())
}

// ptrRooted: the path expression is rooted at a local pointer variable (not the receiver) or at a call.
func (e *c05Eng) ptrRooted(fr *c05Frame, x ast.Expr) bool {
	for {
		switch t := unparen(x).(type) {
		case *ast.SelectorExpr:
			if s, ok := fr.info.Selections[t]; !ok || s.Kind() != types.FieldVal {
				return false
			}
			x = t.X
		case *ast.StarExpr:
			x = t.X
		case *ast.Ident:
			obj := fr.info.ObjectOf(t)
			if obj == nil || (obj == fr.recv && fr.recvAt) {
				return false
			}
			v, ok := obj.(*types.Var)
			return ok && isPtrToStruct(v.Type())
		case *ast.CallExpr:
			return isPtrToStruct(fr.info.TypeOf(t))
		default:
			return false
		}
	}
}

// ptrTargets: the paths a pointer-valued expression may point to; nil = unknown.
func (e *c05Eng) ptrTargets(fr *c05Frame, x ast.Expr, depth int) []string {
	if depth > 6 || x == nil {
		return nil
	}
	switch t := unparen(x).(type) {
	case *ast.UnaryExpr:
		if t.Op == token.AND {
			return e.lvalKeys(fr, t.X, depth+1)
		}
	case *ast.Ident:
		obj := fr.info.ObjectOf(t)
		if obj == nil {
			return nil
		}
		if obj == fr.recv && fr.recvAt {
			return []string{"@"}
		}
		v, ok := obj.(*types.Var)
		if !ok || !isPtrToStruct(v.Type()) {
			return nil
		}
		return e.ptrVarTargets(fr, v, depth)
	case *ast.CallExpr:
		return e.ptrCallTargets(fr, t, depth)
	}
	return nil
}

// lvalKeys: the paths an addressable struct/integer expression may denote; nil = unknown.
func (e *c05Eng) lvalKeys(fr *c05Frame, x ast.Expr, depth int) []string {
	if depth > 6 {
		return nil
	}
	switch t := unparen(x).(type) {
	case *ast.Ident:
		if _, isPtr := fr.info.TypeOf(t).Underlying().(*types.Pointer); isPtr {
			return nil // the pointer variable itself, not what it points to
		}
		if k := e.pathKeyRaw(fr, t); k != "" {
			return []string{k}
		}
	case *ast.StarExpr:
		return e.ptrTargets(fr, t.X, depth+1)
	case *ast.SelectorExpr:
		s, ok := fr.info.Selections[t]
		if !ok || s.Kind() != types.FieldVal {
			return nil
		}
		var bases []string
		bt := fr.info.TypeOf(t.X)
		if bt == nil {
			return nil
		}
		if _, isPtr := bt.Underlying().(*types.Pointer); isPtr {
			// a pointer-typed FIELD in the middle of a path can be re-seated: only roots are followed
			switch unparen(t.X).(type) {
			case *ast.Ident, *ast.CallExpr:
				bases = e.ptrTargets(fr, t.X, depth+1)
			default:
				return nil
			}
		} else {
			bases = e.lvalKeys(fr, t.X, depth+1)
		}
		if len(bases) == 0 {
			return nil
		}
		out := make([]string, 0, len(bases))
		for _, b := range bases {
			k := b + "." + t.Sel.Name
			if _, ok := e.disp[k]; !ok {
				e.disp[k] = strings.TrimPrefix(e.show(b)+"."+t.Sel.Name, "vt.")
			}
			if b != "@" && !strings.HasPrefix(b, "@.") {
				e.addDep(k, b)
			}
			out = append(out, k)
		}
		return out
	}
	return nil
}

func c05Uniq(ss []string) []string {
	sort.Strings(ss)
	out := ss[:0]
	for i, s := range ss {
		if i == 0 || s != ss[i-1] {
			out = append(out, s)
		}
	}
	return out
}

// ptrVarTargets: union of the targets of every definition of the local pointer variable v.
func (e *c05Eng) ptrVarTargets(fr *c05Frame, v *types.Var, depth int) []string {
	pc := e.ptrCache()
	if ts, ok := pc.vars[v]; ok {
		return ts
	}
	if pc.busy[v] {
		return nil
	}
	body := fr.fi.Decl.Body
	if body == nil || v.Pos() < body.Pos() || v.Pos() > body.End() {
		pc.vars[v] = nil // a parameter or a variable of another function: unknown
		return nil
	}
	pc.busy[v] = true
	defer delete(pc.busy, v)
	var out []string
	unknown := false
	isV := func(x ast.Expr) bool {
		id, ok := unparen(x).(*ast.Ident)
		return ok && fr.info.ObjectOf(id) == v
	}
	add := func(rhs ast.Expr) {
		if rhs == nil {
			return
		}
		if id, ok := unparen(rhs).(*ast.Ident); ok && id.Name == "nil" && fr.info.Uses[id] == types.Universe.Lookup("nil") {
			return
		}
		if isV(rhs) {
			return
		}
		ts := e.ptrTargets(fr, rhs, depth+1)
		if len(ts) == 0 {
			unknown = true
			return
		}
		out = append(out, ts...)
	}
	lits := 0
	var walk func(n ast.Node) bool
	walk = func(n ast.Node) bool {
		switch t := n.(type) {
		case *ast.FuncLit:
			lits++
			ast.Inspect(t.Body, walk)
			lits--
			return false
		case *ast.AssignStmt:
			for i, l := range t.Lhs {
				if !isV(l) {
					continue
				}
				if lits > 0 || len(t.Lhs) != len(t.Rhs) || (t.Tok != token.ASSIGN && t.Tok != token.DEFINE) {
					unknown = true
					continue
				}
				add(t.Rhs[i])
			}
		case *ast.ValueSpec:
			for i, nm := range t.Names {
				if fr.info.Defs[nm] != v {
					continue
				}
				if len(t.Values) == 0 {
					continue
				}
				if len(t.Values) != len(t.Names) {
					unknown = true
					continue
				}
				add(t.Values[i])
			}
		case *ast.UnaryExpr:
			if t.Op == token.AND && isV(t.X) {
				unknown = true
			}
		case *ast.RangeStmt:
			if (t.Key != nil && isV(t.Key)) || (t.Value != nil && isV(t.Value)) {
				unknown = true
			}
		}
		return true
	}
	ast.Inspect(body, walk)
	if unknown || len(out) == 0 {
		pc.vars[v] = nil
		return nil
	}
	out = c05Uniq(out)
	pc.vars[v] = out
	return out
}

// ptrCallTargets: a package function all of whose returns are addresses of receiver fields, called on the receiver.
func (e *c05Eng) ptrCallTargets(fr *c05Frame, call *ast.CallExpr, depth int) []string {
	if !isPtrToStruct(fr.info.TypeOf(call)) {
		return nil
	}
	fn := calleeOf(fr.info, call)
	if fn == nil {
		return nil
	}
	fi := e.c.P.FuncOfObj(fn)
	if fi == nil || fi.Pkg != e.pk || fi.Decl.Body == nil {
		return nil
	}
	cf := &c05Frame{fi: fi, pkg: fi.Pkg, info: fi.Pkg.TypesInfo}
	cf.recv = e.recvOf(fi)
	cf.recvAt = cf.recv != nil
	if cf.recv == nil {
		return nil
	}
	// the callee's receiver must be the caller's
	if idx, _ := e.modelParam(fi); idx >= 0 {
		if idx >= len(call.Args) || e.pathKeyRaw(fr, call.Args[idx]) != "@" {
			return nil
		}
	} else {
		sel, ok := unparen(call.Fun).(*ast.SelectorExpr)
		if !ok || e.pathKeyRaw(fr, sel.X) != "@" {
			return nil
		}
	}
	pc := e.ptrCache()
	if ts, ok := pc.calls[fi]; ok {
		return ts
	}
	if pc.cbusy[fi] {
		return nil
	}
	pc.cbusy[fi] = true
	defer delete(pc.cbusy, fi)
	var out []string
	unknown := false
	nret := 0
	inspectNoLit(fi.Decl.Body, func(n ast.Node) bool {
		rs, ok := n.(*ast.ReturnStmt)
		if !ok {
			return true
		}
		nret++
		if len(rs.Results) == 0 {
			unknown = true
			return true
		}
		ts := e.ptrTargets(cf, rs.Results[0], depth+1)
		if len(ts) == 0 {
			unknown = true
			return true
		}
		for _, t := range ts {
			if !strings.HasPrefix(t, "@.") {
				unknown = true
			}
		}
		out = append(out, ts...)
		return true
	})
	if unknown || nret == 0 {
		pc.calls[fi] = nil
		return nil
	}
	out = c05Uniq(out)
	pc.calls[fi] = out
	return out
}

// aliasKeys: for a path rooted at a pointer local or an accessor call, the field paths it may denote (nil if not such a path / unknown).
func (e *c05Eng) aliasKeys(fr *c05Frame, x ast.Expr) []string {
	if x == nil || !e.ptrRooted(fr, x) {
		return nil
	}
	if t := fr.info.TypeOf(x); t != nil {
		if _, isPtr := t.Underlying().(*types.Pointer); isPtr {
			return nil // the pointer value itself
		}
	}
	return e.lvalKeys(fr, x, 0)
}

// joinVals: the bounds that hold for every one of the values.
func c05JoinVals(vs []*c05Val) *c05Val {
	if len(vs) == 0 {
		return c05Top()
	}
	r := vs[0].clone()
	for _, v := range vs[1:] {
		for s, k := range r.lo {
			if k2, ok := v.lo[s]; !ok {
				delete(r.lo, s)
			} else if k2 < k {
				r.lo[s] = k2
			}
		}
		for s, k := range r.hi {
			if k2, ok := v.hi[s]; !ok {
				delete(r.hi, s)
			} else if k2 > k {
				r.hi[s] = k2
			}
		}
	}
	r.bot = false
	return r
}

// bindPtr: `p := <pointer expression>` where p may point to several paths (or is bound more than once):
// the integer leaves reached through p take the join of the targets' values now.
func (e *c05Eng) bindPtr(fr *c05Frame, st *c05State, lk string, lhs ast.Expr, rhs ast.Expr) {
	if lk == "" || rhs == nil {
		return
	}
	id, ok := unparen(lhs).(*ast.Ident)
	if !ok {
		return
	}
	v, ok := fr.info.ObjectOf(id).(*types.Var)
	if !ok || !isPtrToStruct(v.Type()) {
		return
	}
	if len(e.ptrVarTargets(fr, v, 0)) == 1 {
		return // p.f is resolved to the field itself
	}
	ts := e.ptrTargets(fr, rhs, 0)
	if len(ts) == 0 {
		return
	}
	elem := v.Type().Underlying().(*types.Pointer).Elem()
	for _, s := range c05IntLeaves(elem, 0) {
		var vs []*c05Val
		for _, t := range ts {
			k := t + s
			if _, ok := e.disp[k]; !ok {
				e.disp[k] = strings.TrimPrefix(e.show(t)+s, "vt.")
			}
			tv := e.valOf(st, k)
			if len(ts) == 1 {
				tv.addLo(k, 0)
				tv.addHi(k, 0)
			}
			vs = append(vs, tv)
		}
		k := lk + s
		e.disp[k] = e.show(lk) + s
		e.addDep(k, lk)
		for _, t := range ts {
			e.addDep(k, t+s)
		}
		jv := c05JoinVals(vs)
		delete(jv.lo, k)
		delete(jv.hi, k)
		st.env[k] = jv
	}
}

// weakStore: the value may or may not have been stored to key.
func (e *c05Eng) weakStore(st *c05State, key string, nv *c05Val) {
	old := e.valOf(st, key)
	e.kill(st, key)
	jv := c05JoinVals([]*c05Val{old, nv})
	delete(jv.lo, key)
	delete(jv.hi, key)
	if len(jv.lo)+len(jv.hi) > 0 {
		st.env[key] = jv
	}
}

// killAliases: a compound store (+=, ++, ...) through a pointer with several possible targets forgets each of them.
func (e *c05Eng) killAliases(fr *c05Frame, st *c05State, lhs ast.Expr) {
	if ak := e.aliasKeys(fr, lhs); len(ak) >= 2 {
		for _, t := range ak {
			e.kill(st, t)
		}
	}
}

// c05LiveFuncs drops dead code: an unexported function or method that nothing in the package refers to any more
// (typically a helper whose calls the pre-normalisation inlined into the callers) and that cannot be reached through
// an interface. It cannot run, so it carries no obligation; its body is checked where it was inlined.
func c05LiveFuncs(c *Ctx, e *c05Eng, all []*FuncInfo) []*FuncInfo {
	if e.pk == nil {
		return all
	}
	used := map[types.Object]bool{}
	for _, o := range e.pk.TypesInfo.Uses {
		if _, ok := o.(*types.Func); ok {
			used[o] = true
		}
	}
	// unexported method names an interface of this package could call
	ifaceNames := map[string]bool{}
	addIface := func(t types.Type) {
		if it, ok := t.Underlying().(*types.Interface); ok {
			for i := 0; i < it.NumMethods(); i++ {
				ifaceNames[it.Method(i).Name()] = true
			}
		}
	}
	for _, tv := range e.pk.TypesInfo.Types {
		if tv.Type != nil {
			addIface(tv.Type)
		}
	}
	for _, n := range e.pk.Types.Scope().Names() {
		if tn, ok := e.pk.Types.Scope().Lookup(n).(*types.TypeName); ok {
			addIface(tn.Type())
		}
	}
	var out []*FuncInfo
	for _, fi := range all {
		dead := fi.Obj != nil && !fi.Obj.Exported() && !used[fi.Obj] && fi.Obj.Name() != "init" && fi.Obj.Name() != "main" && fi.Obj.Name() != "_"
		if dead && fi.Decl.Recv != nil && ifaceNames[fi.Obj.Name()] {
			dead = false
		}
		if !dead {
			out = append(out, fi)
		}
	}
	return out
}
