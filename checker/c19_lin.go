package main

// C19 support: access paths, linear forms, interval evaluation with callee summaries (B-sign).
// Terms are canonical over inlined helper frames: while the nodes of an inlined callee are translated,
// c19Ctx maps the callee's receiver / pointer / slice parameters to the caller's access paths and c19Bind
// maps value parameters of expression-inlined helpers to the argument's linear form.

import (
	"fmt"
	"go/ast"
	"go/token"
	"go/types"
	"math"
	"sort"
	"strings"

	"golang.org/x/tools/go/packages"
)

// c19Frame is one activation of a function in a supergraph: the root function or an inlined helper.
type c19Frame struct {
	fi     *FuncInfo
	g      *FG
	alias  map[types.Object]c19Path  // callee object -> caller access path (canonical in the caller)
	args   map[types.Object]ast.Expr // value parameters -> argument expression (in the parent frame)
	parent *c19Frame
	depth  int
	// pointer parameters bound by value (c19BindByValue)
	ptrBinds []c19PtrBind
}

var (
	c19C     *Ctx                      // the running check (to find helper bodies)
	c19Ctx   *c19Frame                 // alias context of the node being translated
	c19Bind  map[types.Object]*c19Lin  // value parameters of an expression-inlined helper
	c19BindB map[types.Object]ast.Expr // (reserved) boolean parameters
)

func c19With(fr *c19Frame, f func()) {
	old := c19Ctx
	c19Ctx = fr
	defer func() { c19Ctx = old }()
	f()
}

func c19Canon(p c19Path) c19Path {
	if c19Ctx != nil {
		if a, ok := c19Ctx.alias[p.root]; ok {
			return c19Path{a.root, append(append([]string{}, a.path...), p.path...)}
		}
	}
	return p
}

// c19TermID: termOf's identity with the frame's aliases replaced by what they stand for.
func c19TermID(info *types.Info, e ast.Expr) string {
	id := termOf(info, e).ID
	if c19Ctx != nil {
		for o, a := range c19Ctx.alias {
			id = strings.ReplaceAll(id, fmt.Sprintf("%p", o), fmt.Sprintf("%p", a.root)+joinDot(a.path))
		}
	}
	return id
}

type c19Path struct {
	root types.Object
	path []string
}

func (p c19Path) String() string {
	if p.root == nil {
		return "?"
	}
	return p.root.Name() + joinDot(p.path)
}

// c19Chain resolves x, x.f, x.f[i], *x, (x) to a root variable and a field path.
func c19Chain(info *types.Info, e ast.Expr) (c19Path, bool) {
	switch t := e.(type) {
	case *ast.Ident:
		if v, ok := info.ObjectOf(t).(*types.Var); ok {
			return c19Canon(c19Path{root: v}), true
		}
	case *ast.ParenExpr:
		return c19Chain(info, t.X)
	case *ast.StarExpr:
		return c19Chain(info, t.X)
	case *ast.SelectorExpr:
		if s, ok := info.Selections[t]; ok {
			if s.Kind() != types.FieldVal {
				return c19Path{}, false
			}
			p, ok := c19Chain(info, t.X)
			if !ok {
				return p, false
			}
			return c19Path{p.root, append(append([]string{}, p.path...), t.Sel.Name)}, true
		}
		if v, ok := info.ObjectOf(t.Sel).(*types.Var); ok {
			return c19Path{root: v}, true
		}
	case *ast.IndexExpr:
		p, ok := c19Chain(info, t.X)
		if !ok {
			return p, false
		}
		return c19Path{p.root, append(append([]string{}, p.path...), "[]")}, true
	}
	return c19Path{}, false
}

// c19ReadPaths lists the access paths read by an expression.
func c19ReadPaths(info *types.Info, e ast.Node) []c19Path {
	var out []c19Path
	var visit func(n ast.Node)
	visit = func(n ast.Node) {
		if n == nil {
			return
		}
		ast.Inspect(n, func(m ast.Node) bool {
			switch t := m.(type) {
			case *ast.FuncLit:
				return false
			case *ast.Ident, *ast.SelectorExpr, *ast.IndexExpr, *ast.StarExpr:
				if p, ok := c19Chain(info, t.(ast.Expr)); ok {
					out = append(out, p)
					// index operands inside the chain are reads of their own
					cur := t.(ast.Expr)
					for cur != nil {
						switch c := cur.(type) {
						case *ast.IndexExpr:
							visit(c.Index)
							cur = c.X
						case *ast.SelectorExpr:
							cur = c.X
						case *ast.StarExpr:
							cur = c.X
						case *ast.ParenExpr:
							cur = c.X
						default:
							cur = nil
						}
					}
					return false
				}
			}
			return true
		})
	}
	visit(e)
	return out
}

type c19Term struct {
	id     string
	ex     ast.Expr
	paths  []c19Path
	isLen  bool
	nonneg bool // fabricated terms: known to be >= 0 (unsigned field, invariant)
}

// affected: does a write to w change the value of the term?
func (t *c19Term) affected(w c19Path) bool {
	for _, r := range t.paths {
		if w.root != r.root {
			continue
		}
		n := len(w.path)
		if len(r.path) < n {
			n = len(r.path)
		}
		same := true
		for i := 0; i < n; i++ {
			if w.path[i] != r.path[i] {
				same = false
				break
			}
		}
		if !same {
			continue
		}
		// an element store does not change len(x)
		if t.isLen && len(w.path) > len(r.path) && w.path[len(r.path)] == "[]" {
			continue
		}
		return true
	}
	return false
}

type c19Lin struct {
	coef map[string]int64
	tm   map[string]*c19Term
	k    int64
}

func c19NewLin() *c19Lin { return &c19Lin{coef: map[string]int64{}, tm: map[string]*c19Term{}} }

func (l *c19Lin) clone() *c19Lin {
	o := c19NewLin()
	o.k = l.k
	for id, c := range l.coef {
		o.coef[id] = c
		o.tm[id] = l.tm[id]
	}
	return o
}

// plus returns l + s*o.
func (l *c19Lin) plus(o *c19Lin, s int64) *c19Lin {
	r := l.clone()
	r.k += s * o.k
	for id, c := range o.coef {
		r.coef[id] += s * c
		if r.tm[id] == nil {
			r.tm[id] = o.tm[id]
		}
	}
	for id, c := range r.coef {
		if c == 0 {
			delete(r.coef, id)
			delete(r.tm, id)
		}
	}
	return r
}

func (l *c19Lin) addK(k int64) *c19Lin { r := l.clone(); r.k += k; return r }
func (l *c19Lin) neg() *c19Lin         { return c19NewLin().plus(l, -1) }

func (l *c19Lin) ids() []string {
	var out []string
	for id, c := range l.coef {
		if c != 0 {
			out = append(out, id)
		}
	}
	disp := func(id string) string {
		if t := l.tm[id]; t != nil && t.ex != nil {
			return types.ExprString(t.ex)
		}
		return id
	}
	// ordered by what the term looks like, so that normal forms and messages do not depend on addresses
	sort.Slice(out, func(i, j int) bool {
		di, dj := disp(out[i]), disp(out[j])
		if di != dj {
			return di < dj
		}
		return out[i] < out[j]
	})
	return out
}

func (l *c19Lin) String() string {
	var parts []string
	for _, id := range l.ids() {
		c := l.coef[id]
		d := id
		if t := l.tm[id]; t != nil && t.ex != nil {
			d = types.ExprString(t.ex)
		}
		switch c {
		case 1:
			parts = append(parts, "+"+d)
		case -1:
			parts = append(parts, "-"+d)
		default:
			parts = append(parts, fmt.Sprintf("%+d*%s", c, d))
		}
	}
	if l.k != 0 || len(parts) == 0 {
		parts = append(parts, fmt.Sprintf("%+d", l.k))
	}
	return strings.TrimPrefix(strings.Join(parts, ""), "+")
}

func c19IsIntType(t types.Type) bool {
	if t == nil {
		return false
	}
	b, ok := t.Underlying().(*types.Basic)
	return ok && b.Info()&types.IsInteger != 0
}

func c19IsUnsigned(t types.Type) bool {
	if t == nil {
		return false
	}
	b, ok := t.Underlying().(*types.Basic)
	return ok && b.Info()&types.IsUnsigned != 0
}

func c19IsBuiltin(info *types.Info, call *ast.CallExpr, names ...string) string {
	id, ok := unparen(call.Fun).(*ast.Ident)
	if !ok {
		return ""
	}
	b, ok := info.Uses[id].(*types.Builtin)
	if !ok {
		return ""
	}
	for _, n := range names {
		if b.Name() == n {
			return n
		}
	}
	return ""
}

func c19IsConversion(info *types.Info, call *ast.CallExpr) (types.Type, bool) {
	if tv, ok := info.Types[call.Fun]; ok && tv.IsType() && len(call.Args) == 1 {
		return tv.Type, true
	}
	return nil, false
}

func c19NewTerm(info *types.Info, e ast.Expr) *c19Term {
	e = unparen(e)
	t := &c19Term{id: c19TermID(info, e), ex: e, paths: c19ReadPaths(info, e)}
	if call, ok := e.(*ast.CallExpr); ok && c19IsBuiltin(info, call, "len", "cap") != "" {
		t.isLen = true
	}
	return t
}

// c19LinOf linearises an integer expression; anything that is not +, -, unary -, a constant
// factor or an integer conversion becomes an atomic term. Integer conversions are transparent
// (values are assumed to stay below 2^63; the wrap-around of an unsigned subtraction is what
// rule C19.c excludes).
func c19LinOf(info *types.Info, e ast.Expr) *c19Lin {
	l := c19NewLin()
	c19LinAdd(info, l, e, 1)
	for id, c := range l.coef {
		if c == 0 {
			delete(l.coef, id)
			delete(l.tm, id)
		}
	}
	return l
}

func c19LinAdd(info *types.Info, l *c19Lin, e ast.Expr, s int64) {
	e = unparen(e)
	if v, ok := constInt(info, e); ok {
		l.k += s * v
		return
	}
	switch t := e.(type) {
	case *ast.UnaryExpr:
		if t.Op == token.SUB {
			c19LinAdd(info, l, t.X, -s)
			return
		}
		if t.Op == token.ADD {
			c19LinAdd(info, l, t.X, s)
			return
		}
	case *ast.BinaryExpr:
		switch t.Op {
		case token.ADD:
			c19LinAdd(info, l, t.X, s)
			c19LinAdd(info, l, t.Y, s)
			return
		case token.SUB:
			c19LinAdd(info, l, t.X, s)
			c19LinAdd(info, l, t.Y, -s)
			return
		case token.MUL:
			if v, ok := constInt(info, t.X); ok {
				c19LinAdd(info, l, t.Y, s*v)
				return
			}
			if v, ok := constInt(info, t.Y); ok {
				c19LinAdd(info, l, t.X, s*v)
				return
			}
		}
	case *ast.Ident:
		if o := info.ObjectOf(t); o != nil && c19Bind != nil {
			if bl, ok := c19Bind[o]; ok {
				m := l.plus(bl, s)
				l.coef, l.tm, l.k = m.coef, m.tm, m.k
				return
			}
		}
	case *ast.CallExpr:
		if ty, ok := c19IsConversion(info, t); ok && c19IsIntType(ty) && c19IsIntType(info.TypeOf(t.Args[0])) {
			c19LinAdd(info, l, t.Args[0], s)
			return
		}
		// a pure same-package helper whose body is `return <expr>` is its expression
		if ret, fr, bind := c19PureHelper(info, t); ret != nil && c19IsIntType(info.TypeOf(ret)) {
			oldC, oldB := c19Ctx, c19Bind
			c19Ctx, c19Bind = fr, bind
			sub := c19LinOf(info, ret)
			c19Ctx, c19Bind = oldC, oldB
			m := l.plus(sub, s)
			l.coef, l.tm, l.k = m.coef, m.tm, m.k
			return
		}
	}
	tm := c19NewTerm(info, e)
	l.coef[tm.id] += s
	if l.tm[tm.id] == nil {
		l.tm[tm.id] = tm
	}
}

type c19Bounds func(t *c19Term) (lo, hi float64)

func (l *c19Lin) lower(b c19Bounds) float64 {
	v := float64(l.k)
	for id, c := range l.coef {
		if c == 0 {
			continue
		}
		lo, hi := b(l.tm[id])
		if c > 0 {
			v += float64(c) * lo
		} else {
			v += float64(c) * hi
		}
		if math.IsInf(v, -1) || math.IsNaN(v) {
			return math.Inf(-1)
		}
	}
	return v
}

func (l *c19Lin) upper(b c19Bounds) float64 { return -l.neg().lower(b) }

// ---------------------------------------------------------------------------------------------
// interval evaluation with callee summaries (B-sign)
// ---------------------------------------------------------------------------------------------

// c19AV: lo <= v <= hi and v <= L + rel where L is the rule's symbolic bound (max(0,len(items)-1)).
type c19AV struct{ lo, hi, rel float64 }

func c19Top() c19AV { return c19AV{math.Inf(-1), math.Inf(1), math.Inf(1)} }

func (a c19AV) norm() c19AV {
	if a.hi < a.rel { // v <= hi <= L + hi because L >= 0
		a.rel = a.hi
	}
	return a
}

type c19Eval struct {
	c     *Ctx
	pk    *packages.Package
	info  *types.Info
	field func(ev *c19Eval, sel *ast.SelectorExpr, fv *types.Var) (c19AV, bool) // invariants on fields
	lenL  func(arg ast.Expr) bool                                               // len(arg) == L+1 (or 0)
	env   map[types.Object]c19AV
	depth int
	memo  map[ast.Expr]c19AV
	fr    *c19Frame // alias context of the expressions evaluated
	fi    *FuncInfo // function the expressions belong to (for single-definition locals)
	use   *Loc      // where the value is used (validity of local definitions), nil = anywhere
	busy  map[types.Object]bool
}

func (ev *c19Eval) byType(e ast.Expr) c19AV {
	a := c19Top()
	if c19IsUnsigned(ev.info.TypeOf(e)) {
		a.lo = 0
	}
	return a
}

func (ev *c19Eval) eval(e ast.Expr) c19AV {
	if ev.fr != nil && c19Ctx != ev.fr {
		var r c19AV
		c19With(ev.fr, func() { r = ev.eval1(e) })
		return r
	}
	return ev.eval1(e)
}

func (ev *c19Eval) eval1(e ast.Expr) c19AV {
	e = unparen(e)
	if v, ok := constInt(ev.info, e); ok {
		f := float64(v)
		return c19AV{f, f, f}
	}
	switch t := e.(type) {
	case *ast.Ident:
		if o := ev.info.ObjectOf(t); o != nil {
			if a, ok := ev.env[o]; ok {
				return a
			}
			// a local with a single definition whose operands are unchanged up to the use is its definition
			if v, ok := o.(*types.Var); ok && ev.fi != nil && !ev.busy[o] {
				if def, stmt := c19LocalDef(ev.fi, v); def != nil && isIntegerExpr(ev.info, def) && c19DefValidAt(ev.c, ev.fi, stmt, def, ev.use) {
					if ev.busy == nil {
						ev.busy = map[types.Object]bool{}
					}
					ev.busy[o] = true
					a := ev.eval1(def)
					delete(ev.busy, o)
					return a
				}
			}
		}
		return ev.byType(e)
	case *ast.SelectorExpr:
		if s, ok := ev.info.Selections[t]; ok && s.Kind() == types.FieldVal && ev.field != nil {
			if fv, ok := s.Obj().(*types.Var); ok {
				if a, ok := ev.field(ev, t, fv); ok {
					return a.norm()
				}
			}
		}
		return ev.byType(e)
	case *ast.UnaryExpr:
		if t.Op == token.SUB {
			a := ev.eval(t.X)
			return c19AV{-a.hi, -a.lo, math.Inf(1)}.norm()
		}
	case *ast.BinaryExpr:
		if !c19IsIntType(ev.info.TypeOf(e)) {
			return c19Top()
		}
		a, b := ev.eval(t.X), ev.eval(t.Y)
		switch t.Op {
		case token.ADD:
			r := c19AV{a.lo + b.lo, a.hi + b.hi, math.Min(a.rel+b.hi, b.rel+a.hi)}
			if c19IsUnsigned(ev.info.TypeOf(e)) && r.lo < 0 {
				r.lo = 0
			}
			return r.norm()
		case token.SUB:
			if c19IsUnsigned(ev.info.TypeOf(e)) {
				return ev.byType(e) // may wrap
			}
			return c19AV{a.lo - b.hi, a.hi - b.lo, a.rel - b.lo}.norm()
		case token.MUL:
			if a.lo >= 0 && b.lo >= 0 {
				return c19AV{a.lo * b.lo, math.Inf(1), math.Inf(1)}
			}
		}
		return ev.byType(e)
	case *ast.CallExpr:
		if ev.depth == 0 && len(ev.env) == 0 {
			if a, ok := ev.memo[e]; ok {
				return a
			}
			a := ev.call(t)
			if ev.memo == nil {
				ev.memo = map[ast.Expr]c19AV{}
			}
			ev.memo[e] = a
			return a
		}
		return ev.call(t)
	}
	return ev.byType(e)
}

func (ev *c19Eval) call(call *ast.CallExpr) c19AV {
	switch c19IsBuiltin(ev.info, call, "len", "cap", "min", "max") {
	case "len", "cap":
		a := c19AV{0, math.Inf(1), math.Inf(1)}
		if len(call.Args) == 1 && ev.lenL != nil && ev.lenL(call.Args[0]) {
			a.rel = 1
		}
		return a
	case "min":
		r := ev.eval(call.Args[0])
		for _, x := range call.Args[1:] {
			b := ev.eval(x)
			r = c19AV{math.Min(r.lo, b.lo), math.Min(r.hi, b.hi), math.Min(r.rel, b.rel)}
		}
		return r.norm()
	case "max":
		r := ev.eval(call.Args[0])
		for _, x := range call.Args[1:] {
			b := ev.eval(x)
			r = c19AV{math.Max(r.lo, b.lo), math.Max(r.hi, b.hi), math.Max(r.rel, b.rel)}
		}
		return r.norm()
	}
	if ty, ok := c19IsConversion(ev.info, call); ok {
		if c19IsIntType(ty) && c19IsIntType(ev.info.TypeOf(call.Args[0])) {
			a := ev.eval(call.Args[0])
			if c19IsUnsigned(ty) && a.lo < 0 {
				return c19AV{0, math.Inf(1), math.Inf(1)}
			}
			return a
		}
		return ev.byType(call)
	}
	if fn := calleeOf(ev.info, call); fn != nil && ev.depth < 3 {
		if a, ok := ev.summary(fn, call); ok {
			return a
		}
	}
	return ev.byType(call)
}

// summary evaluates a small repository helper: the join over its return statements of the returned
// expression, each parameter refined by the linear facts in force at that return.
func (ev *c19Eval) summary(fn *types.Func, call *ast.CallExpr) (c19AV, bool) {
	fi := ev.c.P.FuncOfObj(fn)
	if fi == nil || fi.Decl.Body == nil || fi.Pkg != ev.pk {
		return c19AV{}, false
	}
	sig := fn.Type().(*types.Signature)
	if sig.Results().Len() != 1 || sig.Variadic() || !c19IsIntType(sig.Results().At(0).Type()) {
		return c19AV{}, false
	}
	if sig.Recv() != nil {
		// a method: only calls on the current receiver keep the field invariants meaningful
		sel, ok := unparen(call.Fun).(*ast.SelectorExpr)
		if !ok {
			return c19AV{}, false
		}
		id, ok := unparen(sel.X).(*ast.Ident)
		if !ok {
			return c19AV{}, false
		}
		if v, ok := ev.info.ObjectOf(id).(*types.Var); !ok || v.IsField() {
			return c19AV{}, false
		}
	}
	var params []types.Object
	for _, f := range fi.Decl.Type.Params.List {
		for _, n := range f.Names {
			params = append(params, fi.Pkg.TypesInfo.Defs[n])
		}
	}
	if len(params) != len(call.Args) {
		return c19AV{}, false
	}
	env := map[types.Object]c19AV{}
	pset := map[types.Object]bool{}
	for i, p := range params {
		if p == nil {
			return c19AV{}, false
		}
		env[p] = ev.eval(call.Args[i])
		pset[p] = true
	}
	g := c19Graph(ev.c, fi)
	// parameters must not be reassigned, named results and closures are not understood
	if fi.Decl.Type.Results != nil {
		for _, f := range fi.Decl.Type.Results.List {
			if len(f.Names) > 0 {
				return c19AV{}, false
			}
		}
	}
	unsupported := false
	ast.Inspect(fi.Decl.Body, func(n ast.Node) bool {
		switch n.(type) {
		case *ast.FuncLit, *ast.DeferStmt, *ast.GoStmt:
			unsupported = true
		}
		if n != nil && assignsAny(fi.Pkg.TypesInfo, n, pset) {
			unsupported = true
		}
		return !unsupported
	})
	if unsupported {
		return c19AV{}, false
	}
	sub := &c19Eval{c: ev.c, pk: fi.Pkg, info: fi.Pkg.TypesInfo, field: ev.field, lenL: ev.lenL, env: env, depth: ev.depth + 1}
	rets := g.Find(func(n ast.Node) bool { _, ok := n.(*ast.ReturnStmt); return ok })
	if len(rets) == 0 {
		return c19AV{}, false
	}
	first := true
	var out c19AV
	for _, h := range rets {
		rs := h.Node.(*ast.ReturnStmt)
		if len(rs.Results) != 1 {
			return c19AV{}, false
		}
		a := sub.eval(rs.Results[0])
		if id, ok := unparen(rs.Results[0]).(*ast.Ident); ok {
			if p := fi.Pkg.TypesInfo.ObjectOf(id); p != nil && pset[p] {
				pid := fmt.Sprintf("%p", p)
				other := func(t Term) (c19AV, bool) {
					if t.ID == "" {
						return c19AV{0, 0, 0}, true
					}
					for q := range pset {
						if fmt.Sprintf("%p", q) == t.ID {
							return env[q], true
						}
					}
					return c19AV{}, false
				}
				for _, f := range g.FactsAt(h.Loc) {
					if f.Kind != "lin" {
						continue
					}
					k := float64(f.K)
					if f.A.ID == pid { // p - B <= K
						if b, ok := other(f.B); ok {
							a.hi = math.Min(a.hi, b.hi+k)
							a.rel = math.Min(a.rel, b.rel+k)
						}
					}
					if f.B.ID == pid { // A - p <= K
						if b, ok := other(f.A); ok {
							a.lo = math.Max(a.lo, b.lo-k)
						}
					}
				}
			}
		}
		a = a.norm()
		if first {
			out, first = a, false
		} else {
			out = c19AV{math.Min(out.lo, a.lo), math.Max(out.hi, a.hi), math.Max(out.rel, a.rel)}
		}
	}
	return out, true
}

func (ev *c19Eval) bounds() c19Bounds {
	return func(t *c19Term) (float64, float64) {
		if t != nil && (t.isLen || t.nonneg) {
			return 0, math.Inf(1)
		}
		if t == nil || t.ex == nil {
			return math.Inf(-1), math.Inf(1)
		}
		a := ev.eval(t.ex)
		return a.lo, a.hi
	}
}

// c19TypeBounds: bounds from types alone (unsigned and len are >= 0).
func c19TypeBounds(c *Ctx, pk *packages.Package) c19Bounds {
	ev := &c19Eval{c: c, pk: pk, info: pk.TypesInfo, depth: 3}
	return ev.bounds()
}

var c19PureDepth int

// c19PureHelper: call of a same-package function whose body is a single `return <expr>` with one result,
// whose receiver / pointer arguments are access paths and whose value arguments are integers. Returns the
// returned expression together with the alias frame and parameter bindings under which to translate it.
func c19PureHelper(info *types.Info, call *ast.CallExpr) (ast.Expr, *c19Frame, map[types.Object]*c19Lin) {
	if c19C == nil || c19PureDepth >= 2 {
		return nil, nil, nil
	}
	fn := calleeOf(info, call)
	if fn == nil {
		return nil, nil, nil
	}
	fi := c19C.P.FuncOfObj(fn)
	if fi == nil || fi.Decl.Body == nil || fi.Pkg.TypesInfo != info || len(fi.Decl.Body.List) != 1 {
		return nil, nil, nil
	}
	rs, ok := fi.Decl.Body.List[0].(*ast.ReturnStmt)
	if !ok || len(rs.Results) != 1 {
		return nil, nil, nil
	}
	sig := fn.Type().(*types.Signature)
	if sig.Variadic() {
		return nil, nil, nil
	}
	fr := &c19Frame{fi: fi, alias: map[types.Object]c19Path{}, parent: c19Ctx}
	bind := map[types.Object]*c19Lin{}
	for o, b := range c19Bind {
		bind[o] = b
	}
	if fi.Decl.Recv != nil {
		sel, ok := unparen(call.Fun).(*ast.SelectorExpr)
		if !ok || len(fi.Decl.Recv.List) != 1 {
			return nil, nil, nil
		}
		if len(fi.Decl.Recv.List[0].Names) == 1 {
			p, ok := c19Chain(info, sel.X)
			if !ok {
				return nil, nil, nil
			}
			for _, seg := range p.path {
				if seg == "[]" {
					return nil, nil, nil
				}
			}
			fr.alias[info.Defs[fi.Decl.Recv.List[0].Names[0]]] = p
		}
	}
	i := 0
	for _, f := range fi.Decl.Type.Params.List {
		for _, name := range f.Names {
			if i >= len(call.Args) {
				return nil, nil, nil
			}
			po, arg := info.Defs[name], call.Args[i]
			i++
			if po == nil || name.Name == "_" {
				continue
			}
			switch po.Type().Underlying().(type) {
			case *types.Basic:
				if c19IsIntType(po.Type()) && c19IsIntType(info.TypeOf(arg)) {
					c19PureDepth++
					bind[po] = c19LinOf(info, arg)
					c19PureDepth--
				}
			case *types.Pointer, *types.Slice, *types.Map:
				a := unparen(arg)
				if u, ok := a.(*ast.UnaryExpr); ok && u.Op == token.AND {
					a = u.X
				}
				if p, ok := c19Chain(info, a); ok {
					fr.alias[po] = p
				}
			}
		}
	}
	if i != len(call.Args) {
		return nil, nil, nil
	}
	return rs.Results[0], fr, bind
}

// c19LocalDef: the defining expression of a local variable that is defined exactly once (x := E or
// var x = E) and never assigned, incremented, ranged over or address-taken otherwise.
func c19LocalDef(fi *FuncInfo, v *types.Var) (ast.Expr, ast.Node) {
	info := fi.Pkg.TypesInfo
	if v.IsField() || v.Parent() == fi.Pkg.Types.Scope() {
		return nil, nil
	}
	var def ast.Expr
	var stmt ast.Node
	n := 0
	is := func(e ast.Expr) bool {
		id, ok := e.(*ast.Ident)
		return ok && info.ObjectOf(id) == types.Object(v)
	}
	ast.Inspect(fi.Decl, func(m ast.Node) bool {
		switch st := m.(type) {
		case *ast.AssignStmt:
			for i, lh := range st.Lhs {
				if is(lh) {
					n++
					if len(st.Lhs) == len(st.Rhs) && st.Tok == token.DEFINE {
						def, stmt = st.Rhs[i], st
					} else {
						n++
					}
				}
			}
		case *ast.ValueSpec:
			for i, name := range st.Names {
				if is(name) {
					n++
					if len(st.Values) == len(st.Names) {
						def, stmt = st.Values[i], st
					} else {
						n++
					}
				}
			}
		case *ast.IncDecStmt:
			if is(st.X) {
				n += 2
			}
		case *ast.RangeStmt:
			if (st.Key != nil && is(st.Key)) || (st.Value != nil && is(st.Value)) {
				n += 2
			}
		case *ast.UnaryExpr:
			if st.Op == token.AND && is(st.X) {
				n += 2
			}
		case *ast.Field:
			for _, name := range st.Names {
				if is(name) {
					n += 2 // a parameter
				}
			}
		}
		return true
	})
	if n == 1 && def != nil {
		return def, stmt
	}
	return nil, nil
}

// c19DefValidAt: no operand of the defining expression is written on a path from the definition to the
// use (use == nil: anywhere in the function after the definition).
func c19DefValidAt(c *Ctx, fi *FuncInfo, stmt ast.Node, def ast.Expr, use *Loc) bool {
	info := fi.Pkg.TypesInfo
	g := c19Graph(c, fi)
	if g == nil {
		return false
	}
	var d Loc
	found := false
	for _, b := range g.Blocks {
		for i, n := range b.Nodes {
			if !found && n.Pos() <= stmt.Pos() && stmt.End() <= n.End() {
				if containsNode(n, func(m ast.Node) bool { return m == stmt }) || n == stmt {
					d, found = Loc{b, i}, true
				}
			}
		}
	}
	if !found {
		return false
	}
	var reads []c19Path
	var calls bool
	c19With(nil, func() { reads = c19ReadPaths(info, def) })
	ast.Inspect(def, func(m ast.Node) bool {
		if call, ok := m.(*ast.CallExpr); ok {
			if c19IsBuiltin(info, call, "len", "cap", "min", "max") == "" {
				if _, conv := c19IsConversion(info, call); !conv {
					calls = true
				}
			}
		}
		return true
	})
	if calls {
		return false
	}
	tm := &c19Term{paths: reads}
	valid := true
	g.walk(Loc{d.B, d.Idx + 1}, func(l Loc, n ast.Node) bool {
		if use != nil && l == *use {
			return false
		}
		var efs []c19Effect
		c19With(nil, func() { efs = c19RawEffects(c, info, n, nil, "") })
		for _, ef := range efs {
			if ef.kind == 0 {
				continue
			}
			if ef.kind == 'x' || tm.affected(ef.lhs) {
				// the write matters only if it can reach the use without the definition being executed again
				// (a loop counter advanced in the post statement reaches the use only through the definition)
				if use == nil || g.ReachesAvoiding(l, *use, func(m ast.Node) bool { return m == stmt }) {
					valid = false
				}
			}
		}
		return valid
	}, nil)
	return valid
}

// c19Resolve substitutes locals that are defined exactly once by their defining expression (when the
// definition is still valid at the use).
func c19Resolve(c *Ctx, fi *FuncInfo, l *c19Lin, use *Loc) *c19Lin {
	info := fi.Pkg.TypesInfo
	for round := 0; round < 3; round++ {
		changed := false
		for _, id := range l.ids() {
			t := l.tm[id]
			idn, ok := t.ex.(*ast.Ident)
			if !ok {
				continue
			}
			v, ok := info.ObjectOf(idn).(*types.Var)
			if !ok {
				continue
			}
			def, stmt := c19LocalDef(fi, v)
			if def == nil || !isIntegerExpr(info, def) || !c19DefValidAt(c, fi, stmt, def, use) {
				continue
			}
			k := l.coef[id]
			nl := l.clone()
			delete(nl.coef, id)
			delete(nl.tm, id)
			l = nl.plus(c19LinOf(info, def), k)
			changed = true
		}
		if !changed {
			break
		}
	}
	return l
}

// c19PathLin: the linear form of an access path given by its root and field names.
func c19PathLin(root types.Object, names []string, nonneg bool) *c19Lin {
	var ex ast.Expr = ast.NewIdent(root.Name())
	for _, n := range names {
		ex = &ast.SelectorExpr{X: ex, Sel: ast.NewIdent(n)}
	}
	t := &c19Term{id: fmt.Sprintf("%p", root) + joinDot(names), ex: ex, paths: []c19Path{{root, names}}, nonneg: nonneg}
	l := c19NewLin()
	l.coef[t.id] = 1
	l.tm[t.id] = t
	return l
}

// c19LenLin: the linear form len(e) for an access path expression e (built without needing a len call in the source).
func c19LenLin(info *types.Info, e ast.Expr) *c19Lin {
	call := &ast.CallExpr{Fun: ast.NewIdent("len"), Args: []ast.Expr{e}}
	t := &c19Term{id: "len(" + c19TermID(info, e) + ")", ex: call, paths: c19ReadPaths(info, e), isLen: true}
	l := c19NewLin()
	l.coef[t.id] = 1
	l.tm[t.id] = t
	return l
}

// c19LenPathLin: len(root.names...).
func c19LenPathLin(root types.Object, names []string) *c19Lin {
	pl := c19PathLin(root, names, false)
	var inner *c19Term
	for _, t := range pl.tm {
		inner = t
	}
	call := &ast.CallExpr{Fun: ast.NewIdent("len"), Args: []ast.Expr{inner.ex}}
	t := &c19Term{id: "len(" + inner.id + ")", ex: call, paths: inner.paths, isLen: true}
	l := c19NewLin()
	l.coef[t.id] = 1
	l.tm[t.id] = t
	return l
}

var c19Graphs = map[*FuncInfo]*FG{}

// c19Graph: one CFG per function for the whole check (locations of different rules must be comparable).
func c19Graph(c *Ctx, fi *FuncInfo) *FG {
	if g, ok := c19Graphs[fi]; ok {
		return g
	}
	g := c.P.Graph(fi)
	c19Graphs[fi] = g
	return g
}
