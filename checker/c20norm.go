package main

// C20 — private pre-normalisation, complementing the global helper inlining (gnorm.go): the global pass does not
// enter function literals, but the image code does its work inside them (`go func() { ... }()` in the Resize
// methods, the writeTo / deleteFn closures of the placements). Calls of NEW helper functions (name not in
// refFuncNames) that stand at statement level inside a function literal of package vaxis are inlined there with
// the same inliner (c15norm.go), so that the syntactic rules (c, k, m) see the statements they know. The executor
// rules do not depend on this pass (they execute helpers themselves, c20ip.go). If nothing is new, or nothing is
// inlined, the program is left untouched.

import (
	"go/ast"
	"go/types"
	"os"
	"sort"

	"golang.org/x/tools/go/packages"
)

func c20NormaliseLits(c *Ctx) {
	if os.Getenv("VX_NO_NORMALISE") != "" {
		return
	}
	pk := c.P.Pkg("vaxis")
	if pk == nil {
		return
	}
	fresh := false
	for _, f := range pk.Syntax {
		for _, d := range f.Decls {
			if fd, ok := d.(*ast.FuncDecl); ok && fd.Body != nil && !refFuncNames[fd.Name.Name] {
				fresh = true
			}
		}
	}
	if !fresh {
		return
	}
	var shorts []string
	for _, p := range c.P.All {
		shorts = append(shorts, shortPkg(p.PkgPath))
	}
	sort.SliceStable(shorts, func(i, j int) bool { return pkgRank(shorts[i]) < pkgRank(shorts[j]) })
	counter := 100000 // names distinct from those of the global pass
	for round := 0; round < 4; round++ {
		pk = c.P.Pkg("vaxis")
		in := &c15Inliner{c: c, pk: pk, info: pk.TypesInfo, decls: map[*types.Func]*ast.FuncDecl{}, fileOf: map[*ast.FuncDecl]*ast.File{},
			counter: &counter, changed: map[*ast.File]bool{}, wrap: map[ast.Stmt]string{}}
		in.anchor = func(fd *ast.FuncDecl) bool {
			return fd.Name.IsExported() || refFuncNames[fd.Name.Name] || fd.Name.Name == "init" || fd.Name.Name == "main"
		}
		for _, f := range pk.Syntax {
			for _, d := range f.Decls {
				if fd, ok := d.(*ast.FuncDecl); ok && fd.Body != nil {
					if obj, ok := pk.TypesInfo.Defs[fd.Name].(*types.Func); ok {
						in.decls[obj] = fd
						in.fileOf[fd] = f
					}
				}
			}
		}
		for _, f := range pk.Syntax {
			in.curFile = f
			for _, d := range f.Decls {
				fd, ok := d.(*ast.FuncDecl)
				if !ok || fd.Body == nil {
					continue
				}
				in.curFn, _ = pk.TypesInfo.Defs[fd.Name].(*types.Func)
				if in.curFn == nil {
					continue
				}
				in.curGraph = nil
				in.curDecl = fd
				ast.Inspect(fd.Body, func(n ast.Node) bool {
					if lit, ok := n.(*ast.FuncLit); ok && lit.Body != nil {
						save := in.stack
						in.stack = nil
						lit.Body.List = in.rewriteList(lit.Body.List)
						in.stack = save
					}
					return true
				})
			}
		}
		if len(in.changed) == 0 {
			return
		}
		for _, n := range in.notes {
			c.info("normalised (function literal): %s", n)
		}
		if err := c15Recheck(c, shorts, map[*packages.Package]map[*ast.File]bool{pk: in.changed}); err != nil {
			c.undecided("LOAD", "normalise", 0, "helper inlining inside function literals produced code that does not type-check (%v)", err)
			return
		}
		installAccessorResolver(c.P)
	}
}
