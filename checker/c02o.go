package main

// C02.o — a raw byte is delivered only after ReadRune itself has judged it (round-10 seed C02_b_r10).
//
// The property: "Printable text, including every valid UTF-8 scalar and raw invalid bytes, is delivered in order
// with nothing ... altered ... The result does not depend on how the stream is split across reads".
// bufio's ReadRune is the one operation that decides split-independently whether the next bytes form a scalar:
// it fills the buffer until the rune is complete (or the input ends) and only then reports U+FFFD with size 1
// for an invalid byte. What is buffered at a given moment (Buffered(), a short Peek, FullRune of it) is an
// accident of how the input arrived: "not yet buffered" is not "not coming". Deciding from it that a byte is
// invalid delivers the bytes of a scalar that was cut by a read boundary as raw bytes.
//
// Two necessary conditions, decided on package ansi:
//
//	(1) every consuming operation on the input reader other than ReadRune (ReadByte, Read, Discard, ReadString,
//	    ReadBytes, ReadSlice, ReadLine, WriteTo) is preceded, on every path from the entry of its function, by
//	    a ReadRune on the reader; if it is not preceded in its own function (the operation was moved into a
//	    helper) every call of that function in the package must be preceded by one in the caller (recursively).
//	(2) in the run loop's own reading code (run and the functions only run uses, i.e. readRune however it is cut
//	    into helpers) no reader operation and no return is guarded by a condition that depends on Buffered():
//	    what the state machine is fed must not depend on how much input happens to be buffered. (print()'s
//	    look-ahead over the buffered input is not part of that code: the property allows a cluster to be cut at
//	    a read boundary.)

import (
	"go/ast"
	"go/token"
	"go/types"
	"sort"
	"strings"
)

func init() { registerExtra("C02", c02RawByteAfterReadRune) }

var c02oConsuming = map[string]bool{"ReadByte": true, "Read": true, "Discard": true, "ReadString": true, "ReadBytes": true, "ReadSlice": true, "ReadLine": true, "WriteTo": true}

func c02RawByteAfterReadRune(c *Ctx) {
	c.Clauses = append(c.Clauses, "C02.o a byte is taken from the input reader by anything other than ReadRune only after ReadRune judged it in the same call, and what the run loop reads does not depend on Buffered(): an incomplete (not yet buffered) scalar is never taken for an invalid byte")
	c.expect("C02.o", 2)
	pk := c.P.Pkg("ansi")
	if pk == nil {
		c.undecided("C02.o", "package ansi", 0, "package ansi not loaded")
		return
	}
	info := pk.TypesInfo
	// reader operation: method call on a value whose type has ReadRune and UnreadRune (bufio.Reader, io.RuneScanner, a wrapper)
	readerOp := func(n ast.Node) string {
		call, ok := n.(*ast.CallExpr)
		if !ok {
			return ""
		}
		sel, ok := unparen(call.Fun).(*ast.SelectorExpr)
		if !ok {
			return ""
		}
		if s, ok := info.Selections[sel]; !ok || s.Kind() != types.MethodVal {
			return ""
		}
		if !c02mIsReader(info.TypeOf(sel.X)) {
			return ""
		}
		return sel.Sel.Name
	}
	isRR := func(n ast.Node) bool { return readerOp(n) == "ReadRune" }
	funcs := c.P.FuncsIn("ansi")
	// references to package functions that are not the callee of a call (function used as a value)
	usedAsValue := map[*types.Func]bool{}
	for _, fi := range funcs {
		if fi.Decl.Body == nil {
			continue
		}
		callFun := map[*ast.Ident]bool{}
		ast.Inspect(fi.Decl.Body, func(n ast.Node) bool {
			if call, ok := n.(*ast.CallExpr); ok {
				switch f := unparen(call.Fun).(type) {
				case *ast.Ident:
					callFun[f] = true
				case *ast.SelectorExpr:
					callFun[f.Sel] = true
				}
			}
			return true
		})
		ast.Inspect(fi.Decl.Body, func(n ast.Node) bool {
			if id, ok := n.(*ast.Ident); ok && !callFun[id] {
				if fn, ok := info.Uses[id].(*types.Func); ok && fn.Pkg() == pk.Types {
					usedAsValue[fn] = true
				}
			}
			return true
		})
	}
	// preceded(fi, loc): every path from the entry of fi to loc passes a ReadRune; or fi is only ever called
	// after one
	var entryPreceded func(fi *FuncInfo, depth int, busy map[*types.Func]bool) (bool, string)
	preceded := func(fi *FuncInfo, loc Loc, depth int, busy map[*types.Func]bool) (bool, string) {
		g := c.P.Graph(fi)
		if g.MustPrecede(isRR, loc) {
			return true, ""
		}
		return entryPreceded(fi, depth, busy)
	}
	entryPreceded = func(fi *FuncInfo, depth int, busy map[*types.Func]bool) (bool, string) {
		if depth > 4 || busy[fi.Obj] {
			return false, fi.Name + " (call chain too deep)"
		}
		if fi.Obj.Exported() || usedAsValue[fi.Obj] {
			return false, fi.Name + " can be entered without a preceding ReadRune"
		}
		busy[fi.Obj] = true
		defer delete(busy, fi.Obj)
		sites := 0
		for _, cf := range funcs {
			if cf.Decl.Body == nil {
				continue
			}
			total := 0
			ast.Inspect(cf.Decl.Body, func(n ast.Node) bool {
				if call, ok := n.(*ast.CallExpr); ok && calleeOf(info, call) == fi.Obj {
					total++
				}
				return true
			})
			if total == 0 {
				continue
			}
			g := c.P.Graph(cf)
			hits := g.Calls(func(fn *types.Func, _ *ast.CallExpr) bool { return fn == fi.Obj })
			if len(hits) < total {
				return false, fi.Name + " is also called from a function literal or a deferred call in " + cf.Name
			}
			for _, h := range hits {
				sites++
				if ok, why := preceded(cf, h.Loc, depth+1, busy); !ok {
					if why == "" {
						why = cf.Name
					}
					return false, "called from " + cf.Name + " without a preceding ReadRune; " + why
				}
			}
		}
		if sites == 0 {
			return false, fi.Name + " has no caller in the package"
		}
		return true, ""
	}

	// (1)
	n1 := 0
	for _, fi := range funcs {
		if fi.Decl.Body == nil {
			continue
		}
		g := c.P.Graph(fi)
		byOp := map[string][]Hit{}
		for _, h := range g.Find(func(n ast.Node) bool { return c02oConsuming[readerOp(n)] }) {
			op := readerOp(h.Node)
			byOp[op] = append(byOp[op], h)
		}
		// consuming operations inside function literals are not on the function's own paths
		litOps := 0
		ast.Inspect(fi.Decl.Body, func(n ast.Node) bool {
			if c02oConsuming[readerOp(n)] {
				litOps++
			}
			return true
		})
		found := 0
		var ops []string
		for op, hs := range byOp {
			ops = append(ops, op)
			found += len(hs)
		}
		sort.Strings(ops)
		if litOps > found {
			c.undecided("C02.o", fi.Name+"/reader operation in a function literal", fi.Decl.Pos(), "a consuming operation on the input reader sits in a function literal: the rule does not know when it runs")
		}
		for _, op := range ops {
			n1++
			key := fi.Name + "/" + op + " only after ReadRune judged the byte"
			var whys []string
			for _, h := range byOp[op] {
				if ok, why := preceded(fi, h.Loc, 0, map[*types.Func]bool{}); !ok {
					whys = append(whys, why)
				}
			}
			if len(whys) == 0 {
				c.ok("C02.o", key, byOp[op][0].Node.Pos(), "every path to the %s passes a ReadRune on the reader (in this function or in every caller)", op)
			} else {
				c.bad("C02.o", key, byOp[op][0].Node.Pos(), "a path reaches %s on the input reader without a preceding ReadRune (%s): the byte is delivered as a raw/invalid byte on the strength of what happens to be buffered, not because ReadRune found it invalid. A multi-byte scalar cut by a read boundary is delivered as raw bytes, so the result depends on how the stream is split across reads", op, strings.Join(whys, "; "))
			}
		}
	}
	if n1 == 0 {
		c.okTrivial("C02.o", "ansi/no consuming reader operation besides ReadRune", 0, "package ansi takes input from its reader only with ReadRune")
	}

	// (2)
	run := c.P.Func("ansi.(*Parser).run")
	if run == nil {
		c.undecided("C02.o", "ansi.(*Parser).run", 0, "run not found")
		return
	}
	owned := ansiPrivateTo(c, run)
	for _, fi := range funcs {
		if fi.Decl.Body == nil || !owned[fi.Obj] {
			continue
		}
		g := c.P.Graph(fi)
		reads := g.Find(func(n ast.Node) bool { op := readerOp(n); return op == "ReadRune" || op == "UnreadRune" || c02oConsuming[op] })
		if len(reads) == 0 {
			continue
		}
		// taint: locals assigned from an expression that contains a Buffered() call on the reader (or a tainted local)
		tainted := map[types.Object]bool{}
		dep := func(x ast.Node) bool {
			if x == nil {
				return false
			}
			res := false
			ast.Inspect(x, func(n ast.Node) bool {
				if res {
					return false
				}
				if readerOp(n) == "Buffered" {
					res = true
				}
				if id, ok := n.(*ast.Ident); ok && tainted[info.ObjectOf(id)] {
					res = true
				}
				return true
			})
			return res
		}
		for changed := true; changed; {
			changed = false
			ast.Inspect(fi.Decl.Body, func(n ast.Node) bool {
				mark := func(l ast.Expr, r ast.Node) {
					id, ok := unparen(l).(*ast.Ident)
					if !ok {
						return
					}
					o := info.ObjectOf(id)
					if o == nil || tainted[o] || !dep(r) {
						return
					}
					tainted[o] = true
					changed = true
				}
				switch t := n.(type) {
				case *ast.AssignStmt:
					for i, l := range t.Lhs {
						if len(t.Lhs) == len(t.Rhs) {
							mark(l, t.Rhs[i])
						} else if len(t.Rhs) == 1 {
							mark(l, t.Rhs[0])
						}
					}
				case *ast.ValueSpec:
					for i, nm := range t.Names {
						if len(t.Values) == len(t.Names) {
							mark(nm, t.Values[i])
						} else if len(t.Values) == 1 {
							mark(nm, t.Values[0])
						}
					}
				}
				return true
			})
		}
		// targets: the reader operations and the returns
		targets := append([]Hit{}, reads...)
		targets = append(targets, g.Find(func(n ast.Node) bool { _, ok := n.(*ast.ReturnStmt); return ok })...)
		var offenders []string
		seen := map[string]bool{}
		for _, h := range targets {
			for _, gd := range g.Guards(h.Loc) {
				d := dep(gd.Cond.Expr) || dep(gd.Cond.Tag)
				for _, a := range gd.Cond.Alts {
					d = d || dep(a)
				}
				if d {
					var s string
					if gd.Cond.Expr != nil {
						s = types.ExprString(gd.Cond.Expr)
					} else if gd.Cond.Tag != nil {
						s = "switch " + types.ExprString(gd.Cond.Tag)
					}
					if !seen[s] {
						seen[s] = true
						offenders = append(offenders, s)
					}
				}
			}
		}
		key := fi.Name + "/what the run loop reads is independent of Buffered()"
		if len(offenders) == 0 {
			c.ok("C02.o", key, fi.Decl.Pos(), "no reader operation or return of the run loop's reading code is guarded by a condition over Buffered()")
		} else {
			sort.Strings(offenders)
			c.bad("C02.o", key, fi.Decl.Pos(), "a reader operation or a return is guarded by %s, which depends on how much input happens to be buffered: the rune handed to the state machine depends on how the stream is split across reads (an incomplete scalar is not an invalid one: the rest may arrive with the next read)", strings.Join(offenders, ", "))
		}
	}
	_ = token.NoPos
}
