package main

// C04.i — the shutdown path never waits for the goroutine it is running on (no self-join).
//
// Close and Suspend run on the application's goroutine, but also ON the library's input goroutine: the kill-signal
// arm of the input loop calls Close, and so does its deferred panic handler. A blocking wait on the shutdown path
// (a channel receive, a `range` over a channel, a select without default whose every case is such a receive, a
// WaitGroup.Wait) is only harmless if something else can end it. The rule decides, for every such wait W in a
// function reachable from Close/Suspend (for a select inside a loop — a wait loop `for { select { … } }` — only the arms
// on which the loop is LEFT, i.e. from which the end of the function is reachable without passing the same select
// again, are what ends the wait; an arm that returns to the select merely SERVES its channel while the wait goes on
// and is recorded as such; a default arm that returns to the select makes it a polling wait, one that leaves makes
// it no wait at all):
//
//   (1) the waited object (a channel / WaitGroup held in an unexported field, a package variable or a local, with
//       every alias of it: assignments, struct literals, arguments bound to parameters, results of unexported
//       getters) has a wake-up — close, send, Done — somewhere in the repository, or can be reached from outside
//       the library (exported, handed to a foreign function, obtained from one). A wait nobody can end never
//       returns: the restoring writes that follow it are never made.
//   (2) for every `go` statement G whose body can reach W (through static calls, deferred calls and handlers
//       included): it is NOT the case that every wake-up of the object is executed exclusively by G (lexically in
//       G's body or in directly called/deferred literals of it, or in unexported functions all of whose call sites
//       are) while some path of G arrives at W without having performed one of these wake-ups first. The path
//       search is per function body over go/cfg, descends into callees, treats a deferred call as running at
//       function exit (only wake-ups deferred later, or earlier in the same deferred function, come before it) and
//       follows constant boolean arguments into parameter guards (`suspend(false)` with `if wait { <-done }`).
//       Otherwise that exit path of G waits for G itself: a termination signal or a panic in the input goroutine
//       hangs inside Close before (or after) the terminal was restored, Close never returns, the panic is never
//       re-raised.
//
// Whatever the rule cannot attribute (an object that escapes, a waker it cannot assign to one goroutine, a `go`
// statement inside a loop) is not judged: the rule reports only proven self-joins and waits nobody ends.

import (
	"fmt"
	"go/ast"
	"go/constant"
	"go/token"
	"go/types"
	"sort"
	"strings"

	"golang.org/x/tools/go/cfg"
)

func init() { registerExtra("C04", c04NoSelfJoin) }

type c04jSite struct {
	node ast.Node
	anc  []ast.Node // ancestors, outermost first (the declaration's body is anc[0])
	fi   *FuncInfo
	ents []types.Object
	kind string   // "receive", "range", "select", "WaitGroup.Wait" / "close", "send", "Done"
	loc  ast.Node // node to locate in the CFG
	// waits: the channel expressions of the receives that end the wait (parallel to ents), and the objects a
	// wait loop `for { select { … } }` merely serves while it waits
	recvX  []ast.Expr
	serves []types.Object
}

type c04jGo struct {
	stmt   *ast.GoStmt
	lit    *ast.FuncLit
	callee *FuncInfo
	fi     *FuncInfo
	inLoop bool
	name   string
}

type c04jWorld struct {
	c        *Ctx
	parent   map[types.Object]types.Object
	escaped  map[types.Object]string // member -> why
	waits    []*c04jSite
	wakes    []*c04jSite
	gos      []*c04jGo
	refs     map[*types.Func][]*c04jSite // every reference to a repository function
	reach    map[string]map[string]bool
	repoPkgs map[*types.Package]bool
	recvs    []*c04jSite          // every receive / range over an attributable channel (select cases included)
	escN     map[types.Object]int // number of escape reasons recorded for a member
	getN     map[types.Object]int // … of which "returned by a getter" (a method returning its own receiver's field)
	getters  map[*types.Func]bool // those getters
}

func c04jSyncType(t types.Type) bool {
	if t == nil {
		return false
	}
	if p, ok := t.Underlying().(*types.Pointer); ok {
		t = p.Elem()
	}
	if _, ok := t.Underlying().(*types.Chan); ok {
		return true
	}
	if n, ok := t.(*types.Named); ok && n.Obj().Pkg() != nil && n.Obj().Pkg().Path() == "sync" && n.Obj().Name() == "WaitGroup" {
		return true
	}
	return false
}

func c04jIsChan(t types.Type) bool {
	if t == nil {
		return false
	}
	_, ok := t.Underlying().(*types.Chan)
	return ok
}

// strip parentheses, & and *
func c04jStrip(e ast.Expr) ast.Expr {
	for {
		switch t := e.(type) {
		case *ast.ParenExpr:
			e = t.X
		case *ast.StarExpr:
			e = t.X
		case *ast.UnaryExpr:
			if t.Op != token.AND {
				return e
			}
			e = t.X
		default:
			return e
		}
	}
}

// ent: the synchronisation object an expression denotes (a variable, a field — all instances of the struct
// together —, or the result of a repository function), nil if it is none or not a plain access.
func (w *c04jWorld) ent(info *types.Info, e ast.Expr) types.Object {
	if e == nil {
		return nil
	}
	e = c04jStrip(e)
	switch t := e.(type) {
	case *ast.Ident:
		var o types.Object = info.Uses[t]
		if o == nil {
			o = info.Defs[t]
		}
		if v, ok := o.(*types.Var); ok && c04jSyncType(v.Type()) {
			return v
		}
	case *ast.SelectorExpr:
		if sel, ok := info.Selections[t]; ok {
			if sel.Kind() == types.FieldVal {
				if v, ok := sel.Obj().(*types.Var); ok && c04jSyncType(v.Type()) {
					return v
				}
			}
			return nil
		}
		if v, ok := info.Uses[t.Sel].(*types.Var); ok && c04jSyncType(v.Type()) {
			return v
		}
	case *ast.CallExpr:
		if fn := calleeOf(info, t); fn != nil {
			if fi := w.c.P.FuncOfObj(fn); fi != nil && fi.Decl.Body != nil {
				if sig, ok := fn.Type().(*types.Signature); ok && sig.Results().Len() == 1 && c04jSyncType(sig.Results().At(0).Type()) {
					c04jResultNames[sig.Results().At(0)] = "the result of " + fi.Name
					return sig.Results().At(0)
				}
			}
		}
	}
	return nil
}

var c04jResultNames = map[types.Object]string{}

func (w *c04jWorld) find(o types.Object) types.Object {
	for {
		p, ok := w.parent[o]
		if !ok || p == o {
			return o
		}
		o = p
	}
}

func (w *c04jWorld) union(a, b types.Object) {
	if a == nil || b == nil {
		return
	}
	ra, rb := w.find(a), w.find(b)
	if ra != rb {
		w.parent[ra] = rb
	}
	if _, ok := w.parent[a]; !ok {
		w.parent[a] = rb
	}
	if _, ok := w.parent[b]; !ok {
		w.parent[b] = rb
	}
}

func (w *c04jWorld) escape(o types.Object, why string) {
	if o == nil {
		return
	}
	w.escN[o]++
	if _, ok := w.escaped[o]; !ok {
		w.escaped[o] = why
	}
}

func c04jEntName(o types.Object) string {
	if n, ok := c04jResultNames[o]; ok {
		return n
	}
	v, ok := o.(*types.Var)
	if !ok {
		return o.Name()
	}
	if v.IsField() {
		// find the owning named struct by scanning the package scope
		if v.Pkg() != nil {
			sc := v.Pkg().Scope()
			for _, n := range sc.Names() {
				tn, ok := sc.Lookup(n).(*types.TypeName)
				if !ok {
					continue
				}
				st, ok := tn.Type().Underlying().(*types.Struct)
				if !ok {
					continue
				}
				for i := 0; i < st.NumFields(); i++ {
					if st.Field(i) == v {
						return tn.Name() + "." + v.Name()
					}
				}
			}
		}
		return "field " + v.Name()
	}
	return v.Name()
}

// isMakeOrNil: a fresh object or nil (no alias)
func c04jFresh(info *types.Info, e ast.Expr) bool {
	e = c04jStrip(e)
	switch t := e.(type) {
	case *ast.Ident:
		if _, ok := info.Uses[t].(*types.Nil); ok {
			return true
		}
	case *ast.CallExpr:
		if id, ok := unparen(t.Fun).(*ast.Ident); ok {
			if b, ok := info.Uses[id].(*types.Builtin); ok && (b.Name() == "make" || b.Name() == "new") {
				return true
			}
		}
	case *ast.CompositeLit:
		return true // sync.WaitGroup{}
	}
	return false
}

// collect walks every function of the repository once.
func (w *c04jWorld) collect() {
	p := w.c.P
	w.repoPkgs = map[*types.Package]bool{}
	for _, pk := range p.All {
		w.repoPkgs[pk.Types] = true
	}
	for _, fi := range p.AllFuncs() {
		if fi.Decl.Body == nil {
			continue
		}
		w.collectFunc(fi)
	}
	// a function that is also used as a value receives arguments the rule does not see
	for _, fi := range p.AllFuncs() {
		if fi.Obj == nil || fi.Decl.Type == nil || fi.Decl.Type.Params == nil {
			continue
		}
		asValue := false
		for _, r := range w.refs[fi.Obj] {
			if call, _ := c04jRefCall(r); call == nil {
				asValue = true
			}
		}
		if !asValue {
			continue
		}
		for _, f := range fi.Decl.Type.Params.List {
			for _, nm := range f.Names {
				if v, ok := fi.Pkg.TypesInfo.Defs[nm].(*types.Var); ok && c04jSyncType(v.Type()) {
					w.escape(v, "parameter of "+fi.Name+", which is used as a function value")
				}
			}
		}
	}
	// exported or foreign objects can be reached from outside
	for o := range w.parent {
		if o.Exported() {
			w.escape(o, "exported")
		}
	}
}

func (w *c04jWorld) collectFunc(fi *FuncInfo) {
	info := fi.Pkg.TypesInfo
	p := w.c.P
	commRecv := map[ast.Node]bool{}
	var stack []ast.Node
	snapshot := func() []ast.Node { return append([]ast.Node(nil), stack...) }
	// the signature's parameters and results
	declParamsOK := func() bool {
		if fi.Obj == nil || fi.Obj.Exported() || fi.Obj.Name() == "init" || fi.Obj.Name() == "main" || c04MayBeCalledDynamically(w.c, fi) {
			return false
		}
		return true
	}()
	if fi.Decl.Type != nil {
		for _, fl := range []*ast.FieldList{fi.Decl.Type.Params, fi.Decl.Type.Results, fi.Decl.Recv} {
			if fl == nil {
				continue
			}
			for _, f := range fl.List {
				for _, nm := range f.Names {
					if v, ok := info.Defs[nm].(*types.Var); ok && c04jSyncType(v.Type()) {
						w.parent[v] = w.find(v)
						if !declParamsOK {
							w.escape(v, "parameter of "+fi.Name+", which can be called from outside")
						}
					}
				}
			}
		}
	}
	// effective parent: skip parentheses, & and *
	effParent := func() (ast.Node, ast.Node) { // (parent, child-as-seen-by-parent)
		child := stack[len(stack)-1]
		for i := len(stack) - 2; i >= 0; i-- {
			switch t := stack[i].(type) {
			case *ast.ParenExpr, *ast.StarExpr:
				child = stack[i]
				continue
			case *ast.UnaryExpr:
				if t.Op == token.AND {
					child = stack[i]
					continue
				}
			}
			return stack[i], child
		}
		return nil, child
	}
	enclosingDeclLevel := func() bool { // not inside a function literal
		for _, n := range stack {
			if _, ok := n.(*ast.FuncLit); ok {
				return false
			}
		}
		return true
	}
	use := func(e ast.Expr, o types.Object) {
		if _, ok := w.parent[o]; !ok {
			w.parent[o] = o
		}
		if v, ok := o.(*types.Var); ok && v.Pkg() != nil && !w.repoPkgs[v.Pkg()] {
			w.escape(o, "declared outside the repository")
		}
		par, child := effParent()
		switch t := par.(type) {
		case *ast.UnaryExpr:
			if t.Op == token.ARROW {
				w.recvs = append(w.recvs, &c04jSite{node: t, anc: snapshot(), fi: fi, ents: []types.Object{o}, kind: "receive", loc: t})
				if !commRecv[t] {
					w.waits = append(w.waits, &c04jSite{node: t, anc: snapshot(), fi: fi, ents: []types.Object{o}, kind: "receive", loc: t, recvX: []ast.Expr{t.X}})
				}
				return
			}
			if t.Op == token.NOT {
				return
			}
			w.escape(o, "used in an expression")
		case *ast.SendStmt:
			if t.Chan == child {
				w.wakes = append(w.wakes, &c04jSite{node: t, anc: snapshot(), fi: fi, ents: []types.Object{o}, kind: "send"})
			} else {
				w.escape(o, "sent over a channel")
			}
		case *ast.CallExpr:
			if t.Fun == child {
				return
			}
			if id, ok := unparen(t.Fun).(*ast.Ident); ok {
				if b, ok := info.Uses[id].(*types.Builtin); ok {
					switch b.Name() {
					case "close":
						w.wakes = append(w.wakes, &c04jSite{node: t, anc: snapshot(), fi: fi, ents: []types.Object{o}, kind: "close"})
						return
					case "len", "cap":
						return
					}
					w.escape(o, "argument of "+b.Name())
					return
				}
			}
			idx := -1
			for i, a := range t.Args {
				if a == child {
					idx = i
				}
			}
			if idx < 0 {
				w.escape(o, "used in a call")
				return
			}
			// a literal called on the spot / a repository function: bind to the parameter
			var params *types.Tuple
			variadic := false
			if lit, ok := unparen(t.Fun).(*ast.FuncLit); ok {
				if sig, ok := info.TypeOf(lit).(*types.Signature); ok {
					params, variadic = sig.Params(), sig.Variadic()
				}
			} else if fn := calleeOf(info, t); fn != nil {
				if cf := p.FuncOfObj(fn); cf != nil && cf.Decl.Body != nil {
					if sig, ok := fn.Type().(*types.Signature); ok {
						params, variadic = sig.Params(), sig.Variadic()
					}
				}
			}
			if params == nil || idx >= params.Len() || (variadic && idx >= params.Len()-1) {
				w.escape(o, "handed to a function outside the repository (or a dynamic call)")
				return
			}
			w.union(params.At(idx), o)
		case *ast.SelectorExpr:
			if t.X != child {
				return
			}
			// wg.Wait / wg.Done / wg.Add
			pi := -1
			for i := len(stack) - 1; i >= 0; i-- {
				if stack[i] == par {
					pi = i
					break
				}
			}
			var call *ast.CallExpr
			if pi >= 1 {
				call, _ = stack[pi-1].(*ast.CallExpr)
			}
			if fn, ok := info.Uses[t.Sel].(*types.Func); ok && call != nil && call.Fun == ast.Expr(t) && fn.Pkg() != nil && fn.Pkg().Path() == "sync" {
				anc := append([]ast.Node(nil), stack[:pi-1]...)
				switch fn.Name() {
				case "Wait":
					w.waits = append(w.waits, &c04jSite{node: call, anc: anc, fi: fi, ents: []types.Object{o}, kind: "WaitGroup.Wait", loc: call})
					return
				case "Done":
					w.wakes = append(w.wakes, &c04jSite{node: call, anc: anc, fi: fi, ents: []types.Object{o}, kind: "Done"})
					return
				case "Add":
					return
				}
			}
			w.escape(o, "used through ."+t.Sel.Name)
		case *ast.AssignStmt:
			if len(t.Lhs) != len(t.Rhs) {
				for _, l := range t.Lhs {
					if l == child {
						w.escape(o, "assigned from a multi-value expression")
					}
				}
				for _, r := range t.Rhs {
					if r == child {
						w.escape(o, "used in a multi-value assignment")
					}
				}
				return
			}
			for i := range t.Lhs {
				if t.Lhs[i] == child {
					if ro := w.ent(info, t.Rhs[i]); ro != nil {
						w.union(o, ro)
					} else if !c04jFresh(info, t.Rhs[i]) {
						w.escape(o, "assigned from "+types.ExprString(t.Rhs[i]))
					}
				}
				if t.Rhs[i] == child {
					if lo := w.ent(info, t.Lhs[i]); lo != nil {
						w.union(lo, o)
					} else if id, ok := t.Lhs[i].(*ast.Ident); !ok || id.Name != "_" {
						w.escape(o, "stored in "+types.ExprString(t.Lhs[i]))
					}
				}
			}
		case *ast.ValueSpec:
			for i, nm := range t.Names {
				if ast.Node(nm) == child && i < len(t.Values) && len(t.Values) == len(t.Names) {
					if ro := w.ent(info, t.Values[i]); ro != nil {
						w.union(o, ro)
					} else if !c04jFresh(info, t.Values[i]) {
						w.escape(o, "initialised from "+types.ExprString(t.Values[i]))
					}
				} else if ast.Node(nm) == child && len(t.Values) != 0 && len(t.Values) != len(t.Names) {
					w.escape(o, "initialised from a multi-value expression")
				}
			}
			for i, v := range t.Values {
				if v == child {
					if len(t.Values) == len(t.Names) {
						if lo, ok := info.Defs[t.Names[i]].(*types.Var); ok && c04jSyncType(lo.Type()) {
							w.union(lo, o)
						} else if t.Names[i].Name != "_" {
							w.escape(o, "stored in "+t.Names[i].Name)
						}
					} else {
						w.escape(o, "used in a multi-value initialisation")
					}
				}
			}
		case *ast.KeyValueExpr:
			if t.Value == child {
				if kid, ok := t.Key.(*ast.Ident); ok {
					if fv, ok := info.Uses[kid].(*types.Var); ok && fv.IsField() && c04jSyncType(fv.Type()) {
						w.union(fv, o)
						return
					}
				}
				w.escape(o, "stored in a composite literal")
			} else if t.Key == child {
				if ro := w.ent(info, t.Value); ro != nil {
					w.union(o, ro)
				} else if !c04jFresh(info, t.Value) {
					w.escape(o, "initialised from "+types.ExprString(t.Value))
				}
			}
		case *ast.RangeStmt:
			if t.X == child {
				if c04jIsChan(info.TypeOf(t.X)) {
					w.recvs = append(w.recvs, &c04jSite{node: t, anc: snapshot(), fi: fi, ents: []types.Object{o}, kind: "range", loc: t.X})
					w.waits = append(w.waits, &c04jSite{node: t, anc: snapshot(), fi: fi, ents: []types.Object{o}, kind: "range", loc: t.X})
				}
				return
			}
			if t.Key == child || t.Value == child {
				w.escape(o, "defined by a range clause")
			}
		case *ast.BinaryExpr:
			if t.Op != token.EQL && t.Op != token.NEQ {
				w.escape(o, "used in an expression")
			}
		case *ast.ReturnStmt:
			if enclosingDeclLevel() && len(t.Results) == 1 {
				if sig, ok := fi.Obj.Type().(*types.Signature); ok && sig.Results().Len() == 1 && c04jSyncType(sig.Results().At(0).Type()) {
					w.union(sig.Results().At(0), o)
					if declParamsOK {
						return
					}
					// a method handing out a field of its own receiver: whoever holds the object can reach it
					if sel, ok := c04jStrip(t.Results[0]).(*ast.SelectorExpr); ok && fi.Decl.Recv != nil && len(fi.Decl.Recv.List) == 1 && len(fi.Decl.Recv.List[0].Names) == 1 {
						if id, ok := unparen(sel.X).(*ast.Ident); ok && info.Uses[id] != nil && info.Uses[id] == info.Defs[fi.Decl.Recv.List[0].Names[0]] {
							w.getN[o]++
							w.getters[fi.Obj] = true
						}
					}
				}
			}
			w.escape(o, "returned from "+fi.Name)
		case *ast.Field:
			// parameter / result of a function literal: bound at the call if the literal is called on the spot
			var lit *ast.FuncLit
			for i := len(stack) - 1; i >= 0; i-- {
				if l, ok := stack[i].(*ast.FuncLit); ok {
					lit = l
					if i > 0 {
						if call, ok := stack[i-1].(*ast.CallExpr); ok && unparen(call.Fun) == ast.Expr(l) {
							return
						}
					}
					break
				}
			}
			if lit != nil {
				w.escape(o, "parameter of a function value")
			}
		case *ast.ExprStmt, *ast.BlockStmt, *ast.CommClause, *ast.CaseClause, *ast.IfStmt, *ast.DeclStmt, *ast.GenDecl:
			// no use
		case nil:
		default:
			w.escape(o, fmt.Sprintf("used in a %T", par))
		}
	}

	var visit func(n ast.Node) bool
	visit = func(n ast.Node) bool {
		if n == nil {
			stack = stack[:len(stack)-1]
			return true
		}
		stack = append(stack, n)
		switch t := n.(type) {
		case *ast.SelectStmt:
			// The arms on which the statement is LEFT for good (control reaches the end of the function without
			// coming back to this select: return, break out of the loop, code after it) are what ends the wait;
			// an arm after which control can only return to the same select merely serves its channel while the
			// wait goes on. Outside a loop every arm is of the first kind.
			var lit *ast.FuncLit
			for i := len(stack) - 2; i >= 0 && lit == nil; i-- {
				lit, _ = stack[i].(*ast.FuncLit)
			}
			var g *FG
			if lit != nil {
				g = p.GraphOfLit(fi.Pkg, fi.Name+"$lit", lit)
			} else {
				g = p.Graph(fi)
			}
			leaves := c04jSelectLeaves(g, t)
			judged := true
			var ents, serves []types.Object
			var xs []ast.Expr
			var first ast.Node
			for _, cl := range t.Body.List {
				cc := cl.(*ast.CommClause)
				if cc.Comm == nil {
					if leaves[cc] {
						judged = false // a default arm that goes on: the statement does not wait
					}
					continue
				}
				var u *ast.UnaryExpr
				switch s := cc.Comm.(type) {
				case *ast.ExprStmt:
					u, _ = unparen(s.X).(*ast.UnaryExpr)
				case *ast.AssignStmt:
					if len(s.Rhs) == 1 {
						u, _ = unparen(s.Rhs[0]).(*ast.UnaryExpr)
					}
				}
				if u == nil || u.Op != token.ARROW {
					if leaves[cc] {
						judged = false // a send arm ends the wait: whoever receives is not modelled
					}
					continue
				}
				commRecv[u] = true
				if first == nil {
					first = cc.Comm
				}
				e := w.ent(info, u.X)
				switch {
				case leaves[cc] && e == nil:
					judged = false // ended by a channel the rule cannot name (time.After, ctx.Done, …)
				case leaves[cc]:
					ents = append(ents, e)
					xs = append(xs, u.X)
				case e != nil:
					serves = append(serves, e)
				}
			}
			if judged && len(ents) > 0 {
				anc := snapshot()
				w.waits = append(w.waits, &c04jSite{node: t, anc: anc[:len(anc)-1], fi: fi, ents: ents, kind: "select", loc: first, recvX: xs, serves: serves})
			}
		case *ast.ReturnStmt:
			if sig, ok := fi.Obj.Type().(*types.Signature); ok && sig.Results().Len() == 1 && c04jSyncType(sig.Results().At(0).Type()) {
				inLit := false
				for _, a := range stack {
					if _, ok := a.(*ast.FuncLit); ok {
						inLit = true
					}
				}
				if !inLit && (len(t.Results) != 1 || (w.ent(info, t.Results[0]) == nil && !c04jFresh(info, t.Results[0]))) {
					rv := sig.Results().At(0)
					if _, ok := w.parent[rv]; !ok {
						w.parent[rv] = rv
					}
					w.escape(rv, "a result of "+fi.Name+" the rule cannot attribute")
				}
			}
		case *ast.GoStmt:
			g := &c04jGo{stmt: t, fi: fi}
			if lit, ok := unparen(t.Call.Fun).(*ast.FuncLit); ok {
				g.lit = lit
			} else if fn := calleeOf(info, t.Call); fn != nil {
				if cf := p.FuncOfObj(fn); cf != nil && cf.Decl.Body != nil {
					g.callee = cf
				}
			}
			for i := len(stack) - 2; i >= 0; i-- {
				if _, ok := stack[i].(*ast.FuncLit); ok {
					break
				}
				switch stack[i].(type) {
				case *ast.ForStmt, *ast.RangeStmt:
					g.inLoop = true
				}
			}
			g.name = fmt.Sprintf("the goroutine started in %s", fi.Name)
			if g.callee != nil {
				g.name += " (" + g.callee.Name + ")"
			}
			if g.lit != nil || g.callee != nil {
				w.gos = append(w.gos, g)
			}
		case *ast.Ident:
			if fn, ok := info.Uses[t].(*types.Func); ok {
				if cf := p.FuncOfObj(fn); cf != nil {
					anc := snapshot()
					w.refs[fn] = append(w.refs[fn], &c04jSite{node: t, anc: anc[:len(anc)-1], fi: fi})
				}
			}
			if len(stack) >= 2 {
				if sel, ok := stack[len(stack)-2].(*ast.SelectorExpr); ok && sel.Sel == t {
					return true // handled at the selector
				}
			}
			if o := w.ent(info, t); o != nil {
				use(t, o)
			}
		case *ast.SelectorExpr:
			if o := w.ent(info, t); o != nil {
				use(t, o)
			}
		case *ast.CallExpr:
			if o := w.ent(info, t); o != nil {
				use(t, o)
			}
		}
		return true
	}
	stack = append(stack, fi.Decl.Body)
	for _, s := range fi.Decl.Body.List {
		ast.Inspect(s, visit)
	}
}

// c04jSelectLeaves: the clauses of sel from whose body control can reach the end of the function without passing
// this select again. (go/cfg evaluates all communication statements in the block that heads the select; each
// clause body is a KindSelectCaseBody block, the default body follows the last KindSelectAfterCase block.)
// A clause whose block cannot be found counts as leaving.
func c04jSelectLeaves(g *FG, sel *ast.SelectStmt) map[*ast.CommClause]bool {
	out := map[*ast.CommClause]bool{}
	comm := map[ast.Node]bool{}
	var lastComm *ast.CommClause
	for _, cl := range sel.Body.List {
		cc := cl.(*ast.CommClause)
		if cc.Comm != nil {
			comm[cc.Comm] = true
			lastComm = cc
		}
	}
	leavesFrom := func(b *cfg.Block) bool {
		left := false
		g.walk(Loc{b, 0}, func(l Loc, n ast.Node) bool {
			return !comm[n]
		}, func(*cfg.Block) { left = true })
		return left
	}
	for _, cl := range sel.Body.List {
		cc := cl.(*ast.CommClause)
		var start *cfg.Block
		if g == nil {
			out[cc] = true
			continue
		}
		for _, b := range g.Blocks {
			switch {
			case cc.Comm != nil && b.Kind == cfg.KindSelectCaseBody && b.Stmt == ast.Node(cc):
				start = b
			case cc.Comm == nil && lastComm != nil && b.Kind == cfg.KindSelectAfterCase && b.Stmt == ast.Node(lastComm):
				start = b
			}
		}
		if start == nil {
			out[cc] = true
			continue
		}
		out[cc] = leavesFrom(start)
	}
	return out
}

// ancestorsOf normalises a site's ancestor list: outermost first, not containing the node itself.
func (s *c04jSite) ancestors() []ast.Node {
	a := s.anc
	for len(a) > 0 && a[len(a)-1] == s.node {
		a = a[:len(a)-1]
	}
	return a
}

// ownedBy: the code at site runs only on goroutine g (see the file comment).
func (w *c04jWorld) ownedBy(s *c04jSite, g *c04jGo, depth int, active map[*types.Func]bool) bool {
	anc := s.ancestors()
	for i := len(anc) - 1; i >= 0; i-- {
		switch t := anc[i].(type) {
		case *ast.FuncLit:
			if g.lit == t {
				return true
			}
			// called or deferred on the spot: same goroutine as the surrounding code
			j := i - 1
			for j >= 0 {
				if _, isParen := anc[j].(*ast.ParenExpr); !isParen {
					break
				}
				j--
			}
			if j < 0 {
				return false
			}
			call, ok := anc[j].(*ast.CallExpr)
			if !ok || unparen(call.Fun) != ast.Expr(t) {
				return false // a function value: runs wherever it is called
			}
			if j >= 1 {
				if gs, isGo := anc[j-1].(*ast.GoStmt); isGo && gs.Call == call {
					return false // another goroutine
				}
			}
		case *ast.GoStmt:
			// `go f(x)`: evaluated on the surrounding goroutine, but a site inside the started call's literal was
			// handled above; arguments are fine
		}
	}
	// the declaration itself
	f := s.fi
	if f.Obj == nil || f.Obj.Exported() || f.Obj.Name() == "init" || f.Obj.Name() == "main" || c04MayBeCalledDynamically(w.c, f) {
		return false
	}
	if active[f.Obj] {
		return true
	}
	if depth > 6 {
		return false
	}
	refs := w.refs[f.Obj]
	if len(refs) == 0 {
		return true // unexported, not callable through an interface, never referenced: it never runs
	}
	active[f.Obj] = true
	defer delete(active, f.Obj)
	for _, r := range refs {
		ra := r.ancestors()
		call, j := c04jRefCall(r)
		if call == nil {
			return false // used as a value
		}
		if j >= 1 {
			if gs, ok := ra[j-1].(*ast.GoStmt); ok && gs.Call == call {
				if gs == g.stmt {
					continue
				}
				return false
			}
		}
		if !w.ownedBy(&c04jSite{node: call, anc: ra[:j], fi: r.fi}, g, depth+1, active) {
			return false
		}
	}
	return true
}

// c04jRefCall: the call whose callee the reference r is (nil: the function is used as a value) and its index in
// r's ancestor list.
func c04jRefCall(r *c04jSite) (*ast.CallExpr, int) {
	ra := r.ancestors()
	j := len(ra) - 1
	var callee ast.Node = r.node
	if j >= 0 {
		if sel, ok := ra[j].(*ast.SelectorExpr); ok && ast.Node(sel.Sel) == r.node {
			callee = sel
			j--
		}
	}
	for j >= 0 {
		if pe, ok := ra[j].(*ast.ParenExpr); ok {
			callee = pe
			j--
			continue
		}
		break
	}
	if j < 0 {
		return nil, -1
	}
	call, ok := ra[j].(*ast.CallExpr)
	if !ok || ast.Node(call.Fun) != callee {
		return nil, -1
	}
	return call, j
}

// dead: an unexported function that nothing references and no interface can call.
func (w *c04jWorld) dead(f *FuncInfo) bool {
	if f.Obj == nil || f.Obj.Exported() || f.Obj.Name() == "init" || f.Obj.Name() == "main" || c04MayBeCalledDynamically(w.c, f) {
		return false
	}
	return len(w.refs[f.Obj]) == 0
}

func (w *c04jWorld) reaches(fi *FuncInfo, target string) bool {
	if fi == nil {
		return false
	}
	if fi.Name == target {
		return true
	}
	r, ok := w.reach[fi.Name]
	if !ok {
		r = staticReach(w.c.P, fi)
		w.reach[fi.Name] = r
	}
	return r[target]
}

type c04jSearch struct {
	w       *c04jWorld
	wait    *c04jSite
	ents    map[types.Object]bool // roots
	visited map[string]bool
	trace   []string
	// the call through which the found path enters the wait's function
	entryCall *ast.CallExpr
	entryInfo *types.Info
}

func (s *c04jSearch) isWake(info *types.Info) func(ast.Node) bool {
	return func(n ast.Node) bool {
		switch t := n.(type) {
		case *ast.CallExpr:
			if id, ok := unparen(t.Fun).(*ast.Ident); ok && len(t.Args) == 1 {
				if b, ok := info.Uses[id].(*types.Builtin); ok && b.Name() == "close" {
					if o := s.w.ent(info, t.Args[0]); o != nil && s.ents[s.w.find(o)] {
						return true
					}
				}
			}
			if sel, ok := unparen(t.Fun).(*ast.SelectorExpr); ok && sel.Sel.Name == "Done" {
				if fn, ok := info.Uses[sel.Sel].(*types.Func); ok && fn.Pkg() != nil && fn.Pkg().Path() == "sync" {
					if o := s.w.ent(info, sel.X); o != nil && s.ents[s.w.find(o)] {
						return true
					}
				}
			}
		case *ast.SendStmt:
			if o := s.w.ent(info, t.Chan); o != nil && s.ents[s.w.find(o)] {
				return true
			}
		}
		return false
	}
}

// wakePrecedes: every path from the entry of g to target performs a wake-up (deferred and started calls do not
// count: they run later / elsewhere).
func (s *c04jSearch) wakePrecedes(g *FG, target Loc) bool {
	isWake := s.isWake(g.Info)
	hit := false
	g.walk(g.Entry(), func(l Loc, n ast.Node) bool {
		if l == target {
			hit = true
			return false
		}
		switch n.(type) {
		case *ast.DeferStmt, *ast.GoStmt:
			return true
		}
		if containsNode(n, isWake) {
			return false
		}
		return true
	}, nil)
	return !hit
}

func c04jFeasible(g *FG, l Loc, env map[*types.Var]bool) bool {
	if len(env) == 0 {
		return true
	}
	for _, gd := range g.Guards(l) {
		if gd.Cond == nil || gd.Cond.Tag != nil || gd.Cond.Alts != nil {
			continue
		}
		e := unparen(gd.Cond.Expr)
		neg := false
		for {
			u, ok := e.(*ast.UnaryExpr)
			if !ok || u.Op != token.NOT {
				break
			}
			neg = !neg
			e = unparen(u.X)
		}
		id, ok := e.(*ast.Ident)
		if !ok {
			continue
		}
		v, ok := g.Info.Uses[id].(*types.Var)
		if !ok {
			continue
		}
		if val, known := env[v]; known && (val != neg) != gd.Pol {
			return false
		}
	}
	return true
}

// laterDeferWake: a wake-up is deferred directly in body after stmt (it runs before the function deferred by stmt).
func (s *c04jSearch) laterDeferWake(info *types.Info, body *ast.BlockStmt, stmt ast.Stmt) bool {
	isWake := s.isWake(info)
	after := false
	for _, st := range body.List {
		if st == stmt {
			after = true
			continue
		}
		if !after {
			continue
		}
		ds, ok := st.(*ast.DeferStmt)
		if !ok {
			continue
		}
		if isWake(ds.Call) {
			return true
		}
		if lit, ok := unparen(ds.Call.Fun).(*ast.FuncLit); ok {
			// unconditional first-level statement of the deferred literal
			for _, ls := range lit.Body.List {
				if es, ok := ls.(*ast.ExprStmt); ok && isWake(es.X) {
					return true
				}
				if ss, ok := ls.(*ast.SendStmt); ok && isWake(ss) {
					return true
				}
			}
		}
	}
	return false
}

// exposed: running body (on the goroutine under examination) can arrive at the wait without a wake-up of the
// waited object having been performed in this body (or deeper) before.
func (s *c04jSearch) exposed(pk *FuncInfo, name string, body *ast.BlockStmt, ft *ast.FuncType, env map[*types.Var]bool, depth int) bool {
	if body == nil || depth > 8 {
		return false
	}
	var ek []string
	for v, b := range env {
		ek = append(ek, fmt.Sprintf("%s=%v", v.Name(), b))
	}
	sort.Strings(ek)
	vkey := fmt.Sprintf("%p|%s", body, strings.Join(ek, ","))
	if s.visited[vkey] {
		return false
	}
	s.visited[vkey] = true
	p := s.w.c.P
	info := pk.Pkg.TypesInfo
	g := p.graphs[body]
	if g == nil {
		if p.graphs == nil {
			p.graphs = map[*ast.BlockStmt]*FG{}
		}
		g = p.graphOf(pk.Pkg, name, body, ft, nil)
		p.graphs[body] = g
	}
	// (a) the wait itself
	if l, ok := g.Locate(s.wait.loc); ok {
		if c04jFeasible(g, l, env) && !s.wakePrecedes(g, l) {
			s.trace = append(s.trace, name)
			return true
		}
	}
	target := s.wait.fi.Name
	// (b) calls, (c) literals
	type cand struct {
		top      ast.Node
		loc      Loc
		call     *ast.CallExpr
		deferred *ast.DeferStmt
	}
	var cands []cand
	for _, b := range g.Blocks {
		for i, top := range b.Nodes {
			if _, isGo := top.(*ast.GoStmt); isGo {
				continue
			}
			ds, _ := top.(*ast.DeferStmt)
			inspectNoLit(top, func(n ast.Node) bool {
				if call, ok := n.(*ast.CallExpr); ok {
					cands = append(cands, cand{top, Loc{b, i}, call, ds})
				}
				return true
			})
		}
	}
	for _, cd := range cands {
		var cbody *ast.BlockStmt
		var cft *ast.FuncType
		var cname string
		var cpk *FuncInfo
		var params *types.Tuple
		if lit, ok := unparen(cd.call.Fun).(*ast.FuncLit); ok {
			cbody, cft, cname, cpk = lit.Body, lit.Type, name+"$lit", pk
			if sig, ok := info.TypeOf(lit).(*types.Signature); ok {
				params = sig.Params()
			}
			if !containsWaitOrCallTo(s, pk, lit.Body, target) {
				continue
			}
		} else if fn := calleeOf(info, cd.call); fn != nil {
			cf := p.FuncOfObj(fn)
			if cf == nil || cf.Decl.Body == nil || !s.w.reaches(cf, target) {
				continue
			}
			cbody, cft, cname, cpk = cf.Decl.Body, cf.Decl.Type, cf.Name, cf
			if sig, ok := fn.Type().(*types.Signature); ok {
				params = sig.Params()
			}
		} else {
			continue
		}
		if !c04jFeasible(g, cd.loc, env) {
			continue
		}
		if cd.deferred != nil && cd.deferred.Call == cd.call {
			if s.laterDeferWake(info, body, cd.deferred) {
				continue
			}
		} else if cd.deferred != nil {
			// an argument of a deferred call is evaluated at the defer statement
			if s.wakePrecedes(g, cd.loc) {
				continue
			}
		} else if s.wakePrecedes(g, cd.loc) {
			continue
		}
		nenv := map[*types.Var]bool{}
		if cpk == pk && cbody != nil {
			for v, b := range env { // a literal sees the enclosing function's parameters
				nenv[v] = b
			}
		}
		if params != nil {
			for i := 0; i < params.Len() && i < len(cd.call.Args); i++ {
				a := unparen(cd.call.Args[i])
				if tv, ok := info.Types[a]; ok && tv.Value != nil && tv.Value.Kind() == constant.Bool {
					nenv[params.At(i)] = constant.BoolVal(tv.Value)
				} else if id, ok := a.(*ast.Ident); ok {
					if v, ok := info.Uses[id].(*types.Var); ok {
						if val, known := env[v]; known {
							nenv[params.At(i)] = val
						}
					}
				}
			}
		}
		if s.exposed(cpk, cname, cbody, cft, nenv, depth+1) {
			s.trace = append(s.trace, name)
			if s.entryCall == nil && cpk == s.wait.fi && cbody == s.wait.fi.Decl.Body {
				s.entryCall, s.entryInfo = cd.call, info
			}
			return true
		}
	}
	return false
}

// containsWaitOrCallTo: the literal body contains the wait or a call that reaches the wait's function.
func containsWaitOrCallTo(s *c04jSearch, pk *FuncInfo, body *ast.BlockStmt, target string) bool {
	found := false
	info := pk.Pkg.TypesInfo
	ast.Inspect(body, func(n ast.Node) bool {
		if found {
			return false
		}
		if n == s.wait.loc {
			found = true
		}
		if call, ok := n.(*ast.CallExpr); ok {
			if fn := calleeOf(info, call); fn != nil {
				if cf := s.w.c.P.FuncOfObj(fn); cf != nil && s.w.reaches(cf, target) {
					found = true
				}
			}
		}
		return !found
	})
	return found
}

var c04jWorlds = map[*Program]*c04jWorld{}

// c04jWorldOf: the synchronisation objects, waits, wake-ups and goroutines of the repository (built once).
func c04jWorldOf(c *Ctx) *c04jWorld {
	if w, ok := c04jWorlds[c.P]; ok {
		w.c = c
		return w
	}
	w := &c04jWorld{c: c, parent: map[types.Object]types.Object{}, escaped: map[types.Object]string{}, refs: map[*types.Func][]*c04jSite{}, reach: map[string]map[string]bool{},
		escN: map[types.Object]int{}, getN: map[types.Object]int{}, getters: map[*types.Func]bool{}}
	w.collect()
	c04jWorlds[c.P] = w
	return w
}

func c04NoSelfJoin(c *Ctx) {
	c.Clauses = append(c.Clauses, "C04.i no blocking wait on the shutdown path (receive, range, select of receives, WaitGroup.Wait in a function reachable from Close/Suspend) is a self-join: its wake-ups (close/send/Done) exist, and are not all performed exclusively by a goroutine that can itself arrive at the wait (kill-signal arm, panic handler) before performing one")
	c.expect("C04.i", 1)
	suspend := c.P.Func("vaxis.(*Vaxis).Suspend")
	cl := c.P.Func("vaxis.(*Vaxis).Close")
	if suspend == nil || cl == nil {
		c.undecided("C04.i", "vaxis.(*Vaxis).Close/Suspend", 0, "Close or Suspend not found")
		return
	}
	w := c04jWorldOf(c)
	shutdown := staticReach(c.P, cl)
	for k := range staticReach(c.P, suspend) {
		shutdown[k] = true
	}
	// classes
	classEsc := map[types.Object]string{}
	for o, why := range w.escaped {
		r := w.find(o)
		if _, ok := classEsc[r]; !ok {
			classEsc[r] = c04jEntName(o) + " is " + why
		}
	}
	classWakes := map[types.Object][]*c04jSite{}
	for _, wk := range w.wakes {
		if w.dead(wk.fi) {
			continue // a helper whose calls were all inlined (or that nothing references): it never runs
		}
		r := w.find(wk.ents[0])
		classWakes[r] = append(classWakes[r], wk)
	}
	sort.SliceStable(w.waits, func(i, j int) bool { return w.waits[i].node.Pos() < w.waits[j].node.Pos() })
	seenKey := map[string]int{}
	for _, wt := range w.waits {
		if !shutdown[wt.fi.Name] {
			continue
		}
		var names []string
		for _, e := range wt.ents {
			names = append(names, c04jEntName(e))
		}
		key := fmt.Sprintf("%s/%s on %s can be ended by another goroutine", wt.fi.Name, wt.kind, strings.Join(names, ", "))
		seenKey[key]++
		if seenKey[key] > 1 {
			key += fmt.Sprintf(" #%d", seenKey[key])
		}
		// (0) not judged: reachable from outside
		esc := ""
		for _, e := range wt.ents {
			if why, ok := classEsc[w.find(e)]; ok {
				esc = why
			}
		}
		if esc != "" {
			c.okTrivial("C04.i", key, wt.node.Pos(), "not judged: %s", esc)
			continue
		}
		// (1) somebody wakes it
		roots := map[types.Object]bool{}
		var wakes []*c04jSite
		for _, e := range wt.ents {
			r := w.find(e)
			if !roots[r] {
				roots[r] = true
				wakes = append(wakes, classWakes[r]...)
			}
		}
		if len(wakes) == 0 {
			c.bad("C04.i", key, wt.node.Pos(), "%s blocks on %s, and nothing in the repository closes, sends on or releases it (and it cannot be reached from outside): Close/Suspend never get past this wait, the terminal is never restored", wt.fi.Name, strings.Join(names, ", "))
			continue
		}
		// (2) self-join
		verdict := ""
		var examined []string
		for _, g := range w.gos {
			var body *ast.BlockStmt
			var ft *ast.FuncType
			var pk *FuncInfo
			var nm string
			if g.lit != nil {
				body, ft, pk, nm = g.lit.Body, g.lit.Type, g.fi, g.fi.Name+"$go"
				if !containsWaitOrCallTo(&c04jSearch{w: w, wait: wt}, g.fi, body, wt.fi.Name) {
					continue
				}
			} else {
				if !w.reaches(g.callee, wt.fi.Name) {
					continue
				}
				body, ft, pk, nm = g.callee.Decl.Body, g.callee.Decl.Type, g.callee, g.callee.Name
			}
			if g.inLoop {
				examined = append(examined, g.name+" (started in a loop: not judged)")
				continue
			}
			all := true
			for _, wk := range wakes {
				if !w.ownedBy(wk, g, 0, map[*types.Func]bool{}) {
					all = false
					break
				}
			}
			if !all {
				examined = append(examined, g.name+": a wake-up runs elsewhere")
				continue
			}
			s := &c04jSearch{w: w, wait: wt, ents: roots, visited: map[string]bool{}}
			if s.exposed(pk, nm, body, ft, nil, 0) {
				// trace is innermost first
				var tr []string
				for i := len(s.trace) - 1; i >= 0; i-- {
					tr = append(tr, s.trace[i])
				}
				var ws []string
				for _, wk := range wakes {
					ws = append(ws, fmt.Sprintf("%s at %s", wk.kind, c.P.Pos(wk.node.Pos())))
				}
				verdict = fmt.Sprintf("%s blocks on %s, whose only wake-ups (%s) are performed by %s itself — and that goroutine arrives at this wait (%s) without having performed one: when the shutdown runs on it (termination signal, panic in the input loop) it waits for its own completion, Close never returns and the terminal is not restored", wt.fi.Name, strings.Join(names, ", "), strings.Join(ws, "; "), g.name, strings.Join(tr, " → "))
				break
			}
			examined = append(examined, g.name+": performs the wake-up before it can arrive here")
		}
		if verdict != "" {
			c.bad("C04.i", key, wt.node.Pos(), "%s", verdict)
			continue
		}
		var ws []string
		for _, wk := range wakes {
			ws = append(ws, fmt.Sprintf("%s in %s", wk.kind, wk.fi.Name))
		}
		sort.Strings(ws)
		why := "no goroutine of the library can arrive at this wait"
		if len(examined) > 0 {
			why = strings.Join(examined, "; ")
		}
		if len(wt.serves) > 0 {
			var sv []string
			for _, e := range wt.serves {
				sv = append(sv, c04jEntName(e))
			}
			why += "; the arms on " + strings.Join(sv, ", ") + " only serve while the wait goes on"
		}
		c.ok("C04.i", key, wt.node.Pos(), "woken by %s; %s", strings.Join(ws, ", "), why)
	}
}
