package main

// Additional C08 / C02 rules written after round-2 seeded regressions.
//
//  C08.e  the close-request channel is received from only at run's loop head, and emit is a plain
//         blocking send (it neither drops a sequence nor consumes the close request).
//  C08.f  every ESC, in every parser state, arms the Escape timer (checked on the product automaton of C02).
//  C02.g  print() decides where a grapheme cluster ends only by asking uniseg: the look-ahead rune is pushed
//         back only after uniseg was consulted on it.

import (
	"fmt"
	"go/ast"
	"go/token"
	"go/types"
	"golang.org/x/tools/go/cfg"
)

func init() {
	registerExtra("C08", c08CloseOwnership)
	registerExtra("C02", c02PrintConsultsUniseg)
}

func c08CloseOwnership(c *Ctx) {
	c.Clauses = append(c.Clauses, "C08.e the close request is received only at run's loop head; emit is a plain blocking send")
	c.expect("C08.e", 2)
	pk := c.P.Pkg("ansi")
	info := pk.TypesInfo
	run := c.P.Func("ansi.(*Parser).run")
	var pos token.Pos
	if run != nil {
		pos = run.Decl.Pos()
	}
	// the run loop = run and the functions only it calls (however the loop is cut into helpers)
	owned := ansiPrivateTo(c, run)
	n := 0
	where := ""
	for _, fi := range c.P.FuncsIn("ansi") {
		if fi.Decl.Body == nil {
			continue
		}
		ast.Inspect(fi.Decl.Body, func(x ast.Node) bool {
			if u, ok := x.(*ast.UnaryExpr); ok && u.Op == token.ARROW && canonPath(info, u.X) == "Parser.close" {
				n++
				if !owned[fi.Obj] {
					where = fi.Name
				}
			}
			return true
		})
	}
	c.check(n >= 1 && where == "", "C08.e", "ansi/close request received only in run", pos, "received only by the run loop (run and the functions only run calls)",
		"the close request is also received in "+where+": the single token can be consumed elsewhere, run never sees it and the parser does not stop after Close")
	em := c.P.Func("ansi.(*Parser).emit")
	if em == nil {
		c.undecided("C08.e", "ansi.(*Parser).emit", 0, "emit not found")
		return
	}
	plain, whyNot := c08IsPlainSend(c, em, "Parser.sequences", true)
	c.check(plain, "C08.e", em.Name+"/plain blocking send of its argument", em.Decl.Pos(), "emit never drops or reorders a sequence", "emit is no longer a plain `p.sequences <- seq` ("+whyNot+"): a sequence can be dropped or the send can be abandoned")
}

func c02PrintConsultsUniseg(c *Ctx) {
	c.Clauses = append(c.Clauses, "C02.g print pushes the look-ahead rune back only after uniseg was asked whether it continues the cluster")
	c.expect("C02.g", 1)
	fi := c.P.Func("ansi.(*Parser).print")
	if fi == nil {
		c.undecided("C02.g", "ansi.(*Parser).print", 0, "print not found")
		return
	}
	info := fi.Pkg.TypesInfo
	g := c.P.Graph(fi)
	isRead := func(fn *types.Func, _ *ast.CallExpr) bool {
		return fn != nil && fullName(fn) == "bufio.Reader.ReadRune"
	}
	isUniseg := func(n ast.Node) bool {
		call, ok := n.(*ast.CallExpr)
		if !ok {
			return false
		}
		fn := calleeOf(info, call)
		return fn != nil && fn.Pkg() != nil && fn.Pkg().Path() == "github.com/rivo/uniseg" && (fn.Name() == "FirstGraphemeClusterInString" || fn.Name() == "FirstGraphemeCluster" || fn.Name() == "StepString" || fn.Name() == "Step")
	}
	reads := g.Calls(isRead)
	unreads := g.Calls(func(fn *types.Func, _ *ast.CallExpr) bool {
		return fn != nil && fullName(fn) == "bufio.Reader.UnreadRune"
	})
	if len(reads) == 0 {
		c.okTrivial("C02.g", fi.Name+"/no look-ahead", fi.Decl.Pos(), "print does not read ahead")
		return
	}
	ok := true
	for _, r := range reads {
		for _, u := range unreads {
			if g.ReachesAvoiding(r.Loc, u.Loc, isUniseg) && !c02InvalidByteKnown(g, info, u.Loc, r.Top) && c02ReachesUnjudged(g, info, r.Loc, u.Loc, isUniseg, r.Top) {
				ok = false
			}
		}
		// leaving the loop without asking uniseg about the rune just read (other than by exhausting the buffer) is also a cut
	}
	c.check(ok, "C02.g", fi.Name+"/look-ahead rune pushed back only after uniseg judged it", fi.Decl.Pos(), "cluster boundaries come from uniseg only",
		"print can push the look-ahead rune back (ending the cluster) without asking uniseg: clusters that continue with that rune (e.g. a Prepend-class code point followed by ASCII) are split")
}

func init() { registerExtra("C08", c08TimerArmedUnconditionally) }

// C08.f: the Escape timer is armed for every ESC: the arming statement is guarded by nothing but the
// recognition of the ESC byte itself.
func c08TimerArmedUnconditionally(c *Ctx) {
	c.Clauses = append(c.Clauses, "C08.f every ESC arms the Escape timer (the arming is guarded only by the byte being ESC)")
	c.expect("C08.f", 1)
	pk := c.P.Pkg("ansi")
	info := pk.TypesInfo
	found := false
	for _, fi := range c.P.FuncsIn("ansi") {
		if fi.Decl.Body == nil {
			continue
		}
		g := c.P.Graph(fi)
		for _, h := range g.Calls(func(fn *types.Func, _ *ast.CallExpr) bool { return fn != nil && fullName(fn) == "time.AfterFunc" }) {
			found = true
			var rObj types.Object
			if fi.Decl.Type.Params != nil && len(fi.Decl.Type.Params.List) > 0 && len(fi.Decl.Type.Params.List[0].Names) > 0 {
				rObj = info.Defs[fi.Decl.Type.Params.List[0].Names[0]]
			}
			var extra []string
			for _, gd := range g.Guards(h.Loc) {
				objs := objsIn(info, gd.Cond.Expr)
				if gd.Cond.Tag != nil {
					for o := range objsIn(info, gd.Cond.Tag) {
						objs[o] = true
					}
				}
				onlyByte := len(objs) > 0
				for o := range objs {
					if o != rObj && !c08DependsOnlyOn(info, o, rObj, 0) {
						onlyByte = false
					}
				}
				if !onlyByte {
					extra = append(extra, condKeys(info, gd.Cond, gd.Pol)...)
				}
			}
			c.check(len(extra) == 0, "C08.f", fi.Name+"/Escape timer armed for every ESC", h.Node.Pos(), "arming depends only on the byte being ESC",
				"the Escape timer is armed only under "+joinStrs(extra)+": a lone ESC in the other situations is never reported as Escape and the next byte is parsed in the escape state")
		}
	}
	if !found {
		c.bad("C08.f", "ansi/Escape timer armed", 0, "no time.AfterFunc in package ansi: a lone ESC is never reported as the Escape key")
	}
}

func joinStrs(s []string) string {
	out := ""
	for i, x := range s {
		if i > 0 {
			out += " ∧ "
		}
		out += x
	}
	return out
}

// c02InvalidByteKnown: at l the guards in force say that the rune read by the ReadRune assignment asg is the stand-in
// of an invalid byte (first result == U+FFFD and second result == 1). Such a "rune" is no code point: uniseg has no
// say about it, it is pushed back and delivered as a raw byte by readRune (see C02.p).
func c02InvalidByteKnown(g *FG, info *types.Info, l Loc, asgNode ast.Node) bool {
	asg, ok := asgNode.(*ast.AssignStmt)
	if !ok || len(asg.Lhs) != 3 {
		return false
	}
	obj := func(e ast.Expr) types.Object {
		if id, ok := unparen(e).(*ast.Ident); ok && id.Name != "_" {
			return info.ObjectOf(id)
		}
		return nil
	}
	r, sz := obj(asg.Lhs[0]), obj(asg.Lhs[1])
	if r == nil || sz == nil {
		return false
	}
	constIs := func(e ast.Expr, v int64) bool {
		tv, ok := info.Types[e]
		if !ok || tv.Value == nil {
			return false
		}
		return tv.Value.String() == fmt.Sprint(v)
	}
	var isFFFD, isOne bool
	// atoms that hold when e has truth value pol
	var collect func(e ast.Expr, pol bool)
	collect = func(e ast.Expr, pol bool) {
		e = unparen(e)
		switch t := e.(type) {
		case *ast.UnaryExpr:
			if t.Op == token.NOT {
				collect(t.X, !pol)
			}
		case *ast.BinaryExpr:
			switch {
			case t.Op == token.LAND && pol, t.Op == token.LOR && !pol:
				collect(t.X, pol)
				collect(t.Y, pol)
			case t.Op == token.EQL && pol, t.Op == token.NEQ && !pol:
				for _, pr := range [][2]ast.Expr{{t.X, t.Y}, {t.Y, t.X}} {
					if o := obj(pr[0]); o != nil {
						if o == r && constIs(pr[1], 0xFFFD) {
							isFFFD = true
						}
						if o == sz && constIs(pr[1], 1) {
							isOne = true
						}
					}
				}
			}
		}
	}
	// a guard counts only if neither variable is assigned between its edge and l
	objs := map[types.Object]bool{r: true, sz: true}
	for _, gd := range g.Guards(l) {
		if gd.Cond.Alts != nil || g.AssignedBetween(gd, l, objs) {
			continue
		}
		if gd.Cond.Tag != nil {
			collect(&ast.BinaryExpr{X: gd.Cond.Tag, Op: token.EQL, Y: gd.Cond.Expr}, gd.Pol)
			continue
		}
		collect(gd.Cond.Expr, gd.Pol)
	}
	return isFFFD && isOne
}

// c02ReachesUnjudged: some path from the read to the push-back passes neither a uniseg judgement nor branch edges that
// together establish "the rune is the stand-in of an invalid byte" (first result == U+FFFD, second result == 1).
// Path-sensitive counterpart of c02InvalidByteKnown for push-backs that sit at a join.
func c02ReachesUnjudged(g *FG, info *types.Info, from, to Loc, isUniseg func(ast.Node) bool, asgNode ast.Node) bool {
	asg, ok := asgNode.(*ast.AssignStmt)
	if !ok || len(asg.Lhs) != 3 {
		return true
	}
	obj := func(e ast.Expr) types.Object {
		if id, ok := unparen(e).(*ast.Ident); ok && id.Name != "_" {
			return info.ObjectOf(id)
		}
		return nil
	}
	r, sz := obj(asg.Lhs[0]), obj(asg.Lhs[1])
	if r == nil || sz == nil {
		return true
	}
	constIs := func(e ast.Expr, v int64) bool {
		tv, ok := info.Types[e]
		return ok && tv.Value != nil && tv.Value.String() == fmt.Sprint(v)
	}
	var collect func(e ast.Expr, pol bool, f *[2]bool)
	collect = func(e ast.Expr, pol bool, f *[2]bool) {
		e = unparen(e)
		switch t := e.(type) {
		case *ast.Ident:
			if def := c02BoolDef(g, info, t); def != nil {
				collect(def, pol, f)
			}
		case *ast.UnaryExpr:
			if t.Op == token.NOT {
				collect(t.X, !pol, f)
			}
		case *ast.BinaryExpr:
			switch {
			case t.Op == token.LAND && pol, t.Op == token.LOR && !pol:
				collect(t.X, pol, f)
				collect(t.Y, pol, f)
			case t.Op == token.EQL && pol, t.Op == token.NEQ && !pol:
				for _, pr := range [][2]ast.Expr{{t.X, t.Y}, {t.Y, t.X}} {
					if o := obj(pr[0]); o != nil {
						if o == r && constIs(pr[1], 0xFFFD) {
							f[0] = true
						}
						if o == sz && constIs(pr[1], 1) {
							f[1] = true
						}
					}
				}
			}
		}
	}
	type st struct {
		b    *cfg.Block
		i    int
		a, c bool
	}
	seen := map[st]bool{}
	objs := map[types.Object]bool{r: true, sz: true}
	found := false
	var dfs func(s st)
	dfs = func(s st) {
		for !found {
			if seen[s] {
				return
			}
			seen[s] = true
			if s.b == to.B && s.i == to.Idx {
				found = true
				return
			}
			if s.i < len(s.b.Nodes) {
				n := s.b.Nodes[s.i]
				hit := false
				ast.Inspect(n, func(x ast.Node) bool {
					if isUniseg(x) {
						hit = true
					}
					return !hit
				})
				if hit {
					return
				}
				if n != asgNode && assignsAny(info, n, objs) {
					s.a, s.c = false, false
				}
				s.i++
				continue
			}
			if cond := g.BranchCond(s.b); cond != nil && len(s.b.Succs) == 2 && cond.Alts == nil {
				for k, pol := range []bool{true, false} {
					f := [2]bool{s.a, s.c}
					if cond.Tag != nil {
						collect(&ast.BinaryExpr{X: cond.Tag, Op: token.EQL, Y: cond.Expr}, pol, &f)
					} else {
						collect(cond.Expr, pol, &f)
					}
					if f[0] && f[1] {
						continue // on this edge the rune is known to stand for an invalid byte
					}
					dfs(st{s.b.Succs[k], 0, f[0], f[1]})
				}
				return
			}
			for _, sb := range s.b.Succs {
				dfs(st{sb, 0, s.a, s.c})
			}
			return
		}
	}
	dfs(st{from.B, from.Idx + 1, false, false})
	return found
}
