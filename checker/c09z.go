package main

// c09vm, part 3: array values and package initialisation.
//
// Arrays. A Go array is a value: assignment, parameter passing, returning, ranging and storing it in a
// struct copy its elements. The interpreter represents it as *c09array and gives it the treatment structs
// get (c09copy copies, cp copies unless the static type is a pointer, &a yields the object itself, a[lo:hi]
// shares the storage). Composite literals of arrays and slices may carry constant indices
// ([...]string{ModShift: "Shift+"}).
//
// Package initialisation. The value a package variable has when the first call of the library arrives is
// the value of its initialiser (an expression, possibly a call or an immediately applied function literal;
// evaluated on first use, c09vm.global) modified by every init() function of the package, in source order.
// The interpreter runs init() functions on demand: an init() function "may write" a package variable when the
// variable occurs in its body (or in the body of a function of the package it calls, transitively) anywhere
// but in a plain read of a basic value; init() functions that mention a variable one of them may write form a
// group; the first read of a variable a group may write runs the whole group in source order before the read
// is answered. Groups do not share written variables, so their relative order is immaterial. What the group
// wrote is initial state, not state left behind by a call (c09y.go): the dirty marks are restored afterwards.
// An init() function the interpreter cannot follow makes every read of the group's variables undecided; so
// does a variable initialiser that reads a variable init() writes (the initialiser runs before init(); the
// lazy evaluation could not tell which value it saw).

import (
	"go/ast"
	"go/constant"
	"go/token"
	"go/types"
	"sort"
)

type c09array struct{ e []any }

func (vm *c09vm) zeroArray(u *types.Array) any {
	if u.Len() < 0 || u.Len() > 1<<16 {
		vm.abort("zero value of an array of %d elements", u.Len())
	}
	a := &c09array{e: make([]any, u.Len())}
	for i := range a.e {
		a.e[i] = vm.zero(u.Elem())
	}
	return a
}

// seqLit evaluates the elements of an array (n >= 0) or slice (n < 0) literal, with or without indices.
func (vm *c09vm) seqLit(lit *ast.CompositeLit, et types.Type, n int64, elem func(ast.Expr, types.Type) any) []any {
	out := []any{}
	if n > 1<<16 {
		vm.abort("array literal of %d elements", n)
	}
	next := int64(0)
	for _, el := range lit.Elts {
		val := el
		if kv, ok := el.(*ast.KeyValueExpr); ok {
			tv, ok := vm.info.Types[kv.Key]
			if !ok || tv.Value == nil || tv.Value.Kind() != constant.Int {
				vm.abort("index of a literal element is not a constant")
			}
			i, exact := constant.Int64Val(tv.Value)
			if !exact || i < 0 || i > 1<<16 {
				vm.abort("index of a literal element")
			}
			next, val = i, kv.Value
		}
		for int64(len(out)) <= next {
			out = append(out, nil)
		}
		out[next] = elem(val, et)
		next++
	}
	for int64(len(out)) < n {
		out = append(out, nil)
	}
	for i := range out {
		if out[i] == nil {
			out[i] = vm.zero(et) // a zero value may itself be nil (pointers, slices, maps)
		}
	}
	return out
}

// ---------------------------------------------------------------------------
// init() functions

type c09initFn struct {
	fn     *types.Func
	decl   *ast.FuncDecl
	writes map[*types.Var]bool // package variables it may write (transitively through calls inside the package)
	uses   map[*types.Var]bool // package variables it mentions
	group  int
}

type c09initState struct {
	scanned    bool
	fns        []*c09initFn // source order
	groupOf    map[*types.Var]int
	ran        map[int]bool
	failed     map[int]string
	touched    map[int][]types.Object // what a group wrote when it ran
	running    bool
	ginitDepth int                 // > 0 while a package variable's initialiser is evaluated
	codeWrites map[*types.Var]bool // package variables some function of the package may write
	onces      []*c09struct        // sync.Once values that have fired since the last re-initialisation (c09y.go)
	oncevals   []*c09onceval       // likewise sync.OnceValue / OnceFunc / OnceValues
}

// function values other than literals: a function of the package, and what sync.OnceFunc/OnceValue(s) return
type c09fnval struct{ fn *types.Func }
type c09onceval struct {
	f    any
	done bool
	vals []any
}

// callValue calls a function value; ok=false when v is not one the interpreter models.
func (vm *c09vm) callValue(v any, args func() []any) ([]any, bool) {
	switch f := v.(type) {
	case *c09closure:
		if f != nil {
			return vm.callClosure(f, args()), true
		}
	case *c09fnval:
		if f != nil {
			return vm.call(f.fn, nil, args()), true
		}
	case *c09onceval:
		if f != nil {
			if !f.done {
				out, ok := vm.callValue(f.f, func() []any { return nil })
				if !ok {
					vm.abort("sync.Once* of a function value the interpreter cannot follow")
				}
				f.done, f.vals = true, out
				vm.ini.oncevals = append(vm.ini.oncevals, f)
			}
			out := make([]any, len(f.vals))
			for i, x := range f.vals {
				out[i] = c09copy(x)
			}
			return out, true
		}
	}
	return nil, false
}

func init() {
	for _, n := range []string{"sync.OnceFunc", "sync.OnceValue", "sync.OnceValues"} {
		c09natives[n] = func(vm *c09vm, _ any, a []any) []any { return []any{&c09onceval{f: a[0]}} }
	}
}

func init() {
	for _, typ := range []string{"bytes.Buffer", "strings.Builder"} {
		buf := func(vm *c09vm, recv any) *c09buf {
			b, ok := recv.(*c09buf)
			if !ok || b == nil {
				vm.abort("buffer method on %T", recv)
			}
			return b
		}
		c09natives[typ+".Reset"] = func(vm *c09vm, r any, a []any) []any { buf(vm, r).sb.Reset(); return nil }
		c09natives[typ+".Grow"] = func(vm *c09vm, r any, a []any) []any { buf(vm, r); return nil }
		c09natives[typ+".Write"] = func(vm *c09vm, r any, a []any) []any {
			b := buf(vm, r)
			n := 0
			if a[0] != nil {
				bs, ok := a[0].([]any)
				if !ok {
					vm.abort("Write of %T", a[0])
				}
				for _, x := range bs {
					b.sb.WriteByte(byte(vm.asInt(x, nil)))
					n++
				}
			}
			return []any{int64(n), nil}
		}
	}
}

func c09refFree(t types.Type) bool {
	b, ok := t.Underlying().(*types.Basic)
	return ok && b.Kind() != types.UnsafePointer
}

// scanGlobals records the package variables mentioned in body (uses) and those that may be written (writes).
func (vm *c09vm) scanGlobals(body ast.Node, uses, writes map[*types.Var]bool, seen map[*types.Func]bool) {
	var stack []ast.Node
	ast.Inspect(body, func(n ast.Node) bool {
		if n == nil {
			stack = stack[:len(stack)-1]
			return true
		}
		stack = append(stack, n)
		switch x := n.(type) {
		case *ast.CallExpr:
			if fn := calleeOf(vm.info, x); fn != nil && !seen[fn] {
				if fd := vm.decls[fn]; fd != nil && fd.Body != nil {
					seen[fn] = true
					vm.scanGlobals(fd.Body, uses, writes, seen)
				}
			}
		case *ast.Ident:
			o, ok := vm.info.Uses[x].(*types.Var)
			if !ok || !vm.ownGlobal(o) {
				return true
			}
			uses[o] = true
			// the chain x, x.f, x[i], *x, x[a:b], (x) the identifier is the root of
			top := ast.Node(x)
			i := len(stack) - 2
		climb:
			for ; i >= 0; i-- {
				switch p := stack[i].(type) {
				case *ast.ParenExpr:
				case *ast.StarExpr:
				case *ast.SelectorExpr:
					if p.X != top {
						break climb
					}
					if sel, ok := vm.info.Selections[p]; !ok || sel.Kind() != types.FieldVal {
						writes[o] = true // method call or method value: the method may write its receiver
						return true
					}
				case *ast.IndexExpr:
					if p.X != top {
						break climb
					}
				case *ast.SliceExpr:
					if p.X != top {
						break climb
					}
				default:
					break climb
				}
				top = stack[i]
			}
			var par ast.Node
			if i >= 0 {
				par = stack[i]
			}
			switch p := par.(type) {
			case *ast.AssignStmt:
				for _, l := range p.Lhs {
					if l == top {
						writes[o] = true
						return true
					}
				}
			case *ast.IncDecStmt:
				writes[o] = true
				return true
			case *ast.RangeStmt:
				if p.Key == top || p.Value == top {
					writes[o] = true
					return true
				}
				if p.X == top {
					return true // ranging reads
				}
			case *ast.UnaryExpr:
				if p.Op == token.AND {
					writes[o] = true
					return true
				}
			case *ast.CallExpr:
				if id, ok := unparen(p.Fun).(*ast.Ident); ok {
					if b, ok := vm.info.Uses[id].(*types.Builtin); ok && (b.Name() == "len" || b.Name() == "cap") {
						return true
					}
				}
			}
			if e, ok := top.(ast.Expr); ok {
				if t := vm.info.TypeOf(e); t != nil && c09refFree(t) {
					return true // a basic value is read; nothing can reach the variable through it
				}
			}
			writes[o] = true // a value through which the variable's storage may be reached (or a copy; over-approximated)
		}
		return true
	})
}

func (vm *c09vm) scanInits() {
	st := vm.ini
	st.scanned = true
	st.groupOf, st.ran, st.failed, st.touched = map[*types.Var]int{}, map[int]bool{}, map[int]string{}, map[int][]types.Object{}
	for _, f := range vm.pk.Syntax {
		for _, d := range f.Decls {
			fd, ok := d.(*ast.FuncDecl)
			if !ok || fd.Recv != nil || fd.Name.Name != "init" || fd.Body == nil {
				continue
			}
			fn, _ := vm.info.Defs[fd.Name].(*types.Func)
			if fn == nil {
				continue
			}
			vm.decls[fn] = fd
			in := &c09initFn{fn: fn, decl: fd, writes: map[*types.Var]bool{}, uses: map[*types.Var]bool{}, group: len(st.fns)}
			vm.scanGlobals(fd.Body, in.uses, in.writes, map[*types.Func]bool{fn: true})
			st.fns = append(st.fns, in)
		}
	}
	// groups: init functions connected through a variable one of them may write
	for changed := true; changed; {
		changed = false
		for _, a := range st.fns {
			for _, b := range st.fns {
				if a.group == b.group {
					continue
				}
				linked := false
				for v := range a.writes {
					if b.uses[v] {
						linked = true
					}
				}
				if linked {
					g, old := a.group, b.group
					if old < g {
						g, old = old, g
					}
					for _, c := range st.fns {
						if c.group == old {
							c.group = g
						}
					}
					changed = true
				}
			}
		}
	}
	for _, in := range st.fns {
		for v := range in.writes {
			st.groupOf[v] = in.group
		}
	}
}

// ensureInit runs, before the first read of package variable o, the init() functions that may write it.
func (vm *c09vm) ensureInit(o *types.Var) {
	st := vm.ini
	if !st.scanned {
		if !vm.ownGlobal(o) {
			return
		}
		vm.scanInits()
	}
	if len(st.fns) == 0 {
		return
	}
	g, ok := st.groupOf[o]
	if !ok {
		return
	}
	if st.ginitDepth > 0 {
		vm.abort("the initialiser of a package variable reads %s, which an init() function writes", o.Name())
	}
	if st.running {
		return // inside the group that writes o (groups share no written variable)
	}
	if msg, bad := st.failed[g]; bad {
		vm.abort("%s", msg)
	}
	if st.ran[g] {
		return
	}
	savedDirty, savedDepth := vm.gdirty, vm.depth
	before := map[any]int{} // write counters of maps that exist already
	for _, v := range vm.globals {
		switch x := v.(type) {
		case *c09map:
			if x != nil {
				before[x] = x.w
			}
		case *c09syncmap:
			if x != nil {
				before[x] = x.w
			}
		}
	}
	vm.gdirty, vm.depth = nil, 0
	st.running = true
	done := false
	defer func() {
		st.running = false
		vm.depth = savedDepth
		if !done {
			if r := recover(); r != nil {
				msg := "init() of the package: "
				switch x := r.(type) {
				case c09abort:
					msg += x.msg
				case c09gopanic:
					msg += "panics: " + x.msg
				default:
					panic(r)
				}
				st.failed[g] = msg
				vm.gdirty = savedDirty
				panic(c09abort{msg})
			}
		}
	}()
	for _, in := range st.fns {
		if in.group == g {
			vm.call(in.fn, nil, nil)
		}
	}
	// what the group wrote is initial state
	var touched []types.Object
	for w := range vm.gdirty {
		touched = append(touched, w)
	}
	for w, v := range vm.globals {
		switch x := v.(type) {
		case *c09map:
			if x != nil && x.w > before[x] {
				x.w = before[x]
				if !vm.gdirty[w] {
					touched = append(touched, w)
				}
			}
		case *c09syncmap:
			if x != nil && x.w > before[x] {
				x.w = before[x]
				if !vm.gdirty[w] {
					touched = append(touched, w)
				}
			}
		}
	}
	sort.Slice(touched, func(i, j int) bool { return touched[i].Pos() < touched[j].Pos() })
	st.touched[g] = touched
	st.ran[g] = true
	vm.gdirty = savedDirty
	done = true
}

// initReset: package variable o was written by a call and is being re-initialised. When an init() group wrote
// it too, everything the group wrote is dropped and the group runs again before the next read.
func (vm *c09vm) initReset(o types.Object) {
	st := vm.ini
	if st == nil || !st.scanned {
		return
	}
	v, ok := o.(*types.Var)
	if !ok {
		return
	}
	g, ok := st.groupOf[v]
	if !ok || !st.ran[g] {
		return
	}
	for _, w := range st.touched[g] {
		delete(vm.globals, w)
	}
	delete(st.ran, g)
	delete(st.touched, g)
}

// writtenByCode: may some function of the package (init() included) write package variable v? Then the
// variable's initialiser does not say what the variable holds when the library is called.
func (vm *c09vm) writtenByCode(v *types.Var) bool {
	st := vm.ini
	if st.codeWrites == nil {
		st.codeWrites = map[*types.Var]bool{}
		uses := map[*types.Var]bool{}
		for _, f := range vm.pk.Syntax {
			for _, d := range f.Decls {
				if fd, ok := d.(*ast.FuncDecl); ok && fd.Body != nil {
					vm.scanGlobals(fd.Body, uses, st.codeWrites, map[*types.Func]bool{})
				}
			}
		}
		// initialisers of other package variables may capture it as well (var alias = &table)
		for o, init := range vm.ginit {
			if o != types.Object(v) {
				vm.scanGlobals(init, uses, st.codeWrites, map[*types.Func]bool{})
			}
		}
	}
	return st.codeWrites[v]
}

// ellipsisCall evaluates f(a, b, xs...).
func (vm *c09vm) ellipsisCall(fr *c09frame, call *ast.CallExpr) []any {
	var args []any
	for _, a := range call.Args {
		args = append(args, vm.eval(fr, a))
	}
	if len(args) == 0 {
		vm.abort("call with ... and no argument")
	}
	last := args[len(args)-1]
	spreadOut := func() []any {
		out := append([]any{}, args[:len(args)-1]...)
		switch x := last.(type) {
		case nil:
		case []any:
			out = append(out, x...)
		default:
			vm.abort("... argument of kind %T", last)
		}
		return out
	}
	if id, ok := unparen(call.Fun).(*ast.Ident); ok {
		if b, ok := vm.info.Uses[id].(*types.Builtin); ok {
			if b.Name() != "append" || len(args) != 2 {
				vm.abort("builtin %s with ... argument", b.Name())
			}
			var base []any
			if args[0] != nil {
				bs, ok := args[0].([]any)
				if !ok {
					vm.abort("append to %T", args[0])
				}
				base = append(base, bs...)
			}
			switch x := last.(type) {
			case nil:
			case []any:
				for _, el := range x {
					base = append(base, c09copy(el))
				}
			case string: // append([]byte, string...)
				for i := 0; i < len(x); i++ {
					base = append(base, int64(x[i]))
				}
			default:
				vm.abort("append of ... %T", last)
			}
			if base == nil && args[0] != nil {
				base = []any{}
			}
			return []any{base}
		}
	}
	fn := calleeOf(vm.info, call)
	if fn == nil {
		vm.abort("dynamic call %s with ... argument", types.ExprString(call.Fun))
	}
	sig := fn.Type().(*types.Signature)
	if !sig.Variadic() || len(args) != sig.Params().Len() {
		vm.abort("call of %s with ... argument", fn.Name())
	}
	var recv any
	if sig.Recv() != nil {
		sel, ok := unparen(call.Fun).(*ast.SelectorExpr)
		if !ok {
			vm.abort("method call shape")
		}
		recv = vm.eval(fr, sel.X)
	}
	if _, ok := vm.decls[fn]; ok {
		vm.spreadNext = true
		return vm.call(fn, recv, args)
	}
	if nat, ok := c09natives[fullName(fn)]; ok {
		return nat(vm, recv, spreadOut())
	}
	vm.abort("call of %s (no source, not a whitelisted pure function)", fullName(fn))
	return nil
}
