package main

// C02.m — a rune that was read ahead is pushed back by an UnreadRune that can succeed (round-9 seed C02_b_r9).
//
// The property: "Printable text, including ... raw invalid bytes, is delivered in order with nothing lost ... The
// result does not depend on how the stream is split across reads". print() reads ahead over the buffered input
// and pushes the first rune of the next cluster back; readRune() pushes U+FFFD back to re-read the byte as it is.
// Both rely on the contract of the reader (io.RuneScanner, bufio.Reader): UnreadRune is valid only when the LAST
// operation on the reader was ReadRune. After ReadByte / Peek / Discard / Read / UnreadRune ... it returns an
// error and does nothing, i.e. the rune (or byte) that was looked at stays consumed and is never delivered, and
// whether that happens depends on whether the rune was met by the look-ahead (same read) or by the main loop.
//
// Necessary condition decided here: on every path to an UnreadRune call on the parser's input reader the last
// operation on that reader is ReadRune. It is a typestate over the reader operations
//
//	ReadRune -> RR      Buffered/Size/Len/Cap -> unchanged      anything else (incl. UnreadRune) -> invalid(<op>)
//
// evaluated interprocedurally and context-sensitively: a call of a package function is analysed with the
// caller's reader state as entry state (memoised per function x entry state x reader-parameter binding), so
// helper extraction in either direction (the read in a helper, the push-back in a helper, both) is judged like
// the inlined code, and the seed — print() reading through readRune(), which may end with ReadByte — is seen
// through the call. Function values are resolved to the functions / literals of identical signature whose
// address is taken in the package (the state functions), single-definition local closures and method values are
// followed, interface calls go to the package's implementations, deferred calls are applied at the exits.
// Roots (entry state "invalid: unknown caller") are the functions that are exported, used as a value, started
// with `go`, or have no synchronous caller in the package.
//
// Paths are pruned with the values of local flag variables: a local of basic type that is only assigned in its
// own function is tracked while it holds a constant (`var rest string` is ""), and a branch whose condition
// evaluates to the opposite truth value under the tracked values is not taken (so `for rest == "" && buffered
// {read}; if rest != "" {unread}` is the same as the unread inside the loop).
//
// The reader is identified by the struct field that holds it (every field of a struct of package ansi whose type
// has ReadRune/UnreadRune); local aliases (br := p.r), accessor helpers and reader-typed parameters are resolved
// to it; other objects that merely have the same methods (a local bytes.Buffer) are different readers and do
// not change the state. A receiver the rule cannot resolve is reported as undecided.
//
// C02.n — the other half of the same condition: a rune that was read ahead and that does not belong to the
// cluster IS pushed back. Where a function asks uniseg (FirstGraphemeCluster[InString], Step[String]) about its
// text directly after a ReadRune of its own activation (state RR, as opposed to RRe = read before the function
// was entered) and keeps the `rest` result in a local string, the state is forked on the outcome: rest == ""
// (the rune is part of the cluster) and rest = <non-empty> (it starts the next cluster; `pend` is set). pend is
// settled when the reader's last operation becomes an UnreadRune (directly, in a helper, in a deferred call);
// a path that returns from a result-less function with pend set violates the rule. Conditions over rest
// (rest != "", len(rest) > 0, negations, flags derived from them) are evaluated on the abstract value; if rest
// is used in a way the rule does not evaluate (copied, passed on, returned) the path is not judged (silent).

import (
	"fmt"
	"go/ast"
	"go/constant"
	"go/token"
	"go/types"
	"sort"
	"strings"

	"golang.org/x/tools/go/cfg"
	"golang.org/x/tools/go/packages"
)

func init() { registerExtra("C02", c02PushBackValid) }

const (
	c02mRR  = "RR"  // the last reader operation is a ReadRune executed during this activation (by the function or a callee)
	c02mRRe = "RRe" // the last reader operation is a ReadRune executed before the function was entered
)

// c02mNonEmpty is the abstract value "some non-empty string" (the `rest` result of a cluster judgement in the
// branch where the rune read ahead does not belong to the cluster).
var c02mNonEmpty = constant.MakeString("\x00<non-empty>")

func c02mIsNonEmpty(v constant.Value) bool {
	return v != nil && v.Kind() == constant.String && constant.StringVal(v) == "\x00<non-empty>"
}

// c02mPendAfter: a push-back (the reader's last operation is an UnreadRune) settles the outstanding rune.
func c02mPendAfter(pend, rs string) string {
	if strings.HasPrefix(rs, "!UnreadRune") {
		return ""
	}
	return pend
}

type c02nSite struct {
	call    *ast.CallExpr
	where   string
	judged  int
	escaped bool
	bad     map[string]string
}

type c02mSite struct {
	call  *ast.CallExpr
	where string
	okCtx int
	bad   map[string]string // invalid state -> call chain
}

type c02mBind struct {
	id    types.Object
	known bool
}

type c02mFrame struct {
	parent    *c02mFrame
	name      string
	fg        *FG
	outer     *ast.FuncDecl
	bind      map[types.Object]c02mBind
	untracked map[types.Object]bool
	deferred  []*ast.CallExpr
}

type c02mState struct {
	rs string
	df string // the deferred calls registered so far (indices into the frame's list, in order of registration)
	// pend (rule C02.n): the position of the cluster judgement that found the rune just read ahead to lie outside
	// the cluster, while that rune has not been pushed back yet; "" = nothing outstanding
	pend string
	env  map[types.Object]constant.Value
}

func (s c02mState) key() string {
	if len(s.env) == 0 {
		return s.rs + "\x00" + s.df + "\x00" + s.pend
	}
	var parts []string
	for o, v := range s.env {
		parts = append(parts, fmt.Sprintf("%s@%d=%s", o.Name(), o.Pos(), v.ExactString()))
	}
	sort.Strings(parts)
	return s.rs + "\x00" + s.df + "\x00" + s.pend + "|" + strings.Join(parts, ",")
}

type c02mSet map[string]c02mState

// list: the states in a fixed order (the analysis, its memoisation and the recorded call chains are then
// independent of map iteration order).
func (a c02mSet) list() []c02mState {
	keys := make([]string, 0, len(a))
	for k := range a {
		keys = append(keys, k)
	}
	sort.Strings(keys)
	out := make([]c02mState, 0, len(a))
	for _, k := range keys {
		out = append(out, a[k])
	}
	return out
}

func (a c02mSet) add(s c02mState) bool {
	k := s.key()
	if _, ok := a[k]; ok {
		return false
	}
	a[k] = s
	return true
}

type c02mEng struct {
	c         *Ctx
	pk        *packages.Package
	info      *types.Info
	key       types.Object
	sites     map[*ast.CallExpr]*c02mSite
	siteOrder []*c02mSite
	cache     map[string]map[string]bool
	busy      map[string]bool
	stack     []string
	litOwner  map[*ast.FuncLit]*FuncInfo
	litDone   map[*ast.FuncLit]bool
	valueFns  []*FuncInfo
	unknown   map[string]token.Pos
	untracked map[*ast.FuncDecl]map[types.Object]bool
	nsites    map[string]*c02nSite // C02.n: cluster judgements on a rune read ahead, by position
}

// c02mIsReader: the type has its own (not promoted) ReadRune and UnreadRune methods.
func c02mIsReader(t types.Type) bool {
	if t == nil {
		return false
	}
	has := func(t types.Type, name string) bool {
		ms := types.NewMethodSet(t)
		for i := 0; i < ms.Len(); i++ {
			if s := ms.At(i); s.Obj().Name() == name && len(s.Index()) == 1 {
				return true
			}
		}
		return false
	}
	if has(t, "UnreadRune") && has(t, "ReadRune") {
		return true
	}
	if _, isPtr := t.(*types.Pointer); !isPtr {
		if _, isIface := t.Underlying().(*types.Interface); !isIface {
			pt := types.NewPointer(t)
			return has(pt, "UnreadRune") && has(pt, "ReadRune")
		}
	}
	return false
}

var c02mTransparent = map[string]bool{"Buffered": true, "Size": true, "Len": true, "Cap": true}

func c02PushBackValid(c *Ctx) {
	c.Clauses = append(c.Clauses, "C02.m every UnreadRune on the parser's input reader directly follows a ReadRune on every path (typestate over the reader operations, through helpers, closures and the state functions): a rune that was read ahead can always be pushed back")
	c.expect("C02.m", 1)
	pk := c.P.Pkg("ansi")
	if pk == nil {
		c.undecided("C02.m", "package ansi", 0, "package ansi not loaded")
		return
	}
	// the readers: struct fields of the package whose type has ReadRune/UnreadRune
	var keys []*types.Var
	scope := pk.Types.Scope()
	for _, nm := range scope.Names() {
		tn, ok := scope.Lookup(nm).(*types.TypeName)
		if !ok {
			continue
		}
		st, ok := tn.Type().Underlying().(*types.Struct)
		if !ok {
			continue
		}
		for i := 0; i < st.NumFields(); i++ {
			if f := st.Field(i); c02mIsReader(f.Type()) {
				keys = append(keys, f)
			}
		}
	}
	if len(keys) == 0 {
		c.undecided("C02.m", "ansi/input reader", 0, "no struct field of package ansi holds a rune reader (a type with ReadRune and UnreadRune): the rule does not see the parser's input")
		return
	}
	c.Clauses = append(c.Clauses, "C02.n a rune that was read ahead and that the cluster judgement (uniseg: non-empty rest) places outside the cluster is pushed back before the function returns, on every path (same typestate, forked on the judgement's outcome)")
	c.expect("C02.n", 1)
	total := 0
	c02nJudged = 0
	for _, k := range keys {
		total += c02mRun(c, pk, k)
	}
	if c02nJudged == 0 {
		c.ok("C02.n", "ansi/no judged read-ahead", 0, "no function of package ansi asks uniseg about a rune it has read ahead with ReadRune (or the rest is not kept in a local string): nothing to push back that this rule can see")
	}
	if total == 0 {
		c.ok("C02.m", "ansi/no push-back", 0, "package ansi never calls UnreadRune on its input reader: nothing that was read ahead needs to be pushed back")
	}
}

func c02mRun(c *Ctx, pk *packages.Package, key types.Object) int {
	e := &c02mEng{c: c, pk: pk, info: pk.TypesInfo, key: key, sites: map[*ast.CallExpr]*c02mSite{}, cache: map[string]map[string]bool{},
		busy: map[string]bool{}, litOwner: map[*ast.FuncLit]*FuncInfo{}, litDone: map[*ast.FuncLit]bool{}, unknown: map[string]token.Pos{},
		untracked: map[*ast.FuncDecl]map[types.Object]bool{}, nsites: map[string]*c02nSite{}}
	funcs := c.P.FuncsIn("ansi")
	byObj := map[types.Object]*FuncInfo{}
	for _, fi := range funcs {
		byObj[fi.Obj] = fi
	}
	// how each function of the package is used: called synchronously, started with go, used as a value
	syncCalled := map[*FuncInfo]bool{}
	asValue := map[*FuncInfo]bool{}
	for _, f := range pk.Syntax {
		calledIdent := map[*ast.Ident]bool{}
		spawned := map[*ast.Ident]bool{}
		ast.Inspect(f, func(n ast.Node) bool {
			switch x := n.(type) {
			case *ast.GoStmt:
				if id := c02mFunIdent(x.Call); id != nil {
					spawned[id] = true
				}
			case *ast.CallExpr:
				if id := c02mFunIdent(x); id != nil {
					calledIdent[id] = true
				}
			}
			return true
		})
		ast.Inspect(f, func(n ast.Node) bool {
			id, ok := n.(*ast.Ident)
			if !ok {
				return true
			}
			fi := byObj[e.info.Uses[id]]
			if fi == nil {
				return true
			}
			switch {
			case spawned[id]:
			case calledIdent[id]:
				syncCalled[fi] = true
			default:
				asValue[fi] = true
			}
			return true
		})
	}
	for _, fi := range funcs {
		if fi.Decl.Body == nil {
			continue
		}
		if asValue[fi] {
			e.valueFns = append(e.valueFns, fi)
		}
		fi := fi
		ast.Inspect(fi.Decl.Body, func(n ast.Node) bool {
			if l, ok := n.(*ast.FuncLit); ok {
				e.litOwner[l] = fi
			}
			return true
		})
	}
	analysed := map[*FuncInfo]bool{}
	root := func(fi *FuncInfo) {
		analysed[fi] = true
		e.stack = []string{fi.Name}
		e.enterDecl(nil, fi, nil, "!unknown (entry of "+fi.Name+", which can be called from outside)")
	}
	for _, fi := range funcs {
		if fi.Decl.Body == nil {
			continue
		}
		if !syncCalled[fi] || asValue[fi] || fi.Obj.Exported() {
			root(fi)
		}
	}
	// function literals that were not analysed in the context of a call (callbacks, goroutines)
	var lits []*ast.FuncLit
	for l := range e.litOwner {
		lits = append(lits, l)
	}
	sort.Slice(lits, func(i, j int) bool { return lits[i].Pos() < lits[j].Pos() })
	for _, l := range lits {
		if !e.litDone[l] {
			owner := e.litOwner[l]
			e.stack = []string{owner.Name + "/func literal"}
			e.enterLit(e.declFrame(owner, nil), l, "!unknown (entry of a function literal in "+owner.Name+")")
		}
	}
	// functions with a push-back that no root reaches (call cycles)
	for _, fi := range funcs {
		if fi.Decl.Body == nil || analysed[fi] {
			continue
		}
		reached := false
		for k := range e.cache {
			if strings.HasPrefix(k, fi.Name+"\x00") {
				reached = true
			}
		}
		if !reached {
			root(fi)
		}
	}
	var names []string
	for k := range e.unknown {
		names = append(names, k)
	}
	sort.Strings(names)
	for _, k := range names {
		c.undecided("C02.m", k, e.unknown[k], "an operation on a rune reader whose identity the rule cannot resolve (not a struct field, a local alias of one, an accessor or a parameter bound to one): it may or may not be the parser's input reader")
	}
	sort.Slice(e.siteOrder, func(i, j int) bool { return e.siteOrder[i].call.Pos() < e.siteOrder[j].call.Pos() })
	perFn := map[string]int{}
	for _, s := range e.siteOrder {
		perFn[s.where]++
		k := s.where + "/UnreadRune directly follows ReadRune"
		if perFn[s.where] > 1 {
			k += fmt.Sprintf("#%d", perFn[s.where])
		}
		if len(s.bad) > 0 {
			var why []string
			for st, chain := range s.bad {
				why = append(why, strings.TrimPrefix(st, "!")+" [reached through "+chain+"]")
			}
			sort.Strings(why)
			c.bad("C02.m", k, s.call.Pos(), "this UnreadRune can be reached when the last operation on the reader was not ReadRune: %s. The reader then refuses to unread (the error is the only effect): the rune that was read ahead stays consumed and is never delivered, and whether it is lost depends on how the input is split across reads", strings.Join(why, "; "))
		} else {
			c.ok("C02.m", k, s.call.Pos(), "on every path, in every calling context, the last reader operation before the push-back is ReadRune")
		}
	}
	// C02.n
	var nkeys []string
	for k := range e.nsites {
		nkeys = append(nkeys, k)
	}
	sort.Slice(nkeys, func(i, j int) bool { return e.nsites[nkeys[i]].call.Pos() < e.nsites[nkeys[j]].call.Pos() })
	perFn = map[string]int{}
	judged := 0
	for _, nk := range nkeys {
		s := e.nsites[nk]
		if s.judged == 0 {
			continue // a cluster measurement that does not follow a read-ahead
		}
		judged++
		perFn[s.where]++
		k := s.where + "/rune read ahead and judged to lie outside the cluster is pushed back"
		if perFn[s.where] > 1 {
			k += fmt.Sprintf("#%d", perFn[s.where])
		}
		switch {
		case len(s.bad) > 0:
			var why []string
			for w, chain := range s.bad {
				why = append(why, strings.TrimSuffix(w, "/again")+" [reached through "+chain+"]")
			}
			sort.Strings(why)
			c.bad("C02.n", k, s.call.Pos(), "after a rune was read ahead and the cluster judgement left a non-empty rest (the rune starts the next cluster), a path leaves the function without an UnreadRune as the reader's last operation: %s. The rune is consumed but belongs to no Print: it is lost (or delivered inside the wrong cluster), depending on how the input is split across reads", strings.Join(why, "; "))
		case s.escaped:
			c.okTrivial("C02.n", k, s.call.Pos(), "the judgement's result is copied, passed on or returned: the rule does not follow it further")
		default:
			c.ok("C02.n", k, s.call.Pos(), "on every path on which the rest is non-empty the function ends with the push-back")
		}
	}
	c02nJudged += judged
	return len(e.siteOrder)
}

var c02nJudged int

func c02mFunIdent(call *ast.CallExpr) *ast.Ident {
	switch f := unparen(call.Fun).(type) {
	case *ast.Ident:
		return f
	case *ast.SelectorExpr:
		return f.Sel
	}
	return nil
}

// ---------------------------------------------------------------------------------------------------------
// frames

func (e *c02mEng) untrackedOf(fd *ast.FuncDecl) map[types.Object]bool {
	if m, ok := e.untracked[fd]; ok {
		return m
	}
	m := map[types.Object]bool{}
	e.untracked[fd] = m
	if fd.Body == nil {
		return m
	}
	ast.Inspect(fd.Body, func(n ast.Node) bool {
		if u, ok := n.(*ast.UnaryExpr); ok && u.Op == token.AND {
			if id, ok := unparen(u.X).(*ast.Ident); ok {
				if o := e.info.ObjectOf(id); o != nil {
					m[o] = true
				}
			}
		}
		if l, ok := n.(*ast.FuncLit); ok {
			mark := func(x ast.Expr) {
				if id, ok := unparen(x).(*ast.Ident); ok {
					if o := e.info.ObjectOf(id); o != nil && (o.Pos() < l.Pos() || o.Pos() > l.End()) {
						m[o] = true
					}
				}
			}
			ast.Inspect(l.Body, func(k ast.Node) bool {
				switch s := k.(type) {
				case *ast.AssignStmt:
					for _, x := range s.Lhs {
						mark(x)
					}
				case *ast.IncDecStmt:
					mark(s.X)
				case *ast.RangeStmt:
					if s.Key != nil {
						mark(s.Key)
					}
					if s.Value != nil {
						mark(s.Value)
					}
				}
				return true
			})
		}
		return true
	})
	return m
}

func (e *c02mEng) declFrame(fi *FuncInfo, bind map[types.Object]c02mBind) *c02mFrame {
	return &c02mFrame{name: fi.Name, fg: e.c.P.Graph(fi), outer: fi.Decl, bind: bind, untracked: e.untrackedOf(fi.Decl)}
}

func (fr *c02mFrame) tracks(o types.Object) bool {
	v, ok := o.(*types.Var)
	if !ok || v.IsField() || fr.untracked[o] || fr.fg == nil {
		return false
	}
	if _, basic := v.Type().Underlying().(*types.Basic); !basic {
		return false
	}
	lo := fr.fg.Body.Pos()
	if fr.fg.Type != nil {
		lo = fr.fg.Type.Pos()
	}
	if fr.fg.Recv != nil && fr.fg.Recv.Pos() < lo {
		lo = fr.fg.Recv.Pos()
	}
	return v.Pos() >= lo && v.Pos() <= fr.fg.Body.End()
}

// enterDecl analyses a package function called with the reader in state rs; args (may be nil) are the
// call's arguments in the caller's frame, used to bind reader-typed parameters.
func (e *c02mEng) enterDecl(caller *c02mFrame, fi *FuncInfo, call *ast.CallExpr, rs string) map[string]bool {
	bind := map[types.Object]c02mBind{}
	var bkeys []string
	if fi.Decl.Type.Params != nil {
		i := 0
		for _, fld := range fi.Decl.Type.Params.List {
			names := fld.Names
			if len(names) == 0 {
				i++
				continue
			}
			for _, nm := range names {
				o := e.info.Defs[nm]
				if o != nil && c02mIsReader(o.Type()) {
					b := c02mBind{id: o, known: true} // an unbound reader parameter is a reader of its own
					if call != nil && caller != nil && i < len(call.Args) {
						id, known := e.resolve(caller, call.Args[i], 0)
						b = c02mBind{id: id, known: known}
					}
					bind[o] = b
					bkeys = append(bkeys, fmt.Sprintf("%d:%v:%v", i, b.known, b.id == e.key))
				}
				i++
			}
		}
	}
	entry := c02mEntry(rs)
	ck := fi.Name + "\x00" + entry + "\x00" + strings.Join(bkeys, ",")
	fr := e.declFrame(fi, bind)
	return c02mBack(e.analyse(ck, fr, entry), rs)
}

// c02mEntry / c02mBack: inside the callee a ReadRune of the caller is "read before entry"; if the callee leaves
// the reader alone the caller gets its own state back.
func c02mEntry(rs string) string {
	if rs == c02mRR {
		return c02mRRe
	}
	return rs
}

func c02mBack(exits map[string]bool, rs string) map[string]bool {
	if !exits[c02mRRe] || rs == c02mRRe {
		return exits
	}
	out := map[string]bool{}
	for x := range exits {
		if x == c02mRRe {
			x = rs
		}
		out[x] = true
	}
	return out
}

func (e *c02mEng) enterLit(parent *c02mFrame, l *ast.FuncLit, rs string) map[string]bool {
	e.litDone[l] = true
	owner := e.litOwner[l]
	name := "func literal"
	var outer *ast.FuncDecl
	if owner != nil {
		name = owner.Name + "/func literal"
		outer = owner.Decl
	} else if parent != nil {
		outer = parent.outer
	}
	fr := &c02mFrame{parent: parent, name: name, fg: e.c.P.GraphOfLit(e.pk, name, l), outer: outer, bind: map[types.Object]c02mBind{}}
	if outer != nil {
		fr.untracked = e.untrackedOf(outer)
	}
	// the bindings of the lexical parents are part of the context
	var bkeys []string
	for p := parent; p != nil; p = p.parent {
		for o, b := range p.bind {
			bkeys = append(bkeys, fmt.Sprintf("%d:%v:%v", o.Pos(), b.known, b.id == e.key))
		}
	}
	sort.Strings(bkeys)
	entry := c02mEntry(rs)
	ck := fmt.Sprintf("lit@%d\x00%s\x00%s", l.Pos(), entry, strings.Join(bkeys, ","))
	return c02mBack(e.analyse(ck, fr, entry), rs)
}

// ---------------------------------------------------------------------------------------------------------
// the flow analysis of one function body

func (e *c02mEng) analyse(ck string, fr *c02mFrame, entry string) map[string]bool {
	if r, ok := e.cache[ck]; ok {
		return r
	}
	if e.busy[ck] || len(e.stack) > 40 {
		return map[string]bool{entry: true, "!unknown (recursive call of " + fr.name + ")": true}
	}
	if fr.fg == nil || len(fr.fg.Blocks) == 0 {
		r := map[string]bool{entry: true}
		e.cache[ck] = r
		return r
	}
	e.busy[ck] = true
	defer delete(e.busy, ck)
	g := fr.fg
	in := map[*cfg.Block]c02mSet{}
	done := map[*cfg.Block]bool{}
	in[g.Blocks[0]] = c02mSet{}
	in[g.Blocks[0]].add(c02mState{rs: entry})
	work := []*cfg.Block{g.Blocks[0]}
	exits := map[string]bool{}
	outOf := map[*cfg.Block]c02mSet{}
	for len(work) > 0 {
		b := work[len(work)-1]
		work = work[:len(work)-1]
		done[b] = true
		cur := c02mSet{}
		for _, s := range c02mSet(in[b]).list() {
			cur.add(s)
		}
		for i, n := range b.Nodes {
			if b.Kind == cfg.KindRangeLoop {
				// the key / value of a range loop are assigned per iteration
				if id, ok := n.(*ast.Ident); ok {
					cur = e.assignAll(fr, cur, []ast.Expr{id})
					continue
				}
			}
			if !(i == len(b.Nodes)-1 && g.BranchCond(b) != nil) {
				cur = e.dropPendIfUsed(fr, n, cur)
			}
			cur = e.flow(fr, n, cur)
		}
		if len(cur) > 256 {
			// give up the flag values, keep the reader states
			m := c02mSet{}
			for _, s := range c02mSet(cur).list() {
				m.add(c02mState{rs: s.rs, df: s.df, pend: s.pend})
			}
			cur = m
		}
		outOf[b] = cur
		cond := g.BranchCond(b)
		for i, succ := range b.Succs {
			if in[succ] == nil {
				in[succ] = c02mSet{}
			}
			changed := false
			for _, s := range c02mSet(cur).list() {
				ns, feasible := s, true
				if cond != nil && len(b.Succs) == 2 && cond.Alts == nil {
					ns, feasible = e.assume(fr, cond, i == 0, s)
				}
				if feasible && in[succ].add(ns) {
					changed = true
				}
			}
			if changed || !done[succ] {
				done[succ] = true
				work = append(work, succ)
			}
		}
	}
	for _, b := range g.Blocks {
		if !g.isNormalExit(b) {
			continue
		}
		for _, s := range c02mSet(outOf[b]).list() {
			// the deferred calls this path has registered run now, last first
			cur := map[string]bool{s.rs: true}
			idx := strings.Split(s.df, ",")
			for i := len(idx) - 1; i >= 0; i-- {
				var k int
				if _, err := fmt.Sscanf(idx[i], "%d", &k); err != nil || k >= len(fr.deferred) {
					continue
				}
				next := map[string]bool{}
				for _, rs := range c02mKeys(cur) {
					for _, o := range e.callEffect(fr, fr.deferred[k], rs) {
						next[o] = true
					}
				}
				cur = next
			}
			for _, rs := range c02mKeys(cur) {
				exits[rs] = true
				if s.pend != "" {
					if ns := e.nsites[s.pend]; ns != nil {
						switch {
						case c02mPendAfter(s.pend, rs) == "":
						case g.Type != nil && g.Type.Results != nil && len(g.Type.Results.List) > 0:
							ns.escaped = true // the judgement may be handed to the caller in a result: not followed
						default:
							if _, dup := ns.bad[fr.name]; !dup {
								ns.bad[fr.name] = strings.Join(e.stack, " -> ")
							}
						}
					}
				}
			}
		}
	}
	if len(exits) == 0 {
		// no normal return (an endless loop, a panic): nothing continues after the call
	}
	e.cache[ck] = exits
	return exits
}

func c02mChildren(n ast.Node) []ast.Node {
	var out []ast.Node
	depth := 0
	ast.Inspect(n, func(m ast.Node) bool {
		if m == nil {
			depth--
			return true
		}
		depth++
		if depth == 2 {
			out = append(out, m)
			depth--
			return false
		}
		return true
	})
	return out
}

// flow applies the effects of one CFG node (statement or expression) in evaluation order.
func (e *c02mEng) flow(fr *c02mFrame, n ast.Node, in c02mSet) c02mSet {
	if n == nil || len(in) == 0 {
		return in
	}
	switch x := n.(type) {
	case *ast.FuncLit, *ast.BlockStmt, *ast.IfStmt, *ast.ForStmt, *ast.SwitchStmt, *ast.TypeSwitchStmt, *ast.SelectStmt, *ast.CaseClause, *ast.CommClause:
		return in
	case *ast.RangeStmt:
		return in // the range expression is its own node
	case *ast.LabeledStmt:
		return in
	case *ast.BinaryExpr:
		if x.Op == token.LAND || x.Op == token.LOR {
			a := e.flow(fr, x.X, in)
			b := e.flow(fr, x.Y, a)
			out := c02mSet{}
			for _, s := range c02mSet(a).list() {
				out.add(s)
			}
			for _, s := range c02mSet(b).list() {
				out.add(s)
			}
			return out
		}
	case *ast.CallExpr:
		cur := in
		switch f := unparen(x.Fun).(type) {
		case *ast.SelectorExpr:
			cur = e.flow(fr, f.X, cur)
		case *ast.Ident, *ast.FuncLit:
		default:
			cur = e.flow(fr, x.Fun, cur)
		}
		for _, a := range x.Args {
			cur = e.flow(fr, a, cur)
		}
		out := c02mSet{}
		for _, s := range c02mSet(cur).list() {
			for _, rs := range e.callEffect(fr, x, s.rs) {
				out.add(c02mState{rs: rs, df: s.df, pend: c02mPendAfter(s.pend, rs), env: s.env})
			}
		}
		return out
	case *ast.DeferStmt:
		cur := in
		for _, a := range x.Call.Args {
			cur = e.flow(fr, a, cur)
		}
		k := -1
		for i, d := range fr.deferred {
			if d == x.Call {
				k = i
			}
		}
		if k < 0 {
			fr.deferred = append(fr.deferred, x.Call)
			k = len(fr.deferred) - 1
		}
		tag := fmt.Sprint(k)
		out := c02mSet{}
		for _, s := range c02mSet(cur).list() {
			ns := s
			if !strings.Contains(","+s.df+",", ","+tag+",") { // registered again in a loop: applied once
				if ns.df == "" {
					ns.df = tag
				} else {
					ns.df += "," + tag
				}
			}
			out.add(ns)
		}
		return out
	case *ast.GoStmt:
		cur := in
		for _, a := range x.Call.Args {
			cur = e.flow(fr, a, cur)
		}
		// the goroutine runs at an unknown time relative to the reader operations of this function
		save := e.stack
		e.stack = append(append([]string{}, save...), "go")
		e.callEffect(fr, x.Call, "!unknown (start of a goroutine in "+fr.name+")")
		e.stack = save
		return cur
	case *ast.AssignStmt:
		cur := in
		for _, r := range x.Rhs {
			cur = e.flow(fr, r, cur)
		}
		for _, l := range x.Lhs {
			if _, isId := unparen(l).(*ast.Ident); !isId {
				cur = e.flow(fr, l, cur)
			}
		}
		// an assignment to the reader itself replaces it: nothing can be unread from the new one
		for _, l := range x.Lhs {
			if c02mIsReader(e.info.TypeOf(l)) {
				if id, known := e.resolve(fr, l, 0); known && id == e.key {
					if _, isId := unparen(l).(*ast.Ident); !isId {
						out := c02mSet{}
						for _, s := range c02mSet(cur).list() {
							out.add(c02mState{rs: "!the reader was replaced in " + fr.name, df: s.df, pend: s.pend, env: s.env})
						}
						cur = out
					}
				}
			}
		}
		if x.Tok != token.ASSIGN && x.Tok != token.DEFINE {
			return e.assignAll(fr, cur, x.Lhs)
		}
		if out, ok := e.clusterJudgement(fr, x, cur); ok {
			return out
		}
		if len(x.Lhs) != len(x.Rhs) {
			return e.assignAll(fr, cur, x.Lhs)
		}
		out := c02mSet{}
		for _, s := range c02mSet(cur).list() {
			ns := s
			vals := make([]constant.Value, len(x.Rhs))
			for i, r := range x.Rhs {
				vals[i] = e.valueOf(fr, r, s.env)
			}
			for i, l := range x.Lhs {
				ns = e.setVar(fr, ns, l, vals[i])
			}
			out.add(ns)
		}
		return out
	case *ast.IncDecStmt:
		return e.assignAll(fr, e.flow(fr, x.X, in), []ast.Expr{x.X})
	case *ast.DeclStmt:
		gd, ok := x.Decl.(*ast.GenDecl)
		if !ok {
			return in
		}
		cur := in
		for _, sp := range gd.Specs {
			cur = e.flow(fr, sp, cur)
		}
		return cur
	case *ast.ValueSpec:
		cur := in
		for _, v := range x.Values {
			cur = e.flow(fr, v, cur)
		}
		out := c02mSet{}
		for _, s := range c02mSet(cur).list() {
			ns := s
			for i, nm := range x.Names {
				var v constant.Value
				switch {
				case len(x.Values) == len(x.Names):
					v = e.valueOf(fr, x.Values[i], s.env)
				case len(x.Values) == 0:
					v = c02mZero(e.info.TypeOf(nm))
				}
				ns = e.setVar(fr, ns, nm, v)
			}
			out.add(ns)
		}
		return out
	}
	cur := in
	for _, ch := range c02mChildren(n) {
		cur = e.flow(fr, ch, cur)
	}
	return cur
}

// clusterJudgement (C02.n): `cluster, rest, ... = uniseg.FirstGraphemeClusterInString(...)` directly after a
// rune was read ahead in this activation. rest == "" means the rune belongs to the cluster; otherwise it is
// the first rune of what follows and has to go back to the reader. The state is forked on the two outcomes.
func (e *c02mEng) clusterJudgement(fr *c02mFrame, x *ast.AssignStmt, cur c02mSet) (c02mSet, bool) {
	if len(x.Rhs) != 1 || len(x.Lhs) < 2 {
		return nil, false
	}
	call, ok := unparen(x.Rhs[0]).(*ast.CallExpr)
	if !ok {
		return nil, false
	}
	fn := calleeOf(e.info, call)
	if fn == nil || fn.Pkg() == nil || fn.Pkg().Path() != "github.com/rivo/uniseg" {
		return nil, false
	}
	switch fn.Name() {
	case "FirstGraphemeClusterInString", "FirstGraphemeCluster", "StepString", "Step":
	default:
		return nil, false
	}
	id, ok := unparen(x.Lhs[1]).(*ast.Ident)
	if !ok || id.Name == "_" {
		return nil, false
	}
	o := e.info.ObjectOf(id)
	if o == nil || !fr.tracks(o) {
		return nil, false
	}
	if bt, ok := o.Type().Underlying().(*types.Basic); !ok || bt.Info()&types.IsString == 0 {
		return nil, false // the []byte form: its emptiness is not tracked
	}
	key := fmt.Sprint(call.Pos())
	site := e.nsites[key]
	if site == nil {
		site = &c02nSite{call: call, where: fr.name, bad: map[string]string{}}
		e.nsites[key] = site
	}
	out := c02mSet{}
	for _, s := range c02mSet(e.assignAll(fr, cur, x.Lhs)).list() {
		if s.rs != c02mRR {
			out.add(s) // nothing was read ahead in this activation: the judgement is about runes the caller delivered
			continue
		}
		site.judged++
		if s.pend != "" {
			if _, dup := site.bad[fr.name+"/again"]; !dup {
				site.bad[fr.name+"/again"] = strings.Join(e.stack, " -> ") + " (another rune is read ahead while the previous one is still outstanding)"
			}
		}
		out.add(e.setVar(fr, s, id, constant.MakeString("")))
		b := e.setVar(fr, s, id, c02mNonEmpty)
		b.pend = key
		out.add(b)
	}
	return out, true
}

// mentionsNonEmpty: the node uses (not merely assigns) a variable that holds the abstract non-empty value.
func (e *c02mEng) mentionsNonEmpty(n ast.Node, env map[types.Object]constant.Value) bool {
	if n == nil || len(env) == 0 {
		return false
	}
	skip := map[*ast.Ident]bool{}
	found := false
	inspectNoLit(n, func(k ast.Node) bool {
		switch t := k.(type) {
		case *ast.AssignStmt:
			if t.Tok == token.ASSIGN || t.Tok == token.DEFINE {
				for _, l := range t.Lhs {
					if id, ok := unparen(l).(*ast.Ident); ok {
						skip[id] = true
					}
				}
			}
		case *ast.FuncLit:
			ast.Inspect(t.Body, func(m ast.Node) bool {
				if id, ok := m.(*ast.Ident); ok {
					if o := e.info.ObjectOf(id); o != nil && c02mIsNonEmpty(env[o]) {
						found = true
					}
				}
				return true
			})
		case *ast.Ident:
			if !skip[t] {
				if o := e.info.ObjectOf(t); o != nil && c02mIsNonEmpty(env[o]) {
					found = true
				}
			}
		}
		return true
	})
	return found
}

// dropPendIfUsed: the judgement's result is used in a way the rule does not evaluate (copied, passed to a
// function): what becomes of the outstanding rune cannot be followed from here on; the path is not judged.
func (e *c02mEng) dropPendIfUsed(fr *c02mFrame, n ast.Node, in c02mSet) c02mSet {
	any := false
	for _, s := range c02mSet(in).list() {
		if s.pend != "" && e.mentionsNonEmpty(n, s.env) {
			any = true
		}
	}
	if !any {
		return in
	}
	out := c02mSet{}
	for _, s := range c02mSet(in).list() {
		if s.pend != "" && e.mentionsNonEmpty(n, s.env) {
			if ns := e.nsites[s.pend]; ns != nil {
				ns.escaped = true
			}
			s.pend = ""
		}
		out.add(s)
	}
	return out
}

func c02mZero(t types.Type) constant.Value {
	if t == nil {
		return nil
	}
	b, ok := t.Underlying().(*types.Basic)
	if !ok {
		return nil
	}
	switch {
	case b.Info()&types.IsBoolean != 0:
		return constant.MakeBool(false)
	case b.Info()&types.IsString != 0:
		return constant.MakeString("")
	case b.Info()&types.IsInteger != 0:
		return constant.MakeInt64(0)
	}
	return nil
}

func (e *c02mEng) setVar(fr *c02mFrame, s c02mState, lhs ast.Expr, v constant.Value) c02mState {
	id, ok := unparen(lhs).(*ast.Ident)
	if !ok || id.Name == "_" {
		return s
	}
	o := e.info.ObjectOf(id)
	if o == nil {
		return s
	}
	_, had := s.env[o]
	if v == nil && !had {
		return s
	}
	if v != nil && !fr.tracks(o) {
		return s
	}
	env := map[types.Object]constant.Value{}
	for k, x := range s.env {
		env[k] = x
	}
	if v == nil {
		delete(env, o)
	} else {
		env[o] = v
	}
	return c02mState{rs: s.rs, df: s.df, pend: s.pend, env: env}
}

func (e *c02mEng) assignAll(fr *c02mFrame, in c02mSet, lhs []ast.Expr) c02mSet {
	out := c02mSet{}
	for _, s := range c02mSet(in).list() {
		ns := s
		for _, l := range lhs {
			ns = e.setVar(fr, ns, l, nil)
		}
		out.add(ns)
	}
	return out
}

// ---------------------------------------------------------------------------------------------------------
// values of flag variables and the feasibility of branches

func (e *c02mEng) valueOf(fr *c02mFrame, x ast.Expr, env map[types.Object]constant.Value) constant.Value {
	x = unparen(x)
	if tv, ok := e.info.Types[x]; ok && tv.Value != nil {
		return tv.Value
	}
	if id, ok := x.(*ast.Ident); ok {
		if o := e.info.ObjectOf(id); o != nil {
			if v, ok := env[o]; ok {
				return v
			}
		}
	}
	return nil
}

const (
	c02mU = 0
	c02mT = 1
	c02mF = 2
)

func c02mMirror(op token.Token) token.Token {
	switch op {
	case token.LSS:
		return token.GTR
	case token.LEQ:
		return token.GEQ
	case token.GTR:
		return token.LSS
	case token.GEQ:
		return token.LEQ
	}
	return op
}

// lenCompare: len(x) op k  /  k op len(x)  for a string variable whose value (or non-emptiness) is tracked.
func (e *c02mEng) lenCompare(b *ast.BinaryExpr, env map[types.Object]constant.Value) (int, bool) {
	lenArg := func(x ast.Expr) constant.Value {
		call, ok := unparen(x).(*ast.CallExpr)
		if !ok || len(call.Args) != 1 {
			return nil
		}
		id, ok := unparen(call.Fun).(*ast.Ident)
		if !ok {
			return nil
		}
		if bi, ok := e.info.Uses[id].(*types.Builtin); !ok || bi.Name() != "len" {
			return nil
		}
		arg, ok := unparen(call.Args[0]).(*ast.Ident)
		if !ok {
			return nil
		}
		if o := e.info.ObjectOf(arg); o != nil {
			if v, ok := env[o]; ok && v.Kind() == constant.String {
				return v
			}
		}
		return nil
	}
	op := b.Op
	sv := lenArg(b.X)
	other := b.Y
	if sv == nil {
		sv = lenArg(b.Y)
		other = b.X
		op = c02mMirror(op)
	}
	if sv == nil {
		return c02mU, false
	}
	tv, ok := e.info.Types[unparen(other)]
	if !ok || tv.Value == nil || tv.Value.Kind() != constant.Int {
		return c02mU, true
	}
	k, exact := constant.Int64Val(tv.Value)
	if !exact {
		return c02mU, true
	}
	if !c02mIsNonEmpty(sv) {
		return c02mCompare(constant.MakeInt64(int64(len(constant.StringVal(sv)))), op, tv.Value), true
	}
	// the length is some n >= 1
	switch op {
	case token.GTR:
		if k < 1 {
			return c02mT, true
		}
	case token.GEQ:
		if k <= 1 {
			return c02mT, true
		}
	case token.NEQ:
		if k < 1 {
			return c02mT, true
		}
	case token.EQL:
		if k < 1 {
			return c02mF, true
		}
	case token.LSS:
		if k <= 1 {
			return c02mF, true
		}
	case token.LEQ:
		if k < 1 {
			return c02mF, true
		}
	}
	return c02mU, true
}

func c02mNot(v int) int {
	switch v {
	case c02mT:
		return c02mF
	case c02mF:
		return c02mT
	}
	return c02mU
}

func c02mCompare(a constant.Value, op token.Token, b constant.Value) (res int) {
	defer func() {
		if recover() != nil {
			res = c02mU
		}
	}()
	if a == nil || b == nil || a.Kind() == constant.Unknown || b.Kind() == constant.Unknown {
		return c02mU
	}
	if c02mIsNonEmpty(a) || c02mIsNonEmpty(b) {
		other := b
		if c02mIsNonEmpty(b) {
			other = a
			op = c02mMirror(op)
		}
		if c02mIsNonEmpty(other) || other.Kind() != constant.String || constant.StringVal(other) != "" {
			return c02mU
		}
		switch op { // <non-empty> op ""
		case token.NEQ, token.GTR, token.GEQ:
			return c02mT
		case token.EQL, token.LSS, token.LEQ:
			return c02mF
		}
		return c02mU
	}
	num := func(k constant.Kind) bool { return k == constant.Int || k == constant.Float }
	if a.Kind() != b.Kind() && !(num(a.Kind()) && num(b.Kind())) {
		return c02mU
	}
	if a.Kind() == constant.Bool && op != token.EQL && op != token.NEQ {
		return c02mU
	}
	if constant.Compare(a, op, b) {
		return c02mT
	}
	return c02mF
}

func (e *c02mEng) eval(fr *c02mFrame, x ast.Expr, env map[types.Object]constant.Value) int {
	x = unparen(x)
	if v := e.valueOf(fr, x, env); v != nil && v.Kind() == constant.Bool {
		if constant.BoolVal(v) {
			return c02mT
		}
		return c02mF
	}
	switch b := x.(type) {
	case *ast.UnaryExpr:
		if b.Op == token.NOT {
			return c02mNot(e.eval(fr, b.X, env))
		}
	case *ast.BinaryExpr:
		switch b.Op {
		case token.LAND:
			l, r := e.eval(fr, b.X, env), e.eval(fr, b.Y, env)
			if l == c02mF || r == c02mF {
				return c02mF
			}
			if l == c02mT && r == c02mT {
				return c02mT
			}
		case token.LOR:
			l, r := e.eval(fr, b.X, env), e.eval(fr, b.Y, env)
			if l == c02mT || r == c02mT {
				return c02mT
			}
			if l == c02mF && r == c02mF {
				return c02mF
			}
		case token.EQL, token.NEQ, token.LSS, token.LEQ, token.GTR, token.GEQ:
			if r, ok := e.lenCompare(b, env); ok {
				return r
			}
			return c02mCompare(e.valueOf(fr, b.X, env), b.Op, e.valueOf(fr, b.Y, env))
		}
	}
	return c02mU
}

func (e *c02mEng) refine(fr *c02mFrame, x ast.Expr, truth bool, s c02mState) c02mState {
	x = unparen(x)
	switch b := x.(type) {
	case *ast.Ident:
		if o := e.info.ObjectOf(b); o != nil && fr.tracks(o) {
			if bt, ok := o.Type().Underlying().(*types.Basic); ok && bt.Info()&types.IsBoolean != 0 {
				return e.setVar(fr, s, b, constant.MakeBool(truth))
			}
		}
	case *ast.UnaryExpr:
		if b.Op == token.NOT {
			return e.refine(fr, b.X, !truth, s)
		}
	case *ast.BinaryExpr:
		switch {
		case b.Op == token.LAND && truth, b.Op == token.LOR && !truth:
			return e.refine(fr, b.Y, truth, e.refine(fr, b.X, truth, s))
		case b.Op == token.EQL && truth, b.Op == token.NEQ && !truth:
			return e.refineEq(fr, b.X, b.Y, s)
		}
	}
	return s
}

func (e *c02mEng) refineEq(fr *c02mFrame, a, b ast.Expr, s c02mState) c02mState {
	va, vb := e.valueOf(fr, a, s.env), e.valueOf(fr, b, s.env)
	switch {
	case va == nil && vb != nil:
		return e.setVar(fr, s, a, vb)
	case vb == nil && va != nil:
		return e.setVar(fr, s, b, va)
	}
	return s
}

func (e *c02mEng) assume(fr *c02mFrame, cond *Cond, truth bool, s c02mState) (c02mState, bool) {
	var v int
	if cond.Tag != nil {
		v = c02mCompare(e.valueOf(fr, cond.Tag, s.env), token.EQL, e.valueOf(fr, cond.Expr, s.env))
	} else {
		v = e.eval(fr, cond.Expr, s.env)
	}
	if (truth && v == c02mF) || (!truth && v == c02mT) {
		return s, false
	}
	if v == c02mU && s.pend != "" && (e.mentionsNonEmpty(cond.Expr, s.env) || (cond.Tag != nil && e.mentionsNonEmpty(cond.Tag, s.env))) {
		if ns := e.nsites[s.pend]; ns != nil {
			ns.escaped = true
		}
		s.pend = ""
	}
	if cond.Tag != nil {
		if truth {
			return e.refineEq(fr, cond.Tag, cond.Expr, s), true
		}
		return s, true
	}
	return e.refine(fr, cond.Expr, truth, s), true
}

// ---------------------------------------------------------------------------------------------------------
// reader identity

// singleDef: the defining expression of a local that is assigned exactly once in the enclosing declaration
// (n = number of assignments found; a range binding counts as many).
func (e *c02mEng) singleDef(fr *c02mFrame, o types.Object) (def ast.Expr, n int) {
	var outer *ast.FuncDecl
	for f := fr; f != nil && outer == nil; f = f.parent {
		outer = f.outer
	}
	if outer == nil || outer.Body == nil {
		return nil, 2
	}
	ast.Inspect(outer.Body, func(k ast.Node) bool {
		switch s := k.(type) {
		case *ast.AssignStmt:
			for i, l := range s.Lhs {
				if id, ok := unparen(l).(*ast.Ident); ok && e.info.ObjectOf(id) == o {
					n++
					if len(s.Lhs) == len(s.Rhs) && (s.Tok == token.ASSIGN || s.Tok == token.DEFINE) {
						def = s.Rhs[i]
					} else {
						n++
					}
				}
			}
		case *ast.ValueSpec:
			for i, nm := range s.Names {
				if e.info.Defs[nm] == o && len(s.Values) > 0 {
					n++
					if len(s.Values) == len(s.Names) {
						def = s.Values[i]
					} else {
						n++
					}
				}
			}
		case *ast.RangeStmt:
			for _, x := range []ast.Expr{s.Key, s.Value} {
				if x != nil {
					if id, ok := unparen(x).(*ast.Ident); ok && e.info.ObjectOf(id) == o {
						n += 2
					}
				}
			}
		}
		return true
	})
	if n == 1 {
		return def, 1
	}
	return nil, n
}

// resolve: which reader object an expression of reader type denotes. (nil, true) = a fresh / other object.
func (e *c02mEng) resolve(fr *c02mFrame, x ast.Expr, depth int) (types.Object, bool) {
	if depth > 8 {
		return nil, false
	}
	x = unparen(x)
	switch t := x.(type) {
	case *ast.StarExpr:
		return e.resolve(fr, t.X, depth+1)
	case *ast.UnaryExpr:
		if t.Op == token.AND {
			return e.resolve(fr, t.X, depth+1)
		}
	case *ast.CompositeLit:
		return nil, true
	case *ast.SelectorExpr:
		if s := e.info.Selections[t]; s != nil {
			if s.Kind() == types.FieldVal {
				return s.Obj(), true
			}
			return nil, false
		}
		if o := e.info.Uses[t.Sel]; o != nil {
			if _, isVar := o.(*types.Var); isVar {
				return o, true // a package-level variable of another package
			}
		}
	case *ast.Ident:
		o := e.info.ObjectOf(t)
		if o == nil {
			return nil, false
		}
		if _, isNil := o.(*types.Nil); isNil {
			return nil, true
		}
		v, isVar := o.(*types.Var)
		if !isVar {
			return nil, false
		}
		if v.Parent() == e.pk.Types.Scope() {
			return o, true
		}
		for f := fr; f != nil; f = f.parent {
			if b, ok := f.bind[o]; ok {
				return b.id, b.known
			}
		}
		if _, isPtr := v.Type().Underlying().(*types.Pointer); !isPtr {
			if _, isIface := v.Type().Underlying().(*types.Interface); !isIface {
				return o, true // a local of value type (var buf bytes.Buffer) is an object of its own
			}
		}
		def, n := e.singleDef(fr, o)
		switch {
		case n == 0:
			return o, true // declared without a value (var buf bytes.Buffer): an object of its own
		case n == 1 && def != nil:
			return e.resolve(fr, def, depth+1)
		}
		return nil, false
	case *ast.CallExpr:
		if tv, ok := e.info.Types[t.Fun]; ok && tv.IsType() && len(t.Args) == 1 {
			return e.resolve(fr, t.Args[0], depth+1)
		}
		fn := calleeOf(e.info, t)
		if fn == nil {
			return nil, false
		}
		fi := e.c.P.FuncOfObj(fn)
		if fi == nil || fi.Pkg != e.pk {
			return nil, true // a constructor of another package (bufio.NewReader): a fresh reader
		}
		// an accessor: a single `return <expr>`
		if fi.Decl.Body != nil && len(fi.Decl.Body.List) == 1 {
			if rs, ok := fi.Decl.Body.List[0].(*ast.ReturnStmt); ok && len(rs.Results) == 1 {
				bind := map[types.Object]c02mBind{}
				i := 0
				if fi.Decl.Type.Params != nil {
					for _, fld := range fi.Decl.Type.Params.List {
						for _, nm := range fld.Names {
							if o := e.info.Defs[nm]; o != nil && c02mIsReader(o.Type()) && i < len(t.Args) {
								id, known := e.resolve(fr, t.Args[i], depth+1)
								bind[o] = c02mBind{id: id, known: known}
							}
							i++
						}
						if len(fld.Names) == 0 {
							i++
						}
					}
				}
				return e.resolve(e.declFrame(fi, bind), rs.Results[0], depth+1)
			}
		}
		return nil, false
	}
	return nil, false
}

// ---------------------------------------------------------------------------------------------------------
// calls

func (e *c02mEng) readerOp(fr *c02mFrame, call *ast.CallExpr, recv ast.Expr, viaField types.Object, name, rs string) []string {
	var id types.Object
	known := true
	if viaField != nil {
		id = viaField
	} else {
		id, known = e.resolve(fr, recv, 0)
	}
	apply := func() string {
		switch {
		case name == "ReadRune":
			return c02mRR
		case c02mTransparent[name]:
			return rs
		case name == "UnreadRune":
			s := e.sites[call]
			if s == nil {
				s = &c02mSite{call: call, where: fr.name, bad: map[string]string{}}
				e.sites[call] = s
				e.siteOrder = append(e.siteOrder, s)
			}
			if rs == c02mRR || rs == c02mRRe {
				s.okCtx++
			} else if _, dup := s.bad[rs]; !dup {
				s.bad[rs] = strings.Join(e.stack, " -> ")
			}
			return "!UnreadRune in " + fr.name
		}
		return "!" + name + " in " + fr.name
	}
	if !known {
		e.unknown[fr.name+"/reader of "+name+" not identified"] = call.Pos()
		return []string{rs}
	}
	if id != e.key {
		return []string{rs}
	}
	return []string{apply()}
}

// passesReader: an argument of the call is the tracked reader (or a reader the rule cannot identify).
func (e *c02mEng) passesReader(fr *c02mFrame, call *ast.CallExpr) bool {
	exprs := append([]ast.Expr{}, call.Args...)
	if sel, ok := unparen(call.Fun).(*ast.SelectorExpr); ok {
		if s := e.info.Selections[sel]; s != nil {
			exprs = append(exprs, sel.X)
		}
	}
	for _, a := range exprs {
		if !c02mIsReader(e.info.TypeOf(a)) {
			continue
		}
		if id, known := e.resolve(fr, a, 0); known && id == e.key {
			return true
		}
	}
	return false
}

func (e *c02mEng) callDecl(fr *c02mFrame, fi *FuncInfo, call *ast.CallExpr, rs string) []string {
	save := e.stack
	e.stack = append(append([]string{}, save...), fi.Name)
	r := e.enterDecl(fr, fi, call, rs)
	e.stack = save
	return c02mKeys(r)
}

func (e *c02mEng) callLit(fr *c02mFrame, l *ast.FuncLit, rs string) []string {
	save := e.stack
	e.stack = append(append([]string{}, save...), fr.name+"/func literal")
	// the literal's lexical parent is the frame of the function it is written in
	parent := fr
	r := e.enterLit(parent, l, rs)
	e.stack = save
	return c02mKeys(r)
}

func c02mKeys(m map[string]bool) []string {
	var out []string
	for k := range m {
		out = append(out, k)
	}
	sort.Strings(out)
	return out
}

func (e *c02mEng) callEffect(fr *c02mFrame, call *ast.CallExpr, rs string) []string {
	if tv, ok := e.info.Types[call.Fun]; ok && tv.IsType() {
		return []string{rs}
	}
	fun := unparen(call.Fun)
	if id, ok := fun.(*ast.Ident); ok {
		if _, isB := e.info.Uses[id].(*types.Builtin); isB {
			return []string{rs}
		}
	}
	if l, ok := fun.(*ast.FuncLit); ok {
		return e.callLit(fr, l, rs)
	}
	// a method of a rune reader
	if sel, ok := fun.(*ast.SelectorExpr); ok {
		if s := e.info.Selections[sel]; s != nil && s.Kind() == types.MethodVal {
			if m, ok := s.Obj().(*types.Func); ok {
				if sig, ok := m.Type().(*types.Signature); ok && sig.Recv() != nil && c02mIsReader(sig.Recv().Type()) {
					var via types.Object
					if idx := s.Index(); len(idx) > 1 {
						// promoted through embedded fields: the last embedded field is the reader
						t := s.Recv()
						for _, i := range idx[:len(idx)-1] {
							if p, ok := t.Underlying().(*types.Pointer); ok {
								t = p.Elem()
							}
							st, ok := t.Underlying().(*types.Struct)
							if !ok {
								break
							}
							via = st.Field(i)
							t = st.Field(i).Type()
						}
					}
					return e.readerOp(fr, call, sel.X, via, m.Name(), rs)
				}
			}
		}
	}
	if fn := calleeOf(e.info, call); fn != nil {
		if fi := e.c.P.FuncOfObj(fn); fi != nil && fi.Pkg == e.pk && fi.Decl.Body != nil {
			return e.callDecl(fr, fi, call, rs)
		}
		if sig, ok := fn.Type().(*types.Signature); ok && sig.Recv() != nil {
			if iface, ok := sig.Recv().Type().Underlying().(*types.Interface); ok {
				// an interface call: the implementations of the package
				out := map[string]bool{}
				n := 0
				scope := e.pk.Types.Scope()
				for _, nm := range scope.Names() {
					tn, ok := scope.Lookup(nm).(*types.TypeName)
					if !ok {
						continue
					}
					for _, t := range []types.Type{tn.Type(), types.NewPointer(tn.Type())} {
						if _, isI := t.Underlying().(*types.Interface); isI || !types.Implements(t, iface) {
							continue
						}
						obj, _, _ := types.LookupFieldOrMethod(t, true, e.pk.Types, fn.Name())
						if m, ok := obj.(*types.Func); ok {
							if fi := e.c.P.FuncOfObj(m); fi != nil && fi.Pkg == e.pk && fi.Decl.Body != nil {
								n++
								for _, o := range e.callDecl(fr, fi, nil, rs) {
									out[o] = true
								}
							}
						}
						break
					}
				}
				if n > 0 {
					return c02mKeys(out)
				}
			}
		}
		if e.passesReader(fr, call) {
			return []string{"!the reader was handed to " + fullName(fn) + " in " + fr.name}
		}
		return []string{rs}
	}
	// a function value
	if id, ok := fun.(*ast.Ident); ok {
		if v, ok := e.info.ObjectOf(id).(*types.Var); ok && v.Parent() != e.pk.Types.Scope() {
			if def, n := e.singleDef(fr, v); n == 1 && def != nil {
				switch d := unparen(def).(type) {
				case *ast.FuncLit:
					return e.callLit(fr, d, rs)
				case *ast.SelectorExpr:
					if s := e.info.Selections[d]; s != nil && s.Kind() == types.MethodVal {
						if m, ok := s.Obj().(*types.Func); ok {
							if sig, ok := m.Type().(*types.Signature); ok && sig.Recv() != nil && c02mIsReader(sig.Recv().Type()) && len(s.Index()) == 1 {
								return e.readerOp(fr, call, d.X, nil, m.Name(), rs)
							}
							if fi := e.c.P.FuncOfObj(m); fi != nil && fi.Pkg == e.pk && fi.Decl.Body != nil {
								return e.callDecl(fr, fi, call, rs)
							}
						}
					}
				case *ast.Ident:
					if m, ok := e.info.ObjectOf(d).(*types.Func); ok {
						if fi := e.c.P.FuncOfObj(m); fi != nil && fi.Pkg == e.pk && fi.Decl.Body != nil {
							return e.callDecl(fr, fi, call, rs)
						}
					}
				}
			}
		}
	}
	sig, _ := e.info.TypeOf(call.Fun).Underlying().(*types.Signature)
	if sig == nil {
		return []string{rs}
	}
	out := map[string]bool{}
	n := 0
	for _, fi := range e.valueFns {
		if types.Identical(fi.Obj.Type().(*types.Signature).Params(), sig.Params()) && types.Identical(fi.Obj.Type().(*types.Signature).Results(), sig.Results()) {
			n++
			for _, o := range e.callDecl(fr, fi, call, rs) {
				out[o] = true
			}
		}
	}
	var lits []*ast.FuncLit
	for l := range e.litOwner {
		lits = append(lits, l)
	}
	sort.Slice(lits, func(i, j int) bool { return lits[i].Pos() < lits[j].Pos() })
	for _, l := range lits {
		lt, _ := e.info.TypeOf(l).(*types.Signature)
		if lt == nil || !types.Identical(lt.Params(), sig.Params()) || !types.Identical(lt.Results(), sig.Results()) {
			continue
		}
		if !c02mTouches(e, l) {
			continue
		}
		n++
		owner := e.litOwner[l]
		save := e.stack
		e.stack = append(append([]string{}, save...), owner.Name+"/func literal")
		var parent *c02mFrame
		if fr.outer == owner.Decl {
			parent = fr
		} else {
			parent = e.declFrame(owner, nil)
		}
		for o := range e.enterLit(parent, l, rs) {
			out[o] = true
		}
		e.stack = save
	}
	if n == 0 {
		if e.passesReader(fr, call) {
			return []string{"!the reader was handed to a function value in " + fr.name}
		}
		return []string{rs}
	}
	return c02mKeys(out)
}

// c02mTouches: the literal's body contains a call at all that could reach the reader (a method call on a rune
// reader or a call of a package function). Literals that cannot are not candidates of a dynamic call.
func c02mTouches(e *c02mEng, l *ast.FuncLit) bool {
	found := false
	ast.Inspect(l.Body, func(n ast.Node) bool {
		call, ok := n.(*ast.CallExpr)
		if !ok {
			return true
		}
		if sel, ok := unparen(call.Fun).(*ast.SelectorExpr); ok {
			if s := e.info.Selections[sel]; s != nil && s.Kind() == types.MethodVal && c02mIsReader(s.Recv()) {
				found = true
			}
		}
		if fn := calleeOf(e.info, call); fn != nil {
			if fi := e.c.P.FuncOfObj(fn); fi != nil && fi.Pkg == e.pk {
				found = true
			}
		} else if tv, ok := e.info.Types[call.Fun]; !ok || !tv.IsType() {
			found = true
		}
		return true
	})
	return found
}
