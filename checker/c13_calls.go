package main

// c13_calls.go — calls of the C13 evaluator: conversions, builtins, a few
// standard-library functions modelled natively (fmt.Sprintf, unicode.*,
// bytes.Buffer, sync/atomic loads/stores, writes to the PTY stand-in), and
// interpretation of repository functions.

import (
	"fmt"
	"go/ast"
	"go/types"
	"strconv"
	"strings"
	"unicode"
	"unicode/utf8"
)

func (m *c13M) call(fr *c13Frame, call *ast.CallExpr, used bool) c13V {
	r := m.callN(fr, call, used)
	if len(r) == 1 {
		return r[0]
	}
	if len(r) == 0 {
		return c13unk("call %s has no value", types.ExprString(call.Fun))
	}
	return c13unk("multi-value call %s in single-value context", types.ExprString(call.Fun))
}

func (m *c13M) callMulti(fr *c13Frame, call *ast.CallExpr) []c13V { return m.callN(fr, call, true) }

func (m *c13M) args(fr *c13Frame, call *ast.CallExpr) []c13V {
	out := make([]c13V, len(call.Args))
	for i, a := range call.Args {
		out[i] = m.copyV(m.eval(fr, a))
	}
	return out
}

func (m *c13M) callN(fr *c13Frame, call *ast.CallExpr, used bool) []c13V {
	m.tick(call)
	one := func(v c13V) []c13V { return []c13V{v} }
	fun := unparen(call.Fun)
	// conversion
	if tv, ok := fr.info.Types[fun]; ok && tv.IsType() {
		if len(call.Args) != 1 {
			return one(c13unk("conversion arity"))
		}
		return one(m.convert(m.eval(fr, call.Args[0]), tv.Type, call))
	}
	// builtins
	if id, ok := fun.(*ast.Ident); ok {
		if b, isB := fr.info.Uses[id].(*types.Builtin); isB {
			return one(m.builtin(fr, b.Name(), call))
		}
	}
	// immediately-invoked function literal
	if lit, ok := fun.(*ast.FuncLit); ok && len(call.Args) == 0 {
		inner := &c13Frame{pkg: fr.pkg, info: fr.info, env: fr.env, fn: fr.fn + "/lit", result: lit.Type.Results}
		m.block(inner, lit.Body.List)
		return inner.ret
	}
	fn := calleeOf(fr.info, call)
	if fn == nil {
		m.args(fr, call)
		return one(c13unk("dynamic call %s", types.ExprString(call.Fun)))
	}
	var recv *c13V
	if sel, ok := fun.(*ast.SelectorExpr); ok {
		if s, ok := fr.info.Selections[sel]; ok && s.Kind() == types.MethodVal {
			rv := m.eval(fr, sel.X)
			// method on an addressable struct value with pointer receiver: take the address
			if sig := fn.Type().(*types.Signature); sig.Recv() != nil {
				if _, wantPtr := sig.Recv().Type().Underlying().(*types.Pointer); wantPtr && rv.k == c13Struct {
					slot := m.lval(fr, sel.X)
					rv = c13V{k: c13Ptr, st: slot.st}
				}
			}
			if len(s.Index()) > 1 {
				return one(c13unk("promoted method %s", fn.Name()))
			}
			recv = &rv
		}
	}
	full := fullName(fn)
	if out, ok := m.native(fr, full, fn, recv, call); ok {
		return out
	}
	if fn.Pkg() != nil && m.follow[fn.Pkg().Path()] {
		fi := m.decls[fn]
		if fi == nil && fn.Origin() != fn {
			fi = m.decls[fn.Origin()]
		}
		if fi != nil && fi.Decl.Body != nil {
			if recv != nil && !used && !m.allMatter && !m.matters(fn) {
				// a method of the modelled object that neither writes to the child nor changes a
				// tracked field nor posts an event: no effect on what is decided here
				return nil
			}
			return m.callDecl(fi, recv, m.args(fr, call), call)
		}
	}
	m.args(fr, call)
	sig := fn.Type().(*types.Signature)
	out := make([]c13V, sig.Results().Len())
	for i := range out {
		out[i] = c13unk("result of %s (not interpreted)", full)
	}
	return out
}

func (m *c13M) callDecl(fi *FuncInfo, recv *c13V, args []c13V, at ast.Node) []c13V {
	m.depth++
	defer func() { m.depth-- }()
	if m.depth > 24 {
		m.abort("call depth exceeded in %s", fi.Name)
	}
	fd := fi.Decl
	fr := &c13Frame{pkg: fi.Pkg, info: fi.Pkg.TypesInfo, env: map[types.Object]*c13V{}, fn: fi.Name, result: fd.Type.Results}
	if fd.Recv != nil && recv != nil {
		for _, f := range fd.Recv.List {
			for _, n := range f.Names {
				v := *recv
				if _, isPtr := fr.info.Defs[n].Type().Underlying().(*types.Pointer); !isPtr && v.k == c13Ptr && v.st != nil {
					v = m.copyV(c13V{k: c13Struct, st: v.st, typ: v.st.typ})
				}
				fr.env[fr.info.Defs[n]] = &v
			}
		}
	}
	sig := fi.Obj.Type().(*types.Signature)
	i := 0
	np := sig.Params().Len()
	for _, f := range fd.Type.Params.List {
		names := f.Names
		if len(names) == 0 {
			i++
			continue
		}
		for _, n := range names {
			var v c13V
			if sig.Variadic() && i == np-1 {
				if _, isEllipsisCall := at.(*ast.CallExpr); isEllipsisCall && at.(*ast.CallExpr).Ellipsis.IsValid() && i < len(args) {
					v = args[i]
				} else {
					v = c13V{k: c13Slice, typ: sig.Params().At(i).Type()}
					if i < len(args) {
						v.el = append([]c13V{}, args[i:]...)
					}
				}
			} else if i < len(args) {
				v = args[i]
			} else {
				v = c13unk("missing argument")
			}
			if o := fr.info.Defs[n]; o != nil {
				vv := v
				fr.env[o] = &vv
			}
			i++
		}
	}
	if fd.Type.Results != nil {
		for _, f := range fd.Type.Results.List {
			for _, n := range f.Names {
				if o := fr.info.Defs[n]; o != nil {
					z := m.zero(o.Type())
					fr.env[o] = &z
				}
			}
		}
	}
	m.block(fr, fd.Body.List)
	for j := len(fr.defers) - 1; j >= 0; j-- {
		fr.defers[j]()
	}
	if fr.ret == nil && sig.Results().Len() > 0 && fd.Type.Results != nil {
		// fell off the end with named results
		for _, f := range fd.Type.Results.List {
			for _, n := range f.Names {
				if sl := fr.env[fr.info.Defs[n]]; sl != nil {
					fr.ret = append(fr.ret, *sl)
				}
			}
		}
	}
	return fr.ret
}

// matters: does the (transitive, same followed packages) body of fn write to
// the PTY stand-in, store to a tracked field, or send on a channel?
func (m *c13M) matters(fn *types.Func) bool {
	switch m.mattersM[fn] {
	case 1:
		return true
	case 2, 3:
		return false
	}
	m.mattersM[fn] = 3 // in progress
	fi := m.decls[fn]
	res := false
	if fi != nil && fi.Decl.Body != nil {
		info := fi.Pkg.TypesInfo
		ast.Inspect(fi.Decl.Body, func(n ast.Node) bool {
			if res {
				return false
			}
			switch n := n.(type) {
			case *ast.SendStmt:
				res = true
			case *ast.SelectorExpr:
				if s, ok := info.Selections[n]; ok && s.Kind() == types.FieldVal {
					if v, _ := s.Obj().(*types.Var); v != nil && m.tracked[v] {
						res = true
					}
				}
			case *ast.CallExpr:
				if cf := calleeOf(info, n); cf != nil && cf.Pkg() != nil && m.follow[cf.Pkg().Path()] && cf != fn {
					if m.matters(cf) {
						res = true
					}
				}
			}
			return true
		})
	}
	if res {
		m.mattersM[fn] = 1
	} else {
		m.mattersM[fn] = 2
	}
	return res
}

func (m *c13M) convert(v c13V, t types.Type, at ast.Node) c13V {
	switch u := t.Underlying().(type) {
	case *types.Basic:
		switch {
		case u.Info()&types.IsInteger != 0:
			if v.k == c13Int {
				return m.mkInt(v.i, t, at)
			}
		case u.Info()&types.IsString != 0:
			switch v.k {
			case c13Int:
				return c13V{k: c13Str, s: string(rune(v.i)), typ: t}
			case c13Str:
				return c13V{k: c13Str, s: v.s, typ: t}
			case c13Slice:
				var sb strings.Builder
				for _, e := range v.el {
					if e.k != c13Int {
						return c13unk("string(slice with unknown element)")
					}
					if isByteSlice(v.typ) {
						sb.WriteByte(byte(e.i))
					} else {
						sb.WriteRune(rune(e.i))
					}
				}
				return c13V{k: c13Str, s: sb.String(), typ: t}
			}
		case u.Info()&types.IsBoolean != 0:
			if v.k == c13Bool {
				v.typ = t
				return v
			}
		}
		return c13unk("conversion to %s of unknown (%s)", t, v.why)
	case *types.Slice:
		if v.k == c13Str {
			out := c13V{k: c13Slice, typ: t, el: []c13V{}}
			if isByteSlice(t) {
				for i := 0; i < len(v.s); i++ {
					out.el = append(out.el, c13int(int64(v.s[i]), types.Typ[types.Uint8]))
				}
			} else {
				for _, r := range v.s {
					out.el = append(out.el, c13int(int64(r), types.Typ[types.Int32]))
				}
			}
			return out
		}
		if v.k == c13Slice || v.k == c13Nil {
			if v.k == c13Nil {
				return c13V{k: c13Slice, typ: t}
			}
			v.typ = t
			return v
		}
	case *types.Interface:
		return v
	default:
		if v.k != c13Unk {
			if v.k == c13Nil {
				return m.zero(t)
			}
			v.typ = t
			if v.k == c13Struct && v.st != nil {
				v = m.copyV(v)
				v.st.typ = t
			}
			return v
		}
	}
	return c13unk("conversion to %s (%s)", t, v.why)
}

func isByteSlice(t types.Type) bool {
	if t == nil {
		return false
	}
	s, ok := t.Underlying().(*types.Slice)
	if !ok {
		return false
	}
	b, ok := s.Elem().Underlying().(*types.Basic)
	return ok && b.Kind() == types.Uint8
}

func (m *c13M) builtin(fr *c13Frame, name string, call *ast.CallExpr) c13V {
	intT := types.Typ[types.Int]
	switch name {
	case "len", "cap":
		v := m.eval(fr, call.Args[0])
		switch v.k {
		case c13Slice:
			return c13int(int64(len(v.el)), intT)
		case c13Str:
			return c13int(int64(len(v.s)), intT)
		case c13Map:
			if v.m != nil {
				return c13int(int64(len(v.m.keys)), intT)
			}
		case c13Nil:
			return c13int(0, intT)
		}
		return c13unk("len of unknown %s (%s)", types.ExprString(call.Args[0]), v.why)
	case "append":
		base := m.eval(fr, call.Args[0])
		if base.k == c13Nil {
			base = c13V{k: c13Slice, typ: fr.info.TypeOf(call)}
		}
		if base.k != c13Slice {
			for _, a := range call.Args[1:] {
				m.eval(fr, a)
			}
			return c13unk("append to unknown slice")
		}
		out := c13V{k: c13Slice, typ: base.typ, el: append([]c13V{}, base.el...)}
		if call.Ellipsis.IsValid() {
			extra := m.eval(fr, call.Args[1])
			switch extra.k {
			case c13Slice:
				out.el = append(out.el, extra.el...)
			case c13Str:
				for i := 0; i < len(extra.s); i++ {
					out.el = append(out.el, c13int(int64(extra.s[i]), types.Typ[types.Uint8]))
				}
			default:
				return c13unk("append of unknown slice")
			}
			return out
		}
		for _, a := range call.Args[1:] {
			out.el = append(out.el, m.copyV(m.eval(fr, a)))
		}
		return out
	case "panic":
		m.gopanic("explicit panic at %s", m.c.P.Pos(call.Pos()))
	case "min", "max":
		var best c13V
		for i, a := range call.Args {
			v := m.eval(fr, a)
			if v.k != c13Int {
				return c13unk("%s of unknown", name)
			}
			if i == 0 || (name == "min" && v.i < best.i) || (name == "max" && v.i > best.i) {
				best = v
			}
		}
		return best
	case "make":
		t := fr.info.TypeOf(call)
		switch u := t.Underlying().(type) {
		case *types.Map:
			return c13V{k: c13Map, typ: t, m: &c13Tab{elem: u.Elem()}}
		case *types.Slice:
			n := int64(0)
			if len(call.Args) > 1 {
				v := m.eval(fr, call.Args[1])
				if v.k != c13Int {
					return c13unk("make with unknown length")
				}
				n = v.i
			}
			if n < 0 || n > 1<<16 {
				return c13unk("make length")
			}
			out := c13V{k: c13Slice, typ: t, el: []c13V{}}
			for i := int64(0); i < n; i++ {
				out.el = append(out.el, m.zero(u.Elem()))
			}
			return out
		}
		return c13unk("make(%s)", t)
	case "new":
		t := fr.info.TypeOf(call.Args[0])
		z := m.zero(t)
		if z.k == c13Struct {
			return c13V{k: c13Ptr, st: z.st}
		}
		return c13V{k: c13Ptr, loc: &z}
	case "copy":
		// copy(dst, src) between slices the evaluator holds (element-wise, in place: dst shares its
		// backing array with every alias, as in Go); src may be a string for a byte slice
		dst, src := m.eval(fr, call.Args[0]), m.eval(fr, call.Args[1])
		if dst.k == c13Nil || src.k == c13Nil {
			return c13int(0, intT)
		}
		if dst.k == c13Slice && (src.k == c13Slice || (src.k == c13Str && isByteSlice(dst.typ))) {
			n := 0
			if src.k == c13Str {
				for n < len(dst.el) && n < len(src.s) {
					dst.el[n] = c13int(int64(src.s[n]), types.Typ[types.Uint8])
					n++
				}
			} else {
				tmp := make([]c13V, len(src.el)) // overlapping ranges: copy behaves like memmove
				for i := range src.el {
					tmp[i] = m.copyV(src.el[i])
				}
				for n < len(dst.el) && n < len(tmp) {
					dst.el[n] = tmp[n]
					n++
				}
			}
			return c13int(int64(n), intT)
		}
		m.abort("builtin copy on values the evaluator does not hold at %s", m.c.P.Pos(call.Pos()))
	case "delete", "clear", "close":
		m.abort("builtin %s at %s", name, m.c.P.Pos(call.Pos()))
	case "print", "println":
		m.args(fr, call)
		return c13unk("no value")
	}
	m.args(fr, call)
	return c13unk("builtin %s", name)
}

// sprintf formats with the real fmt package after checking that the verbs and
// the argument kinds make the result independent of Stringer/Formatter methods.
func (m *c13M) sprintf(format string, args []c13V, at ast.Node) c13V {
	var goargs []any
	ai := 0
	for i := 0; i < len(format); i++ {
		if format[i] != '%' {
			continue
		}
		i++
		for i < len(format) && strings.ContainsRune("+-# 0123456789.", rune(format[i])) {
			i++
		}
		if i >= len(format) {
			return c13unk("bad format")
		}
		verb := format[i]
		if verb == '%' {
			continue
		}
		if ai >= len(args) {
			return c13unk("format has more verbs than arguments")
		}
		a := args[ai]
		ai++
		switch a.k {
		case c13Int:
			switch verb {
			case 'd', 'c', 'o', 'b', 'U':
			case 'x', 'X', 'v', 's', 'q':
				if a.typ != nil {
					if c13HasMethod(a.typ, "String") || c13HasMethod(a.typ, "Format") || c13HasMethod(a.typ, "Error") {
						return c13unk("%%%c of a value with a String/Format method", verb)
					}
				}
				if verb == 's' {
					return c13unk("%%s of an integer")
				}
			default:
				return c13unk("verb %%%c", verb)
			}
			unsigned := false
			if a.typ != nil {
				if b, ok := a.typ.Underlying().(*types.Basic); ok && b.Info()&types.IsUnsigned != 0 {
					unsigned = true
				}
			}
			if unsigned {
				goargs = append(goargs, uint64(a.i))
			} else {
				goargs = append(goargs, a.i)
			}
		case c13Str:
			switch verb {
			case 's', 'v', 'q', 'x', 'X':
			default:
				return c13unk("verb %%%c on a string", verb)
			}
			if a.typ != nil && (c13HasMethod(a.typ, "String") || c13HasMethod(a.typ, "Format") || c13HasMethod(a.typ, "Error")) {
				return c13unk("string type with String method")
			}
			goargs = append(goargs, a.s)
		case c13Bool:
			if verb != 'v' && verb != 't' {
				return c13unk("verb %%%c on a bool", verb)
			}
			goargs = append(goargs, a.b)
		default:
			return c13unk("format argument %d is not computable (%s)", ai, a.why)
		}
	}
	if ai != len(args) {
		return c13unk("format has fewer verbs than arguments")
	}
	return c13str(fmt.Sprintf(format, goargs...))
}

// appendBytes is append(base, txt...) for a byte slice (nil allowed) the evaluator holds concretely.
func (m *c13M) appendBytes(base c13V, txt string, fn *types.Func, why string, a ...any) c13V {
	var t types.Type
	if sig, ok := fn.Type().(*types.Signature); ok && sig.Results().Len() == 1 {
		t = sig.Results().At(0).Type()
	}
	switch base.k {
	case c13Nil:
		base = c13V{k: c13Slice, typ: t}
	case c13Slice:
		if base.typ == nil {
			base.typ = t
		}
	default:
		return c13unk(why+" (%s)", append(a, base.why)...)
	}
	out := c13V{k: c13Slice, typ: base.typ, el: append(make([]c13V, 0, len(base.el)+len(txt)), base.el...)}
	for i := 0; i < len(txt); i++ {
		out.el = append(out.el, c13int(int64(txt[i]), types.Typ[types.Uint8]))
	}
	return out
}

func c13HasMethod(t types.Type, name string) bool {
	for _, tt := range []types.Type{t, types.NewPointer(t)} {
		ms := types.NewMethodSet(tt)
		for i := 0; i < ms.Len(); i++ {
			if ms.At(i).Obj().Name() == name {
				return true
			}
		}
	}
	return false
}

func (m *c13M) sinkWrite(v c13V, at ast.Node) {
	switch v.k {
	case c13Str:
		m.writes = append(m.writes, v.s)
	case c13Slice:
		s := m.convert(v, types.Typ[types.String], at)
		if s.k != c13Str {
			m.abort("write of a byte slice the evaluator cannot compute at %s", m.c.P.Pos(at.Pos()))
		}
		m.writes = append(m.writes, s.s)
	default:
		m.abort("write to the child of a value the evaluator cannot compute at %s (%s)", m.c.P.Pos(at.Pos()), v.why)
	}
}

// native models a handful of standard-library calls. ok=false: not modelled.
func (m *c13M) native(fr *c13Frame, full string, fn *types.Func, recv *c13V, call *ast.CallExpr) ([]c13V, bool) {
	one := func(v c13V) ([]c13V, bool) { return []c13V{v}, true }
	intT := types.Typ[types.Int]
	// writes to the PTY stand-in through any method named Write/WriteString (os.File, io.Writer, io.StringWriter)
	if recv != nil && recv.k == c13Sink {
		switch fn.Name() {
		case "WriteString", "Write":
			a := m.args(fr, call)
			m.sinkWrite(a[0], call)
			n := int64(0)
			if len(m.writes) > 0 {
				n = int64(len(m.writes[len(m.writes)-1]))
			}
			return []c13V{c13int(n, intT), {k: c13Nil}}, true
		}
		m.abort("method %s on the PTY stand-in is not modelled (%s)", fn.Name(), m.c.P.Pos(call.Pos()))
	}
	if recv != nil && recv.k == c13Buf {
		a := m.args(fr, call)
		switch fn.Name() {
		case "WriteRune":
			if a[0].k != c13Int {
				m.abort("WriteRune of unknown at %s", m.c.P.Pos(call.Pos()))
			}
			recv.buf.WriteRune(rune(a[0].i))
			return []c13V{c13int(int64(utf8.RuneLen(rune(a[0].i))), intT), {k: c13Nil}}, true
		case "WriteByte":
			if a[0].k != c13Int {
				m.abort("WriteByte of unknown at %s", m.c.P.Pos(call.Pos()))
			}
			recv.buf.WriteByte(byte(a[0].i))
			return one(c13V{k: c13Nil})
		case "WriteString", "Write":
			s := a[0]
			if s.k == c13Slice {
				s = m.convert(s, types.Typ[types.String], call)
			}
			if s.k != c13Str {
				m.abort("buffer write of unknown at %s", m.c.P.Pos(call.Pos()))
			}
			recv.buf.WriteString(s.s)
			return []c13V{c13int(int64(len(s.s)), intT), {k: c13Nil}}, true
		case "String":
			return one(c13str(recv.buf.String()))
		case "Len":
			return one(c13int(int64(recv.buf.Len()), intT))
		case "Reset":
			recv.buf.Reset()
			return nil, true
		case "Bytes":
			return one(m.convert(c13str(recv.buf.String()), types.NewSlice(types.Typ[types.Uint8]), call))
		}
		m.abort("buffer method %s is not modelled (%s)", fn.Name(), m.c.P.Pos(call.Pos()))
	}
	switch full {
	case "fmt.Sprintf":
		a := m.args(fr, call)
		if len(a) == 0 || a[0].k != c13Str {
			return one(c13unk("Sprintf format unknown"))
		}
		rest := a[1:]
		if call.Ellipsis.IsValid() {
			if len(rest) == 1 && rest[0].k == c13Slice {
				rest = rest[0].el
			} else {
				return one(c13unk("Sprintf with spread arguments"))
			}
		}
		return one(m.sprintf(a[0].s, rest, call))
	case "fmt.Fprintf":
		a := m.args(fr, call)
		if len(a) >= 2 && a[0].k == c13Sink {
			if a[1].k != c13Str || call.Ellipsis.IsValid() {
				m.abort("Fprintf to the child with a format the evaluator cannot compute at %s", m.c.P.Pos(call.Pos()))
			}
			m.sinkWrite(m.sprintf(a[1].s, a[2:], call), call)
			return []c13V{c13unk("n"), {k: c13Nil}}, true
		}
		return nil, false
	case "fmt.Fprint", "io.WriteString":
		a := m.args(fr, call)
		if len(a) >= 1 && a[0].k == c13Sink {
			if len(a) != 2 || a[1].k != c13Str {
				m.abort("write to the child the evaluator cannot compute at %s", m.c.P.Pos(call.Pos()))
			}
			m.sinkWrite(a[1], call)
			return []c13V{c13unk("n"), {k: c13Nil}}, true
		}
		return nil, false
	case "bytes.NewBuffer", "bytes.NewBufferString":
		a := m.args(fr, call)
		b := &strings.Builder{}
		switch a[0].k {
		case c13Str:
			b.WriteString(a[0].s)
		case c13Slice:
			s := m.convert(a[0], types.Typ[types.String], call)
			if s.k != c13Str {
				return one(c13unk("NewBuffer of unknown"))
			}
			b.WriteString(s.s)
		case c13Nil:
		default:
			return one(c13unk("NewBuffer of unknown"))
		}
		return one(c13V{k: c13Buf, buf: b})
	case "sync/atomic.LoadInt32", "sync/atomic.LoadInt64", "sync/atomic.LoadUint32":
		a := m.args(fr, call)
		if a[0].k == c13Ptr && a[0].loc != nil {
			return one(*a[0].loc)
		}
		return one(c13unk("atomic load through unknown pointer"))
	case "sync/atomic.StoreInt32", "sync/atomic.StoreInt64", "sync/atomic.StoreUint32":
		a := m.args(fr, call)
		if a[0].k == c13Ptr && a[0].loc != nil {
			*a[0].loc = a[1]
			return nil, true
		}
		m.abort("atomic store through unknown pointer at %s", m.c.P.Pos(call.Pos()))
	case "strings.ToUpper", "strings.ToLower", "strings.TrimSpace":
		a := m.args(fr, call)
		if a[0].k != c13Str {
			return one(c13unk("%s of unknown", full))
		}
		switch full {
		case "strings.ToUpper":
			return one(c13str(strings.ToUpper(a[0].s)))
		case "strings.ToLower":
			return one(c13str(strings.ToLower(a[0].s)))
		}
		return one(c13str(strings.TrimSpace(a[0].s)))
	case "strings.HasPrefix", "strings.HasSuffix", "strings.Contains":
		a := m.args(fr, call)
		if a[0].k != c13Str || a[1].k != c13Str {
			return one(c13unk("%s of unknown", full))
		}
		switch full {
		case "strings.HasPrefix":
			return one(c13bool(strings.HasPrefix(a[0].s, a[1].s)))
		case "strings.HasSuffix":
			return one(c13bool(strings.HasSuffix(a[0].s, a[1].s)))
		}
		return one(c13bool(strings.Contains(a[0].s, a[1].s)))
	case "strings.Repeat":
		a := m.args(fr, call)
		if a[0].k != c13Str || a[1].k != c13Int || a[1].i < 0 || a[1].i > 1024 {
			return one(c13unk("strings.Repeat of unknown"))
		}
		return one(c13str(strings.Repeat(a[0].s, int(a[1].i))))
	case "strconv.Itoa":
		a := m.args(fr, call)
		if a[0].k != c13Int {
			return one(c13unk("Itoa of unknown"))
		}
		return one(c13str(fmt.Sprint(a[0].i)))
	case "strconv.FormatInt", "strconv.FormatUint":
		a := m.args(fr, call)
		if len(a) != 2 || a[0].k != c13Int || a[1].k != c13Int {
			return one(c13unk("%s of unknown (%s%s)", full, a[0].why, a[1].why))
		}
		if a[1].i < 2 || a[1].i > 36 {
			m.gopanic("%s: illegal base %d at %s", full, a[1].i, m.c.P.Pos(call.Pos()))
		}
		if full == "strconv.FormatUint" {
			return one(c13str(strconv.FormatUint(uint64(a[0].i), int(a[1].i))))
		}
		return one(c13str(strconv.FormatInt(a[0].i, int(a[1].i))))
	case "strconv.AppendInt", "strconv.AppendUint":
		a := m.args(fr, call)
		if len(a) != 3 || a[1].k != c13Int || a[2].k != c13Int {
			return one(c13unk("%s of unknown (%s%s)", full, a[1].why, a[2].why))
		}
		if a[2].i < 2 || a[2].i > 36 {
			m.gopanic("%s: illegal base %d at %s", full, a[2].i, m.c.P.Pos(call.Pos()))
		}
		var txt string
		if full == "strconv.AppendUint" {
			txt = strconv.FormatUint(uint64(a[1].i), int(a[2].i))
		} else {
			txt = strconv.FormatInt(a[1].i, int(a[2].i))
		}
		return one(m.appendBytes(a[0], txt, fn, "%s to an unknown slice", full))
	case "unicode/utf8.AppendRune":
		a := m.args(fr, call)
		if len(a) != 2 || a[1].k != c13Int {
			return one(c13unk("utf8.AppendRune of unknown"))
		}
		return one(m.appendBytes(a[0], string(utf8.AppendRune(nil, rune(a[1].i))), fn, "utf8.AppendRune to an unknown slice"))
	case "unicode/utf8.RuneLen":
		a := m.args(fr, call)
		if a[0].k != c13Int {
			return one(c13unk("RuneLen of unknown"))
		}
		return one(c13int(int64(utf8.RuneLen(rune(a[0].i))), intT))
	case "fmt.Appendf":
		a := m.args(fr, call)
		if len(a) < 2 || a[1].k != c13Str || call.Ellipsis.IsValid() {
			return one(c13unk("Appendf format unknown"))
		}
		s := m.sprintf(a[1].s, a[2:], call)
		if s.k != c13Str {
			return one(s)
		}
		return one(m.appendBytes(a[0], s.s, fn, "fmt.Appendf to an unknown slice"))
	case "fmt.Sprint":
		a := m.args(fr, call)
		if call.Ellipsis.IsValid() {
			return one(c13unk("Sprint with spread arguments"))
		}
		// Sprint = %v of each operand, a space between two operands when neither is a string
		var sb strings.Builder
		for i, v := range a {
			if v.k != c13Int && v.k != c13Str && v.k != c13Bool {
				return one(c13unk("Sprint argument %d is not computable (%s)", i+1, v.why))
			}
			if i > 0 && v.k != c13Str && a[i-1].k != c13Str {
				sb.WriteByte(' ')
			}
			part := m.sprintf("%v", []c13V{v}, call)
			if part.k != c13Str {
				return one(part)
			}
			sb.WriteString(part.s)
		}
		return one(c13str(sb.String()))
	case "strings.Join":
		a := m.args(fr, call)
		if len(a) != 2 || a[0].k != c13Slice || a[1].k != c13Str {
			return one(c13unk("strings.Join of unknown"))
		}
		parts := make([]string, len(a[0].el))
		for i, e := range a[0].el {
			if e.k != c13Str {
				return one(c13unk("strings.Join of a slice with an unknown element (%s)", e.why))
			}
			parts[i] = e.s
		}
		return one(c13str(strings.Join(parts, a[1].s)))
	case "unicode/utf8.RuneCountInString":
		a := m.args(fr, call)
		if a[0].k != c13Str {
			return one(c13unk("RuneCountInString of unknown"))
		}
		return one(c13int(int64(utf8.RuneCountInString(a[0].s)), intT))
	}
	if fn.Pkg() != nil && fn.Pkg().Path() == "unicode" && recv == nil {
		preds := map[string]func(rune) bool{"IsUpper": unicode.IsUpper, "IsLower": unicode.IsLower, "IsPrint": unicode.IsPrint,
			"IsLetter": unicode.IsLetter, "IsDigit": unicode.IsDigit, "IsControl": unicode.IsControl, "IsSpace": unicode.IsSpace,
			"IsGraphic": unicode.IsGraphic, "IsPunct": unicode.IsPunct, "IsNumber": unicode.IsNumber, "IsSymbol": unicode.IsSymbol}
		maps := map[string]func(rune) rune{"ToLower": unicode.ToLower, "ToUpper": unicode.ToUpper, "ToTitle": unicode.ToTitle}
		a := m.args(fr, call)
		if len(a) == 1 {
			if p, ok := preds[fn.Name()]; ok {
				if a[0].k != c13Int {
					return one(c13unk("unicode.%s of unknown", fn.Name()))
				}
				if a[0].i < 0 || a[0].i > unicode.MaxRune {
					return one(c13bool(false))
				}
				return one(c13bool(p(rune(a[0].i))))
			}
			if f, ok := maps[fn.Name()]; ok {
				if a[0].k != c13Int {
					return one(c13unk("unicode.%s of unknown", fn.Name()))
				}
				if a[0].i < 0 || a[0].i > unicode.MaxRune {
					return one(c13int(a[0].i, types.Typ[types.Int32]))
				}
				return one(c13int(int64(f(rune(a[0].i))), types.Typ[types.Int32]))
			}
		}
		return one(c13unk("unicode.%s", fn.Name()))
	}
	return nil, false
}
