package main

// C13.h — paste boundaries over whole histories (state the widget keeps between calls).
//
// C13.d decides the paste brackets for one call of Update. The statement "nothing is written for
// paste events the child has not enabled" quantifies over the child's mode AT THE TIME the boundary
// is handed over; a widget that remembers something between calls (a field `pasting` set when the
// start marker is forwarded, seeds C13_b, C13_b_r4, C13_b_r5, C13_b_r6) can make the decision depend
// on what the child's mode WAS. One call evaluated in isolation cannot see that: the remembered field
// is unknown, both outcomes are possible, the obligation is undecided.
//
// Method. The evaluator of c13_interp.go already carries the receiver from one call to the next
// (C13.g does that for compound sequences). Here
//
//   1. fields of Model the outcome of Update turns out to depend on are PROMOTED to tracked state on
//      demand: when an evaluation is undecided and it read a field of the opaque Model as unknown,
//      that field is given its zero value in the fresh Model and followed concretely from then on,
//      provided it qualifies: unexported, plain data (bool / integer / string / struct of those,
//      declared in the repository), and every store to it (assignment, ++/--, address taken, range
//      target, pointer-receiver method call, composite-literal key) lies in a function reachable from
//      Update or update, i.e. in code the histories below interpret. Stores in functions nothing
//      refers to (what the normalisation leaves of an inlined helper) and a constructor spelling out
//      the zero value do not count. (A field New() initialises otherwise, or that another exported
//      method changes, does not qualify; the obligation stays undecided and says why.)
//   2. the state graph of the widget is explored breadth first from the Model New() leaves, for the
//      other modes all reset and all set, over the alphabet
//          CSI ? 2004 h | CSI ? 2004 l  (the child, through (*Model).update)
//          PasteStartEvent | PasteEndEvent (the host, through (*Model).Update)
//      A state is (decided mode flags, tracked fields, is a start marker outstanding at the child, is
//      the host inside a paste, did the host stream stop being well formed). The graph is finite for
//      flags; it is cut at c13HMaxStates states, which only loses histories.
//   3. at every Update transition: 2004 reset in the source state => nothing is written; 2004 set =>
//      what is written decodes (reference tokeniser, Vaxis.handleSequence) to exactly that event.
//
// Every explored history is a possible run of the widget, so a failure is a failure of the property
// (necessary condition). The report carries the shortest history; histories in which the whole
// offending paste was delivered with 2004 reset and no start marker is outstanding (nothing to argue
// about) and in which the host stream is well formed (start / end alternate) are preferred as witness.
// The rule compares results of interpretation only: how the flag is written (helper, table, switch,
// early return, sub-struct) does not matter, and a flag that never changes what is written on any
// reachable state (cleared wherever the child's mode is cleared, or bookkeeping only) is silent.

import (
	"fmt"
	"go/ast"
	"go/constant"
	"go/token"
	"go/types"
	"sort"
	"strings"
)

var c13lastEnv *c13Env

const c13HMaxStates = 96

func init() { registerExtra("C13", c13PasteHistories) }

// ------------------------------------------------------------------ tracked state

// modelAux is model() with the promoted fields at their zero values: the Model New() leaves.
func (x *c13Env) modelAux(flags map[string]bool) c13V {
	mv := x.model(flags)
	for _, n := range x.aux {
		z := x.m.zero(x.auxVar[n].Type())
		mv.st.f[n] = &z
	}
	return mv
}

// runTracked evaluates fi on a fresh receiver; while the evaluation is undecided and fields that
// qualify were read as unknown, they are promoted and the evaluation repeated.
func (x *c13Env) runTracked(fi *FuncInfo, recv func() c13V, args ...c13V) c13Res {
	for {
		r, again := x.runNoting(fi, recv(), args...)
		if !again {
			return r
		}
	}
}

// runNoting is run with promotion: again=true means new fields were promoted (the receiver the
// caller built is stale: rebuild and repeat).
func (x *c13Env) runNoting(fi *FuncInfo, recv c13V, args ...c13V) (r c13Res, again bool) {
	x.m.unkRead = map[string]bool{}
	r = x.run(fi, recv, args...)
	reads := x.m.unkRead
	x.m.unkRead = nil
	if r.undecided == "" {
		return r, false
	}
	if x.promote(reads) {
		return r, true
	}
	var why []string
	for n := range reads {
		if w := x.auxNo[n]; w != "" && !strings.HasPrefix(w, "its type ") {
			why = append(why, "Model."+n+" cannot be followed from New(): "+w)
		}
	}
	sort.Strings(why)
	if len(why) > 0 {
		r.undecided += " [" + strings.Join(why, "; ") + "]"
	}
	return r, false
}

func (x *c13Env) promote(reads map[string]bool) bool {
	if x.auxVar == nil {
		x.auxVar, x.auxNo = map[string]*types.Var{}, map[string]string{}
	}
	var names []string
	for n := range reads {
		names = append(names, n)
	}
	sort.Strings(names)
	added := false
	for _, n := range names {
		if x.auxVar[n] != nil || x.auxNo[n] != "" {
			continue
		}
		v, why := x.auxQualify(n)
		if v == nil {
			x.auxNo[n] = why
			continue
		}
		x.auxVar[n] = v
		x.aux = append(x.aux, n)
		x.m.tracked[v] = true
		added = true
	}
	if added {
		sort.Strings(x.aux)
		x.m.mattersM = map[*types.Func]int{} // what "matters" depends on the tracked set
	}
	return added
}

func (x *c13Env) plainType(t types.Type, depth int) bool {
	if depth > 3 {
		return false
	}
	if nt, ok := t.(*types.Named); ok {
		if nt.Obj().Pkg() == nil || !x.m.follow[nt.Obj().Pkg().Path()] {
			return false
		}
	}
	switch u := t.Underlying().(type) {
	case *types.Basic:
		return u.Info()&(types.IsBoolean|types.IsInteger|types.IsString) != 0
	case *types.Struct:
		for i := 0; i < u.NumFields(); i++ {
			if !x.plainType(u.Field(i).Type(), depth+1) {
				return false
			}
		}
		return u.NumFields() > 0
	}
	return false
}

// reach: the functions of widgets/term the histories interpret (static calls from Update and update).
func (x *c13Env) reach() map[*types.Func]bool {
	if x.termReach != nil {
		return x.termReach
	}
	x.termReach = map[*types.Func]bool{}
	var visit func(fi *FuncInfo)
	visit = func(fi *FuncInfo) {
		if fi == nil || fi.Decl.Body == nil || x.termReach[fi.Obj] {
			return
		}
		x.termReach[fi.Obj] = true
		ast.Inspect(fi.Decl.Body, func(n ast.Node) bool {
			if call, ok := n.(*ast.CallExpr); ok {
				if fn := calleeOf(fi.Pkg.TypesInfo, call); fn != nil && fn.Pkg() == x.term {
					cf := x.m.decls[fn]
					if cf == nil && fn.Origin() != fn {
						cf = x.m.decls[fn.Origin()]
					}
					visit(cf)
				}
			}
			return true
		})
	}
	visit(x.fnUpdate)
	visit(x.fnPty)
	return x.termReach
}

// auxQualify: may the field be followed concretely from its zero value?
func (x *c13Env) auxQualify(name string) (*types.Var, string) {
	mst, _ := x.modelT.Underlying().(*types.Struct)
	var fv *types.Var
	for i := 0; mst != nil && i < mst.NumFields(); i++ {
		if mst.Field(i).Name() == name {
			fv = mst.Field(i)
		}
	}
	switch {
	case fv == nil:
		return nil, "no such field"
	case fv.Exported():
		return nil, "it is exported (the host application may set it at any time)"
	case fv.Embedded() || !x.plainType(fv.Type(), 0):
		return nil, fmt.Sprintf("its type %s is not plain data of the repository", fv.Type())
	}
	tp := x.c.P.Pkg("widgets/term")
	if tp == nil {
		return nil, "package not loaded"
	}
	info := tp.TypesInfo
	parents := x.c.P.Parents(tp)
	reach := x.reach()
	// functions nothing refers to (what is left of a helper the normalisation inlined, or dead code)
	referenced := map[types.Object]bool{}
	for _, o := range info.Uses {
		if fn, ok := o.(*types.Func); ok {
			referenced[fn] = true
		}
	}
	zeroConst := func(e ast.Expr) bool {
		tv, ok := info.Types[e]
		if !ok || tv.Value == nil {
			return false
		}
		switch tv.Value.Kind() {
		case constant.Bool:
			return !constant.BoolVal(tv.Value)
		case constant.Int:
			return constant.Sign(tv.Value) == 0
		case constant.String:
			return constant.StringVal(tv.Value) == ""
		}
		return false
	}
	var rhs ast.Expr // of the store isStore found, when it is a plain one-to-one assignment
	isStore := func(sel ast.Node) string {
		rhs = nil
		cur := sel
		for {
			par := parents[cur]
			switch pn := par.(type) {
			case *ast.ParenExpr:
				cur = pn
				continue
			case *ast.SelectorExpr:
				if pn.X != cur {
					return ""
				}
				if s, ok := info.Selections[pn]; ok && s.Kind() != types.FieldVal {
					if fn, _ := s.Obj().(*types.Func); fn != nil {
						if sig, _ := fn.Type().(*types.Signature); sig != nil && sig.Recv() != nil {
							if _, ptr := sig.Recv().Type().Underlying().(*types.Pointer); ptr {
								return "method " + fn.Name() + " with a pointer receiver is called on it"
							}
						}
					}
					return ""
				}
				cur = pn
				continue
			case *ast.IndexExpr:
				if pn.X == cur {
					cur = pn
					continue
				}
			case *ast.AssignStmt:
				for i, l := range pn.Lhs {
					if l == cur {
						if pn.Tok == token.ASSIGN && len(pn.Lhs) == len(pn.Rhs) && cur == sel {
							rhs = pn.Rhs[i]
						}
						return "assigned"
					}
				}
			case *ast.IncDecStmt:
				return "modified"
			case *ast.UnaryExpr:
				if pn.Op == token.AND {
					return "its address is taken"
				}
			case *ast.RangeStmt:
				if pn.Key == cur || pn.Value == cur {
					return "range target"
				}
			}
			return ""
		}
	}
	why := ""
	scan := func(root ast.Node, owner *types.Func, ownerName string) {
		ast.Inspect(root, func(n ast.Node) bool {
			if why != "" {
				return false
			}
			where := ""
			var at token.Pos
			var val ast.Expr
			switch n := n.(type) {
			case *ast.SelectorExpr:
				if s, ok := info.Selections[n]; ok && s.Kind() == types.FieldVal && s.Obj() == fv {
					where, at = isStore(n), n.Pos()
					val = rhs
				}
			case *ast.CompositeLit:
				t := info.TypeOf(n)
				if t == nil {
					break
				}
				if p, ok := t.Underlying().(*types.Pointer); ok {
					t = p.Elem()
				}
				if !types.Identical(t, x.modelT) {
					break
				}
				for _, el := range n.Elts {
					kv, ok := el.(*ast.KeyValueExpr)
					if !ok {
						where, at = "set by an unkeyed composite literal", n.Pos()
						break
					}
					if id, ok := kv.Key.(*ast.Ident); ok && info.ObjectOf(id) == fv {
						where, at, val = "set by a composite literal", kv.Pos(), kv.Value
					}
				}
			}
			if where != "" && owner != nil && !reach[owner] {
				if sig, _ := owner.Type().(*types.Signature); sig != nil {
					switch {
					case !owner.Exported() && !referenced[owner]:
						where = "" // dead code
					case sig.Recv() == nil && val != nil && zeroConst(val):
						where = "" // a constructor spelling out the zero value
					}
				}
			}
			if where != "" && (owner == nil || !reach[owner]) {
				why = fmt.Sprintf("%s in %s at %s, which neither Update nor update reaches", where, ownerName, x.c.P.Pos(at))
			}
			return true
		})
	}
	for _, f := range tp.Syntax {
		for _, d := range f.Decls {
			switch d := d.(type) {
			case *ast.FuncDecl:
				fn, _ := info.Defs[d.Name].(*types.Func)
				scan(d, fn, d.Name.Name)
			case *ast.GenDecl:
				scan(d, nil, "a package-level declaration")
			}
		}
	}
	if why != "" {
		return nil, why
	}
	return fv, ""
}

// ------------------------------------------------------------------ C13.h

type c13HState struct {
	model     c13V
	open      bool // a start marker has been written to the child and no end marker since
	inflight  bool // the host is between PasteStartEvent and PasteEndEvent
	malformed bool // the host stream had start/start or end without start
	hist      []string
}

type c13HWitness struct {
	rank int
	msg  string
	n    int
	both bool
}

type c13HOblig struct {
	v    c13Verdict
	wits []c13HWitness
	seen map[string]int
}

// witness records a failing history; the same history from the other start state (other modes set
// instead of reset) is counted, not repeated.
func (o *c13HOblig) witness(rank, n int, first, rest string) {
	if o.seen == nil {
		o.seen = map[string]int{}
	}
	if i, dup := o.seen[rest]; dup {
		o.wits[i].both = true
		return
	}
	o.seen[rest] = len(o.wits)
	o.wits = append(o.wits, c13HWitness{rank: rank, msg: first + "; " + rest, n: n})
}

func (o *c13HOblig) finish() {
	sort.SliceStable(o.wits, func(i, j int) bool {
		if o.wits[i].rank != o.wits[j].rank {
			return o.wits[i].rank < o.wits[j].rank
		}
		return o.wits[i].n < o.wits[j].n
	})
	for i, w := range o.wits {
		if w.both {
			w.msg += " (the same with the other modes set)"
		}
		if i == 2 {
			o.v.bad[1] += fmt.Sprintf(" ; … (%d failing histories in all)", len(o.wits))
			break
		}
		o.v.bad = append(o.v.bad, w.msg)
	}
}

func c13PasteHistories(c *Ctx) {
	c.Clauses = append(c.Clauses, "C13.h paste boundaries over whole histories: from the Model New() leaves, over every sequence of CSI ? 2004 h / CSI ? 2004 l from the child and PasteStartEvent / PasteEndEvent from the host (state graph explored breadth first; fields of Model the outcome depends on are followed concretely from their zero value), Update writes nothing for a boundary handed over while 2004 is reset and writes the bracket that decodes to the same event while 2004 is set, whatever the widget remembers from earlier calls")
	c.expect("C13.h", 5)
	c.NotDec = append(c.NotDec, "paste histories that contain anything but DECSET/DECRST 2004 and paste boundaries (RIS, other methods of Model called between the boundaries)")
	c.Assume = append(c.Assume, "calls of Update and update are serialised (Model.mu): a history is a sequence of whole calls")
	x := c13lastEnv
	if x == nil || x.c != c {
		return // runC13 stopped early and said why
	}
	x.ruleH()
}

func (x *c13Env) ruleH() {
	const (
		startOff = iota
		startOn
		endOff
		endOn
		child
	)
	var obs [5]*c13HOblig
restart:
	for i := range obs {
		obs[i] = &c13HOblig{}
	}
	set := c13Tok{kind: "CSI", r: 'h', inter: []rune{'?'}, params: [][]int{{2004}}}
	rst := c13Tok{kind: "CSI", r: 'l', inter: []rune{'?'}, params: [][]int{{2004}}}
	type step struct {
		name  string
		tok   *c13Tok
		ev    string
		start bool
	}
	steps := []step{{"CSI ? 2004 h", &set, "", false}, {"PasteStartEvent", nil, "PasteStartEvent", true},
		{"CSI ? 2004 l", &rst, "", false}, {"PasteEndEvent", nil, "PasteEndEvent", false}}
	cut := false
	for _, others := range []bool{false, true} {
		flags := map[string]bool{}
		for _, f := range c13Flags {
			flags[f] = others
		}
		flags["paste"] = false
		oth := "the other modes reset"
		if others {
			oth = "the other modes set"
		}
		first := &c13HState{model: x.modelAux(flags), hist: []string{"Model as New() leaves it, " + oth}}
		key := func(s *c13HState) string {
			// everything of the Model that is known concretely takes part (a field stored by Update
			// that has not been promoted yet, because no evaluation was undecided over it, still
			// distinguishes states)
			var rest []string
			for n, v := range s.model.st.f {
				if n != "pty" {
					rest = append(rest, n+"="+x.render(*v, 0))
				}
			}
			sort.Strings(rest)
			return fmt.Sprintf("%s|%s|%v|%v|%v", x.observe(s.model), strings.Join(rest, ";"), s.open, s.inflight, s.malformed)
		}
		seen := map[string]bool{key(first): true}
		queue := []*c13HState{first}
		for len(queue) > 0 {
			s := queue[0]
			queue = queue[1:]
			paste, known := x.flagsOf(s.model)["paste"]
			for _, st := range steps {
				hist := func(last string) string {
					return strings.Join(append(append([]string{}, s.hist...), last), "; ")
				}
				rest := func(last string) string {
					return strings.Join(append(append([]string{}, s.hist[1:]...), last), "; ")
				}
				if st.tok != nil {
					obs[child].v.n++
					r, again := x.runNoting(x.fnPty, s.model, x.seqV(*st.tok))
					if again {
						goto restart
					}
					switch {
					case r.undecided != "":
						obs[child].v.unk("%s: %s", hist(st.name), r.undecided)
						continue
					case r.panicked != "":
						obs[child].v.fail("%s: update panics: %s", hist(st.name), r.panicked)
						continue
					}
					if g, ok := x.flagsOf(r.recv)["paste"]; !ok || g != (st.tok.r == 'h') {
						obs[child].v.fail("%s: the flag paste is then %v (known: %v)", hist(st.name), g, ok)
						continue
					}
					ns := &c13HState{model: r.recv, open: s.open, inflight: s.inflight, malformed: s.malformed,
						hist: append(append([]string{}, s.hist...), st.name)}
					if k := key(ns); !seen[k] {
						if len(seen) >= c13HMaxStates {
							cut = true
							continue
						}
						seen[k] = true
						queue = append(queue, ns)
					}
					continue
				}
				// a boundary from the host
				off, on := obs[endOff], obs[endOn]
				if st.start {
					off, on = obs[startOff], obs[startOn]
				}
				tgt := off
				if paste {
					tgt = on
				}
				tgt.v.n++
				if !known {
					tgt.v.unk("%s: the flag paste is not computable in this state", hist(st.name))
					continue
				}
				ev := x.structV(x.typ(x.root, st.ev), nil)
				r, again := x.runNoting(x.fnUpdate, s.model, ev)
				if again {
					goto restart
				}
				mode := "2004 reset"
				if paste {
					mode = "2004 set"
				}
				here := fmt.Sprintf("%s while %s", st.name, mode)
				if as := x.auxString(s.model); as != "" {
					here += " and " + as
				}
				switch {
				case r.undecided != "":
					tgt.v.unk("%s: %s", hist(here), r.undecided)
					continue
				case r.panicked != "":
					tgt.v.fail("%s: Update panics: %s", hist(here), r.panicked)
					continue
				}
				malformed := s.malformed || (st.start && s.inflight) || (!st.start && !s.inflight)
				rank := 0
				if malformed {
					rank = 1
				}
				if !paste {
					if r.writes != "" {
						// nothing to argue about unless this closes a bracket the child has seen opened
						note := ""
						if !st.start && s.open {
							rank += 2
							note = " (the child reset 2004 after it was sent the start marker)"
						} else if !st.start {
							note = " (no start marker is outstanding: the child has been sent nothing of this paste)"
						}
						off.witness(rank, len(s.hist), s.hist[0], fmt.Sprintf("%s writes %q although the child does not have 2004 set%s", rest(here), r.writes, note))
					}
				} else {
					evs, _, und, bad := x.decode(r.writes)
					got := []string{}
					for _, e := range evs {
						got = append(got, x.evType(e))
					}
					if (st.start && s.open) || (!st.start && !s.open) {
						rank += 2
					}
					switch {
					case und != "":
						on.v.unk("%s: %s", hist(here), und)
						continue
					case bad != "":
						on.witness(rank, len(s.hist), s.hist[0], fmt.Sprintf("%s: %s", rest(here), bad))
					case r.writes == "":
						on.witness(rank, len(s.hist), s.hist[0], fmt.Sprintf("%s writes nothing although the child has 2004 set", rest(here)))
					case len(evs) != 1 || got[0] != st.ev:
						on.witness(rank, len(s.hist), s.hist[0], fmt.Sprintf("%s writes %q, which decodes to %v, want one %s", rest(here), r.writes, got, st.ev))
					}
				}
				ns := &c13HState{model: r.recv, open: s.open, inflight: st.start, malformed: malformed,
					hist: append(append([]string{}, s.hist...), fmt.Sprintf("%s (%s, writes %q)", st.name, mode, r.writes))}
				if i, j := strings.LastIndex(r.writes, "\x1b[200~"), strings.LastIndex(r.writes, "\x1b[201~"); i >= 0 || j >= 0 {
					ns.open = i > j
				}
				if k := key(ns); !seen[k] {
					if len(seen) >= c13HMaxStates {
						cut = true
						continue
					}
					seen[k] = true
					queue = append(queue, ns)
				}
			}
		}
	}
	if cut {
		x.c.info("C13.h: the state graph was cut at %d states; longer histories are not covered", c13HMaxStates)
	}
	tracked := "no field of Model beyond the child's modes influences the outcome"
	if len(x.aux) > 0 {
		tracked = "Model." + strings.Join(x.aux, ", Model.") + " followed concretely from the zero value"
	}
	for i := range obs {
		obs[i].finish()
	}
	x.emit("C13.h", "term.(*Model).Update/paste start over every reachable history: nothing written while 2004 is reset", x.fnUpdate, &obs[startOff].v, "silent in every reachable state with 2004 reset ("+tracked+")")
	x.emit("C13.h", "term.(*Model).Update/paste start over every reachable history: the start bracket is written while 2004 is set", x.fnUpdate, &obs[startOn].v, "decodes to PasteStartEvent in every reachable state with 2004 set ("+tracked+")")
	x.emit("C13.h", "term.(*Model).Update/paste end over every reachable history: nothing written while 2004 is reset", x.fnUpdate, &obs[endOff].v, "silent in every reachable state with 2004 reset ("+tracked+")")
	x.emit("C13.h", "term.(*Model).Update/paste end over every reachable history: the end bracket is written while 2004 is set", x.fnUpdate, &obs[endOn].v, "decodes to PasteEndEvent in every reachable state with 2004 set ("+tracked+")")
	x.emit("C13.h", "term.(*Model).update/DECSET and DECRST 2004 evaluated in every reachable state", x.fnPty, &obs[child].v, "the child's mode changes are followed in every reachable state")
}

// auxString renders the promoted fields of a state for messages.
func (x *c13Env) auxString(model c13V) string {
	var p []string
	for _, n := range x.aux {
		v := "?"
		if s := model.st.f[n]; s != nil {
			v = x.render(*s, 0)
		}
		p = append(p, "Model."+n+"="+v)
	}
	return strings.Join(p, ", ")
}
