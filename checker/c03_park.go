package main

// C03.o — no reply is lost to a requester that is not parked yet (the converse half of C03.l).
//
// "Replies to Vaxis's own queries … are consumed internally and update exactly the … answer they report … for all
// arrival timings relative to outstanding queries": a solicited reply must reach its requester at whatever moment it
// is dispatched after the query was written.
//
// A requester writes its query and only THEN enters the receive on the reply channel (it cannot do it the other way
// round in one goroutine, and no synchronisation can tell the input goroutine that another goroutine is parked in a
// receive: whatever signal the waiter gives, it gives before it parks). So between the write and the receive there
// is always a window in which the reply can be dispatched with nobody parked on the channel. What happens to a reply
// handed over in that window is decided by the channel and the form of the hand-over alone:
//
//   * the channel has capacity >= 1: the send succeeds and the value waits in the buffer for the requester
//     (C03.l then obliges the requester to discard stale values before it asks);
//   * the hand-over waits: the send is an arm of a select WITHOUT default (its other arms being a timer / deadline,
//     which bounds the wait — C03.b requires that), or a select with default that is retried in a loop that sleeps:
//     the reply is held until the requester arrives;
//   * the hand-over has an immediate way out (select with default, or a timer arm of constant duration <= 0) and
//     the channel is UNBUFFERED: the send succeeds only if the receiver is already parked. Every reply dispatched in
//     the window is consumed by the input goroutine and thrown away; the requester runs into its deadline although
//     the terminal answered.
//
// The rule: for every channel field of Vaxis that the input context hands replies over on and that some function
// outside the input context receives from, every capacity it is made with is a constant >= 1, or every hand-over
// on it waits. One obligation per channel. Hand-overs are found in the functions handleSequence reaches, function
// literals included (a hand-over moved into a deferred closure or a goroutine is still a hand-over); the channel of
// a send is resolved as in C03.l (field path, local alias, row of a constant table, one-line accessor), and a
// channel parameter of a helper stands for the fields its call sites bind it to.

import (
	"fmt"
	"go/ast"
	"go/token"
	"go/types"
	"sort"
	"strings"
)

func init() { registerExtra("C03", c03ParkedWaiter) }

type c03HandOver struct {
	fi   *FuncInfo
	send *ast.SendStmt
	mode string // "immediate" | "waits" | "blocking"
	how  string
}

func c03ParkedWaiter(c *Ctx) {
	c.Clauses = append(c.Clauses, "C03.o a solicited reply is not lost to a requester that has written its query but is not parked in its receive yet: every reply channel the input goroutine hands over on has capacity >= 1 (the reply waits in the buffer), or every hand-over on it waits for the receiver (select arm without default, bounded by a timer); an immediate way out (select with default) on an unbuffered channel succeeds only while the receiver is already parked, which a requester that writes its query first can never guarantee")
	c.expect("C03.o", 4)
	pk := c.P.Pkg("vaxis")
	handle := c.P.Func("vaxis.(*Vaxis).handleSequence")
	if pk == nil || handle == nil {
		c.undecided("C03.o", "vaxis.(*Vaxis).handleSequence", 0, "handleSequence not found")
		return
	}
	info := pk.TypesInfo
	par := c.P.Parents(pk)
	inInput := staticReach(c.P, handle)
	paramChans, isRecvOf := c03RecvMatcher(c, pk)

	// ---- hand-overs in the input context, per channel
	sites := map[string][]*c03HandOver{}
	for _, fi := range c.P.FuncsIn("vaxis") {
		if fi.Decl.Body == nil || !inInput[fi.Name] {
			continue
		}
		fi := fi
		ast.Inspect(fi.Decl.Body, func(n ast.Node) bool {
			send, ok := n.(*ast.SendStmt)
			if !ok {
				return true
			}
			targets, resolved := c03ChanTargets(c, fi, send.Chan, 0)
			if !resolved {
				if id, isID := unparen(send.Chan).(*ast.Ident); isID {
					for ch := range paramChans[info.ObjectOf(id)] {
						targets = append(targets, ch)
					}
					sort.Strings(targets)
					resolved = len(targets) > 0
				}
			}
			if !resolved {
				// C03.l reports a send of the input context whose channel it cannot resolve; a send in a closure is
				// seen only here
				if c03EnclosingLit(par, send, fi.Decl.Body) != nil {
					c.undecided("C03.o", fmt.Sprintf("%s/send on %s", fi.Name, c03Short(send.Chan)), send.Pos(), "the channel of a send in a function literal of the input context cannot be resolved to a field of Vaxis: %s", types.ExprString(send.Chan))
				}
				return true
			}
			mode, how := c03HandOverMode(info, par, fi.Decl.Body, send)
			for _, ch := range targets {
				sites[ch] = append(sites[ch], &c03HandOver{fi, send, mode, how})
			}
			return true
		})
	}

	// ---- smallest capacity of every channel field of Vaxis
	type capInfo struct {
		min   int64
		known bool
		text  string
		pos   token.Pos
	}
	caps := map[string]*capInfo{}
	noteMake := func(ch string, val ast.Expr) {
		if !strings.HasPrefix(ch, "Vaxis.") {
			return
		}
		call, ok := unparen(val).(*ast.CallExpr)
		if !ok || len(call.Args) == 0 {
			return
		}
		id, ok := unparen(call.Fun).(*ast.Ident)
		if !ok {
			return
		}
		if b, isBuiltin := info.Uses[id].(*types.Builtin); !isBuiltin || b.Name() != "make" {
			return
		}
		n, known := int64(0), true
		if len(call.Args) > 1 {
			n, known = constInt(info, call.Args[1])
		}
		ci := caps[ch]
		switch {
		case ci == nil:
			caps[ch] = &capInfo{n, known, c03Short(call), call.Pos()}
		case !known && ci.known:
			*ci = capInfo{0, false, c03Short(call), call.Pos()}
		case known && ci.known && n < ci.min:
			*ci = capInfo{n, true, c03Short(call), call.Pos()}
		}
	}
	vaxisT := pk.Types.Scope().Lookup("Vaxis")
	for _, f := range pk.Syntax {
		ast.Inspect(f, func(n ast.Node) bool {
			switch t := n.(type) {
			case *ast.AssignStmt:
				if len(t.Lhs) == len(t.Rhs) {
					for i, l := range t.Lhs {
						noteMake(canonPath(info, l), t.Rhs[i])
					}
				}
			case *ast.CompositeLit:
				tp := info.TypeOf(t)
				if tp == nil || vaxisT == nil {
					return true
				}
				if pt, ok := tp.(*types.Pointer); ok {
					tp = pt.Elem()
				}
				if nt, ok := tp.(*types.Named); !ok || nt.Obj() != vaxisT {
					return true
				}
				for _, el := range t.Elts {
					if kv, ok := el.(*ast.KeyValueExpr); ok {
						if id, ok := kv.Key.(*ast.Ident); ok {
							noteMake("Vaxis."+id.Name, kv.Value)
						}
					}
				}
			}
			return true
		})
	}

	// ---- per channel with a waiter outside the input context
	var chans []string
	for ch := range sites {
		chans = append(chans, ch)
	}
	sort.Strings(chans)
	n := 0
	for _, ch := range chans {
		// a channel that is sent on outside any select is a queue (the event queue), not a reply slot: nothing is
		// ever dropped on it; C03.b decides whether the input goroutine may block there
		var immediate []*c03HandOver
		blocking := false
		for _, s := range sites[ch] {
			switch s.mode {
			case "immediate":
				immediate = append(immediate, s)
			case "blocking":
				blocking = true
			}
		}
		waiter := ""
		for _, fi := range c.P.FuncsIn("vaxis") {
			if fi.Decl.Body == nil || inInput[fi.Name] || waiter != "" {
				continue
			}
			if containsNode(fi.Decl.Body, func(m ast.Node) bool { return isRecvOf(m, ch) }) {
				waiter = fi.Name
			}
		}
		if waiter == "" || blocking {
			continue
		}
		n++
		key := fmt.Sprintf("vaxis/hand-over on %s reaches a requester that is not parked yet", ch)
		first := sites[ch][0]
		if len(immediate) == 0 {
			c.ok("C03.o", key, first.send.Pos(), "every hand-over on %s waits for the receiver (%s, %s): a reply dispatched before the requester has entered its receive is held until it does", ch, first.fi.Name, first.how)
			continue
		}
		im := immediate[0]
		ci := caps[ch]
		switch {
		case ci == nil:
			c.undecided("C03.o", key, im.send.Pos(), "%s hands a reply over on %s with an immediate way out (%s), and no `make(chan …)` stored into %s was found: its capacity is unknown", im.fi.Name, ch, im.how, ch)
		case !ci.known:
			c.undecided("C03.o", key, im.send.Pos(), "%s hands a reply over on %s with an immediate way out (%s), and the capacity of %s is not a constant (%s): whether a reply survives until the requester receives cannot be decided", im.fi.Name, ch, im.how, ch, ci.text)
		case ci.min >= 1:
			c.ok("C03.o", key, im.send.Pos(), "%s has capacity %d (%s): a reply handed over while the requester (%s) is not parked yet waits in the buffer", ch, ci.min, ci.text, waiter)
		default:
			c.bad("C03.o", key, im.send.Pos(), "%s hands the reply over on %s with an immediate way out (%s), and %s is unbuffered (%s): the send succeeds only if the receiver is already parked in its receive. %s writes its query before it enters the receive, so a reply that the input goroutine dispatches in between is consumed and dropped, and the requester runs into its deadline although the terminal answered. Give the channel a one-slot buffer (and let the requester discard a stale value first, C03.l) or let the hand-over wait (a timer arm instead of default)", im.fi.Name, ch, im.how, ch, ci.text, waiter)
		}
	}
	if n == 0 {
		c.undecided("C03.o", "vaxis/reply channels", handle.Decl.Pos(), "no channel that the input context hands replies over on and that a function outside it receives from was found")
	}
}

// c03EnclosingLit: the innermost function literal of body that contains n (nil: n is in the body itself).
func c03EnclosingLit(par map[ast.Node]ast.Node, n ast.Node, body *ast.BlockStmt) *ast.FuncLit {
	for cur := par[n]; cur != nil && cur != ast.Node(body); cur = par[cur] {
		if fl, ok := cur.(*ast.FuncLit); ok {
			return fl
		}
	}
	return nil
}

// c03HandOverMode classifies the send of a reply:
//
//	"blocking"  — not an arm of a select: it completes (or blocks for ever, C03.b);
//	"waits"     — an arm of a select without default: the goroutine stays in the select until the receiver comes or
//	              another arm (a timer) fires; also a select with default that is retried in a loop that sleeps, or
//	              whose default arm repeats the hand-over in a waiting form;
//	"immediate" — an arm of a select with default (taken at once when the receiver is not parked), or of a select
//	              whose timer arm has a constant duration <= 0.
func c03HandOverMode(info *types.Info, par map[ast.Node]ast.Node, fnBody *ast.BlockStmt, send *ast.SendStmt) (mode, how string) {
	cc, ok := par[ast.Node(send)].(*ast.CommClause)
	if !ok || cc.Comm != ast.Stmt(send) {
		return "blocking", "plain send"
	}
	sel, _ := par[par[cc]].(*ast.SelectStmt)
	if sel == nil {
		return "blocking", "plain send"
	}
	// the function (literal) the select belongs to: deadline contexts are looked up there and in the enclosing bodies
	var scope ast.Node = fnBody
	var dflt *ast.CommClause
	for _, cl := range sel.Body.List {
		if c2 := cl.(*ast.CommClause); c2.Comm == nil {
			dflt = c2
		}
	}
	if dflt == nil {
		for _, cl := range sel.Body.List {
			c2 := cl.(*ast.CommClause)
			if c2 == cc || c2.Comm == nil || !c03TimerArm(info, scope, c2.Comm) {
				continue
			}
			if d, known := c03TimerConstDur(info, scope, c2.Comm); known && d <= 0 {
				return "immediate", fmt.Sprintf("select whose timer arm has the constant duration %d: it fires at once", d)
			}
		}
		if esc := c03SelectEscape(info, scope, sel); esc != "" {
			return "waits", "select arm next to a " + esc + ", no default"
		}
		return "waits", "select arm, no default"
	}
	// default arm: taken at once when nobody is parked — unless the hand-over is retried
	sameChan := canonPath(info, send.Chan)
	if containsNode(dflt, func(m ast.Node) bool {
		s2, isSend := m.(*ast.SendStmt)
		if !isSend || canonPath(info, s2.Chan) != sameChan {
			return false
		}
		m2, _ := c03HandOverMode(info, par, fnBody, s2)
		return m2 != "immediate"
	}) {
		return "waits", "select with default whose default arm repeats the hand-over in a waiting form"
	}
	for cur := par[ast.Node(sel)]; cur != nil; cur = par[cur] {
		var body *ast.BlockStmt
		switch t := cur.(type) {
		case *ast.ForStmt:
			body = t.Body
		case *ast.RangeStmt:
			body = t.Body
		case *ast.FuncLit, *ast.FuncDecl:
			cur = nil
		}
		if cur == nil {
			break
		}
		if body == nil {
			continue
		}
		pauses := false
		inspectNoLit(body, func(m ast.Node) bool {
			switch t := m.(type) {
			case *ast.CallExpr:
				if fn := calleeOf(info, t); fn != nil && fullName(fn) == "time.Sleep" {
					pauses = true
				}
			case *ast.ExprStmt:
				if c03TimerArm(info, scope, t) {
					pauses = true
				}
			}
			return !pauses
		})
		if pauses {
			return "waits", "select with default, retried in a loop that pauses between attempts"
		}
	}
	return "immediate", "select with default"
}

// c03TimerConstDur: the constant duration of the timer / deadline a comm statement receives from
// (time.After(d), ctx.Done() with ctx from context.WithTimeout(_, d) in fnBody).
func c03TimerConstDur(info *types.Info, fnBody ast.Node, comm ast.Stmt) (int64, bool) {
	var recv ast.Expr
	switch s := comm.(type) {
	case *ast.ExprStmt:
		if u, ok := unparen(s.X).(*ast.UnaryExpr); ok && u.Op == token.ARROW {
			recv = u.X
		}
	case *ast.AssignStmt:
		if len(s.Rhs) == 1 {
			if u, ok := unparen(s.Rhs[0]).(*ast.UnaryExpr); ok && u.Op == token.ARROW {
				recv = u.X
			}
		}
	}
	call, ok := unparen(recv).(*ast.CallExpr)
	if recv == nil || !ok {
		return 0, false
	}
	fn := calleeOf(info, call)
	if fn == nil {
		return 0, false
	}
	switch fullName(fn) {
	case "time.After":
		if len(call.Args) == 1 {
			return constInt(info, call.Args[0])
		}
	case "context.Context.Done":
		sel, ok := unparen(call.Fun).(*ast.SelectorExpr)
		if !ok {
			return 0, false
		}
		id, ok := unparen(sel.X).(*ast.Ident)
		if !ok {
			return 0, false
		}
		obj := info.ObjectOf(id)
		var dur int64
		nDef, known := 0, false
		ast.Inspect(fnBody, func(n ast.Node) bool {
			as, isAs := n.(*ast.AssignStmt)
			if !isAs || len(as.Rhs) != 1 || len(as.Lhs) < 1 {
				return true
			}
			lid, isID := as.Lhs[0].(*ast.Ident)
			if !isID || info.ObjectOf(lid) != obj {
				return true
			}
			nDef++
			if c2, isCall := unparen(as.Rhs[0]).(*ast.CallExpr); isCall && len(c2.Args) == 2 {
				if f2 := calleeOf(info, c2); f2 != nil && fullName(f2) == "context.WithTimeout" {
					dur, known = constInt(info, c2.Args[1])
				}
			}
			return true
		})
		if nDef == 1 && known {
			return dur, true
		}
	}
	return 0, false
}
