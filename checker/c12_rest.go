package main

// C12.b sibling mode tables, C12.c reply chains (sixel, DSR, OSC 11),
// C12.d Draw, C12.e coordinate chain, C12.f width-method agreement.

import (
	"fmt"
	"go/ast"
	"go/token"
	"go/types"
	"sort"
	"strings"
)

// ---------------------------------------------------------------- C12.b

// switchKeys: the integer keys a dispatch function distinguishes: case values of its tagged switches and
// constants of `x == K` tests (if-chains), excluding nested bool switches. Keys are VALUES (go/types).
func c12SwitchKeys(fi *FuncInfo) (keys []int64, pos token.Pos) {
	info := fi.Pkg.TypesInfo
	seen := map[int64]bool{}
	isInt := func(e ast.Expr) bool {
		t := info.TypeOf(e)
		if t == nil {
			return false
		}
		b, ok := t.Underlying().(*types.Basic)
		return ok && b.Info()&types.IsInteger != 0
	}
	ast.Inspect(fi.Decl.Body, func(n ast.Node) bool {
		switch t := n.(type) {
		case *ast.SwitchStmt:
			if t.Tag == nil || !isInt(t.Tag) {
				return true
			}
			for _, cl := range t.Body.List {
				for _, e := range cl.(*ast.CaseClause).List {
					if v, isC := constInt(info, e); isC && !seen[v] {
						seen[v] = true
						keys = append(keys, v)
						if pos == token.NoPos {
							pos = t.Pos()
						}
					}
				}
			}
		case *ast.BinaryExpr:
			if t.Op != token.EQL {
				return true
			}
			for _, pr := range [][2]ast.Expr{{t.X, t.Y}, {t.Y, t.X}} {
				if _, lc := constInt(info, pr[0]); lc {
					continue
				}
				if v, isC := constInt(info, pr[1]); isC && isInt(pr[0]) && !seen[v] {
					if call, isCall := unparen(pr[0]).(*ast.CallExpr); isCall {
						if id, ok := call.Fun.(*ast.Ident); ok && id.Name == "len" {
							continue // length tests are not dispatch keys
						}
					}
					seen[v] = true
					keys = append(keys, v)
					if pos == token.NoPos {
						pos = t.Pos()
					}
				}
			}
		}
		return true
	})
	return
}

// csiHandler: the method of the emulator that update() dispatches a CSI with the given key and one parameter to
// (the first inlined method below the dispatcher whose body distinguishes integer keys), together with the keys
// that method and the helpers it calls distinguish (a lookup extracted into a helper still contributes its keys).
func (st *c12State) csiHandler(raw string) *FuncInfo {
	fi, _ := st.csiHandlerKeys(raw)
	return fi
}

func (st *c12State) csiHandlerKeys(raw string) (*FuncInfo, []int64) {
	var out *FuncInfo
	seen := map[int64]bool{}
	var keys []int64
	for _, s := range parseSeqs(raw) {
		paths, _, err := st.feedEmulator(s, 0, nil)
		if err != nil {
			return nil, nil
		}
		for _, p := range paths {
			below := map[string]bool{}
			for _, cl := range p.Calls {
				if !cl.Inlined || cl.Fn == nil {
					continue
				}
				fi := st.c.P.FuncOfObj(cl.Fn)
				if fi == nil || fi == st.csiFn {
					continue
				}
				ks, _ := c12SwitchKeys(fi)
				if out == nil && len(ks) > 0 {
					out = fi
				}
				if out == nil || (fi != out && !below[cl.In]) {
					continue
				}
				below[fi.Name] = true
				for _, k := range ks {
					if !seen[k] {
						seen[k] = true
						keys = append(keys, k)
					}
				}
			}
		}
	}
	return out, keys
}

type c12ModeEff struct {
	fields map[*types.Var]bool
	vals   map[*types.Var]string
	all    []string
}

func (st *c12State) modeEffects(raw string) (c12ModeEff, bool) {
	me := c12ModeEff{fields: map[*types.Var]bool{}, vals: map[*types.Var]string{}}
	for _, s := range parseSeqs(raw) {
		paths, complete, err := st.feedEmulator(s, 0, nil)
		if err != nil || !complete {
			return me, false
		}
		for _, p := range paths {
			if len(p.Unsupp) > 0 {
				return me, false
			}
			for _, ef := range p.Effects {
				if ef.Field != nil && strings.HasPrefix(ef.Path, "Model.mode.") {
					if _, isConst := ef.Val.(c12Bool); !isConst {
						continue // restored from saved state (DECRC), not a set/reset of the mode itself
					}
					v := c12Show(ef.Val)
					if old, seen := me.vals[ef.Field]; seen && old != v {
						v = old + "|" + v
					}
					me.fields[ef.Field] = true
					me.vals[ef.Field] = v
				}
			}
		}
	}
	for f := range me.fields {
		me.all = append(me.all, f.Name()+"="+me.vals[f])
	}
	sort.Strings(me.all)
	return me, true
}

func (st *c12State) siblings() {
	c := st.c
	// the csi dispatch function: callee of update with a string switch
	for _, s := range parseSeqs("\x1b[?25h") {
		paths, _, _ := st.feedEmulator(s, 0, nil)
		for _, p := range paths {
			for _, cl := range p.Calls {
				if cl.Inlined && cl.In == st.update.Name && st.csiFn == nil {
					st.csiFn = c.P.FuncOfObj(cl.Fn)
				}
			}
		}
	}
	type fam struct {
		name           string
		set, rst, rqm  string // templates with %d for the mode
		hSet, hRst, hQ *FuncInfo
	}
	fams := []*fam{
		{name: "DEC private mode", set: "\x1b[?%dh", rst: "\x1b[?%dl", rqm: "\x1b[?%d$p"},
		{name: "ANSI mode", set: "\x1b[%dh", rst: "\x1b[%dl"},
	}
	for _, f := range fams {
		inst := func(t string, k int64) string { return strings.Replace(t, "%d", fmt.Sprint(k), 1) }
		var ks, kr, kq []int64
		f.hSet, ks = st.csiHandlerKeys(inst(f.set, 1))
		f.hRst, kr = st.csiHandlerKeys(inst(f.rst, 1))
		if f.rqm != "" {
			f.hQ, kq = st.csiHandlerKeys(inst(f.rqm, 1))
		}
		if f.hSet == nil || f.hRst == nil || (f.rqm != "" && f.hQ == nil) {
			c.undecided("C12.b", f.name+"/handlers", st.update.Decl.Pos(), "could not find the set/reset/report handlers the emulator dispatches %q, %q, %q to", f.set, f.rst, f.rqm)
			continue
		}
		all := map[int64]bool{}
		inSet, inRst, inQ := map[int64]bool{}, map[int64]bool{}, map[int64]bool{}
		for _, k := range ks {
			all[k], inSet[k] = true, true
		}
		for _, k := range kr {
			all[k], inRst[k] = true, true
		}
		for _, k := range kq {
			all[k], inQ[k] = true, true
		}
		var keys []int64
		for k := range all {
			keys = append(keys, k)
		}
		sort.Slice(keys, func(i, j int) bool { return keys[i] < keys[j] })
		for _, k := range keys {
			key := fmt.Sprintf("%s %d/set and reset are siblings (%s ↔ %s)", f.name, k, f.hSet.Name, f.hRst.Name)
			if !inSet[k] || !inRst[k] {
				c.bad("C12.b", key, f.hSet.Decl.Pos(), "mode %d has a case in %s: %v, in %s: %v — a mode the emulator can enter but not leave (or the reverse)", k, f.hSet.Name, inSet[k], f.hRst.Name, inRst[k])
			} else {
				on, ok1 := st.modeEffects(inst(f.set, k))
				off, ok2 := st.modeEffects(inst(f.rst, k))
				switch {
				case !ok1 || !ok2:
					c.undecided("C12.b", key, f.hSet.Decl.Pos(), "handlers of mode %d not understood", k)
				default:
					var diff []string
					for fl := range on.fields {
						if !off.fields[fl] {
							diff = append(diff, fl.Name()+" is set but never reset")
						} else if on.vals[fl] != "true" || off.vals[fl] != "false" {
							diff = append(diff, fmt.Sprintf("%s: set writes %s, reset writes %s", fl.Name(), on.vals[fl], off.vals[fl]))
						}
					}
					for fl := range off.fields {
						if !on.fields[fl] {
							diff = append(diff, fl.Name()+" is reset but never set")
						}
					}
					sort.Strings(diff)
					c.check(len(diff) == 0, "C12.b", key, f.hSet.Decl.Pos(), fmt.Sprintf("set: %v, reset: %v", on.all, off.all), strings.Join(diff, "; "))
				}
			}
			if f.hQ == nil {
				continue
			}
			qkey := fmt.Sprintf("%s %d/report agrees with set/reset (%s)", f.name, k, f.hQ.Name)
			// Decided on the replies, not on the presence of a case: a mode that set/reset do not implement must be
			// reported as not recognised (0); a mode with state must be reported from that state (1/2); for a mode
			// without state (an accepted no-op) any constant is consistent, whether it is written as an empty case,
			// a default or a table miss.
			implemented := inSet[k] && inRst[k]
			var on c12ModeEff
			if implemented {
				on, _ = st.modeEffects(inst(f.set, k))
			}
			var bad []string
			nrep := 0
			for _, s := range parseSeqs(inst(f.rqm, k)) {
				paths, complete, err := st.feedEmulator(s, 0, nil)
				if err != nil || !complete {
					bad = append(bad, "report handler not understood")
					continue
				}
				for _, p := range paths {
					for _, w := range p.Writes {
						nrep++
						tmpl, _ := c12Template(w.S)
						var v int64 = -1
						for _, rs := range parseSeqs(tmpl) {
							ps := strings.Split(rs.Params, ";")
							if rs.Kind == "CSI" && rs.Final == "y" && len(ps) == 2 {
								if ps[0] != fmt.Sprint(k) {
									bad = append(bad, fmt.Sprintf("reply %q does not echo mode %d", tmpl, k))
								}
								fmt.Sscan(ps[1], &v)
							}
						}
						// which mode field decided this path?
						var fld *types.Var
						val := ""
						for _, cd := range p.Conds {
							if cd.Field != nil && strings.HasPrefix(cd.Expr, "Model.mode.") {
								fld, val = cd.Field, cd.Val
							}
						}
						switch {
						case !implemented:
							if v != 0 {
								bad = append(bad, fmt.Sprintf("mode %d is reported with %d by %s, but set/reset do not implement it (set: %v, reset: %v) — the emulator reports a mode it does not implement", k, v, f.hQ.Name, inSet[k], inRst[k]))
							}
						case fld == nil && len(on.fields) == 0:
							// mode without state: any constant
						case fld == nil:
							bad = append(bad, fmt.Sprintf("reply %q does not depend on %v", tmpl, on.all))
						case !on.fields[fld]:
							bad = append(bad, fmt.Sprintf("reports field %s, but set/reset of mode %d write %v", fld.Name(), k, on.all))
						case (val == "true" && v != 1) || (val == "false" && v != 2):
							bad = append(bad, fmt.Sprintf("%s=%s is reported as %d (DECRPM: 1 = set, 2 = reset)", fld.Name(), val, v))
						}
					}
				}
			}
			if nrep == 0 {
				bad = append(bad, "no reply written")
			}
			c.check(len(bad) == 0, "C12.b", qkey, f.hQ.Decl.Pos(), fmt.Sprintf("%d reply path(s) over %v", nrep, on.all), strings.Join(c12Dedup(bad), "; "))
		}
	}
}

// ---------------------------------------------------------------- C12.c (requirements of established capabilities)

func (st *c12State) replyChains() {
	// (1) sixel: advertised by DA1 => the DCS q arm must hand the standard introducer to the decoder unchanged
	if _, ok := st.caps["sixels"]; ok {
		st.sixelDecoder()
	}
	// (2) DSR 6: reply slots are the fields CUP writes, +1; Vaxis hands them on in order and subtracts 1
	st.dsrChain()
	// (3) OSC colour reply format vs the Sscanf pattern that reads it
	st.oscColourFormat()
}

// encoderPkg: the package of the sixel encoder the root package uses.
func (st *c12State) encoderPkg() string {
	pk := st.c.P.Pkg("vaxis")
	out := ""
	for _, f := range pk.Syntax {
		ast.Inspect(f, func(n ast.Node) bool {
			if call, ok := n.(*ast.CallExpr); ok {
				if fn := calleeOf(pk.TypesInfo, call); fn != nil && fn.Pkg() != nil && fn.Name() == "NewEncoder" && strings.Contains(fn.Pkg().Path(), "sixel") {
					out = fn.Pkg().Path()
				}
			}
			return true
		})
	}
	return out
}

func (st *c12State) sixelDecoder() {
	c := st.c
	key := st.update.Name + "/DCS P1;P2;P3 q (sixel with parameters) reaches the decoder unchanged"
	enc := st.encoderPkg()
	if enc == "" {
		c.undecided("C12.c", key, st.update.Decl.Pos(), "the sixel encoder package of the root package was not found")
		return
	}
	// DECSIXEL introducer: DCS P1 ; P2 ; P3 q. The encoder the renderer uses writes P1;P2;P3 = 0;0;8.
	raw := "\x1bP0;0;8q%s\x1b\\"
	var seq Seq
	for _, s := range parseSeqs(raw) {
		seq = s
	}
	paths, complete, err := st.feedEmulator(seq, 0, nil)
	if err != nil || !complete {
		c.undecided("C12.c", key, st.update.Decl.Pos(), "DCS arm of update not understood: %v", err)
		return
	}
	reached := false
	var handed []string
	var unsup []string
	for _, p := range paths {
		unsup = append(unsup, p.Unsupp...)
		for _, cl := range p.Calls {
			if cl.Fn != nil && cl.Fn.Pkg() != nil && cl.Fn.Pkg().Path() == enc {
				reached = true
				for _, a := range cl.Args {
					if b, ok := a.(c12Builder); ok {
						t, _ := c12Template(*b.S)
						handed = append(handed, t)
					}
				}
			}
		}
	}
	handed = c12Dedup(handed)
	switch {
	case len(unsup) > 0:
		c.undecided("C12.c", key, st.update.Decl.Pos(), "%s", strings.Join(c12Dedup(unsup), "; "))
	case !reached:
		c.bad("C12.c", key, st.update.Decl.Pos(), "the emulator advertises sixel graphics in its DA1 reply (attribute 4), and Vaxis then draws images with the introducer ESC P 0;0;8 q (the encoder in %s always writes the three DECSIXEL parameters); update() returns before the decoder for every DCS q that has parameters, so the advertised feature does not work for what Vaxis emits", enc)
	case len(handed) != 1 || handed[0] != strings.Replace(raw, "%s", "%d", 1):
		c.bad("C12.c", key, st.update.Decl.Pos(), "the sequence handed to the sixel decoder is %q, the child wrote %q", handed, raw)
	default:
		c.ok("C12.c", key, st.update.Decl.Pos(), "decoder of %s receives %q", enc, handed[0])
	}
}

func (st *c12State) dsrChain() {
	c := st.c
	var reply *c12Reply
	for i := range st.replies {
		r := &st.replies[i]
		for _, s := range parseSeqs(r.tmpl) {
			if s.Kind == "CSI" && s.Final == "R" && s.Private == "" && len(r.syms) == 2 {
				reply = r
			}
		}
	}
	key := "cursor position report/reply reports the fields CUP writes, one-based, in CUP order"
	if reply == nil {
		c.undecided("C12.c", key, st.update.Decl.Pos(), "no CSI r;c R reply with two computed parameters was found among the emulator's replies to the start-up queries")
		return
	}
	if st.cupSlots == nil {
		c.undecided("C12.c", key, reply.call.Pos(), "the CUP parameter→field mapping was not established")
		return
	}
	var bad []string
	for i, sv := range reply.syms {
		sym, ok := sv.(c12Sym)
		if !ok || sym.Hole >= 0 {
			bad = append(bad, fmt.Sprintf("parameter %d is %s", i+1, c12Show(sv)))
			continue
		}
		if sym.Desc != st.cupSlots[i] {
			bad = append(bad, fmt.Sprintf("parameter %d reports %s, but parameter %d of CUP addresses %s", i+1, sym.Desc, i+1, st.cupSlots[i]))
		}
		if sym.K != 1 {
			bad = append(bad, fmt.Sprintf("parameter %d is %s%+d (a 0-based index must be reported one-based)", i+1, sym.Desc, sym.K))
		}
	}
	c.check(len(bad) == 0, "C12.c", key, reply.call.Pos(), fmt.Sprintf("%q with %s, %s", reply.tmpl, c12Show(reply.syms[0]), c12Show(reply.syms[1])), strings.Join(bad, "; "))

	// Vaxis side: handleSequence forwards [P1, P2] in order; CursorPosition subtracts one from each
	key2 := "cursor position report/Vaxis forwards the two parameters in order"
	var rv c12Val
	for _, s := range parseSeqs("\x1b[%d;%dR") {
		rv, _ = st.lang.value(s, 0, nil)
	}
	hp, _ := c12Run(c.P, st.handle, nil, nil, rv)
	okSend, found := true, false
	for _, p := range hp {
		for _, sd := range p.Sends {
			if sl, ok := sd.Val.(c12Slice); ok && len(sl.Elems) == 2 {
				found = true
				for i, el := range sl.Elems {
					if sym, ok := el.(c12Sym); !ok || sym.Hole != i || sym.K != 0 {
						okSend = false
					}
				}
			}
		}
	}
	if !found {
		c.undecided("C12.c", key2, st.handle.Decl.Pos(), "no two-element send found for a CSI r;c R reply")
	} else {
		c.check(okSend, "C12.c", key2, st.handle.Decl.Pos(), "[P1, P2]", "the cursor position report is forwarded with its parameters swapped or altered")
	}
	key3 := "cursor position report/CursorPosition returns zero-based (row, col) in order"
	cp := c.P.Func("vaxis.(*Vaxis).CursorPosition")
	if cp == nil {
		c.undecided("C12.c", key3, 0, "CursorPosition not found")
		return
	}
	// symbolic execution: the value received from the channel handleSequence sends on keeps its two slots
	cpaths, _ := c12Run(c.P, cp, nil, nil)
	n, okRet := 0, true
	var got string
	for _, p := range cpaths {
		if len(p.Ret) != 2 {
			continue
		}
		a, okA := p.Ret[0].(c12Sym)
		b, okB := p.Ret[1].(c12Sym)
		if !okA || !okB || !strings.HasPrefix(a.Desc, "received ") || !strings.HasPrefix(b.Desc, "received ") {
			continue // time-out path etc.
		}
		n++
		got = c12Show(a) + ", " + c12Show(b)
		if !strings.HasSuffix(a.Desc, "[0]") || !strings.HasSuffix(b.Desc, "[1]") || a.K != -1 || b.K != -1 {
			okRet = false
		}
	}
	if n == 0 {
		c.undecided("C12.c", key3, cp.Decl.Pos(), "no path of CursorPosition returns the two received values")
	} else {
		c.check(okRet, "C12.c", key3, cp.Decl.Pos(), got, "the one-based report is not converted to the zero-based (row, col) pair in order: returns "+got)
	}
}

// oscColourFormat: every OSC colour reply the emulator writes has the shape the matching Sscanf pattern of Vaxis reads.
func (st *c12State) oscColourFormat() {
	c := st.c
	pk := c.P.Pkg("vaxis")
	info := pk.TypesInfo
	// Sscanf patterns in package vaxis
	type pat struct {
		s   string
		pos token.Pos
	}
	var pats []pat
	for _, f := range pk.Syntax {
		ast.Inspect(f, func(n ast.Node) bool {
			if call, ok := n.(*ast.CallExpr); ok {
				if fn := calleeOf(info, call); fn != nil && fullName(fn) == "fmt.Sscanf" && len(call.Args) >= 2 {
					if s, ok := constString(info, call.Args[1]); ok {
						pats = append(pats, pat{s, call.Pos()})
					}
				}
			}
			return true
		})
	}
	norm := func(s string) string { // verbs -> '#'
		var sb strings.Builder
		for i := 0; i < len(s); i++ {
			if s[i] == '%' {
				j := i + 1
				for j < len(s) && !((s[j] >= 'a' && s[j] <= 'z') || (s[j] >= 'A' && s[j] <= 'Z')) {
					j++
				}
				sb.WriteByte('#')
				i = j
				continue
			}
			sb.WriteByte(s[i])
		}
		return sb.String()
	}
	for _, r := range st.replies {
		for _, s := range parseSeqs(r.tmpl) {
			if s.Kind != "OSC" || len(r.syms) == 0 {
				continue
			}
			key := fmt.Sprintf("OSC %s reply/format is what Vaxis scans", s.OSCSel)
			body := norm(s.OSCSel + ";" + s.Data)
			matched, have := false, false
			var cand string
			for _, p := range pats {
				if strings.HasPrefix(p.s, s.OSCSel+";") {
					have = true
					cand = p.s
					if norm(p.s) == body {
						matched = true
					}
				}
			}
			if !have {
				c.undecided("C12.c", key, r.call.Pos(), "no Sscanf pattern for OSC %s replies found in package vaxis", s.OSCSel)
				continue
			}
			c.check(matched, "C12.c", key, r.call.Pos(), fmt.Sprintf("reply %q matches pattern %q", r.tmpl, cand),
				fmt.Sprintf("the emulator replies %q, Vaxis scans OSC %s replies with %q: the reply establishes the capability but its content cannot be read", r.tmpl, s.OSCSel, cand))
		}
	}
}
