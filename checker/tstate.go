package main

// A small powerset typestate engine over go/cfg graphs: abstract states are strings, the state set
// at a block entry is the union over its predecessors, a transfer function maps one state to its
// successors at every CFG node, and an optional refinement prunes / rewrites states on the two edges of
// a branch. Short-circuit conditions are one node in go/cfg v0.29.0; the refinement gets the whole
// condition and decides with condAtoms (which splits && / || correctly for the given polarity).

import (
	"go/ast"
	"sort"

	"golang.org/x/tools/go/cfg"
)

type tsFlow struct {
	g        *FG
	transfer func(l Loc, n ast.Node, s string) []string
	refine   func(b *cfg.Block, c *Cond, truth bool, s string) []string
	in       map[*cfg.Block]map[string]bool
}

func (t *tsFlow) run(init ...string) {
	t.in = map[*cfg.Block]map[string]bool{}
	if len(t.g.Blocks) == 0 {
		return
	}
	entry := t.g.Blocks[0]
	t.in[entry] = map[string]bool{}
	for _, s := range init {
		t.in[entry][s] = true
	}
	work := []*cfg.Block{entry}
	for len(work) > 0 {
		b := work[len(work)-1]
		work = work[:len(work)-1]
		out := t.through(b, len(b.Nodes))
		cond := t.g.BranchCond(b)
		for i, s := range b.Succs {
			next := out
			if cond != nil && t.refine != nil && cond.Tag == nil && cond.Alts == nil && len(b.Succs) == 2 {
				next = map[string]bool{}
				for st := range out {
					for _, r := range t.refine(b, cond, i == 0, st) {
						next[r] = true
					}
				}
			}
			if t.in[s] == nil {
				t.in[s] = map[string]bool{}
			}
			changed := false
			for st := range next {
				if !t.in[s][st] {
					t.in[s][st] = true
					changed = true
				}
			}
			if changed || !t.seen(s) {
				t.mark(s)
				work = append(work, s)
			}
		}
	}
}

// seen/mark: a block is processed at least once even when it receives an empty state set.
func (t *tsFlow) seen(b *cfg.Block) bool { return t.in[b] != nil && t.in[b]["\x00seen"] }
func (t *tsFlow) mark(b *cfg.Block) {
	if t.in[b] == nil {
		t.in[b] = map[string]bool{}
	}
	t.in[b]["\x00seen"] = true
}

// through: the states after the first upTo nodes of b.
func (t *tsFlow) through(b *cfg.Block, upTo int) map[string]bool {
	cur := map[string]bool{}
	for s := range t.in[b] {
		if s != "\x00seen" {
			cur[s] = true
		}
	}
	for i := 0; i < upTo && i < len(b.Nodes); i++ {
		next := map[string]bool{}
		for s := range cur {
			for _, r := range t.transfer(Loc{b, i}, b.Nodes[i], s) {
				next[r] = true
			}
		}
		cur = next
	}
	return cur
}

// before: the states in force just before the node at l.
func (t *tsFlow) before(l Loc) []string {
	m := t.through(l.B, l.Idx)
	var out []string
	for s := range m {
		out = append(out, s)
	}
	sort.Strings(out)
	return out
}

// atExits: the states at every normal return of the function.
func (t *tsFlow) atExits() []string {
	m := map[string]bool{}
	for _, b := range t.g.Blocks {
		if t.g.isNormalExit(b) {
			for s := range t.through(b, len(b.Nodes)) {
				m[s] = true
			}
		}
	}
	var out []string
	for s := range m {
		out = append(out, s)
	}
	sort.Strings(out)
	return out
}
