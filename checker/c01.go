package main

// C01 — rendered terminal equals the application's screen: structural clauses of the frame path.

import (
	"fmt"
	"go/ast"
	"go/token"
	"go/types"
	"sort"
	"strings"

	"golang.org/x/tools/go/cfg"
)

func init() { register("C01", false, runC01) }

func hasSeq(e *Emission, pred func(Seq) bool) bool {
	for _, t := range e.Templates {
		for _, s := range parseSeqs(t) {
			if pred(s) {
				return true
			}
		}
	}
	return false
}

func isDecMode(mode, final string) func(Seq) bool {
	return func(s Seq) bool {
		return s.Kind == "CSI" && s.Private == "?" && s.Params == mode && s.Final == final && s.Inter == ""
	}
}

// without removes bookkeeping guards that only say "this is the first write into the empty buffer".
func withoutKeys(gk []string, drop func(string) bool) []string {
	var out []string
	for _, k := range gk {
		if !drop(k) {
			out = append(out, k)
		}
	}
	sort.Strings(out)
	return out
}

// reachesNextIteration: from just after `from`, can control reach the loop's next iteration (a for-post /
// range-loop block) without passing a node satisfying must?
func (g *FG) reachesNextIteration(from Loc, must func(ast.Node) bool, loop ast.Stmt) bool {
	hit := false
	seen := map[*cfg.Block]bool{}
	var work []Loc
	work = append(work, Loc{from.B, from.Idx + 1})
	for len(work) > 0 {
		l := work[len(work)-1]
		work = work[:len(work)-1]
		if l.Idx == 0 {
			if seen[l.B] {
				continue
			}
			seen[l.B] = true
			if (l.B.Kind == cfg.KindForPost || l.B.Kind == cfg.KindRangeLoop) && (loop == nil || l.B.Stmt == loop) {
				hit = true
				continue
			}
		}
		blocked := false
		for i := l.Idx; i < len(l.B.Nodes); i++ {
			if containsNode(l.B.Nodes[i], must) {
				blocked = true
				break
			}
		}
		if blocked {
			continue
		}
		for _, s := range l.B.Succs {
			work = append(work, Loc{s, 0})
		}
	}
	return hit
}

func runC01(c *Ctx) {
	c01Normalise(c)
	c.Clauses = []string{
		"C01.a every non-empty flush appends the SGR reset before the console write, resets the buffer, and ends synchronized update under exactly the guard under which it was begun",
		"C01.b the two frame prologues (writer.Write / writer.WriteString) emit the same sequences under the same guards",
		"C01.c the cursor is shown (CSI ?25h) in the frame phase only when the application requested it visible",
		"C01.d an open hyperlink is closed before every cursor reposition and after the last cell of the frame",
		"C01.e a cell is skipped only if it is a sixel cell or (unchanged and not refreshing)",
		"C01.f a size change resizes both screens with the same size, records the size and forces a refresh; entering the alternate screen forces a refresh",
		"C01.g the pen is updated after the style deltas of every emitted cell; cursor bookkeeping follows the flush; the refresh flag is cleared last",
		"C01.i cells covered by a wide glyph are forgotten (zero Cell in the last-frame copy) and the column advances by the glyph's extra width",
	}
	c.NotDec = []string{"that the emitted bytes reproduce the screen for all frame histories (diff against the last frame, width measurement, advance) — values computed by the algorithm"}
	c.expect("C01.a", 6)
	c.expect("C01.b", 2)
	c.expect("C01.c", 4)
	c.expect("C01.d", 3)
	c.expect("C01.e", 2)
	c.expect("C01.f", 6)
	c.expect("C01.g", 20)
	c.expect("C01.i", 4)

	pk := c.P.Pkg("vaxis")
	info := pk.TypesInfo
	ems := ExtractEmissions(c.P, c.P.FuncsIn("vaxis"), vaxisTerminalSink)
	byFn := map[string][]*Emission{}
	for _, e := range ems {
		byFn[e.FnName] = append(byFn[e.FnName], e)
	}
	isBufBookkeeping := func(k string) bool {
		return strings.HasPrefix(k, "writer.buf.Len()") || k == "len(p)!=0" || k == "s!=\"\""
	}

	// ---- C01.a
	flush := c.P.Func("vaxis.(*writer).Flush")
	if flush == nil {
		c.undecided("C01.a", "vaxis.(*writer).Flush", 0, "Flush not found")
	} else {
		g := c.P.Graph(flush)
		var consoleWrite, sgrWrite, syncEnd *Emission
		for _, e := range byFn[flush.Name] {
			switch {
			case !e.Resolved && isWriterBufBytes(info, e.ArgExpr):
				consoleWrite = e
			case e.Resolved && containsStr(e.GuardKeys, "writer.buf.Len()!=0") && hasSeq(e, func(s Seq) bool { return s.Kind == "CSI" && s.Final == "m" && s.Params == "" && s.Private == "" }):
				sgrWrite = e
			case e.Resolved && hasSeq(e, isDecMode("2026", "l")):
				syncEnd = e
			}
		}
		if consoleWrite == nil {
			c.undecided("C01.a", flush.Name+"/console write of the buffer", flush.Decl.Pos(), "write of w.buf.Bytes() not found")
		} else {
			isSgr := func(n ast.Node) bool { return sgrWrite != nil && n == ast.Node(sgrWrite.Call) }
			c.check(sgrWrite != nil && g.MustPrecede(isSgr, consoleWrite.Loc), "C01.a", flush.Name+"/SGR reset appended before the console write", consoleWrite.Call.Pos(),
				"every non-empty flush ends with CSI m", "a non-empty flush can reach the console write without appending the SGR reset: the pen stays set after the frame")
			if sgrWrite != nil {
				c.check(len(withoutKeys(sgrWrite.GuardKeys, isBufBookkeeping)) == 0, "C01.a", flush.Name+"/SGR reset is unconditional", sgrWrite.Call.Pos(),
					"no condition other than a non-empty buffer", fmt.Sprintf("the SGR reset is appended only under %v", withoutKeys(sgrWrite.GuardKeys, isBufBookkeeping)))
			}
			// buffer reset
			isReset := func(n ast.Node) bool {
				call, ok := n.(*ast.CallExpr)
				if !ok {
					return false
				}
				sel, ok := call.Fun.(*ast.SelectorExpr)
				return ok && sel.Sel.Name == "Reset" && fieldOwner(info, sel.X) == "writer.buf"
			}
			deferred := g.MustPrecede(func(n ast.Node) bool {
				d, ok := n.(*ast.DeferStmt)
				return ok && isReset(d.Call)
			}, consoleWrite.Loc)
			after, _ := g.MustFollow(consoleWrite.Loc, isReset)
			c.check(deferred || after, "C01.a", flush.Name+"/buffer reset after the write", consoleWrite.Call.Pos(), "buffer emptied for the next frame", "the buffer is not reset after a flush: the frame is written again with the next one")
		}
		// synchronized update balanced
		var begins []*Emission
		for _, fn := range []string{"vaxis.(*writer).Write", "vaxis.(*writer).WriteString"} {
			for _, e := range byFn[fn] {
				if e.Resolved && hasSeq(e, isDecMode("2026", "h")) {
					begins = append(begins, e)
				}
			}
		}
		if syncEnd == nil || len(begins) == 0 {
			c.bad("C01.a", flush.Name+"/synchronized update balanced", flush.Decl.Pos(), "begin (CSI ?2026h) or end (CSI ?2026l) of synchronized update is missing from the writer")
		} else {
			endG := withoutKeys(syncEnd.GuardKeys, isBufBookkeeping)
			for _, b := range begins {
				bg := withoutKeys(b.GuardKeys, isBufBookkeeping)
				c.check(strings.Join(bg, ",") == strings.Join(endG, ","), "C01.a", b.FnName+"/synchronized update begun under the guard it is ended under", b.Call.Pos(),
					fmt.Sprintf("begin %v = end %v", bg, endG), fmt.Sprintf("synchronized update is begun under %v but ended under %v: unbalanced for some capability set", bg, endG))
				c.check(containsStr(b.GuardKeys, "writer.buf.Len()==0"), "C01.a", b.FnName+"/synchronized update begun once per frame", b.Call.Pos(), "only on the first write into the empty buffer", "synchronized update is begun on every write, not once per frame")
			}
			if consoleWrite != nil {
				isEnd := func(n ast.Node) bool { return n == ast.Node(syncEnd.Call) }
				okE := true
				// on the path where the guard holds the end must precede the console write: the cond node dominates
				for _, gd := range g.Guards(syncEnd.Loc) {
					_ = gd
				}
				okE = g.ReachesAvoiding(syncEnd.Loc, consoleWrite.Loc, nil) && syncEnd.Call.Pos() < consoleWrite.Call.Pos()
				_ = isEnd
				c.check(okE, "C01.a", flush.Name+"/synchronized update ended before the console write", syncEnd.Call.Pos(), "end marker is part of the frame", "the end of synchronized update is not written with the frame")
			}
		}
	}

	// ---- C01.b prologue siblings
	type tg struct{ t, g string }
	prologue := func(fn string) []tg {
		var out []tg
		for _, e := range byFn[fn] {
			if !e.Resolved || !containsStr(e.GuardKeys, "writer.buf.Len()==0") {
				continue
			}
			out = append(out, tg{strings.Join(e.Templates, "|"), strings.Join(withoutKeys(e.GuardKeys, isBufBookkeeping), ",")})
		}
		sort.Slice(out, func(i, j int) bool { return out[i].t < out[j].t })
		return out
	}
	pw, ps := prologue("vaxis.(*writer).Write"), prologue("vaxis.(*writer).WriteString")
	if len(pw) == 0 || len(ps) == 0 {
		c.undecided("C01.b", "vaxis.(*writer).Write|WriteString/prologues", 0, "prologue emissions not found")
	} else {
		set := func(x []tg) map[string]string {
			m := map[string]string{}
			for _, e := range x {
				m[e.t] = e.g
			}
			return m
		}
		mw, ms := set(pw), set(ps)
		keys := map[string]bool{}
		for k := range mw {
			keys[k] = true
		}
		for k := range ms {
			keys[k] = true
		}
		for _, k := range sortedKeys(keys) {
			gw, okw := mw[k]
			gs, oks := ms[k]
			key := fmt.Sprintf("vaxis.(*writer).Write~WriteString/prologue %q under equal guards", k)
			pos := c.P.Func("vaxis.(*writer).Write").Decl.Pos()
			switch {
			case okw && oks && gw == gs:
				c.ok("C01.b", key, pos, "both prologues emit it under [%s]", gw)
			case okw && oks:
				c.bad("C01.b", key, pos, "Write emits %q under [%s] but WriteString under [%s]: the frame prologue depends on whether the first bytes came through Printf/Fprintf or WriteString", k, gw, gs)
			default:
				c.bad("C01.b", key, pos, "only one of the two prologues emits %q", k)
			}
		}
	}

	// ---- C01.c cursor shown only when requested
	for _, e := range ems {
		if !e.Resolved || phaseOf(e.FnName) != "frame" || !hasSeq(e, isDecMode("25", "h")) {
			continue
		}
		key := fmt.Sprintf("%s/CSI ?25h only when cursorNext.visible (site under %v)", e.FnName, withoutKeys(e.GuardKeys, func(k string) bool {
			return isBufBookkeeping(k) || !strings.Contains(k, "Vaxis.cursor")
		}))
		if containsStr(e.GuardKeys, "+Vaxis.cursorNext.visible") {
			c.ok("C01.c", key, e.Call.Pos(), "dominated by cursorNext.visible")
		} else {
			c.bad("C01.c", key, e.Call.Pos(), "the cursor is shown although the application may have requested it hidden: CSI ?25h is written without cursorNext.visible dominating (guards %v)", e.GuardKeys)
		}
	}
	// the cursor is hidden when requested hidden and last shown: a ?25l site with exactly those guards exists for the empty-buffer path
	okHide := false
	for _, e := range byFn["vaxis.(*writer).Flush"] {
		if e.Resolved && hasSeq(e, isDecMode("25", "l")) && containsStr(e.GuardKeys, "-Vaxis.cursorNext.visible") && containsStr(e.GuardKeys, "+Vaxis.cursorLast.visible") {
			okHide = true
		}
	}
	c.check(okHide, "C01.c", "vaxis.(*writer).Flush/cursor hidden when requested hidden and last shown (empty frame)", 0, "CSI ?25l under !next.visible && last.visible", "an otherwise empty frame no longer hides a cursor the application asked to hide")

	// ---- render
	render := c.P.Func("vaxis.(*Vaxis).render")
	if render == nil {
		c.undecided("C01.d", "vaxis.(*Vaxis).render", 0, "render not found")
		return
	}
	g := c.P.Graph(render)
	rems := byFn[render.Name]
	isLinkClose := func(e *Emission) bool {
		return e.Resolved && len(e.Templates) == 1 && e.Templates[0] == "\x1b]8;;\x1b\\"
	}
	isCup := func(e *Emission) bool {
		return e.Resolved && hasSeq(e, func(s Seq) bool { return s.Kind == "CSI" && s.Final == "H" && s.Private == "" })
	}
	// C01.d (1): every in-loop CUP has a link close before it under its guards + "link open"
	cellLoop := c01FindCellLoop(c, render)
	inLoop := func(e *Emission) bool {
		if cellLoop != nil {
			return cellLoop.contains(e.Call)
		}
		for _, k := range e.GuardKeys {
			if strings.HasPrefix(k, "col<len(") {
				return true
			}
		}
		return false
	}
	nd := 0
	for _, cup := range rems {
		if !isCup(cup) || !inLoop(cup) {
			continue
		}
		nd++
		found := false
		for _, cl := range rems {
			if !isLinkClose(cl) || cl.Call.Pos() > cup.Call.Pos() {
				continue
			}
			extra := []string{}
			for _, k := range cl.GuardKeys {
				if !containsStr(cup.GuardKeys, k) {
					extra = append(extra, k)
				}
			}
			missing := false
			for _, k := range cup.GuardKeys {
				if !containsStr(cl.GuardKeys, k) {
					missing = true
				}
			}
			if !missing && len(extra) == 1 && strings.HasSuffix(extra[0], "Hyperlink!=\"\"") && g.ReachesAvoiding(cl.Loc, cup.Loc, nil) {
				found = true
			}
		}
		c.check(found, "C01.d", render.Name+"/hyperlink closed before the cursor is repositioned", cup.Call.Pos(),
			"OSC 8 ;; is written first whenever the pen carries a link", "the cursor can be repositioned while a hyperlink is open: the link bleeds over the skipped cells")
	}
	if nd == 0 {
		c.undecided("C01.d", render.Name+"/reposition site", render.Decl.Pos(), "no in-loop CUP emission found")
	}
	// C01.d (1b): after a link is closed inside the cell loop the pen forgets it, so that a cell continuing
	// the same link opens it again (the delta test compares against the pen)
	isLinkForget := func(n ast.Node) bool {
		as, ok := n.(*ast.AssignStmt)
		if !ok || len(as.Lhs) != 1 || len(as.Rhs) != 1 {
			return false
		}
		sel, ok := as.Lhs[0].(*ast.SelectorExpr)
		if !ok || sel.Sel.Name != "Hyperlink" || typeName(info.TypeOf(sel.X)) != modPath+".Style" {
			return false
		}
		v, isStr := constString(info, as.Rhs[0])
		return isStr && v == ""
	}
	isLinkDeltaTest := func(n ast.Node) bool {
		be, ok := n.(*ast.BinaryExpr)
		if !ok || be.Op != token.NEQ {
			return false
		}
		l, r := canonExpr(info, be.X), canonExpr(info, be.Y)
		return strings.HasSuffix(l, ".Hyperlink") && strings.HasSuffix(r, ".Hyperlink") && l != r
	}
	for _, cl := range rems {
		if !isLinkClose(cl) || !inLoop(cl) {
			continue
		}
		stale := false
		g.walk(Loc{cl.Loc.B, cl.Loc.Idx + 1}, func(l Loc, n ast.Node) bool {
			if containsNode(n, isLinkForget) {
				return false
			}
			if containsNode(n, isLinkDeltaTest) {
				stale = true
				return false
			}
			return true
		}, nil)
		c.check(!stale, "C01.d", render.Name+"/pen forgets a hyperlink closed at a reposition", cl.Call.Pos(),
			"pen.Hyperlink is cleared before the next link comparison", "after OSC 8 ;; is written at a reposition the pen still records the link: a following cell with the same link is written without re-opening it and loses its hyperlink")
	}
	// C01.d (2): a final close after the loops, guarded only by "link open", on every path from any link-changing emission to exit
	var finalClose *Emission
	for _, cl := range rems {
		if isLinkClose(cl) && !inLoop(cl) && len(cl.GuardKeys) == 1 && strings.HasSuffix(cl.GuardKeys[0], "Hyperlink!=\"\"") {
			finalClose = cl
		}
	}
	if finalClose == nil {
		c.bad("C01.d", render.Name+"/hyperlink closed at the end of the frame", render.Decl.Pos(), "no `if pen.Hyperlink != \"\" { write OSC 8 ;; }` after the cell loops: a link stays open after the flush")
	} else {
		// the test node post-dominates every link-opening emission
		var testBlock *cfg.Block
		for _, gd := range g.Guards(finalClose.Loc) {
			testBlock = gd.From
		}
		okPD := testBlock != nil
		for _, e := range rems {
			if e.Resolved && inLoop(e) && hasSeq(e, func(s Seq) bool { return s.Kind == "OSC" && s.OSCSel == "8" }) && !isLinkClose(e) {
				reachedExitWithout := false
				g.walk(Loc{e.Loc.B, e.Loc.Idx + 1}, func(l Loc, n ast.Node) bool { return l.B != testBlock }, func(b *cfg.Block) { reachedExitWithout = true })
				if reachedExitWithout {
					okPD = false
				}
			}
		}
		c.check(okPD, "C01.d", render.Name+"/hyperlink closed at the end of the frame", finalClose.Call.Pos(), "the link test after the loops is on every path to the end of render", "render can finish without testing for an open hyperlink")
	}

	// ---- C01.e skip edges: a `continue` of the cell loop (not of a loop nested in it)
	par := c.P.Parents(render.Pkg)
	loops := cellLoop
	if loops == nil {
		c.undecided("C01.e", render.Name+"/cell loop", render.Decl.Pos(), "no loop over the columns of a row of the next screen found in render")
	}
	ast.Inspect(render.Decl.Body, func(n ast.Node) bool {
		br, ok := n.(*ast.BranchStmt)
		if !ok || br.Tok != token.CONTINUE || loops == nil {
			return true
		}
		// which loop does it continue?
		var target ast.Node
		for cur := par[br]; cur != nil; cur = par[cur] {
			switch t := cur.(type) {
			case *ast.ForStmt, *ast.RangeStmt:
				if br.Label == nil {
					target = t
				} else if ls, ok := par[t].(*ast.LabeledStmt); ok && ls.Label.Name == br.Label.Name {
					target = t
				}
			}
			if target != nil {
				break
			}
		}
		if target != ast.Node(loops.cell) {
			return true
		}
		blk, _ := par[br].(*ast.BlockStmt)
		ifs, _ := par[blk].(*ast.IfStmt)
		if ifs == nil || ifs.Body != blk {
			c.undecided("C01.e", render.Name+"/continue outside an if-body", br.Pos(), "cannot determine the skip condition")
			return true
		}
		var then *cfg.Block
		for _, b := range g.Blocks {
			if b.Kind == cfg.KindIfThen && b.Stmt == ast.Stmt(ifs) {
				then = b
			}
		}
		if then == nil {
			return true
		}
		gk := guardKeys(g, Loc{then, 0})
		sixel := containsStr(gk, "+Cell.sixel")
		unchanged := containsStr(gk, "-Vaxis.refresh")
		// the skip condition compares the current cell of the next frame with the current cell of the last frame
		hasEq := false
		for _, gd := range g.Guards(Loc{then, 0}) {
			if gd.Cond == nil || gd.Cond.Tag != nil || gd.Cond.Alts != nil {
				continue
			}
			for _, at := range c01Conjuncts(info, gd.Cond.Expr, gd.Pol, 0) {
				be, ok := unparen(at.e).(*ast.BinaryExpr)
				if !ok || !((be.Op == token.EQL && at.pol) || (be.Op == token.NEQ && !at.pol)) {
					continue
				}
				a, b := loops.cellRef(info, be.X, be.Pos(), 0), loops.cellRef(info, be.Y, be.Pos(), 0)
				if (a == "next" && b == "last") || (a == "last" && b == "next") {
					hasEq = true
				}
			}
		}
		key := render.Name + "/cell skipped only if sixel or (unchanged and not refreshing)"
		if sixel || (unchanged && hasEq) {
			c.ok("C01.e", key, br.Pos(), "skip edge under %v", gk)
		} else {
			c.bad("C01.e", key, br.Pos(), "a cell can be skipped under %v: on Refresh (or when it differs from the last frame) it is not re-emitted", gk)
		}
		return true
	})

	// ---- C01.f
	c01Resize(c, info)
	// ---- C01.g
	c01Pen(c, info, render, g, rems)
	// ---- C01.i
	c01Covered(c, info, render, g, rems, cellLoop)
}

func c01Resize(c *Ctx, info *types.Info) {
	for _, name := range []string{"vaxis.(*Vaxis).Render", "vaxis.New"} {
		fi := c.P.Func(name)
		if fi == nil {
			c.undecided("C01.f", name, 0, "not found")
			continue
		}
		g := c.P.Graph(fi)
		rz := func(which string) []Hit {
			return g.Find(func(n ast.Node) bool {
				call, ok := n.(*ast.CallExpr)
				if !ok {
					return false
				}
				sel, ok := call.Fun.(*ast.SelectorExpr)
				return ok && sel.Sel.Name == "resize" && canonPath(info, sel.X) == "Vaxis."+which
			})
		}
		nx, ls := rz("screenNext"), rz("screenLast")
		if len(nx) != 1 || len(ls) != 1 {
			c.bad("C01.f", name+"/both screens resized", fi.Decl.Pos(), "expected one resize of screenNext and one of screenLast, found %d and %d", len(nx), len(ls))
			continue
		}
		a, b := nx[0].Node.(*ast.CallExpr), ls[0].Node.(*ast.CallExpr)
		same := len(a.Args) == len(b.Args)
		for i := range a.Args {
			if same && types.ExprString(a.Args[i]) != types.ExprString(b.Args[i]) {
				same = false
			}
		}
		c.check(same, "C01.f", name+"/both screens resized to the same size", a.Pos(), "identical arguments", "screenNext and screenLast are resized with different arguments: render indexes one with the other's bounds")
		isLs := func(n ast.Node) bool { return n == ast.Node(b) }
		isNx := func(n ast.Node) bool { return n == ast.Node(a) }
		okA, _ := g.MustFollow(nx[0].Loc, isLs)
		okB := g.MustPrecede(isNx, ls[0].Loc) || g.MustPrecede(isLs, nx[0].Loc)
		c.check((okA || func() bool { ok2, _ := g.MustFollow(ls[0].Loc, isNx); return ok2 }()) && okB, "C01.f", name+"/resizes are paired on every path", a.Pos(), "one never happens without the other", "one screen can be resized without the other")
		if name == "vaxis.(*Vaxis).Render" {
			isAssign := func(path string, val string) func(ast.Node) bool {
				return func(n ast.Node) bool {
					as, ok := n.(*ast.AssignStmt)
					if !ok || len(as.Lhs) != 1 {
						return false
					}
					if lhsPath(info, as.Lhs[0]) != path {
						return false
					}
					if val == "" {
						return true
					}
					tv := info.Types[as.Rhs[0]]
					return tv.Value != nil && tv.Value.String() == val
				}
			}
			ok1, _ := g.MustFollow(nx[0].Loc, isAssign("Vaxis.winSize", ""))
			c.check(ok1, "C01.f", name+"/size change records the new size", a.Pos(), "winSize updated", "a size change does not record the new size: every later Render resizes again and never draws")
			ok2, _ := g.MustFollow(nx[0].Loc, isAssign("Vaxis.refresh", "true"))
			c.check(ok2, "C01.f", name+"/size change forces a refresh", a.Pos(), "refresh = true", "the first frame after a size change is diffed against a blank last-frame buffer without a refresh: cells equal to the zero Cell are never painted and stale content stays")
		}
	}
	if ea := c.P.Func("vaxis.(*Vaxis).enterAltScreen"); ea != nil {
		found := false
		ast.Inspect(ea.Decl.Body, func(n ast.Node) bool {
			if as, ok := n.(*ast.AssignStmt); ok && len(as.Lhs) == 1 && lhsPath(info, as.Lhs[0]) == "Vaxis.refresh" {
				if tv := info.Types[as.Rhs[0]]; tv.Value != nil && tv.Value.String() == "true" {
					found = true
				}
			}
			return true
		})
		c.check(found, "C01.f", ea.Name+"/entering the alternate screen forces a refresh", ea.Decl.Pos(), "refresh = true", "after Resume the first frame is diffed against what Vaxis believes is on a screen that was just cleared")
	}
}

func c01Pen(c *Ctx, info *types.Info, render *FuncInfo, g *FG, rems []*Emission) {
	// the pen variable: the local of type Style compared in the delta guards; its update `pen = next.Style`
	var penObj types.Object
	isPenAssign := func(n ast.Node) bool {
		as, ok := n.(*ast.AssignStmt)
		if !ok || len(as.Lhs) != 1 || len(as.Rhs) != 1 || as.Tok != token.ASSIGN {
			return false
		}
		id, ok := as.Lhs[0].(*ast.Ident)
		if !ok || typeName(info.TypeOf(id)) != modPath+".Style" {
			return false
		}
		sel, ok := unparen(as.Rhs[0]).(*ast.SelectorExpr)
		if !ok || sel.Sel.Name != "Style" {
			return false
		}
		penObj = info.ObjectOf(id)
		return true
	}
	pa := g.Find(isPenAssign)
	if len(pa) != 1 {
		c.bad("C01.g", render.Name+"/pen updated from the emitted cell", render.Decl.Pos(), "expected exactly one `pen = next.Style` in render, found %d", len(pa))
		return
	}
	n := 0
	for _, e := range rems {
		isDelta := false
		for _, k := range e.GuardKeys {
			if strings.HasPrefix(k, "Style.") && strings.Contains(k, "!=Cell.") {
				isDelta = true
			}
		}
		if !isDelta || !e.Resolved {
			continue
		}
		n++
		key := fmt.Sprintf("%s/pen updated after delta %q", render.Name, e.Templates[0])
		c.check(!g.reachesNextIteration(e.Loc, isPenAssign, enclosingLoopWith(c, render, e.Call, isPenAssign)), "C01.g", key, e.Call.Pos(), "the pen assignment is on every path to the next cell", "after this style change is written the next cell can be reached without recording the new pen: later deltas are computed against a stale pen")
	}
	if n == 0 {
		c.undecided("C01.g", render.Name+"/style deltas", render.Decl.Pos(), "no style-delta emission found")
	}
	// pen is assigned nowhere else (e.g. reset mid-frame)
	others := g.Find(func(x ast.Node) bool {
		as, ok := x.(*ast.AssignStmt)
		if !ok {
			return false
		}
		for _, l := range as.Lhs {
			if o := rootObj(info, l); o != nil && o == penObj && !isPenAssign(x) {
				// forgetting a hyperlink that was just closed is part of the bookkeeping (C01.d)
				if sel, ok := l.(*ast.SelectorExpr); ok && strings.HasPrefix(sel.Sel.Name, "Hyperlink") {
					if v, isStr := constString(info, as.Rhs[0]); isStr && v == "" {
						continue
					}
				}
				return true
			}
		}
		return false
	})
	c.check(len(others) == 0, "C01.g", render.Name+"/pen written only by the per-cell update", render.Decl.Pos(), "single writer", "the pen is also modified elsewhere in render")
	// Render: bookkeeping order
	rf := c.P.Func("vaxis.(*Vaxis).Render")
	if rf == nil {
		return
	}
	rg := c.P.Graph(rf)
	flushCalls := rg.Calls(func(fn *types.Func, _ *ast.CallExpr) bool { return fn != nil && repoName(fn) == "vaxis.writer.Flush" })
	renderCalls := rg.Calls(func(fn *types.Func, _ *ast.CallExpr) bool { return fn != nil && repoName(fn) == "vaxis.Vaxis.render" })
	isCursorSave := func(n ast.Node) bool {
		as, ok := n.(*ast.AssignStmt)
		return ok && len(as.Lhs) == 1 && lhsPath(info, as.Lhs[0]) == "Vaxis.cursorLast" && canonPath(info, as.Rhs[0]) == "Vaxis.cursorNext"
	}
	isRefreshClear := func(n ast.Node) bool {
		as, ok := n.(*ast.AssignStmt)
		if !ok || len(as.Lhs) != 1 || lhsPath(info, as.Lhs[0]) != "Vaxis.refresh" {
			return false
		}
		tv := info.Types[as.Rhs[0]]
		return tv.Value != nil && tv.Value.String() == "false"
	}
	if len(flushCalls) == 1 && len(renderCalls) == 1 {
		isFlush := func(n ast.Node) bool { return n == flushCalls[0].Node }
		isRender := func(n ast.Node) bool { return n == renderCalls[0].Node }
		c.check(rg.MustPrecede(isRender, flushCalls[0].Loc), "C01.g", rf.Name+"/render precedes Flush", flushCalls[0].Node.Pos(), "frame built before it is flushed", "Flush can run before render")
		saves := rg.Find(isCursorSave)
		okS := len(saves) == 1 && rg.MustPrecede(isFlush, saves[0].Loc)
		f1, _ := rg.MustFollow(flushCalls[0].Loc, isCursorSave)
		c.check(okS && f1, "C01.g", rf.Name+"/cursorLast = cursorNext after Flush", rf.Decl.Pos(), "Flush compares both states, then the state is saved", "the cursor state is saved before (or not after) the flush that compares last and next: cursor changes are lost")
		f2, _ := rg.MustFollow(renderCalls[0].Loc, isRefreshClear)
		clears := rg.Find(isRefreshClear)
		okR := f2 && len(clears) >= 1
		for _, cl := range clears {
			if !rg.MustPrecede(isRender, cl.Loc) {
				okR = false
			}
		}
		c.check(okR, "C01.g", rf.Name+"/refresh cleared after the frame", rf.Decl.Pos(), "refresh = false follows render", "the refresh flag is cleared before render uses it, or never")
	} else {
		c.undecided("C01.g", rf.Name+"/render and Flush calls", rf.Decl.Pos(), "expected one call each, found %d and %d", len(renderCalls), len(flushCalls))
	}
}

// c01StoreSite: an assignment that records a covered cell in the last-frame copy.
type c01StoreSite struct {
	as   *ast.AssignStmt
	info *types.Info
	fn   string
}

// c01IsNullStore: stores into screenLast.buf[row][col+i].
func c01IsNullStore(info2 *types.Info) func(ast.Node) bool {
	return func(n ast.Node) bool {
		as, ok := n.(*ast.AssignStmt)
		if !ok || len(as.Lhs) != 1 {
			return false
		}
		ix, ok := as.Lhs[0].(*ast.IndexExpr)
		if !ok {
			return false
		}
		if !strings.HasPrefix(canonPath(info2, ix.X), "Vaxis.screenLast.buf") {
			return false
		}
		_, isSum := unparen(ix.Index).(*ast.BinaryExpr)
		return isSum
	}
}

// c01NullStoreSites: the covered-cell stores of render (graph g) itself and of the same-package helpers it calls.
func c01NullStoreSites(c *Ctx, info *types.Info, g *FG, fnName string) ([]c01StoreSite, map[*types.Func]bool) {
	isNullStore := c01IsNullStore
	var allStores []c01StoreSite
	helperWithStore := map[*types.Func]bool{}
	for _, h := range g.Find(isNullStore(info)) {
		allStores = append(allStores, c01StoreSite{h.Node.(*ast.AssignStmt), info, fnName})
	}
	for _, h := range g.Calls(func(fn *types.Func, _ *ast.CallExpr) bool { return fn != nil && c.P.FuncOfObj(fn) != nil }) {
		fn := calleeOf(info, h.Node.(*ast.CallExpr))
		hf := c.P.FuncOfObj(fn)
		if hf == nil || hf.Decl.Body == nil || helperWithStore[fn] {
			continue
		}
		ast.Inspect(hf.Decl.Body, func(n ast.Node) bool {
			if isNullStore(hf.Pkg.TypesInfo)(n) {
				helperWithStore[fn] = true
				allStores = append(allStores, c01StoreSite{n.(*ast.AssignStmt), hf.Pkg.TypesInfo, hf.Name})
			}
			return true
		})
	}
	return allStores, helperWithStore
}

func c01Covered(c *Ctx, info *types.Info, render *FuncInfo, g *FG, rems []*Emission, cellLoop *c01CellLoop) {
	// the column variable: the index of the cell loop (whatever it is called)
	isCol := func(e ast.Expr) bool {
		id, ok := unparen(e).(*ast.Ident)
		if !ok {
			return false
		}
		if cellLoop != nil {
			return info.ObjectOf(id) == cellLoop.colObj
		}
		return id.Name == "col"
	}
	isNullStore := c01IsNullStore
	allStores, helperWithStore := c01NullStoreSites(c, info, g, render.Name)
	// a node "nulls covered cells" if it is such a store or a call of a helper that contains one
	isNulling := func(n ast.Node) bool {
		if isNullStore(info)(n) {
			return true
		}
		if call, ok := n.(*ast.CallExpr); ok {
			if fn := calleeOf(info, call); fn != nil && helperWithStore[fn] {
				return true
			}
		}
		return false
	}
	stores := g.Find(isNulling)
	if len(allStores) == 0 {
		c.bad("C01.i", render.Name+"/covered cells forgotten", render.Decl.Pos(), "render no longer nulls the cells covered by a wide glyph in the last-frame copy: a later narrow glyph there is followed by no re-emission of the covered cell")
	}
	for i, st := range allStores {
		as := st.as
		// the stored value evaluates to the zero Cell (Cell{}, a `var zero Cell`, an unmodified package-level
		// zero value, Cell{Style: Style{}} ...)
		// "forgotten" = the record carries no content: every exported field (grapheme, width, style) is zero. Whether
		// the record can still be mistaken for a cell the screen holds (the zero Cell can) is C01.m's question; a
		// marker in an unexported field is what answers it, and is not content.
		zv := (&c01CellEval{c: c}).eval(st.info, as.Rhs[0])
		zero := typeName(st.info.TypeOf(as.Rhs[0])) == modPath+".Cell" && len(zv.unknown) == 0
		for f := range zv.fields {
			parts := strings.Split(f, ".")
			if ast.IsExported(parts[len(parts)-1]) {
				zero = false
			}
		}
		c.check(zero, "C01.i", fmt.Sprintf("%s/covered cell #%d stored as the zero Cell", st.fn, i+1), as.Pos(), "a Cell without content", "the cell covered by a wide glyph is recorded as "+types.ExprString(as.Rhs[0])+" instead of being forgotten: the frame then relies on what the terminal leaves of a half-overwritten wide glyph")
	}
	// column advance: `skip := <advance function>(…cell…)`, where the advance function is whichever repository
	// function render calls with a Cell argument for an int that is then added to the column
	var skipObjs = map[types.Object]bool{}
	advFns := map[*FuncInfo]bool{}
	isCellType := func(t types.Type) bool { return t != nil && typeName(t) == modPath+".Cell" }
	colAdded := map[types.Object]bool{}
	ast.Inspect(render.Decl.Body, func(n ast.Node) bool {
		if as, ok := n.(*ast.AssignStmt); ok && as.Tok == token.ADD_ASSIGN && len(as.Lhs) == 1 && isCol(as.Lhs[0]) {
			if id, ok := unparen(as.Rhs[0]).(*ast.Ident); ok {
				colAdded[info.ObjectOf(id)] = true
			}
		}
		return true
	})
	ast.Inspect(render.Decl.Body, func(n ast.Node) bool {
		as, ok := n.(*ast.AssignStmt)
		if !ok || len(as.Lhs) != 1 || len(as.Rhs) != 1 {
			return true
		}
		call, ok := as.Rhs[0].(*ast.CallExpr)
		if !ok {
			return true
		}
		hf := c.P.FuncOfObj(calleeOf(info, call))
		id, isId := as.Lhs[0].(*ast.Ident)
		if hf == nil || hf.Decl.Body == nil || !isId || !colAdded[info.ObjectOf(id)] {
			return true
		}
		hasCell := false
		for _, a := range call.Args {
			if isCellType(info.TypeOf(a)) {
				hasCell = true
			}
		}
		if hasCell {
			skipObjs[info.ObjectOf(id)] = true
			advFns[hf] = true
		}
		return true
	})
	// the advance function returns the extra width: Width-1 for every explicit width 1..4
	if len(advFns) == 0 {
		c.undecided("C01.i", render.Name+"/advance function", render.Decl.Pos(), "no `skip := f(cell)` whose result is added to the column was found in render")
	}
	for hf := range advFns {
		hinfo := hf.Pkg.TypesInfo
		okAll, why := true, ""
		for k := int64(1); k <= 4 && okAll; k++ {
			m := &Machine{info: hinfo, prog: c.P, fields: map[string]val{}, tracked: func(*types.Var) bool { return false }}
			m.resolve = func(e ast.Expr) (val, bool) {
				if sel, ok := e.(*ast.SelectorExpr); ok && sel.Sel.Name == "Width" && isCellType(hinfo.TypeOf(sel.X)) {
					return val{k: vInt, i: k}, true
				}
				return val{}, false
			}
			var args []val
			for _, f := range hf.Decl.Type.Params.List {
				for range f.Names {
					args = append(args, val{})
				}
			}
			ret := m.callDecl(hf.Decl, args)
			switch {
			case len(m.problems) > 0:
				okAll, why = false, "cannot evaluate: "+strings.Join(m.problems, "; ")
			case len(ret) != 1 || ret[0].k != vInt:
				okAll, why = false, fmt.Sprintf("for Width=%d the result is not a known integer", k)
			case ret[0].i != k-1:
				okAll, why = false, fmt.Sprintf("for a cell of Width %d it returns %d, the glyph covers %d further cells", k, ret[0].i, k-1)
			}
		}
		if strings.HasPrefix(why, "cannot evaluate") || strings.Contains(why, "not a known integer") {
			c.undecided("C01.i", hf.Name+"/returns the extra width of the glyph (Width-1)", hf.Decl.Pos(), "%s", why)
		} else {
			c.check(okAll, "C01.i", hf.Name+"/returns the extra width of the glyph (Width-1)", hf.Decl.Pos(), "evaluated for Width 1..4", "the column advance is wrong: "+why)
		}
	}
	isAdvance := func(n ast.Node) bool {
		as, ok := n.(*ast.AssignStmt)
		if !ok || as.Tok != token.ADD_ASSIGN || len(as.Lhs) != 1 {
			return false
		}
		if !isCol(as.Lhs[0]) {
			return false
		}
		id, ok := unparen(as.Rhs[0]).(*ast.Ident)
		return ok && skipObjs[info.ObjectOf(id)]
	}
	for _, e := range rems {
		// the glyph writes: pass-through of the grapheme, the explicit-width form, and the zero-width blank
		isGlyph := (!e.Resolved && strings.Contains(types.ExprString(e.ArgExpr), "Grapheme")) ||
			(e.Resolved && (hasSeq(e, func(s Seq) bool { return s.Kind == "OSC" && s.OSCSel == "66" }) || (len(e.Templates) == 1 && e.Templates[0] == " ")))
		if !isGlyph {
			continue
		}
		key := fmt.Sprintf("%s/column advances past the cells a glyph covers (%s)", render.Name, types.ExprString(e.ArgExpr))
		c.check(!g.reachesNextIteration(e.Loc, isAdvance, enclosingLoopWith(c, render, e.Call, isAdvance)), "C01.i", key, e.Call.Pos(), "col += advance(next) on every path to the next cell", "after a glyph is written the next iteration can start without skipping the cells it covers: they are painted over the glyph's right half")
		// a nulling store is reachable after the glyph write before the next cell
		okNull := false
		for _, st := range stores {
			if g.ReachesAvoiding(e.Loc, st.Loc, func(n ast.Node) bool { return false }) {
				okNull = true
			}
		}
		c.check(okNull, "C01.i", fmt.Sprintf("%s/covered cells nulled after the glyph write (%s)", render.Name, types.ExprString(e.ArgExpr)), e.Call.Pos(), "nulling loop follows", "no nulling of covered cells follows this glyph write")
	}
}

// enclosingLoopWith returns the innermost for/range statement containing n whose body also contains a node
// satisfying has (the cell loop, as opposed to an inner loop over a constant table of sequences that writes the
// deltas); the innermost loop if none does.
func enclosingLoopWith(c *Ctx, fi *FuncInfo, n ast.Node, has func(ast.Node) bool) ast.Stmt {
	par := c.P.Parents(fi.Pkg)
	for cur := par[n]; cur != nil; cur = par[cur] {
		switch t := cur.(type) {
		case *ast.ForStmt, *ast.RangeStmt:
			if containsNode(t, has) {
				return t.(ast.Stmt)
			}
		}
	}
	return enclosingLoop(c, fi, n)
}

// enclosingLoop returns the innermost for/range statement containing n.
func enclosingLoop(c *Ctx, fi *FuncInfo, n ast.Node) ast.Stmt {
	par := c.P.Parents(fi.Pkg)
	for cur := par[n]; cur != nil; cur = par[cur] {
		switch t := cur.(type) {
		case *ast.ForStmt:
			return t
		case *ast.RangeStmt:
			return t
		}
	}
	return nil
}

// ---- the cell loop of render and references to the current cell

type c01CellLoop struct {
	fi     *FuncInfo
	row    ast.Stmt     // the loop over the rows of the next screen
	cell   *ast.ForStmt // the loop over the columns of the row
	rowObj types.Object // the row index variable
	colObj types.Object // the column index variable
	rowVal types.Object // the row itself (value variable of a range over the rows), or nil
}

// c01FindCellLoop: `for c := ...; c < len(<row r of Vaxis.screenNext.buf>); ...` nested in a loop over the rows.
func c01FindCellLoop(c *Ctx, fi *FuncInfo) *c01CellLoop {
	info := fi.Pkg.TypesInfo
	par := c.P.Parents(fi.Pkg)
	var out *c01CellLoop
	inspectNoLit(fi.Decl.Body, func(n ast.Node) bool {
		fs, ok := n.(*ast.ForStmt)
		if !ok || out != nil {
			return out == nil
		}
		as, ok := fs.Init.(*ast.AssignStmt)
		if !ok || len(as.Lhs) != 1 || as.Tok != token.DEFINE {
			return true
		}
		cid, ok := as.Lhs[0].(*ast.Ident)
		if !ok {
			return true
		}
		colObj := info.Defs[cid]
		be, ok := unparen(fs.Cond).(*ast.BinaryExpr)
		if !ok || colObj == nil {
			return true
		}
		var bound ast.Expr
		switch {
		case be.Op == token.LSS && rootObj(info, be.X) == colObj:
			bound = be.Y
		case be.Op == token.GTR && rootObj(info, be.Y) == colObj:
			bound = be.X
		default:
			return true
		}
		if !strings.HasPrefix(canonExpr(info, bound), "len(Vaxis.screenNext.buf[") {
			return true
		}
		// the enclosing row loop
		for cur := par[fs]; cur != nil; cur = par[cur] {
			switch t := cur.(type) {
			case *ast.RangeStmt:
				if canonPath(info, t.X) != "Vaxis.screenNext.buf" {
					continue
				}
				l := &c01CellLoop{fi: fi, row: t, cell: fs, colObj: colObj}
				if id, ok := t.Key.(*ast.Ident); ok && id.Name != "_" {
					l.rowObj = info.ObjectOf(id)
				}
				if id, ok := t.Value.(*ast.Ident); ok && id.Name != "_" {
					l.rowVal = info.ObjectOf(id)
				}
				out = l
				return false
			case *ast.ForStmt:
				ras, ok := t.Init.(*ast.AssignStmt)
				if !ok || len(ras.Lhs) != 1 {
					continue
				}
				rid, ok := ras.Lhs[0].(*ast.Ident)
				if !ok || t.Cond == nil || !strings.Contains(canonExpr(info, t.Cond), "len(Vaxis.screenNext.buf)") {
					continue
				}
				out = &c01CellLoop{fi: fi, row: t, cell: fs, colObj: colObj, rowObj: info.ObjectOf(rid)}
				return false
			}
		}
		return true
	})
	return out
}

// contains: is n inside the body of the cell loop?
func (l *c01CellLoop) contains(n ast.Node) bool {
	return l != nil && n != nil && l.cell.Body.Pos() <= n.Pos() && n.End() <= l.cell.Body.End()
}

// writtenBetween: is one of objs assigned (as a whole, or a field/element of it) at a source position strictly
// between from and to? The alias definitions this is used for are plain statements of the loop body that
// precede the use in the same iteration, so anything that can run between them lies between them in the text.
func (l *c01CellLoop) writtenBetween(info *types.Info, objs map[types.Object]bool, from, to token.Pos) bool {
	found := false
	ast.Inspect(l.fi.Decl.Body, func(n ast.Node) bool {
		if n == nil || found {
			return false
		}
		if n.End() < from || n.Pos() > to {
			return false
		}
		hit := func(e ast.Expr, pos token.Pos) {
			if pos > from && pos < to {
				if o := rootObj(info, e); o != nil && objs[o] {
					found = true
				}
			}
		}
		switch t := n.(type) {
		case *ast.AssignStmt:
			if t.Tok != token.DEFINE {
				for _, x := range t.Lhs {
					hit(x, t.Pos())
				}
			}
		case *ast.IncDecStmt:
			hit(t.X, t.Pos())
		case *ast.UnaryExpr:
			if t.Op == token.AND {
				if id, ok := unparen(t.X).(*ast.Ident); ok {
					hit(id, t.Pos())
				}
			}
		}
		return true
	})
	return found
}

// cellRef: "next" / "last" if e denotes, at position use, the cell of the next / last screen at the current
// row and column (directly, through a local defined once as a copy or as a pointer to it, or through the row
// variable of the row loop); "" otherwise.
func (l *c01CellLoop) cellRef(info *types.Info, e ast.Expr, use token.Pos, depth int) string {
	if l == nil || depth > 4 {
		return ""
	}
	e = unparen(e)
	idx := map[types.Object]bool{l.colObj: true}
	if l.rowObj != nil {
		idx[l.rowObj] = true
	}
	viaLocal := func(id *ast.Ident, wantAddr bool) string {
		o := info.ObjectOf(id)
		src := singleDefOf(info, o)
		if src == nil || !l.contains(id) {
			return ""
		}
		if wantAddr {
			u, ok := unparen(src).(*ast.UnaryExpr)
			if !ok || u.Op != token.AND {
				return ""
			}
			src = u.X
		}
		// neither the indices nor (for a copy) the local itself change between the definition and the use
		objs := map[types.Object]bool{}
		for k := range idx {
			objs[k] = true
		}
		if !wantAddr {
			objs[o] = true
		}
		if src.Pos() >= use || l.writtenBetween(info, objs, src.End(), use) {
			return ""
		}
		return l.cellRef(info, src, src.Pos(), depth+1)
	}
	switch t := e.(type) {
	case *ast.StarExpr:
		if id, ok := unparen(t.X).(*ast.Ident); ok {
			return viaLocal(id, true)
		}
	case *ast.Ident:
		return viaLocal(t, false)
	case *ast.IndexExpr:
		if cid, ok := unparen(t.Index).(*ast.Ident); !ok || info.ObjectOf(cid) != l.colObj {
			return ""
		}
		return l.rowRef(info, t.X, use, depth)
	}
	return ""
}

// rowRef: "next" / "last" if e is the current row of that screen.
func (l *c01CellLoop) rowRef(info *types.Info, e ast.Expr, use token.Pos, depth int) string {
	e = unparen(e)
	switch t := e.(type) {
	case *ast.IndexExpr:
		rid, ok := unparen(t.Index).(*ast.Ident)
		if !ok || l.rowObj == nil || info.ObjectOf(rid) != l.rowObj {
			return ""
		}
		switch canonPath(info, t.X) {
		case "Vaxis.screenNext.buf":
			return "next"
		case "Vaxis.screenLast.buf":
			return "last"
		}
	case *ast.Ident:
		o := info.ObjectOf(t)
		if l.rowVal != nil && o == l.rowVal {
			return "next" // the value variable of the range over the rows of the next screen
		}
		if src := singleDefOf(info, o); src != nil && depth < 4 && l.row.Pos() <= t.Pos() && t.End() <= l.row.End() {
			objs := map[types.Object]bool{o: true}
			if l.rowObj != nil {
				objs[l.rowObj] = true
			}
			if src.Pos() < use && !l.writtenBetween(info, objs, src.End(), use) {
				return l.rowRef(info, src, src.Pos(), depth+1)
			}
		}
	}
	return ""
}

type c01Atom struct {
	e   ast.Expr
	pol bool
}

// c01Conjuncts: the atomic conditions that all hold when e has truth value pol (negation, &&, De Morgan on ||,
// boolean locals defined once by a condition).
func c01Conjuncts(info *types.Info, e ast.Expr, pol bool, depth int) []c01Atom {
	e = unparen(e)
	switch t := e.(type) {
	case *ast.UnaryExpr:
		if t.Op == token.NOT {
			return c01Conjuncts(info, t.X, !pol, depth)
		}
	case *ast.BinaryExpr:
		if (t.Op == token.LAND && pol) || (t.Op == token.LOR && !pol) {
			return append(c01Conjuncts(info, t.X, pol, depth), c01Conjuncts(info, t.Y, pol, depth)...)
		}
	case *ast.Ident:
		if def := flagDefOf(info, t); def != nil && depth < 4 {
			return c01Conjuncts(info, def, pol, depth+1)
		}
	}
	return []c01Atom{{e, pol}}
}
