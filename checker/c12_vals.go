package main

// C12 — value domain of the symbolic mini-executor (c12_exec.go).
//
// The executor interprets function bodies of the repository on *symbolic*
// control sequences (constants plus numbered holes for the renderer's
// non-constant arguments). It is an abstract interpretation of the source AST:
// nothing of /repo is built or run.

import (
	"fmt"
	"go/ast"
	"go/token"
	"go/types"
	"strings"

	"golang.org/x/tools/go/packages"
)

type c12Val interface{}

type c12Int struct{ V int64 }
type c12Bool struct{ V bool }

// c12Sym is an unknown value. Hole >= 0: a numbered hole of the input sequence.
// For integers the value is <sym> + K.
type c12Sym struct {
	Hole int
	Desc string
	K    int64
	// From: the field of the receiver state this unknown was read from (Desc is then its path); it travels with
	// the value through locals and helper parameters, so that a test of the value is a test of that field
	From *types.Var
}

type c12Part struct {
	Lit string
	Sym c12Val // non-nil: symbolic piece
}
type c12Str struct{ Parts []c12Part }

// c12Pos is a position inside a c12Str found by strings.Index (part index, offset inside that literal part).
type c12Pos struct {
	Part, Off int
}
type c12Slice struct{ Elems []c12Val }
type c12Struct struct {
	Typ    types.Type
	Fields map[string]c12Val
}
type c12Conv struct {
	Typ types.Type
	X   c12Val
}
type c12App struct {
	Fn   *types.Func
	Name string
	Args []c12Val
}
type c12Builder struct{ S *c12Str }

// c12Map is the value of a read-only package-level map table (keys and values in literal order).
type c12Map struct {
	Typ  types.Type
	Keys []c12Val
	Vals []c12Val
}
type c12Tuple struct{ Vals []c12Val }
type c12Nil struct{}

// c12Load is the (unknown) value read from an indexed part of the receiver state, e.g. the cell
// Model.activeScreen[][] at Idx [r, c], optionally followed by field selections.
type c12Load struct {
	Path string
	Idx  []c12Val
	Sel  []string
}

// c12Loop records a loop that was executed generically (one symbolic iteration).
type c12Loop struct {
	Sym   string // description of the loop variable's symbol
	Kind  string // "range" | "for"
	Over  string // range: key of the ranged reference
	Init  c12Val // for: value of the variable before the loop
	Op    string // for: comparison operator, normalised to `var OP bound`
	Bound c12Val
	Cond  string
}

// c12Ref is a reference into the state of the receiver object ("Model.cursor.row").
type c12Ref struct {
	Path  string
	Field *types.Var
	Idx   []c12Val
	// Addr: the value is the address of that piece of state (&m.f), which is never nil; without it the
	// reference may also stand for a pointer-typed field whose value is unknown
	Addr bool
}

func c12Lit(s string) c12Str { return c12Str{Parts: []c12Part{{Lit: s}}} }

func (s c12Str) norm() c12Str {
	var out []c12Part
	for _, p := range s.Parts {
		if p.Sym == nil {
			if p.Lit == "" {
				continue
			}
			if n := len(out); n > 0 && out[n-1].Sym == nil {
				out[n-1].Lit += p.Lit
				continue
			}
		}
		out = append(out, p)
	}
	return c12Str{Parts: out}
}

func (s c12Str) literal() (string, bool) {
	n := s.norm()
	switch len(n.Parts) {
	case 0:
		return "", true
	case 1:
		if n.Parts[0].Sym == nil {
			return n.Parts[0].Lit, true
		}
	}
	return "", false
}

func (s c12Str) concat(t c12Str) c12Str {
	return c12Str{Parts: append(append([]c12Part{}, s.Parts...), t.Parts...)}.norm()
}

func c12Show(v c12Val) string {
	switch t := v.(type) {
	case nil:
		return "<none>"
	case c12Int:
		return fmt.Sprint(t.V)
	case c12Bool:
		return fmt.Sprint(t.V)
	case c12Sym:
		d := t.Desc
		if t.Hole >= 0 {
			d = fmt.Sprintf("h%d%s", t.Hole, t.Desc)
		}
		switch {
		case t.K > 0:
			return fmt.Sprintf("%s+%d", d, t.K)
		case t.K < 0:
			return fmt.Sprintf("%s-%d", d, -t.K)
		}
		return d
	case c12Str:
		var sb strings.Builder
		for _, p := range t.norm().Parts {
			if p.Sym != nil {
				sb.WriteString("{" + c12Show(p.Sym) + "}")
			} else {
				sb.WriteString(p.Lit)
			}
		}
		return fmt.Sprintf("%q", sb.String())
	case c12Pos:
		return fmt.Sprintf("pos(%d,%d)", t.Part, t.Off)
	case c12Slice:
		var e []string
		for _, x := range t.Elems {
			e = append(e, c12Show(x))
		}
		return "[" + strings.Join(e, " ") + "]"
	case *c12Struct:
		return typeName(t.Typ) + "{…}"
	case c12Conv:
		return typeName(t.Typ) + "(" + c12Show(t.X) + ")"
	case c12App:
		var e []string
		for _, x := range t.Args {
			e = append(e, c12Show(x))
		}
		return t.Name + "(" + strings.Join(e, ",") + ")"
	case c12Builder:
		return "builder" + c12Show(*t.S)
	case c12Tuple:
		var e []string
		for _, x := range t.Vals {
			e = append(e, c12Show(x))
		}
		return "(" + strings.Join(e, ",") + ")"
	case c12Nil:
		return "nil"
	case c12Map:
		return fmt.Sprintf("map[%d entries]", len(t.Keys))
	case c12Ref:
		k := "&" + t.Path
		for _, ix := range t.Idx {
			k += "[" + c12Show(ix) + "]"
		}
		return k
	case c12Load:
		k := t.Path
		for _, ix := range t.Idx {
			k += "[" + c12Show(ix) + "]"
		}
		return k + strings.Join(t.Sel, "")
	}
	return fmt.Sprintf("%v", v)
}

// c12Eq compares two values; known=false when the outcome depends on a symbol.
func c12Eq(a, b c12Val) (eq, known bool) {
	switch x := a.(type) {
	case c12Int:
		if y, ok := b.(c12Int); ok {
			return x.V == y.V, true
		}
	case c12Bool:
		if y, ok := b.(c12Bool); ok {
			return x.V == y.V, true
		}
	case c12Str:
		if y, ok := b.(c12Str); ok {
			ls, ok1 := x.literal()
			rs, ok2 := y.literal()
			if ok1 && ok2 {
				return ls == rs, true
			}
			// a string with a non-empty literal piece is not the empty string (whatever its symbolic pieces hold)
			nonEmpty := func(z c12Str) bool {
				for _, p := range z.Parts {
					if p.Sym == nil && p.Lit != "" {
						return true
					}
				}
				return false
			}
			if (ok1 && ls == "" && nonEmpty(y)) || (ok2 && rs == "" && nonEmpty(x)) {
				return false, true
			}
		}
	case c12Nil:
		switch y := b.(type) {
		case c12Nil:
			return true, true
		case c12Slice:
			return len(y.Elems) == 0, len(y.Elems) != 0 // an empty non-nil slice: unknown
		case *c12Struct, c12Builder:
			return false, true
		}
	case c12Sym:
		if y, ok := b.(c12Sym); ok && x.Hole == y.Hole && x.Desc == y.Desc && (x.Hole >= 0 || x.Desc != "") {
			return x.K == y.K, true
		}
	case c12Pos:
		if y, ok := b.(c12Int); ok && y.V < 0 {
			return false, true
		}
	}
	if _, ok := b.(c12Nil); ok {
		if _, isNil := a.(c12Nil); !isNil {
			e, k := c12Eq(b, a)
			return e, k
		}
	}
	return false, false
}

// c12Cmp evaluates an ordering comparison.
func c12Cmp(op token.Token, a, b c12Val) (res, known bool) {
	if p, ok := a.(c12Pos); ok {
		if y, ok := b.(c12Int); ok && y.V <= 0 {
			_ = p
			switch op {
			case token.GEQ:
				return true, true
			case token.GTR:
				return y.V < 0, y.V < 0
			case token.LSS:
				return false, true
			case token.LEQ:
				return false, y.V < 0
			}
		}
	}
	x, ok1 := a.(c12Int)
	y, ok2 := b.(c12Int)
	if !ok1 || !ok2 {
		// same symbol, different offsets
		sx, okx := a.(c12Sym)
		sy, oky := b.(c12Sym)
		if okx && oky && sx.Hole == sy.Hole && sx.Desc == sy.Desc && (sx.Hole >= 0 || sx.Desc != "") {
			x, y = c12Int{sx.K}, c12Int{sy.K}
		} else {
			return false, false
		}
	}
	switch op {
	case token.LSS:
		return x.V < y.V, true
	case token.LEQ:
		return x.V <= y.V, true
	case token.GTR:
		return x.V > y.V, true
	case token.GEQ:
		return x.V >= y.V, true
	}
	return false, false
}

// effects, calls and path conditions recorded along one executed path

type c12Effect struct {
	Path  string
	Field *types.Var
	Op    token.Token
	Val   c12Val
	Idx   []c12Val
	Node  ast.Node
	Fn    string
}

type c12CallRec struct {
	Fn       *types.Func
	Name     string
	Args     []c12Val
	ArgTypes []types.Type
	Recv     c12Val
	Call     *ast.CallExpr
	In       string
	Inlined  bool
	NCond    int // number of path conditions recorded before the call
	Store    map[string]c12Val
}

type c12Cond struct {
	Expr  string
	Val   string
	Field *types.Var
	Node  ast.Node
}

type c12Write struct {
	S    c12Str
	Call *ast.CallExpr
	In   string
}

type c12Send struct {
	Chan string
	Val  c12Val
	Typ  types.Type
}

type c12Path struct {
	Effects []c12Effect
	Calls   []c12CallRec
	Conds   []c12Cond
	Writes  []c12Write
	Sends   []c12Send
	NoCase  []string
	Panics  []string
	Unsupp  []string
	Skipped []string
	Loops   []c12Loop
	Ret     []c12Val
	// Final: the receiver state at the end of the path (initial values and everything stored on the way)
	Final map[string]c12Val
	// SkippedAt: the loop statements behind the entries of Skipped, with the function they stand in
	SkippedAt []c12SkippedLoop
}

type c12SkippedLoop struct {
	Node ast.Stmt
	Pkg  *packages.Package
	Fn   string
}

func (p *c12Path) condString() string {
	var s []string
	for _, c := range p.Conds {
		s = append(s, c.Expr+"="+c.Val)
	}
	return strings.Join(s, " ∧ ")
}
