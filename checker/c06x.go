package main

// Additional C06 rule written by the main author after a seeded regression:
//  C06.e  save/restore cursor carries the rendition: DECSC stores the whole cursor (position and SGR state)
//         and DECRC restores the whole cursor, so text printed and cells erased after ESC 8 / CSI u / ?1049l
//         use the saved style. (xterm/VT: DECSC saves cursor position, character attributes, …)

import (
	"go/ast"
	"go/types"
)

func init() { registerExtra("C06", c06SaveRestoreRendition) }

func c06SaveRestoreRendition(c *Ctx) {
	c.Clauses = append(c.Clauses, "C06.e DECSC saves and DECRC restores the whole cursor, including the SGR rendition")
	c.expect("C06.e", 2)
	pk := c.P.Pkg("widgets/term")
	if pk == nil {
		c.undecided("C06.e", "widgets/term", 0, "package not loaded")
		return
	}
	info := pk.TypesInfo
	isCursorType := func(e ast.Expr) bool {
		t := info.TypeOf(e)
		if t == nil {
			return false
		}
		n, ok := t.(*types.Named)
		return ok && n.Obj().Name() == "cursor"
	}
	// DECRC: vt.cursor = <saved>.cursor (whole struct), or both position and Style assigned from the saved cursor
	if fi := c.P.Func("widgets/term.(*Model).decrc"); fi != nil {
		whole, style := false, false
		ast.Inspect(fi.Decl.Body, func(n ast.Node) bool {
			as, ok := n.(*ast.AssignStmt)
			if !ok || len(as.Lhs) != 1 || len(as.Rhs) != 1 {
				return true
			}
			lp := lhsPath(info, as.Lhs[0])
			if lp == "Model.cursor" && isCursorType(as.Rhs[0]) {
				if sel, ok := unparen(as.Rhs[0]).(*ast.SelectorExpr); ok && sel.Sel.Name == "cursor" {
					whole = true
				}
				// vt.cursor = local, where local was defined once as <saved>.cursor and only its position is adjusted
				if id, ok := unparen(as.Rhs[0]).(*ast.Ident); ok {
					if obj := info.ObjectOf(id); obj != nil {
						defs, fromSaved, otherField := 0, false, false
						ast.Inspect(fi.Decl.Body, func(m ast.Node) bool {
							as2, ok := m.(*ast.AssignStmt)
							if !ok {
								return true
							}
							for i, l := range as2.Lhs {
								if lid, ok := unparen(l).(*ast.Ident); ok && info.ObjectOf(lid) == obj {
									defs++
									if len(as2.Lhs) == len(as2.Rhs) {
										if sel, ok := unparen(as2.Rhs[i]).(*ast.SelectorExpr); ok && sel.Sel.Name == "cursor" && isCursorType(as2.Rhs[i]) {
											fromSaved = true
										}
									}
								}
								if sel, ok := unparen(l).(*ast.SelectorExpr); ok {
									if bid, ok := unparen(sel.X).(*ast.Ident); ok && info.ObjectOf(bid) == obj && sel.Sel.Name != "row" && sel.Sel.Name != "col" {
										otherField = true
									}
								}
							}
							return true
						})
						if defs == 1 && fromSaved && !otherField {
							whole = true
						}
					}
				}
			}
			if lp == "Model.cursor.Style" {
				if sel, ok := unparen(as.Rhs[0]).(*ast.SelectorExpr); ok && sel.Sel.Name == "Style" {
					style = true
				}
			}
			return true
		})
		c.check(whole || style, "C06.e", fi.Name+"/restores the saved rendition with the position", fi.Decl.Pos(), "the whole saved cursor (position and Style) is restored",
			"DECRC restores only part of the saved cursor: the SGR rendition saved by DECSC is dropped, so text printed and cells erased after a restore use the wrong style")
	} else {
		c.undecided("C06.e", "widgets/term.(*Model).decrc", 0, "decrc not found")
	}
	if fi := c.P.Func("widgets/term.(*Model).decsc"); fi != nil {
		saved := false
		ast.Inspect(fi.Decl.Body, func(n ast.Node) bool {
			kv, ok := n.(*ast.KeyValueExpr)
			if ok {
				if id, isId := kv.Key.(*ast.Ident); isId && id.Name == "cursor" && canonPath(info, kv.Value) == "Model.cursor" {
					saved = true
				}
			}
			if as, ok := n.(*ast.AssignStmt); ok && len(as.Lhs) == 1 && len(as.Rhs) == 1 {
				if sel, ok := as.Lhs[0].(*ast.SelectorExpr); ok && sel.Sel.Name == "cursor" && canonPath(info, as.Rhs[0]) == "Model.cursor" {
					saved = true
				}
			}
			return true
		})
		c.check(saved, "C06.e", fi.Name+"/saves the whole cursor", fi.Decl.Pos(), "cursor: vt.cursor", "DECSC does not save the whole cursor (position and rendition)")
	} else {
		c.undecided("C06.e", "widgets/term.(*Model).decsc", 0, "decsc not found")
	}
}
