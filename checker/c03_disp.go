package main

// c03_disp.go — rule C03.g (dispatch of user-input events) and the interprocedural helpers it shares with
// rules d and i: facts and guards are followed from a helper to its (unique) call site, so extracting a
// case body, the whole CSI clause, or a boolean "was it a reply?" predicate into a same-package function
// does not change any verdict.

import (
	"fmt"
	"go/ast"
	"go/token"
	"go/types"
	"sort"
	"strings"
)

type c03CallSite struct {
	fi   *FuncInfo
	g    *FG
	loc  Loc
	call *ast.CallExpr
}

// uniqueCaller: the only reference to fi in its package, if that reference is a call inside a function of
// the input context (nil otherwise).
func (x *c03Env) uniqueCaller(fi *FuncInfo) *c03CallSite {
	if x.callerCache == nil {
		x.callerCache = map[*types.Func]*c03CallSite{}
		x.callerKnown = map[*types.Func]bool{}
	}
	if x.callerKnown[fi.Obj] {
		return x.callerCache[fi.Obj]
	}
	x.callerKnown[fi.Obj] = true
	nRef := 0
	for _, o := range x.info.Uses {
		if o == types.Object(fi.Obj) {
			nRef++
		}
	}
	if nRef != 1 {
		return nil
	}
	for _, cf := range x.keyEnv().inReach {
		if cf.Decl.Body == nil || cf == fi {
			continue
		}
		g := x.c.P.Graph(cf)
		for _, h := range g.Calls(func(fn *types.Func, _ *ast.CallExpr) bool { return fn == fi.Obj }) {
			x.callerCache[fi.Obj] = &c03CallSite{cf, g, h.Loc, h.Node.(*ast.CallExpr)}
			return x.callerCache[fi.Obj]
		}
	}
	return nil
}

func c03Params(info *types.Info, fi *FuncInfo) []types.Object {
	var out []types.Object
	for _, f := range fi.Decl.Type.Params.List {
		if len(f.Names) == 0 {
			out = append(out, nil)
		}
		for _, nm := range f.Names {
			out = append(out, info.Defs[nm])
		}
	}
	return out
}

// eqFactsInter: eqFacts at loc plus the facts in force at the unique call site of the function, renamed
// from the argument variables to the parameters (parameters that are never assigned only).
func (x *c03Env) eqFactsInter(fi *FuncInfo, g *FG, loc Loc, depth int) map[string][]int64 {
	out := x.eqFacts(g, loc)
	if depth > 3 || fi == nil || fi == x.handle {
		return out
	}
	cs := x.uniqueCaller(fi)
	if cs == nil {
		return out
	}
	up := x.eqFactsInter(cs.fi, cs.g, cs.loc, depth+1)
	params := c03Params(x.info, fi)
	if len(params) != len(cs.call.Args) {
		return out
	}
	assigned := map[types.Object]bool{}
	ast.Inspect(fi.Decl.Body, func(n ast.Node) bool {
		if as, ok := n.(*ast.AssignStmt); ok {
			for _, l := range as.Lhs {
				if o := rootObj(x.info, l); o != nil {
					assigned[o] = true
				}
			}
		}
		return true
	})
	for i, a := range cs.call.Args {
		id, ok := unparen(a).(*ast.Ident)
		if !ok || params[i] == nil || assigned[params[i]] {
			continue
		}
		from := fmt.Sprintf("%p", x.info.ObjectOf(id))
		to := fmt.Sprintf("%p", params[i])
		for k, v := range up {
			neg := ""
			if strings.HasPrefix(k, "!") {
				neg, k = "!", k[1:]
			}
			if k == from || strings.HasPrefix(k, from+".") || strings.HasPrefix(k, from+"[") {
				nk := neg + to + k[len(from):]
				if _, own := out[nk]; !own {
					out[nk] = v
				}
			}
		}
	}
	return out
}

type c03GuardAt struct {
	g  *FG
	gd Guard
}

// guardsInter: the guards at loc and, up the chain of unique call sites, the guards of each call.
func (x *c03Env) guardsInter(fi *FuncInfo, g *FG, loc Loc, depth int) []c03GuardAt {
	var out []c03GuardAt
	for _, gd := range g.Guards(loc) {
		out = append(out, c03GuardAt{g, gd})
	}
	if depth > 3 || fi == nil || fi == x.handle {
		return out
	}
	if cs := x.uniqueCaller(fi); cs != nil {
		out = append(out, x.guardsInter(cs.fi, cs.g, cs.loc, depth+1)...)
	}
	return out
}

// csiVars: variables of type ansi.CSI in fi (parameters, type-switch clause variables, locals).
func (x *c03Env) csiVars(fi *FuncInfo) []types.Object {
	seen := map[types.Object]bool{}
	var out []types.Object
	add := func(o types.Object) {
		if o != nil && !seen[o] && typeName(o.Type()) == modPath+"/ansi.CSI" {
			seen[o] = true
			out = append(out, o)
		}
	}
	ast.Inspect(fi.Decl, func(n ast.Node) bool {
		switch t := n.(type) {
		case *ast.Ident:
			add(x.info.ObjectOf(t))
		case *ast.CaseClause:
			add(x.info.Implicits[t])
		}
		return true
	})
	sort.Slice(out, func(i, j int) bool { return out[i].Pos() < out[j].Pos() })
	return out
}

// csiScope: the function that dispatches on the final byte of a CSI: handleSequence, or — when its CSI
// clause only forwards the sequence — the same-package function it forwards to.
func (x *c03Env) csiScope() (fi *FuncInfo, region ast.Node, seqObj types.Object) {
	cc := x.csiClause()
	if cc == nil {
		return nil, nil, nil
	}
	fi, region, seqObj = x.handle, cc, x.info.Implicits[cc]
	for hop := 0; hop < 3 && seqObj != nil; hop++ {
		mentionsFinal := containsNode(region, func(n ast.Node) bool {
			sel, ok := n.(*ast.SelectorExpr)
			return ok && sel.Sel.Name == "Final" && rootObj(x.info, sel) == seqObj
		})
		if mentionsFinal {
			break
		}
		var next *FuncInfo
		var nextObj types.Object
		n := 0
		ast.Inspect(region, func(m ast.Node) bool {
			call, ok := m.(*ast.CallExpr)
			if !ok {
				return true
			}
			fn := calleeOf(x.info, call)
			cfi := x.keyEnv().inReach[fn]
			if cfi == nil || cfi.Decl.Body == nil {
				return true
			}
			params := c03Params(x.info, cfi)
			for i, a := range call.Args {
				if id, ok := unparen(a).(*ast.Ident); ok && x.info.ObjectOf(id) == seqObj && i < len(params) && params[i] != nil &&
					typeName(params[i].Type()) == modPath+"/ansi.CSI" {
					n++
					next, nextObj = cfi, params[i]
				}
			}
			return true
		})
		if n != 1 {
			break
		}
		fi, region, seqObj = next, next.Decl.Body, nextObj
	}
	return fi, region, seqObj
}

func (x *c03Env) ruleG() {
	c := x.c
	k := x.keyEnv()
	sfi, region, seqObj := x.csiScope()
	if sfi == nil || seqObj == nil {
		c.undecided("C03.g", x.handle.Name+"/CSI clause", x.handle.Decl.Pos(), "no `case ansi.CSI` clause in handleSequence's type switch")
		return
	}
	g := c.P.Graph(sfi)
	inRegion := func(n ast.Node) bool { return region.Pos() <= n.Pos() && n.End() <= region.End() }
	termsOf := func(o types.Object) (final, p00, inter, params string) {
		b := fmt.Sprintf("%p", o)
		return b + ".Final", b + ".Parameters[0][0]", b + ".Intermediate", b + ".Parameters"
	}

	type want struct {
		finals []int64
		p0     int64 // 0: none
	}
	table := map[string]want{
		"FocusIn":         {[]int64{'I'}, 0},
		"FocusOut":        {[]int64{'O'}, 0},
		"PasteStartEvent": {[]int64{'~'}, 200},
		"PasteEndEvent":   {[]int64{'~'}, 201},
		"Mouse":           {[]int64{'M', 'm'}, 0},
	}
	found := map[string]int{}
	var fis []*FuncInfo
	for _, fi := range k.inReach {
		if fi.Decl.Body != nil {
			fis = append(fis, fi)
		}
	}
	sort.Slice(fis, func(i, j int) bool { return fis[i].Name < fis[j].Name })
	for _, fi := range fis {
		fg := c.P.Graph(fi)
		posts := fg.Calls(func(fn *types.Func, call *ast.CallExpr) bool {
			return fn != nil && (repoName(fn) == "vaxis.Vaxis.PostEventBlocking" || repoName(fn) == "vaxis.Vaxis.PostEvent") && len(call.Args) == 1
		})
		for _, h := range posts {
			call := h.Node.(*ast.CallExpr)
			nt, ok := x.info.TypeOf(call.Args[0]).(*types.Named)
			if !ok {
				continue
			}
			w, ok := table[nt.Obj().Name()]
			if !ok || nt.Obj().Pkg() != x.pk.Types {
				continue
			}
			tn := nt.Obj().Name()
			found[tn]++
			eq := x.eqFactsInter(fi, fg, h.Loc, 0)
			var fin, p0 []int64
			for _, o := range x.csiVars(fi) {
				ft, pt, _, _ := termsOf(o)
				if len(eq[ft]) > 0 {
					fin, p0 = eq[ft], eq[pt]
				}
			}
			desc := "CSI"
			for _, f := range w.finals {
				desc += fmt.Sprintf(" %c", rune(f))
			}
			if w.p0 != 0 {
				desc = fmt.Sprintf("CSI %d ~", w.p0)
			}
			key := fmt.Sprintf("%s/%s posted under %s", fi.Name, tn, desc)
			okDisp := fmt.Sprint(fin) == fmt.Sprint(w.finals) && (w.p0 == 0 || c03Only(p0, w.p0))
			c.check(okDisp, "C03.g", key, call.Pos(), "dispatch keys in force: final "+c03Runes(fin),
				fmt.Sprintf("%s is posted under final %s, first parameter %v — the report it stands for is %s: the wrong event (or none) is delivered for that report", tn, c03Runes(fin), p0, desc))
			// nothing outside the report conditions the delivery (up the chain of call sites as well)
			foreignSet := map[string]bool{}
			for _, ga := range x.guardsInter(fi, fg, h.Loc, 0) {
				exprs := []ast.Expr{ga.gd.Cond.Expr}
				if ga.gd.Cond.Tag != nil {
					exprs = append(exprs, ga.gd.Cond.Tag)
				}
				exprs = append(exprs, ga.gd.Cond.Alts...)
				for _, e := range exprs {
					for o := range objsIn(x.info, e) {
						if !x.derivedFromReport(o, 0) {
							foreignSet[o.Name()] = true
						}
					}
					ast.Inspect(e, func(m ast.Node) bool {
						if cl, ok := m.(*ast.CallExpr); ok {
							if tv, ok := x.info.Types[cl.Fun]; ok && tv.IsType() {
								return true
							}
							if id, ok := unparen(cl.Fun).(*ast.Ident); ok {
								if _, ok := x.info.Uses[id].(*types.Builtin); ok {
									return true
								}
							}
							foreignSet[types.ExprString(cl.Fun)+"()"] = true
						}
						return true
					})
				}
			}
			var foreign []string
			for f := range foreignSet {
				foreign = append(foreign, f)
			}
			sort.Strings(foreign)
			c.check(len(foreign) == 0, "C03.g", fmt.Sprintf("%s/%s delivery depends on the report only", fi.Name, tn), call.Pos(),
				"every dominating condition reads the sequence only", "the delivery of "+tn+" also depends on "+strings.Join(foreign, ", ")+": a report in the stream may yield no event")
		}
	}
	var tns []string
	for tn := range table {
		tns = append(tns, tn)
	}
	sort.Strings(tns)
	for _, tn := range tns {
		if found[tn] == 0 {
			c.bad("C03.g", fmt.Sprintf("%s/%s is posted", x.handle.Name, tn), region.Pos(), "the input context never posts %s: the corresponding reports yield no event", tn)
		}
	}

	// key-carrying finals: a silent return needs a discriminator no key report satisfies
	keyFinals := x.keyFinals()
	finalID, _, _, _ := termsOf(seqObj)
	nRet := 0
	for _, h := range g.Find(func(n ast.Node) bool { _, ok := n.(*ast.ReturnStmt); return ok && inRegion(n) }) {
		eq := x.eqFactsInter(sfi, g, h.Loc, 0)
		fin := eq[finalID]
		var carried []int64
		for _, f := range fin {
			if keyFinals[f] {
				carried = append(carried, f)
			}
		}
		if len(fin) == 0 {
			// a return that is not under a test of the final byte: fine if it follows a key delivery
			// (the function simply ends), otherwise it swallows every CSI key
			points := x.deliveryPoints(g)
			after := len(points) > 0 && g.MustPrecede(func(n ast.Node) bool {
				for _, p := range points {
					if n == p.Node {
						return true
					}
				}
				return false
			}, h.Loc)
			if after {
				continue
			}
			nRet++
			c.bad("C03.g", sfi.Name+"/return outside the final-byte dispatch", h.Node.Pos(), "a return in the CSI handling that is neither under a test of the final byte nor after the key delivery: every CSI key report reaching it is lost")
			continue
		}
		if len(carried) == 0 {
			continue
		}
		nRet++
		disc := x.discriminator(sfi, g, h.Loc, seqObj, fin, 0)
		key := fmt.Sprintf("%s/[CSI %s] return without an event only behind a reply discriminator", sfi.Name, c03Runes(carried))
		if disc != "" {
			c.ok("C03.g", key, h.Node.Pos(), "%s", disc)
		} else {
			c.bad("C03.g", key, h.Node.Pos(), "the CSI handling returns without posting an event for CSI … %s under conditions a key report satisfies: those key presses are lost", c03Runes(carried))
		}
	}
	if nRet == 0 {
		c.okTrivial("C03.g", sfi.Name+"/no silent return under a key-carrying final", region.Pos(), "no return statement under a final byte that key reports use")
	}
	// the fall-through delivery exists in the CSI handling and is not restricted to particular finals
	nDec := 0
	for _, h := range x.deliveryPoints(g) {
		if !inRegion(h.Node) {
			continue
		}
		nDec++
		eq := x.eqFacts(g, h.Loc)
		restricted := len(eq[finalID]) > 0
		for _, gd := range g.Guards(h.Loc) {
			mentions := false
			for _, e := range append([]ast.Expr{gd.Cond.Expr, gd.Cond.Tag}, gd.Cond.Alts...) {
				if e != nil && objsIn(x.info, e)[seqObj] {
					mentions = true
				}
			}
			if !mentions {
				continue
			}
			// a guard that is exactly "the final byte is none of S" is fine when no key report uses a final of S
			if excl, ok := x.finalExclusion(g, gd, finalID); ok {
				for _, f := range excl {
					if keyFinals[f] {
						restricted = true
					}
				}
				continue
			}
			restricted = true
		}
		c.check(!restricted, "C03.g", sfi.Name+"/CSI fall-through decodes every final", h.Node.Pos(),
			"the key decode after the final-byte dispatch is not restricted to particular finals", "the CSI key decode is reachable only for some final bytes")
	}
	if nDec == 0 {
		c.bad("C03.g", sfi.Name+"/CSI fall-through decodes every final", region.Pos(), "the CSI handling neither decodes a key nor calls a helper that does: CSI key reports yield no event")
	}
}

// derivedFromReport: o holds (part of) the report itself: a variable whose type comes from package ansi,
// the ok result of parseMouseEvent, or a local defined once from an expression over such variables only.
func (x *c03Env) derivedFromReport(o types.Object, depth int) bool {
	if o == nil || depth > 4 {
		return false
	}
	if nt, ok := o.Type().(*types.Named); ok && nt.Obj().Pkg() != nil && nt.Obj().Pkg().Path() == modPath+"/ansi" {
		return true
	}
	// find the single definition
	var def ast.Expr
	nDef := 0
	fromMouse := false
	for _, fi := range x.keyEnv().inReach {
		if fi.Decl.Body == nil || !(fi.Decl.Pos() <= o.Pos() && o.Pos() <= fi.Decl.End()) {
			continue
		}
		ast.Inspect(fi.Decl.Body, func(n ast.Node) bool {
			switch t := n.(type) {
			case *ast.AssignStmt:
				for i, l := range t.Lhs {
					if id, ok := l.(*ast.Ident); ok && x.info.ObjectOf(id) == o {
						nDef++
						if len(t.Lhs) == len(t.Rhs) {
							def = t.Rhs[i]
						} else if len(t.Rhs) == 1 {
							if call, ok := unparen(t.Rhs[0]).(*ast.CallExpr); ok && isCallTo(x.info, call, "vaxis.parseMouseEvent") {
								fromMouse = true
							}
						}
					}
				}
			case *ast.RangeStmt:
				for _, l := range []ast.Expr{t.Key, t.Value} {
					if id, ok := l.(*ast.Ident); ok && x.info.ObjectOf(id) == o {
						nDef++
						def = t.X
					}
				}
			case *ast.IncDecStmt:
				if id, ok := unparen(t.X).(*ast.Ident); ok && x.info.ObjectOf(id) == o {
					nDef += 2
				}
			}
			return true
		})
	}
	if nDef != 1 {
		return false
	}
	if fromMouse {
		return true
	}
	if def == nil {
		return false
	}
	pure := true
	ast.Inspect(def, func(n ast.Node) bool {
		if call, ok := n.(*ast.CallExpr); ok {
			if tv, ok := x.info.Types[call.Fun]; ok && tv.IsType() {
				return true
			}
			if id, ok := unparen(call.Fun).(*ast.Ident); ok {
				if _, ok := x.info.Uses[id].(*types.Builtin); ok {
					return true
				}
			}
			if fn := calleeOf(x.info, call); fn != nil && fn.Pkg() != nil && (fn.Pkg().Path() == "strings" || fn.Pkg().Path() == "strconv") {
				return true
			}
			pure = false
		}
		return pure
	})
	if !pure {
		return false
	}
	for v := range objsIn(x.info, def) {
		if v != o && !x.derivedFromReport(v, depth+1) {
			return false
		}
	}
	return true
}

// discriminator: why a report reaching loc cannot be a key press ("" if it can).
func (x *c03Env) discriminator(fi *FuncInfo, g *FG, loc Loc, seqObj types.Object, fin []int64, depth int) string {
	b := fmt.Sprintf("%p", seqObj)
	finalID, p00, interID, paramsID := b+".Final", b+".Parameters[0][0]", b+".Intermediate", b+".Parameters"
	_ = finalID
	eq := x.eqFactsInter(fi, g, loc, 0)
	facts := g.FactsAt(loc)
	reqPos := x.fieldVar("Vaxis", "reqCursorPos")
	switch {
	case impliesLin(facts, Term{}, Term{ID: "len(" + interID + ")"}, -1), len(eq[interID+"[0]"]) > 0:
		return "the report has a private marker / intermediate byte (key reports have none)"
	case c03Only(fin, '~') && c03Subset(eq[p00], 200, 201):
		return "bracketed-paste bracket"
	case c03Only(fin, '~') && impliesLin(facts, Term{ID: "len(" + paramsID + ")"}, Term{}, 0):
		return "CSI ~ without parameters is not a key report"
	case c03Only(fin, 'R') && x.guardedByReqCursorPos(g, loc, reqPos):
		return "a cursor-position request is outstanding (documented ambiguity of CSI R)"
	}
	// the interval engine knows lengths that FactsAt does not (merged / split / named guards)
	if x.lenKnown(fi, g, loc, interID, 1, c03Inf) {
		return "the report has a private marker / intermediate byte (key reports have none)"
	}
	if c03Only(fin, '~') && x.lenKnown(fi, g, loc, paramsID, 0, 0) {
		return "CSI ~ without parameters is not a key report"
	}
	if depth >= 2 {
		return ""
	}
	// `if vx.isReply(seq) { return }`: a same-package predicate; every `return true` inside it must sit
	// behind a discriminator (evaluated on the predicate's own CSI parameter)
	for _, gd := range g.Guards(loc) {
		if gd.Cond.Tag != nil || gd.Cond.Alts != nil {
			continue
		}
		var hit *ast.CallExpr
		ast.Inspect(gd.Cond.Expr, func(n ast.Node) bool {
			call, ok := n.(*ast.CallExpr)
			if !ok || hit != nil {
				return hit == nil
			}
			if fn := calleeOf(x.info, call); fn != nil && x.keyEnv().inReach[fn] != nil {
				if x.impliesBool(gd.Cond.Expr, gd.Pol, func(e ast.Expr) bool { return e == ast.Expr(call) }) {
					hit = call
				}
			}
			return true
		})
		if hit == nil {
			continue
		}
		cfi := x.keyEnv().inReach[calleeOf(x.info, hit)]
		params := c03Params(x.info, cfi)
		var pobj types.Object
		for i, a := range hit.Args {
			if id, ok := unparen(a).(*ast.Ident); ok && x.info.ObjectOf(id) == seqObj && i < len(params) {
				pobj = params[i]
			}
		}
		if pobj == nil || cfi.Decl.Body == nil {
			continue
		}
		cg := x.c.P.Graph(cfi)
		all, n := true, 0
		why := ""
		for _, h := range cg.Find(func(n ast.Node) bool { _, ok := n.(*ast.ReturnStmt); return ok }) {
			rs := h.Node.(*ast.ReturnStmt)
			if len(rs.Results) != 1 {
				all = false
				continue
			}
			if tv, ok := x.info.Types[rs.Results[0]]; ok && tv.Value != nil {
				if tv.Value.String() == "false" {
					continue
				}
			}
			n++
			d := x.discriminator(cfi, cg, h.Loc, pobj, fin, depth+1)
			if d == "" {
				all = false
			} else {
				why = d
			}
		}
		if all && n > 0 {
			return why + " (decided by " + cfi.Obj.Name() + ")"
		}
	}
	return ""
}

// lenKnown: the length interval of the path with the given term id at loc lies within [lo, hi].
func (x *c03Env) lenKnown(fi *FuncInfo, g *FG, loc Loc, pathID string, lo, hi int64) bool {
	if x.lenRuns == nil {
		x.lenRuns = map[*FG]*c03Len{}
	}
	a := x.lenRuns[g]
	if a == nil {
		a = newC03Len(x.c, fi.Pkg, fi.Name, fi.Decl.Body, g, x.csiParams)
		a.run()
		x.lenRuns[g] = a
	}
	st := a.in[loc.B]
	for i := 0; i < loc.Idx && i < len(loc.B.Nodes); i++ {
		a.cur = Loc{loc.B, i}
		st = a.node(st, loc.B.Nodes[i])
	}
	if st.bot {
		return true
	}
	iv, ok := st.m[pathID]
	if !ok {
		iv = c03Top
	}
	return iv.lo >= lo && iv.hi <= hi
}

// c03Subset: vals is non-empty and every value is one of allowed.
func c03Subset(vals []int64, allowed ...int64) bool {
	if len(vals) == 0 {
		return false
	}
	for _, v := range vals {
		ok := false
		for _, a := range allowed {
			ok = ok || v == a
		}
		if !ok {
			return false
		}
	}
	return true
}

// finalExclusion: the guard is exactly "term finalID is none of S" -> S.
func (x *c03Env) finalExclusion(g *FG, gd Guard, finalID string) ([]int64, bool) {
	isFinal := func(e ast.Expr) bool {
		e = unparen(e)
		if id, ok := e.(*ast.Ident); ok {
			if d, ok := x.singleDefs(g)[g.Info.ObjectOf(id)]; ok {
				e = unparen(d)
			}
		}
		t, k := linForm(g.Info, e)
		return k == 0 && t.ID == finalID
	}
	if gd.Cond.Tag != nil {
		if gd.Pol || gd.Cond.Alts != nil || !isFinal(gd.Cond.Tag) {
			return nil, false
		}
		v, ok := constInt(g.Info, gd.Cond.Expr)
		return []int64{v}, ok
	}
	if gd.Cond.Alts != nil {
		return nil, false
	}
	var walk func(e ast.Expr, pol bool) ([]int64, bool)
	walk = func(e ast.Expr, pol bool) ([]int64, bool) {
		e = unparen(e)
		switch t := e.(type) {
		case *ast.UnaryExpr:
			if t.Op == token.NOT {
				return walk(t.X, !pol)
			}
		case *ast.BinaryExpr:
			switch {
			case (t.Op == token.NEQ && pol) || (t.Op == token.EQL && !pol):
				for _, pr := range [][2]ast.Expr{{t.X, t.Y}, {t.Y, t.X}} {
					if v, ok := constInt(g.Info, pr[1]); ok && isFinal(pr[0]) {
						return []int64{v}, true
					}
				}
			case (t.Op == token.LAND && pol) || (t.Op == token.LOR && !pol):
				a, oka := walk(t.X, pol)
				b, okb := walk(t.Y, pol)
				return append(a, b...), oka && okb
			}
		}
		return nil, false
	}
	return walk(gd.Cond.Expr, gd.Pol)
}
