package main

import (
	"go/ast"
	"go/token"
	"go/types"

	"golang.org/x/tools/go/cfg"
	"golang.org/x/tools/go/packages"
	"golang.org/x/tools/go/types/typeutil"
)

// FG is the control-flow graph of one function body plus the side tables the
// rules need (switch-case lowering, predecessors).
type FG struct {
	P      *Program
	Pkg    *packages.Package
	Info   *types.Info
	Name   string
	Body   *ast.BlockStmt
	Type   *ast.FuncType
	Recv   *ast.FieldList
	G      *cfg.CFG
	Blocks []*cfg.Block
	caseOf map[ast.Expr]*ast.SwitchStmt
	preds  map[*cfg.Block][]*cfg.Block
}

// Loc is a position in the CFG: node Idx of block B. Idx == len(B.Nodes) means block end.
type Loc struct {
	B   *cfg.Block
	Idx int
}

// Hit is an AST node found inside a CFG node.
type Hit struct {
	Loc
	Node ast.Node // the matched (sub)node
	Top  ast.Node // the CFG node containing it
}

func (p *Program) mayReturn(info *types.Info) func(*ast.CallExpr) bool {
	return func(call *ast.CallExpr) bool {
		if id, ok := call.Fun.(*ast.Ident); ok {
			if b, ok := info.Uses[id].(*types.Builtin); ok && b.Name() == "panic" {
				return false
			}
		}
		if fn, ok := typeutil.Callee(info, call).(*types.Func); ok && fn.Pkg() != nil {
			full := fn.Pkg().Path() + "." + fn.Name()
			switch full {
			case "os.Exit", "log.Fatal", "log.Fatalf", "log.Fatalln", "log.Panic", "log.Panicf":
				return false
			}
		}
		return true
	}
}

func (p *Program) Graph(fi *FuncInfo) *FG {
	if fi == nil || fi.Decl.Body == nil {
		return nil
	}
	if p.graphs == nil {
		p.graphs = map[*ast.BlockStmt]*FG{}
	}
	if g, ok := p.graphs[fi.Decl.Body]; ok {
		return g
	}
	g := p.graphOf(fi.Pkg, fi.Name, fi.Decl.Body, fi.Decl.Type, fi.Decl.Recv)
	p.graphs[fi.Decl.Body] = g
	return g
}

func (p *Program) GraphOfLit(pk *packages.Package, name string, lit *ast.FuncLit) *FG {
	if p.graphs == nil {
		p.graphs = map[*ast.BlockStmt]*FG{}
	}
	if g, ok := p.graphs[lit.Body]; ok {
		return g
	}
	g := p.graphOf(pk, name, lit.Body, lit.Type, nil)
	p.graphs[lit.Body] = g
	return g
}

func (p *Program) graphOf(pk *packages.Package, name string, body *ast.BlockStmt, ft *ast.FuncType, recv *ast.FieldList) *FG {
	g := &FG{P: p, Pkg: pk, Info: pk.TypesInfo, Name: name, Body: body, Type: ft, Recv: recv,
		caseOf: map[ast.Expr]*ast.SwitchStmt{}, preds: map[*cfg.Block][]*cfg.Block{}}
	g.G = cfg.New(body, p.mayReturn(pk.TypesInfo))
	for _, b := range g.G.Blocks {
		if b.Live {
			g.Blocks = append(g.Blocks, b)
		}
	}
	for _, b := range g.Blocks {
		for _, s := range b.Succs {
			g.preds[s] = append(g.preds[s], b)
		}
	}
	inspectNoLit(body, func(n ast.Node) bool {
		if sw, ok := n.(*ast.SwitchStmt); ok {
			for _, cl := range sw.Body.List {
				for _, e := range cl.(*ast.CaseClause).List {
					g.caseOf[e] = sw
				}
			}
		}
		return true
	})
	return g
}

// inspectNoLit walks n but does not descend into function literals.
func inspectNoLit(n ast.Node, f func(ast.Node) bool) {
	ast.Inspect(n, func(m ast.Node) bool {
		if m == nil {
			return true
		}
		if _, ok := m.(*ast.FuncLit); ok && m != n {
			f(m)
			return false
		}
		return f(m)
	})
}

// Cond is the branch condition at the end of a block. With Tag != nil the
// condition is Tag == Expr (tagged switch case).
type Cond struct {
	Expr ast.Expr
	Tag  ast.Expr
	Alts []ast.Expr // non-nil: disjunction over a multi-value case list (Tag == any of Alts, or any of Alts true)
}

// BranchCond returns the condition controlling b's two successors
// (Succs[0] = true edge, Succs[1] = false edge), or nil.
func (g *FG) BranchCond(b *cfg.Block) *Cond {
	if len(b.Succs) != 2 || len(b.Nodes) == 0 {
		return nil
	}
	if b.Kind == cfg.KindRangeLoop {
		return nil
	}
	switch b.Succs[0].Kind {
	case cfg.KindSelectCaseBody, cfg.KindRangeBody:
		return nil
	case cfg.KindSwitchCaseBody:
		// type switch bodies carry no condition node
		if _, ok := b.Succs[0].Stmt.(*ast.CaseClause); ok {
			last, ok2 := b.Nodes[len(b.Nodes)-1].(ast.Expr)
			if !ok2 {
				return nil
			}
			if sw, ok3 := g.caseOf[last]; ok3 {
				return &Cond{Expr: last, Tag: sw.Tag}
			}
			return nil
		}
	}
	last, ok := b.Nodes[len(b.Nodes)-1].(ast.Expr)
	if !ok {
		return nil
	}
	if sw, ok := g.caseOf[last]; ok {
		return &Cond{Expr: last, Tag: sw.Tag}
	}
	return &Cond{Expr: last}
}

// Find returns every AST node satisfying pred inside the CFG nodes
// (function literals are not entered).
func (g *FG) Find(pred func(ast.Node) bool) []Hit {
	var out []Hit
	for _, b := range g.Blocks {
		for i, top := range b.Nodes {
			// RangeStmt key/value and select Lhs duplicates: accept as-is.
			inspectNoLit(top, func(n ast.Node) bool {
				if pred(n) {
					out = append(out, Hit{Loc: Loc{b, i}, Node: n, Top: top})
				}
				return true
			})
		}
	}
	return out
}

// Locate finds the CFG node containing n.
func (g *FG) Locate(n ast.Node) (Loc, bool) {
	for _, b := range g.Blocks {
		for i, top := range b.Nodes {
			if top.Pos() <= n.Pos() && n.End() <= top.End() {
				found := false
				inspectNoLit(top, func(m ast.Node) bool {
					if m == n {
						found = true
					}
					return !found
				})
				if found {
					return Loc{b, i}, true
				}
			}
		}
	}
	return Loc{}, false
}

// Calls returns the call expressions whose static callee satisfies pred.
func (g *FG) Calls(pred func(fn *types.Func, call *ast.CallExpr) bool) []Hit {
	return g.Find(func(n ast.Node) bool {
		call, ok := n.(*ast.CallExpr)
		if !ok {
			return false
		}
		fn, _ := typeutil.Callee(g.Info, call).(*types.Func)
		return pred(fn, call)
	})
}

// isExitBlock: a live block with no successors that ends normally (return or
// falling off the end), as opposed to a no-return call.
func (g *FG) isNormalExit(b *cfg.Block) bool {
	if len(b.Succs) != 0 {
		return false
	}
	if len(b.Nodes) == 0 {
		return true
	}
	switch last := b.Nodes[len(b.Nodes)-1].(type) {
	case *ast.ReturnStmt:
		return true
	case *ast.ExprStmt:
		if call, ok := last.X.(*ast.CallExpr); ok && !g.P.mayReturn(g.Info)(call) {
			return false
		}
	}
	return true
}

// walk explores node positions forward from start (exclusive of nodes before
// start.Idx) and calls visit on each CFG node; visit returning false blocks
// propagation past that node. atExit is called for each normal exit reached.
func (g *FG) walk(start Loc, visit func(l Loc, n ast.Node) bool, atExit func(b *cfg.Block)) {
	type key struct {
		b *cfg.Block
	}
	seenFull := map[*cfg.Block]bool{}
	var work []Loc
	work = append(work, start)
	for len(work) > 0 {
		l := work[len(work)-1]
		work = work[:len(work)-1]
		if l.Idx == 0 {
			if seenFull[l.B] {
				continue
			}
			seenFull[l.B] = true
		}
		blocked := false
		for i := l.Idx; i < len(l.B.Nodes); i++ {
			if !visit(Loc{l.B, i}, l.B.Nodes[i]) {
				blocked = true
				break
			}
		}
		if blocked {
			continue
		}
		if len(l.B.Succs) == 0 {
			if atExit != nil && g.isNormalExit(l.B) {
				atExit(l.B)
			}
			continue
		}
		for _, s := range l.B.Succs {
			if !seenFull[s] {
				work = append(work, Loc{s, 0})
			}
		}
	}
}

func (g *FG) Entry() Loc { return Loc{g.Blocks[0], 0} }

func containsNode(top ast.Node, pred func(ast.Node) bool) bool {
	found := false
	inspectNoLit(top, func(m ast.Node) bool {
		if found {
			return false
		}
		if pred(m) {
			found = true
			return false
		}
		return true
	})
	return found
}

// MustPrecede: every path from the function entry to target passes a CFG node
// containing a node satisfying isA. The returned flag reached reports whether
// target is reachable at all.
func (g *FG) MustPrecede(isA func(ast.Node) bool, target Loc) bool {
	hit := false
	g.walk(g.Entry(), func(l Loc, n ast.Node) bool {
		if l == target {
			hit = true
			return false
		}
		if containsNode(n, isA) {
			return false
		}
		return true
	}, nil)
	return !hit
}

// MustFollow: every path from just after `from` to a normal exit passes a CFG
// node containing a node satisfying isB. Returns the offending exit block if not.
func (g *FG) MustFollow(from Loc, isB func(ast.Node) bool) (bool, *cfg.Block) {
	var bad *cfg.Block
	g.walk(Loc{from.B, from.Idx + 1}, func(l Loc, n ast.Node) bool {
		return !containsNode(n, isB)
	}, func(b *cfg.Block) {
		if bad == nil {
			bad = b
		}
	})
	return bad == nil, bad
}

// ReachesAvoiding: is `to` reachable from just after `from` without passing a
// node satisfying avoid?
func (g *FG) ReachesAvoiding(from, to Loc, avoid func(ast.Node) bool) bool {
	hit := false
	g.walk(Loc{from.B, from.Idx + 1}, func(l Loc, n ast.Node) bool {
		if l == to {
			hit = true
			return false
		}
		if avoid != nil && containsNode(n, avoid) {
			return false
		}
		return true
	}, nil)
	return hit
}

// reachesUnder: is `to` reachable from just after `from` without passing a CFG node for which stop holds,
// following only branch edges that are consistent with sigma (an assignment of canonical boolean atoms;
// conditions sigma does not decide are followed both ways). sigma == nil: plain reachability.
func (g *FG) reachesUnder(from, to Loc, stop func(ast.Node) bool, sigma map[string]bool) bool {
	seen := map[*cfg.Block]bool{}
	var work []Loc
	work = append(work, Loc{from.B, from.Idx + 1})
	for len(work) > 0 {
		l := work[len(work)-1]
		work = work[:len(work)-1]
		if l.Idx == 0 {
			if seen[l.B] {
				continue
			}
			seen[l.B] = true
		}
		blocked := false
		for i := l.Idx; i < len(l.B.Nodes); i++ {
			if (Loc{l.B, i}) == to {
				return true
			}
			if stop != nil && stop(l.B.Nodes[i]) {
				blocked = true
				break
			}
		}
		if blocked {
			continue
		}
		succs := l.B.Succs
		if sigma != nil && len(succs) == 2 {
			if cd := g.BranchCond(l.B); cd != nil {
				if h, k := condHolds(g.P, g.Info, Guard{Cond: cd, Pol: true}, sigma); k {
					if h {
						succs = succs[:1]
					} else {
						succs = succs[1:]
					}
				}
			}
		}
		for _, s := range succs {
			if !seen[s] {
				work = append(work, Loc{s, 0})
			}
		}
	}
	return false
}

// Guard is a branch condition with the polarity that must hold for control to reach a location.
type Guard struct {
	Cond *Cond
	Pol  bool
	From *cfg.Block
}

// Guards returns every (condition, polarity) whose edge lies on all paths from entry to l.
// For a multi-value case list `case a, b:` none of the single edges is required; the
// disjunction is returned as one guard with Cond.Alts set.
func (g *FG) Guards(l Loc) []Guard {
	var out []Guard
	type edge struct {
		b   *cfg.Block
		idx int
	}
	byClause := map[*ast.CaseClause][]edge{}
	clauseTag := map[*ast.CaseClause]ast.Expr{}
	clauseFirst := map[*ast.CaseClause]*cfg.Block{}
	for _, b := range g.Blocks {
		c := g.BranchCond(b)
		if c == nil || b.Succs[0] == b.Succs[1] {
			continue
		}
		for pol := 0; pol < 2; pol++ {
			// remove edge b->Succs[pol]; if l becomes unreachable, that edge is required
			if !g.reachableWithoutEdges(map[*cfg.Block]int{b: pol}, l) {
				out = append(out, Guard{Cond: c, Pol: pol == 0, From: b})
			}
		}
		if sw, ok := g.caseOf[c.Expr]; ok {
			if cc, ok := b.Succs[0].Stmt.(*ast.CaseClause); ok && len(cc.List) > 1 {
				byClause[cc] = append(byClause[cc], edge{b, 0})
				clauseTag[cc] = sw.Tag
				if clauseFirst[cc] == nil {
					clauseFirst[cc] = b
				}
			}
		}
	}
	for cc, edges := range byClause {
		rm := map[*cfg.Block]int{}
		for _, e := range edges {
			rm[e.b] = e.idx
		}
		if len(edges) == len(cc.List) && !g.reachableWithoutEdges(rm, l) {
			out = append(out, Guard{Cond: &Cond{Expr: cc.List[0], Tag: clauseTag[cc], Alts: cc.List}, Pol: true, From: clauseFirst[cc]})
		}
	}
	return out
}

func (g *FG) reachableWithoutEdge(eb *cfg.Block, succIdx int, target Loc) bool {
	return g.reachableWithoutEdges(map[*cfg.Block]int{eb: succIdx}, target)
}

func (g *FG) reachableWithoutEdges(removed map[*cfg.Block]int, target Loc) bool {
	seen := map[*cfg.Block]bool{}
	var stack []*cfg.Block
	entry := g.Blocks[0]
	stack = append(stack, entry)
	seen[entry] = true
	for len(stack) > 0 {
		b := stack[len(stack)-1]
		stack = stack[:len(stack)-1]
		if b == target.B {
			return true
		}
		for i, s := range b.Succs {
			if ri, ok := removed[b]; ok && ri == i {
				continue
			}
			if !seen[s] {
				seen[s] = true
				stack = append(stack, s)
			}
		}
	}
	return false
}

func (g *FG) reachableWithoutEdgeOld(eb *cfg.Block, succIdx int, target Loc) bool {
	seen := map[*cfg.Block]bool{}
	var stack []*cfg.Block
	entry := g.Blocks[0]
	stack = append(stack, entry)
	seen[entry] = true
	for len(stack) > 0 {
		b := stack[len(stack)-1]
		stack = stack[:len(stack)-1]
		if b == target.B {
			// target node inside b: reached when the block is entered (nodes before it have no branches);
			// special case: target is the block eb itself — the node is evaluated before the edge.
			return true
		}
		for i, s := range b.Succs {
			if b == eb && i == succIdx {
				continue
			}
			if !seen[s] {
				seen[s] = true
				stack = append(stack, s)
			}
		}
	}
	return false
}

// blocksBetween returns the set of blocks on some path from block `from` (entered at its start) to block `to`.
func (g *FG) blocksBetween(from, to *cfg.Block) map[*cfg.Block]bool {
	fwd := map[*cfg.Block]bool{}
	var st []*cfg.Block
	st = append(st, from)
	fwd[from] = true
	for len(st) > 0 {
		b := st[len(st)-1]
		st = st[:len(st)-1]
		if b == to {
			continue
		}
		for _, s := range b.Succs {
			if !fwd[s] {
				fwd[s] = true
				st = append(st, s)
			}
		}
	}
	bwd := map[*cfg.Block]bool{}
	st = append(st[:0], to)
	bwd[to] = true
	for len(st) > 0 {
		b := st[len(st)-1]
		st = st[:len(st)-1]
		for _, pr := range g.preds[b] {
			if !bwd[pr] {
				bwd[pr] = true
				st = append(st, pr)
			}
		}
	}
	out := map[*cfg.Block]bool{}
	for b := range fwd {
		if bwd[b] {
			out[b] = true
		}
	}
	return out
}

// AssignedBetween reports whether any object in objs is (syntactically)
// assigned on some path from the guard edge target to l.
func (g *FG) AssignedBetween(gd Guard, l Loc, objs map[types.Object]bool) bool {
	succ := gd.From.Succs[1]
	if gd.Pol {
		succ = gd.From.Succs[0]
	}
	region := g.blocksBetween(succ, l.B)
	for b := range region {
		for i, n := range b.Nodes {
			if b == l.B && i >= l.Idx && !(region[b] && g.inLoopWith(b, succ)) {
				break
			}
			if assignsAny(g.Info, n, objs) {
				return true
			}
		}
	}
	return false
}

func (g *FG) inLoopWith(b, via *cfg.Block) bool {
	// is b reachable from one of its own successors (i.e. in a cycle)?
	seen := map[*cfg.Block]bool{}
	var st []*cfg.Block
	for _, s := range b.Succs {
		st = append(st, s)
	}
	for len(st) > 0 {
		x := st[len(st)-1]
		st = st[:len(st)-1]
		if x == b {
			return true
		}
		if seen[x] {
			continue
		}
		seen[x] = true
		st = append(st, x.Succs...)
	}
	return false
}

// rootObj returns the variable at the root of an access path expression (x, x.f, x.f[i], *x, (x)).
func rootObj(info *types.Info, e ast.Expr) types.Object {
	for {
		switch t := e.(type) {
		case *ast.Ident:
			return info.ObjectOf(t)
		case *ast.SelectorExpr:
			if _, ok := info.Selections[t]; !ok {
				// qualified identifier pkg.Name
				return info.ObjectOf(t.Sel)
			}
			e = t.X
		case *ast.IndexExpr:
			e = t.X
		case *ast.StarExpr:
			e = t.X
		case *ast.ParenExpr:
			e = t.X
		case *ast.SliceExpr:
			e = t.X
		default:
			return nil
		}
	}
}

// assignsAny: does CFG node n assign to (a path rooted at) any of objs?
func assignsAny(info *types.Info, n ast.Node, objs map[types.Object]bool) bool {
	found := false
	inspectNoLit(n, func(m ast.Node) bool {
		switch s := m.(type) {
		case *ast.AssignStmt:
			for _, l := range s.Lhs {
				if o := rootObj(info, l); o != nil && objs[o] {
					found = true
				}
			}
		case *ast.IncDecStmt:
			if o := rootObj(info, s.X); o != nil && objs[o] {
				found = true
			}
		case *ast.RangeStmt:
			for _, l := range []ast.Expr{s.Key, s.Value} {
				if l != nil {
					if o := rootObj(info, l); o != nil && objs[o] {
						found = true
					}
				}
			}
		case *ast.UnaryExpr:
			if s.Op == token.AND {
				if o := rootObj(info, s.X); o != nil && objs[o] {
					if _, isComposite := s.X.(*ast.CompositeLit); !isComposite {
						found = true
					}
				}
			}
		}
		return !found
	})
	return found
}

// objsIn collects the variables mentioned in e.
func objsIn(info *types.Info, e ast.Node) map[types.Object]bool {
	out := map[types.Object]bool{}
	if e == nil {
		return out
	}
	ast.Inspect(e, func(n ast.Node) bool {
		if id, ok := n.(*ast.Ident); ok {
			if v, ok := info.ObjectOf(id).(*types.Var); ok && !v.IsField() {
				out[v] = true
			}
		}
		return true
	})
	return out
}

// calleeOf resolves a call's static callee (nil for dynamic calls and conversions).
func calleeOf(info *types.Info, call *ast.CallExpr) *types.Func {
	fn, _ := typeutil.Callee(info, call).(*types.Func)
	return fn
}

// fullName gives "pkgpath.Recv.Name" for methods and "pkgpath.Name" for functions.
func fullName(fn *types.Func) string {
	if fn == nil {
		return ""
	}
	sig, _ := fn.Type().(*types.Signature)
	pk := ""
	if fn.Pkg() != nil {
		pk = fn.Pkg().Path()
	}
	if sig != nil && sig.Recv() != nil {
		t := sig.Recv().Type()
		if pt, ok := t.(*types.Pointer); ok {
			t = pt.Elem()
		}
		if nt, ok := t.(*types.Named); ok {
			return pk + "." + nt.Obj().Name() + "." + fn.Name()
		}
		return pk + ".?." + fn.Name()
	}
	return pk + "." + fn.Name()
}

// repoName shortens a fullName of a repository function: "vaxis.Vaxis.render".
func repoName(fn *types.Func) string {
	n := fullName(fn)
	if len(n) >= len(modPath) && n[:len(modPath)] == modPath {
		rest := n[len(modPath):]
		if len(rest) > 0 && rest[0] == '/' {
			return rest[1:]
		}
		return "vaxis" + rest
	}
	return n
}

// constOf returns the constant value of e if the type checker computed one.
func constInt(info *types.Info, e ast.Expr) (int64, bool) {
	tv, ok := info.Types[e]
	if !ok || tv.Value == nil {
		return 0, false
	}
	return constToInt(tv)
}
