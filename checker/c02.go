package main

// C02 — input parser conforms to the VT500 state machine plus documented extensions.
//
// Engine E3: the state functions of package ansi are interpreted concretely
// (interp.go) for every symbol of a 133-symbol alphabet in every reachable
// value of the parser's control fields (exit handler, ST-suppression flag, any
// other bool/func field), giving the total transition function of the product
// automaton. That function is compared with an independent transcription of
// the Williams diagram plus the documented extensions (refTransition below).

import (
	"fmt"
	"go/ast"
	"go/printer"
	"go/token"
	"go/types"
	"os"
	"sort"
	"strings"
)

// debugDumpFuncs: VX_DUMP_FN="ansi.(*Parser).hook,ansi.escape" prints those functions as the rules see them
// (after the global helper inlining). A debugging aid only.
func debugDumpFuncs(c *Ctx) {
	names := os.Getenv("VX_DUMP_FN")
	if names == "" {
		return
	}
	for _, n := range strings.Split(names, ",") {
		if fi := c.P.Func(strings.TrimSpace(n)); fi != nil {
			fmt.Fprintf(os.Stderr, "---- %s\n", n)
			printer.Fprint(os.Stderr, token.NewFileSet(), fi.Decl)
			fmt.Fprintln(os.Stderr)
		}
	}
}

const (
	symEOF     = -1
	symTimeout = -2
)

var c02Alphabet = func() []int {
	a := []int{symEOF}
	for i := 0; i < 0x80; i++ {
		a = append(a, i)
	}
	return append(a, 0x80, 0x9C, 0xA0, 0x1F600)
}()

func symName(c int) string {
	switch {
	case c == symEOF:
		return "eof"
	case c == symTimeout:
		return "esc-timeout"
	}
	return fmt.Sprintf("0x%02X", c)
}

var c02StringStates = map[string]bool{"dcsEntry": true, "dcsParam": true, "dcsIntermediate": true, "dcsIgnore": true,
	"dcsPassthrough": true, "oscString": true, "sosPm": true, "apc": true}

var c02ExpectedExit = map[string]string{"oscString": "oscEnd", "dcsPassthrough": "unhook", "apc": "apcUnhook"}

func isC0exec(c int) bool { return (c >= 0 && c <= 0x17) || c == 0x19 || (c >= 0x1C && c <= 0x1F) }
func inr(c, lo, hi int) bool { return c >= lo && c <= hi }

// refTransition is the reference: Paul Flo Williams' VT500 parser
// (vt100.net/emu/dec_ansi_parser) with the library's documented extensions.
// ok=false means "not constrained by the reference".
// anyOf lists alternative acceptable action lists (used for ESC \ whose
// dispatch depends on ST suppression, decided by rule C02.c).
func refTransition(state string, c int) (acts [][]string, next string, ok bool) {
	one := func(a ...string) [][]string { return [][]string{a} }
	none := [][]string{{}}
	hi := c >= 0x80
	switch state {
	case "ground":
		if isC0exec(c) {
			return one("execute"), "ground", true
		}
		return one("print"), "ground", true // 20-7F and every UTF-8 scalar
	case "escape":
		switch {
		case hi:
			return nil, "", false
		case isC0exec(c):
			return one("execute"), "escape", true
		case inr(c, 0x20, 0x2F):
			return one("collect"), "escapeIntermediate", true
		case c == 0x5C:
			return [][]string{{"escapeDispatch"}, {}}, "ground", true
		case c == 0x4F:
			return none, "ss3", true // extension: SS3
		case c == 0x50:
			return one("clear"), "dcsEntry", true
		case c == 0x58, c == 0x5E:
			return none, "sosPm", true
		case c == 0x5F:
			return none, "apc", true // extension: APC payload collected
		case c == 0x5B:
			return one("clear"), "csiEntry", true
		case c == 0x5D:
			return one("oscStart"), "oscString", true
		case inr(c, 0x30, 0x7E):
			return one("escapeDispatch"), "ground", true
		case c == 0x7F:
			return one("escapeDispatch"), "ground", true // extension: Alt+Backspace
		}
	case "escapeIntermediate":
		switch {
		case hi:
			return nil, "", false
		case isC0exec(c):
			return one("execute"), state, true
		case inr(c, 0x20, 0x2F):
			return one("collect"), state, true
		case c == 0x7F:
			return none, state, true
		case inr(c, 0x30, 0x7E):
			return one("escapeDispatch"), "ground", true
		}
	case "csiEntry":
		switch {
		case hi:
			return nil, "", false
		case isC0exec(c):
			return one("execute"), state, true
		case c == 0x7F:
			return none, state, true
		case inr(c, 0x20, 0x2F):
			return one("collect"), "csiIntermediate", true
		case inr(c, 0x30, 0x39), c == 0x3B, c == 0x3A: // 3A: colon sub-parameters (extension)
			return one("param"), "csiParam", true
		case inr(c, 0x3C, 0x3F):
			return one("collect"), "csiParam", true
		case inr(c, 0x40, 0x7E):
			return one("csiDispatch"), "ground", true
		}
	case "csiParam":
		switch {
		case hi:
			return nil, "", false
		case isC0exec(c):
			return one("execute"), state, true
		case inr(c, 0x30, 0x39), c == 0x3B, c == 0x3A:
			return one("param"), state, true
		case c == 0x7F:
			return none, state, true
		case inr(c, 0x3C, 0x3F):
			return none, "csiIgnore", true
		case inr(c, 0x20, 0x2F):
			return one("collect"), "csiIntermediate", true
		case inr(c, 0x40, 0x7E):
			return one("csiDispatch"), "ground", true
		}
	case "csiIntermediate":
		switch {
		case hi:
			return nil, "", false
		case isC0exec(c):
			return one("execute"), state, true
		case inr(c, 0x20, 0x2F):
			return one("collect"), state, true
		case c == 0x7F:
			return none, state, true
		case inr(c, 0x30, 0x3F):
			return none, "csiIgnore", true
		case inr(c, 0x40, 0x7E):
			return one("csiDispatch"), "ground", true
		}
	case "csiIgnore":
		switch {
		case hi:
			return nil, "", false
		case isC0exec(c):
			return one("execute"), state, true
		case inr(c, 0x20, 0x3F), c == 0x7F:
			return none, state, true
		case inr(c, 0x40, 0x7E):
			return none, "ground", true
		}
	case "dcsEntry":
		switch {
		case hi:
			return nil, "", false
		case isC0exec(c), c == 0x7F:
			return none, state, true
		case c == 0x3A:
			return none, "dcsIgnore", true
		case inr(c, 0x20, 0x2F):
			return one("collect"), "dcsIntermediate", true
		case inr(c, 0x30, 0x39), c == 0x3B:
			return one("param"), "dcsParam", true
		case inr(c, 0x3C, 0x3F):
			return one("collect"), "dcsParam", true
		case inr(c, 0x40, 0x7E):
			return one("hook"), "dcsPassthrough", true
		}
	case "dcsParam":
		switch {
		case hi:
			return nil, "", false
		case isC0exec(c), c == 0x7F:
			return none, state, true
		case inr(c, 0x30, 0x39), c == 0x3B:
			return one("param"), state, true
		case c == 0x3A, inr(c, 0x3C, 0x3F):
			return none, "dcsIgnore", true
		case inr(c, 0x20, 0x2F):
			return one("collect"), "dcsIntermediate", true
		case inr(c, 0x40, 0x7E):
			return one("hook"), "dcsPassthrough", true
		}
	case "dcsIntermediate":
		switch {
		case hi:
			return nil, "", false
		case isC0exec(c), c == 0x7F:
			return none, state, true
		case inr(c, 0x20, 0x2F):
			return one("collect"), state, true
		case inr(c, 0x30, 0x3F):
			return none, "dcsIgnore", true
		case inr(c, 0x40, 0x7E):
			return one("hook"), "dcsPassthrough", true
		}
	case "dcsPassthrough":
		switch {
		case c == 0x7F:
			return none, state, true
		case c == 0x9C:
			return nil, "", false // 8-bit ST: not constrained (runes, not C1)
		default:
			return one("put"), state, true
		}
	case "dcsIgnore":
		if hi {
			return nil, "", false
		}
		return none, state, true
	case "oscString":
		switch {
		case c == 0x07:
			return one("oscEnd"), "ground", true // extension: BEL terminates OSC
		case isC0exec(c):
			return none, state, true
		case c == 0x9C:
			return nil, "", false
		default:
			return one("oscPut"), state, true
		}
	case "sosPm":
		if hi {
			return nil, "", false
		}
		return none, state, true
	case "ss3": // extension
		switch {
		case hi:
			return nil, "", false
		case isC0exec(c):
			return one("execute"), state, true
		case c == 0x7F:
			return none, state, true
		default:
			return one("emit:SS3"), "ground", true
		}
	case "apc": // extension: payload collected
		switch {
		case isC0exec(c):
			return none, state, true
		case c == 0x7F, c == 0x9C:
			return nil, "", false
		default:
			return one("append:apcData"), state, true
		}
	}
	return nil, "", false
}

type c02State struct {
	fields map[string]val
	armed  bool
}

func (s c02State) key() string {
	keys := make([]string, 0, len(s.fields))
	for k := range s.fields {
		keys = append(keys, k)
	}
	sort.Strings(keys)
	var sb strings.Builder
	for _, k := range keys {
		fmt.Fprintf(&sb, "%s=%s ", k, s.fields[k])
	}
	if s.armed {
		sb.WriteString("timer")
	}
	return strings.TrimSpace(sb.String())
}

func (s c02State) stateName() string {
	v := s.fields["state"]
	if v.k == vFunc {
		return v.fn.Name()
	}
	return v.String()
}

// shortKey names a product state without the state field value repeated.
func (s c02State) flags() string {
	keys := make([]string, 0, len(s.fields))
	for k := range s.fields {
		if k != "state" {
			keys = append(keys, k)
		}
	}
	sort.Strings(keys)
	var parts []string
	for _, k := range keys {
		v := s.fields[k]
		if (v.k == vBool && !v.b) || v.k == vNil {
			continue
		}
		parts = append(parts, k+"="+v.String())
	}
	if len(parts) == 0 {
		return ""
	}
	return "[" + strings.Join(parts, ",") + "]"
}

type c02Trans struct {
	acts     []string
	next     c02State
	stop     bool
	problems []string
}

// c02Automaton: the explored product automaton (reachable product states in discovery order, their transitions
// for every symbol of the alphabet, and the one-step evaluator for further probes)
type c02Automaton struct {
	order    []string
	seen     map[string]c02State
	trans    map[string]map[int]c02Trans
	stepOnce func(s c02State, sym int) c02Trans
	stepPos  token.Pos
}

var c02Auto *c02Automaton

func runC02(c *Ctx) {
	c02Auto = nil
	dropOrphanHelpers(c)
	debugDumpFuncs(c)
	c.Clauses = []string{
		"C02.a transition table of the product automaton (state x control fields) equals the VT500 reference with documented extensions, exhaustive over reachable product states x 133 symbols",
		"C02.b exit-handler typestate: handler installed on every edge into osc/dcs-passthrough/apc and run-then-cleared on every edge out",
		"C02.c ST suppression: ESC \\ is suppressed iff the ESC ended a string state; an ESC \\ after BEL/CAN/SUB/timeout is delivered",
		"C02.d ignore states deliver nothing (part of the table)",
		"C02.h every ESC arms the Escape timer in every reachable parser state",
		"C02.e action bodies: collect/param/put/oscPut append the byte to their buffer; clear resets intermediates, params and final; execute emits C0",
		"C02.f a slice stored into a delivered sequence is replaced by fresh storage before the parser continues (payloads are never altered after delivery)",
	}
	c.NotDec = []string{"numeric decoding of parameters (csiDispatch/hook arithmetic)", "grapheme clustering and width in print", "the value delivered for an invalid byte beyond the conditions of C02.o and C02.p (which byte is re-read, bytes above 0x7F mapped to runes)", "independence from read chunking beyond C02.o"}
	c.expect("C02.a", 1500)
	c.expect("C02.b", 10)
	c.expect("C02.c", 15)
	c.expect("C02.e", 7)
	c.expect("C02.h", 15)

	pk := c.P.Pkg("ansi")
	if pk == nil {
		c.undecided("C02.a", "package ansi", 0, "package ansi not loaded")
		return
	}
	info := pk.TypesInfo
	parserObj, _ := pk.Types.Scope().Lookup("Parser").(*types.TypeName)
	if parserObj == nil {
		c.undecided("C02.a", "ansi.Parser", 0, "type Parser not found")
		return
	}
	ptr := types.NewPointer(parserObj.Type())
	st := parserObj.Type().Underlying().(*types.Struct)
	trackedFields := map[string]bool{}
	for i := 0; i < st.NumFields(); i++ {
		f := st.Field(i)
		switch u := f.Type().Underlying().(type) {
		case *types.Basic:
			if u.Info()&types.IsBoolean != 0 {
				trackedFields[f.Name()] = true
			}
		case *types.Signature:
			trackedFields[f.Name()] = true
		}
	}
	decls := map[*types.Func]*ast.FuncDecl{}
	for _, fi := range c.P.FuncsIn("ansi") {
		decls[fi.Obj] = fi.Decl
	}
	// locate the step function: in (*Parser).run, `p.state = STEP(r, p)`.
	runFn := c.P.Func("ansi.(*Parser).run")
	if runFn == nil {
		c.undecided("C02.a", "ansi.(*Parser).run", 0, "run not found")
		return
	}
	var step *types.Func
	var stateFieldType types.Type
	for i := 0; i < st.NumFields(); i++ {
		if st.Field(i).Name() == "state" {
			stateFieldType = st.Field(i).Type()
		}
	}
	// the step function is the statically resolved function whose result becomes the parser state
	// (`p.state = step(r, p)`, or through a local: `next := step(r, p); p.state = next`), called by the run loop:
	// in run itself or in a function that only the run loop calls (the loop body extracted into a helper)
	findStep := func(body ast.Node) {
		ast.Inspect(body, func(n ast.Node) bool {
			call, ok := n.(*ast.CallExpr)
			if !ok || stateFieldType == nil {
				return true
			}
			fn := calleeOf(info, call)
			if fn == nil || decls[fn] == nil {
				return true
			}
			if sig, _ := fn.Type().(*types.Signature); sig != nil && sig.Results().Len() == 1 && types.Identical(sig.Results().At(0).Type(), stateFieldType) {
				step = fn
			}
			return true
		})
	}
	findStep(runFn.Decl.Body)
	if step == nil {
		owned := ansiPrivateTo(c, runFn)
		for _, fi := range c.P.FuncsIn("ansi") {
			if step == nil && fi != runFn && owned[fi.Obj] && fi.Decl.Body != nil {
				findStep(fi.Decl.Body)
			}
		}
	}
	if step == nil || decls[step] == nil {
		c.undecided("C02.a", "ansi.(*Parser).run/step", runFn.Decl.Pos(), "cannot find a call of a state-returning step function in run")
		return
	}
	// timer callback: the func literal passed to time.AfterFunc inside the step function
	// timer callback: the function passed to time.AfterFunc inside the step function: a literal, or a
	// method value / function of the package
	var timerLit ast.Node
	var timerBody *ast.BlockStmt
	var timerDecl *ast.FuncDecl
	// (searched in the step function and in the functions of the package it statically calls: the arming may
	// have been moved into a helper)
	var armBodies []ast.Node
	{
		seenFn := map[*types.Func]bool{step: true}
		queue := []*types.Func{step}
		for len(queue) > 0 && len(seenFn) < 64 {
			cur := queue[0]
			queue = queue[1:]
			armBodies = append(armBodies, decls[cur].Body)
			ast.Inspect(decls[cur].Body, func(n ast.Node) bool {
				if call, ok := n.(*ast.CallExpr); ok {
					if fn := calleeOf(info, call); fn != nil && decls[fn] != nil && decls[fn].Body != nil && !seenFn[fn] {
						seenFn[fn] = true
						queue = append(queue, fn)
					}
				}
				return true
			})
		}
	}
	armVisit := func(n ast.Node) bool {
		call, ok := n.(*ast.CallExpr)
		if !ok {
			return true
		}
		if fn := calleeOf(info, call); fn != nil && fullName(fn) == "time.AfterFunc" && len(call.Args) == 2 {
			switch cb := unparen(call.Args[1]).(type) {
			case *ast.FuncLit:
				timerLit, timerBody = cb, cb.Body
			default:
				if f := calleeOfExpr(info, cb); f != nil && decls[f] != nil && decls[f].Body != nil {
					timerLit, timerBody, timerDecl = decls[f], decls[f].Body, decls[f]
				}
			}
		}
		return true
	}
	for _, b := range armBodies {
		if timerLit == nil {
			ast.Inspect(b, armVisit)
		}
	}

	curSym := 0
	newMachine := func(s c02State) *Machine {
		m := &Machine{info: info, prog: c.P, objType: ptr, fields: map[string]val{},
			tracked:  func(f *types.Var) bool { return trackedFields[f.Name()] },
			funcDecl: func(fn *types.Func) *ast.FuncDecl { return decls[fn] },
		}
		for k, v := range s.fields {
			m.fields[k] = v
		}
		m.onMethod = func(m *Machine, fn *types.Func, call *ast.CallExpr, args []val) bool {
			name := fn.Name()
			if name == "emit" && len(call.Args) == 1 {
				m.act("%s", describeEmit(info, call.Args[0], m, args))
				return true
			}
			fd := decls[fn]
			if !c02ActionVocabulary[name] && fd != nil && fd.Body != nil && c02TouchesControl(info, fd, ptr, trackedFields, decls) {
				// a helper (not one of the parser's named actions) that touches the control fields or calls
				// actions: interpret it in place, so that extracting such code into a method changes nothing
				m.callDecl(fd, append([]val{}, args...))
				return true
			}
			// an action is recorded by name when it is applied to the received byte; any other argument is part of its identity
			note := ""
			for _, a := range args {
				if a.k == vInt && int(a.i) != curSym {
					note = fmt.Sprintf("(%d, not the received byte)", a.i)
				} else if a.k == vUnknown {
					note = "(unknown argument)"
				}
			}
			m.act("%s%s", name, note)
			if fd == nil || fd.Body == nil {
				return true
			}
			// summary: tracked-field assignments must be unconditional top-level statements
			returned := false
			for _, s := range fd.Body.List {
				if as, ok := s.(*ast.AssignStmt); ok && len(as.Lhs) == 1 && len(as.Rhs) == 1 {
					if sel, ok := as.Lhs[0].(*ast.SelectorExpr); ok {
						if sl, ok := info.Selections[sel]; ok && sl.Kind() == types.FieldVal && trackedFields[sel.Sel.Name] && types.Identical(info.TypeOf(sel.X), ptr) {
							if returned {
								m.problem("%s assigns tracked field %s after a conditional exit", name, sel.Sel.Name)
								continue
							}
							fr := &frame{env: map[types.Object]val{}}
							m.fields[sel.Sel.Name] = m.expr(fr, as.Rhs[0])
							continue
						}
					}
				}
				nested := false
				ast.Inspect(s, func(n ast.Node) bool {
					switch x := n.(type) {
					case *ast.ReturnStmt:
						returned = true
					case *ast.AssignStmt:
						for _, l := range x.Lhs {
							if sel, ok := l.(*ast.SelectorExpr); ok && trackedFields[sel.Sel.Name] {
								if sl, ok := info.Selections[sel]; ok && sl.Kind() == types.FieldVal && types.Identical(info.TypeOf(sel.X), ptr) {
									nested = true
								}
							}
						}
					case *ast.CallExpr:
						// calls to other parser methods that themselves assign tracked fields are not followed
					}
					return true
				})
				if nested {
					m.problem("%s assigns a tracked field conditionally", name)
				}
			}
			return true
		}
		return m
	}

	stepOnce := func(s c02State, sym int) c02Trans {
		curSym = sym
		m := newMachine(s)
		var t c02Trans
		if sym == symTimeout {
			fr := &frame{env: map[types.Object]val{}}
			if timerDecl != nil {
				m.callDecl(timerDecl, nil)
			} else {
				m.block(fr, timerBody.List)
				// the callback's own deferred statements run when it returns (LIFO)
				for j := len(fr.defers) - 1; j >= 0; j-- {
					fr.defers[j]()
				}
			}
			t.next = c02State{fields: m.fields}
		} else {
			ret := m.callDecl(decls[step], []val{{k: vInt, i: int64(sym)}, {k: vObj}})
			if len(ret) != 1 || (ret[0].k != vFunc && ret[0].k != vNil) {
				m.problem("step function did not return a state (got %v)", ret)
			} else {
				m.fields["state"] = ret[0]
				if ret[0].k == vNil {
					t.stop = true
				}
			}
			t.next = c02State{fields: m.fields}
		}
		for _, a := range m.actions {
			if strings.HasPrefix(a, "append:") {
				// an inlined buffer action: `append:buf(v)`; with v the received byte it is the primitive `append:buf`
				a = strings.Replace(a, fmt.Sprintf("(%d)", sym), "", 1)
			}
			switch {
			case a == "set:escTimeout":
				t.next.armed = true
			case strings.HasPrefix(a, "set:"):
				// other untracked bookkeeping fields are not part of the table
				t.acts = append(t.acts, a)
			default:
				t.acts = append(t.acts, a)
			}
		}
		t.problems = m.problems
		return t
	}

	// initial product state: zero values, state = the function stored by NewParser
	init := c02State{fields: map[string]val{}}
	for f := range trackedFields {
		init.fields[f] = val{k: vNil}
	}
	for i := 0; i < st.NumFields(); i++ {
		f := st.Field(i)
		if trackedFields[f.Name()] {
			if b, ok := f.Type().Underlying().(*types.Basic); ok && b.Info()&types.IsBoolean != 0 {
				init.fields[f.Name()] = val{k: vBool}
			}
		}
	}
	if np := c.P.Func("ansi.NewParser"); np != nil {
		ast.Inspect(np.Decl.Body, func(n ast.Node) bool {
			kv, ok := n.(*ast.KeyValueExpr)
			if !ok {
				return true
			}
			if id, ok := kv.Key.(*ast.Ident); ok && id.Name == "state" {
				if vid, ok := kv.Value.(*ast.Ident); ok {
					if fn, ok := info.Uses[vid].(*types.Func); ok {
						init.fields["state"] = val{k: vFunc, fn: fn}
					}
				}
			}
			return true
		})
	}
	if init.fields["state"].k != vFunc {
		c.undecided("C02.a", "ansi.NewParser/initial state", 0, "initial state not found in NewParser's composite literal")
		return
	}

	seen := map[string]c02State{init.key(): init}
	order := []string{init.key()}
	trans := map[string]map[int]c02Trans{}
	for qi := 0; qi < len(order); qi++ {
		q := seen[order[qi]]
		trans[order[qi]] = map[int]c02Trans{}
		syms := c02Alphabet
		if q.armed && timerLit != nil {
			syms = append(append([]int{}, c02Alphabet...), symTimeout)
		}
		for _, sym := range syms {
			t := stepOnce(q, sym)
			trans[order[qi]][sym] = t
			if t.stop || len(t.problems) > 0 {
				continue
			}
			k := t.next.key()
			if _, ok := seen[k]; !ok {
				seen[k] = t.next
				order = append(order, k)
				if len(order) > 400 {
					c.undecided("C02.a", "product automaton", 0, "more than 400 product states; control fields are not finite-valued as assumed")
					return
				}
			}
		}
	}
	c.info("product automaton: %d reachable states, alphabet %d (+timeout where armed); tracked fields %v", len(order), len(c02Alphabet), sortedKeys(trackedFields))
	// (kept for the rules of c02k.go, which are evaluated on the same automaton)
	c02Auto = &c02Automaton{order: order, seen: seen, trans: trans, stepOnce: stepOnce, stepPos: decls[step].Pos()}

	stateFnNames := map[string]bool{}
	// --- C02.a table comparison
	for _, qk := range order {
		q := seen[qk]
		sname := q.stateName()
		stateFnNames[sname] = true
		for _, sym := range c02Alphabet {
			t := trans[qk][sym]
			key := fmt.Sprintf("%s%s/%s", sname, q.flags(), symName(sym))
			pos := decls[step].Pos()
			if fn := q.fields["state"].fn; fn != nil && decls[fn] != nil {
				pos = decls[fn].Pos()
			}
			if len(t.problems) > 0 {
				c.undecided("C02.a", key, pos, "cannot interpret: %s", strings.Join(t.problems, "; "))
				continue
			}
			var wantActs [][]string
			var wantNext string
			constrained := true
			exitAct := []string{}
			if e := q.fields["exit"]; e.k == vFunc {
				exitAct = []string{e.fn.Name()}
			}
			switch {
			case sym == symEOF:
				wantActs, wantNext = [][]string{exitAct}, "STOP"
			case sym == 0x18 || sym == 0x1A:
				wantActs, wantNext = [][]string{append(append([]string{}, exitAct...), "execute")}, "ground"
			case sym == 0x1B:
				wantActs, wantNext = [][]string{append(append([]string{}, exitAct...), "clear")}, "escape"
			default:
				wantActs, wantNext, constrained = refTransition(sname, sym)
			}
			if !constrained {
				c.okTrivial("C02.a", key, pos, "not constrained by the reference")
				continue
			}
			gotNext := t.next.stateName()
			if t.stop {
				gotNext = "STOP"
			}
			got := c02Primitive(filterActs(t.acts))
			match := false
			for _, w := range wantActs {
				if strings.Join(c02Primitive(w), ",") == strings.Join(got, ",") {
					match = true
				}
			}
			if match && gotNext == wantNext {
				c.ok("C02.a", key, pos, "actions [%s] -> %s", strings.Join(got, ","), gotNext)
			} else {
				c.bad("C02.a", key, pos, "got actions [%s] -> %s, reference requires %s -> %s", strings.Join(got, ","), gotNext, fmtAlts(wantActs), wantNext)
			}
		}
	}
	// --- C02.b exit typestate invariant on every reachable product state
	for _, qk := range order {
		q := seen[qk]
		sname := q.stateName()
		want := c02ExpectedExit[sname]
		got := ""
		if e := q.fields["exit"]; e.k == vFunc {
			got = e.fn.Name()
		}
		key := fmt.Sprintf("%s%s/exit-handler", sname, q.flags())
		pos := decls[step].Pos()
		if got == want {
			c.ok("C02.b", key, pos, "exit handler is %q as the state requires", got)
		} else {
			c.bad("C02.b", key, pos, "in state %s the installed exit handler is %q, the reference requires %q (string delivered twice, never, or to the wrong handler)", sname, got, want)
		}
	}
	// --- C02.c ST suppression over the product automaton
	for _, qk := range order {
		q := seen[qk]
		sname := q.stateName()
		if sname == "escape" {
			continue // ESC ESC \ is not constrained
		}
		tEsc := trans[qk][0x1B]
		if len(tEsc.problems) > 0 || tEsc.stop {
			continue
		}
		paths := []struct {
			label string
			via   c02State
		}{{"ESC \\", tEsc.next}}
		// after the Escape timeout the next ESC \ must be delivered
		if tEsc.next.armed && timerLit != nil {
			tTo := stepOnce(tEsc.next, symTimeout)
			if len(tTo.problems) == 0 {
				key := fmt.Sprintf("%s%s/ESC,timeout", sname, q.flags())
				got := filterActs(tTo.acts)
				if strings.Join(got, ",") == "emit:C0(27)" && tTo.next.stateName() == "ground" {
					c.ok("C02.c", key, timerLit.Pos(), "timeout emits Escape once and returns to ground")
				} else {
					c.bad("C02.c", key, timerLit.Pos(), "timeout gives [%s] -> %s, expected [emit:C0(27)] -> ground", strings.Join(got, ","), tTo.next.stateName())
				}
				t2 := stepOnce(tTo.next, 0x1B)
				if len(t2.problems) == 0 {
					paths = append(paths, struct {
						label string
						via   c02State
					}{"ESC,timeout,ESC \\", t2.next})
				}
			}
		}
		for i, p := range paths {
			tBs := stepOnce(p.via, 0x5C)
			key := fmt.Sprintf("%s%s/%s", sname, q.flags(), p.label)
			if len(tBs.problems) > 0 {
				c.undecided("C02.c", key, decls[step].Pos(), "cannot interpret: %s", strings.Join(tBs.problems, "; "))
				continue
			}
			dispatched := false
			for _, a := range tBs.acts {
				if a == "escapeDispatch" {
					dispatched = true
				}
			}
			wantSuppressed := c02StringStates[sname] && i == 0
			switch {
			case wantSuppressed && dispatched:
				c.bad("C02.c", key, decls[step].Pos(), "the ST that ends the string in state %s is delivered as a spurious ESC \\ (Alt+\\)", sname)
			case !wantSuppressed && !dispatched:
				c.bad("C02.c", key, decls[step].Pos(), "an ESC \\ that does not end a string is swallowed (stale ST-suppression flag in %s)", qk)
			default:
				c.ok("C02.c", key, decls[step].Pos(), "suppressed=%v as required", !dispatched)
			}
		}
	}
	// every ESC arms the Escape timer, whatever the state (C08: a lone ESC followed by silence is reported as Escape)
	if timerLit != nil {
		for _, qk := range order {
			q := seen[qk]
			t := trans[qk][0x1B]
			if len(t.problems) > 0 || t.stop {
				continue
			}
			key := fmt.Sprintf("%s%s/ESC arms the Escape timer", q.stateName(), q.flags())
			if t.next.armed {
				c.ok("C02.h", key, timerLit.Pos(), "timer armed")
			} else {
				c.bad("C02.h", key, timerLit.Pos(), "an ESC received in state %s does not arm the Escape timer: a lone ESC followed by silence is never reported as the Escape key and the next byte is parsed as part of an escape sequence", qk)
			}
		}
	}
	// every reference state must have been reached (non-vacuity of the table)
	for _, s := range []string{"ground", "escape", "escapeIntermediate", "csiEntry", "csiParam", "csiIntermediate", "csiIgnore",
		"dcsEntry", "dcsParam", "dcsIntermediate", "dcsPassthrough", "dcsIgnore", "oscString", "sosPm", "ss3", "apc"} {
		if !stateFnNames[s] {
			c.bad("C02.a", "state/"+s+"/reachable", decls[step].Pos(), "reference state %s is not reachable in the implementation", s)
		}
	}
	for s := range stateFnNames {
		if _, _, ok := refTransition(s, 0x41); !ok && s != "nil" {
			c.bad("C02.a", "state/"+s+"/known", decls[step].Pos(), "implementation state %s has no counterpart in the reference", s)
		}
	}
	c02ActionBodies(c, decls, info, ptr)
	// delivered payloads/intermediates are never modified by later parsing (shared with C08.b)
	parserOwnership(c, "C02.f")
	c.expect("C02.f", 3)
}

func sortedKeys(m map[string]bool) []string {
	var ks []string
	for k := range m {
		ks = append(ks, k)
	}
	sort.Strings(ks)
	return ks
}

func fmtAlts(a [][]string) string {
	var parts []string
	for _, x := range a {
		parts = append(parts, "["+strings.Join(x, ",")+"]")
	}
	return strings.Join(parts, " or ")
}

// c02Prim: the one-line buffer actions of the reference, expressed as the primitive effect the interpreter
// records when the same code is written inline. Both the implementation's and the reference's action lists
// are normalised through this table, so that `p.oscPut(r)` and `p.oscData = append(p.oscData, r)` compare
// equal (rule C02.e checks the bodies of the named methods where they exist). oscStart's only effect is the
// installation of the exit handler, which is part of the product state and decided by C02.b.
var c02Prim = map[string][]string{"oscStart": {}, "oscPut": {"append:oscData"}, "collect": {"append:intermediate"},
	"param": {"append:params"}, "put": {"append:dcs.Data"}}

func c02Primitive(acts []string) []string {
	out := []string{}
	for _, a := range acts {
		if p, ok := c02Prim[a]; ok {
			out = append(out, p...)
			continue
		}
		out = append(out, a)
	}
	return out
}

// filterActs drops bookkeeping effects that are not parser actions.
func filterActs(acts []string) []string {
	out := []string{}
	for _, a := range acts {
		if strings.HasPrefix(a, "set:") {
			continue
		}
		out = append(out, a)
	}
	return out
}

func describeEmit(info *types.Info, arg ast.Expr, m *Machine, args []val) string {
	switch a := arg.(type) {
	case *ast.CallExpr:
		if tv, ok := info.Types[a.Fun]; ok && tv.IsType() {
			name := types.ExprString(a.Fun)
			if len(a.Args) == 1 {
				if v, ok := constInt(info, a.Args[0]); ok {
					return fmt.Sprintf("emit:%s(%d)", name, v)
				}
			}
			return "emit:" + name
		}
		if fn := calleeOf(info, a); fn != nil && fullName(fn) == "fmt.Errorf" {
			return "emit:error"
		}
	case *ast.CompositeLit:
		return "emit:" + types.ExprString(a.Type)
	}
	return "emit:" + types.ExprString(arg)
}

// c02ActionBodies checks the one-line action methods the table refers to by name.
func c02ActionBodies(c *Ctx, decls map[*types.Func]*ast.FuncDecl, info *types.Info, ptr types.Type) {
	byName := map[string]*ast.FuncDecl{}
	for fn, fd := range decls {
		if sig := fn.Type().(*types.Signature); sig.Recv() != nil && types.Identical(sig.Recv().Type(), ptr) {
			byName[fn.Name()] = fd
		}
	}
	appendsParam := func(fd *ast.FuncDecl, path string) bool {
		if fd == nil || len(fd.Type.Params.List) != 1 || len(fd.Type.Params.List[0].Names) != 1 {
			return false
		}
		param := info.Defs[fd.Type.Params.List[0].Names[0]]
		ok := false
		n := 0
		for _, s := range fd.Body.List {
			n++
			as, isAs := s.(*ast.AssignStmt)
			if !isAs || len(as.Lhs) != 1 || len(as.Rhs) != 1 {
				continue
			}
			if types.ExprString(stripRecv(as.Lhs[0])) != path {
				continue
			}
			call, isCall := as.Rhs[0].(*ast.CallExpr)
			if !isCall || len(call.Args) != 2 {
				continue
			}
			if id, isId := call.Fun.(*ast.Ident); !isId || id.Name != "append" {
				continue
			}
			if types.ExprString(stripRecv(call.Args[0])) != path {
				continue
			}
			if id, isId := call.Args[1].(*ast.Ident); isId && info.Uses[id] == param {
				ok = true
			}
		}
		return ok && n == 1
	}
	for _, a := range []struct{ fn, path string }{{"collect", "intermediate"}, {"param", "params"}, {"put", "dcs.Data"}, {"oscPut", "oscData"}} {
		fd := byName[a.fn]
		pos := ast.Node(nil)
		if fd != nil {
			pos = fd
		}
		p := posOf(pos)
		if fd == nil {
			c.okTrivial("C02.e", "ansi.(*Parser)."+a.fn+"/appends byte to "+a.path, 0, "no method "+a.fn+": the action is written inline and compared as the primitive append:"+a.path+" by C02.a")
			continue
		}
		c.check(appendsParam(fd, a.path), "C02.e", "ansi.(*Parser)."+a.fn+"/appends byte to "+a.path, p,
			"body is exactly `"+a.path+" = append("+a.path+", r)`", "action "+a.fn+" no longer appends exactly the received byte to "+a.path)
	}
	// clear resets intermediate, params (to zero length) and final
	if fd := byName["clear"]; fd != nil {
		reset := map[string]bool{}
		for _, s := range fd.Body.List {
			if as, ok := s.(*ast.AssignStmt); ok && len(as.Lhs) == 1 {
				l := types.ExprString(stripRecv(as.Lhs[0]))
				r := types.ExprString(stripRecv(as.Rhs[0]))
				switch {
				case r == l+"[:0]" || r == "nil":
					reset[l] = true
				case l == "final":
					if v, ok := constInt(info, as.Rhs[0]); ok && v == 0 {
						reset[l] = true
					}
				}
			}
		}
		c.check(reset["intermediate"] && reset["params"], "C02.e", "ansi.(*Parser).clear/resets intermediate+params", fd.Pos(),
			"clear truncates intermediate and params", "clear does not reset both intermediate and params (stale bytes leak into the next sequence)")
	} else {
		c.undecided("C02.e", "ansi.(*Parser).clear", 0, "clear not found")
	}
	// execute emits C0(r) for r in 00-1F
	if fd := byName["execute"]; fd != nil {
		found := false
		ast.Inspect(fd.Body, func(n ast.Node) bool {
			if call, ok := n.(*ast.CallExpr); ok {
				if fn := calleeOf(info, call); fn != nil && fn.Name() == "emit" && len(call.Args) == 1 {
					if conv, ok := call.Args[0].(*ast.CallExpr); ok && types.ExprString(conv.Fun) == "C0" && len(conv.Args) == 1 {
						if id, ok := conv.Args[0].(*ast.Ident); ok && info.Uses[id] == info.Defs[fd.Type.Params.List[0].Names[0]] {
							found = true
						}
					}
				}
			}
			return true
		})
		c.check(found, "C02.e", "ansi.(*Parser).execute/emits C0(r)", fd.Pos(), "execute emits C0 of the received byte", "execute no longer emits C0(r)")
	}
	// escapeDispatch / csiDispatch carry the final byte
	for _, d := range []struct{ fn, typ string }{{"escapeDispatch", "ESC"}, {"csiDispatch", "CSI"}} {
		fd := byName[d.fn]
		if fd == nil {
			c.undecided("C02.e", "ansi.(*Parser)."+d.fn, 0, "not found")
			continue
		}
		param := info.Defs[fd.Type.Params.List[0].Names[0]]
		okFinal := false
		ast.Inspect(fd.Body, func(n ast.Node) bool {
			if cl, ok := n.(*ast.CompositeLit); ok && types.ExprString(cl.Type) == d.typ {
				for _, el := range cl.Elts {
					if kv, ok := el.(*ast.KeyValueExpr); ok && types.ExprString(kv.Key) == "Final" {
						if id, ok := kv.Value.(*ast.Ident); ok && info.Uses[id] == param {
							okFinal = true
						}
					}
				}
			}
			return true
		})
		// ... or stored field by field: `x.Final = r` with x of the sequence type
		ast.Inspect(fd.Body, func(n ast.Node) bool {
			if as, ok := n.(*ast.AssignStmt); ok && len(as.Lhs) == len(as.Rhs) {
				for i, l := range as.Lhs {
					sel, ok := unparen(l).(*ast.SelectorExpr)
					if !ok || sel.Sel.Name != "Final" {
						continue
					}
					if nt, ok := info.TypeOf(sel.X).(*types.Named); !ok || nt.Obj().Name() != d.typ {
						continue
					}
					if id, ok := unparen(as.Rhs[i]).(*ast.Ident); ok && info.Uses[id] == param {
						okFinal = true
					}
				}
			}
			return true
		})
		c.check(okFinal, "C02.e", "ansi.(*Parser)."+d.fn+"/Final is the received byte", fd.Pos(), "Final: r", d.fn+" does not store the received byte as Final")
	}
}

func posOf(n ast.Node) (p tokenPos) {
	if n == nil {
		return 0
	}
	return n.Pos()
}

// stripRecv removes a leading receiver identifier: p.dcs.Data -> dcs.Data
func stripRecv(e ast.Expr) ast.Expr {
	switch t := e.(type) {
	case *ast.SelectorExpr:
		if _, ok := t.X.(*ast.Ident); ok {
			return t.Sel
		}
		return &ast.SelectorExpr{X: stripRecv(t.X), Sel: t.Sel}
	case *ast.SliceExpr:
		return &ast.SliceExpr{X: stripRecv(t.X), Low: t.Low, High: t.High, Max: t.Max, Slice3: t.Slice3}
	case *ast.IndexExpr:
		return &ast.IndexExpr{X: stripRecv(t.X), Index: t.Index}
	case *ast.CallExpr:
		args := make([]ast.Expr, len(t.Args))
		for i, a := range t.Args {
			args[i] = stripRecv(a)
		}
		return &ast.CallExpr{Fun: t.Fun, Args: args}
	}
	return e
}

// c02ActionVocabulary: the parser actions of the reference (Williams' names as spelled in the code) and the
// exit handlers. Methods outside this set are helpers and are interpreted transparently.
var c02ActionVocabulary = map[string]bool{"print": true, "execute": true, "clear": true, "collect": true, "param": true,
	"escapeDispatch": true, "csiDispatch": true, "hook": true, "put": true, "unhook": true, "oscStart": true, "oscPut": true,
	"oscEnd": true, "apcUnhook": true, "emit": true}

// c02TouchesControl: does the method body assign/read-call a tracked field or call another method of the parser?
func c02TouchesControl(info *types.Info, fd *ast.FuncDecl, ptr types.Type, tracked map[string]bool, decls map[*types.Func]*ast.FuncDecl) bool {
	touches := false
	ast.Inspect(fd.Body, func(n ast.Node) bool {
		switch t := n.(type) {
		case *ast.SelectorExpr:
			if sl, ok := info.Selections[t]; ok && sl.Kind() == types.FieldVal && tracked[t.Sel.Name] && types.Identical(info.TypeOf(t.X), ptr) {
				touches = true
			}
		case *ast.CallExpr:
			if fn := calleeOf(info, t); fn != nil {
				if sig, _ := fn.Type().(*types.Signature); sig != nil && sig.Recv() != nil && types.Identical(sig.Recv().Type(), ptr) && fn.Name() != "emit" {
					touches = true
				}
			}
		}
		return true
	})
	return touches
}
