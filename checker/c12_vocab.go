package main

// C12.a — every frame-phase sequence the renderer can emit under the emulator's
// own capability set is handled by the emulator (symbolic execution of
// update() reaches a case with an effect; no error is logged, nothing is out of
// range).  C12.e (part) — the effect is the one the renderer intends: same
// style field, same attribute bit, same colour index, same argument order.

import (
	"fmt"
	"go/ast"
	"go/constant"
	"go/token"
	"go/types"
	"os"
	"sort"
	"strings"

	"golang.org/x/tools/go/cfg"
)

// allGuardKeys: canonical guard keys of the emission and of its single-caller chain.
func (st *c12State) allGuardKeys(e *Emission) []string {
	keys := append([]string{}, e.GuardKeys...)
	cxs := st.guardCtxs(e)
	for _, cx := range cxs[:len(cxs)-1] {
		for _, gd := range cx.guards {
			keys = append(keys, condKeys(cx.g.Info, gd.Cond, gd.Pol)...)
		}
	}
	return keys
}

// emuSat: can the guard set hold under EMU?
func (st *c12State) emuSat(gk []string) (bool, string) {
	for _, k := range gk {
		if strings.HasPrefix(k, "+Vaxis.caps.") {
			f := strings.TrimPrefix(k, "+Vaxis.caps.")
			if _, ok := st.caps[f]; !ok {
				return false, "needs caps." + f + ", which the emulator does not advertise"
			}
		}
		if strings.HasPrefix(k, "-Vaxis.caps.") {
			f := strings.TrimPrefix(k, "-Vaxis.caps.")
			if cp, ok := st.caps[f]; ok && cp.status == "true" {
				return false, "needs !caps." + f + ", which the emulator always advertises"
			}
		}
	}
	return true, ""
}

// holeArgs: the non-constant format arguments of an emission, in hole order. The format call is found
// through the sink itself (writer.Printf, fmt.Fprintf(w, …)) or, for plain string sinks, by following the
// argument (through single-definition locals) to fmt.Sprintf or a repository wrapper that forwards
// (format, args...) to it.
func c12HoleArgs(p *Program, e *Emission) []ast.Expr {
	info := e.Fn.Pkg.TypesInfo
	var args []ast.Expr
	isFmt := false
	if ai, f, _, ok := vaxisTerminalSink(e.Fn.Pkg, e.Call, calleeOf(info, e.Call)); ok && f && ai < len(e.Call.Args) {
		isFmt = true
		args = e.Call.Args[ai+1:]
	}
	if !isFmt {
		x := unparen(e.ArgExpr)
		for depth := 0; depth < 3; depth++ {
			id, ok := x.(*ast.Ident)
			if !ok {
				break
			}
			def := c12SingleDef(e.Fn, info.ObjectOf(id))
			if def == nil {
				break
			}
			x = unparen(def)
		}
		// conversions []byte(s), string(b)
		for {
			c, ok := x.(*ast.CallExpr)
			if !ok || len(c.Args) != 1 {
				break
			}
			if tv, ok := info.Types[c.Fun]; !ok || !tv.IsType() {
				break
			}
			x = unparen(c.Args[0])
		}
		call, ok := x.(*ast.CallExpr)
		if !ok || len(call.Args) == 0 {
			return nil
		}
		fn := calleeOf(info, call)
		if fn == nil {
			return nil
		}
		if fullName(fn) != "fmt.Sprintf" {
			fi := p.FuncOfObj(fn)
			sig := fn.Type().(*types.Signature)
			if fi == nil || !sig.Variadic() || sig.Params().Len() != 2 {
				return nil
			}
		}
		args = call.Args[1:]
	}
	var out []ast.Expr
	for _, a := range args {
		if tv, ok := info.Types[a]; ok && tv.Value != nil {
			continue // substituted by the extractor
		}
		out = append(out, a)
	}
	return out
}

// holeRange bounds an integer hole argument from the facts in force and its type.
func c12HoleRange(e *Emission, arg ast.Expr) (lo, hi int64, ok bool) {
	lo, hi, ok = c12HoleRange1(e, arg)
	// the guards may speak about the expression a local was defined from (idx := ps[0]; guard ps[0] < 8)
	info := e.Fn.Pkg.TypesInfo
	base := unparen(arg)
	var k int64
	if b, isBin := base.(*ast.BinaryExpr); isBin && (b.Op == token.ADD || b.Op == token.SUB) {
		if v, isC := constInt(info, b.Y); isC {
			k = v
			if b.Op == token.SUB {
				k = -v
			}
			base = unparen(b.X)
		}
	}
	if id, isId := base.(*ast.Ident); isId {
		if def := c12SingleDef(e.Fn, info.ObjectOf(id)); def != nil {
			if l2, h2, ok2 := c12HoleRange(e, def); ok2 {
				l2, h2 = l2+k, h2+k
				if !ok {
					return l2, h2, true
				}
				if l2 > lo {
					lo = l2
				}
				if h2 < hi {
					hi = h2
				}
			}
		}
	}
	return lo, hi, ok
}

func c12HoleRange1(e *Emission, arg ast.Expr) (lo, hi int64, ok bool) {
	info := e.Fn.Pkg.TypesInfo
	facts := c12FactsOf(e.G, e.Loc, c12OwnGuards(e))
	t, k := linForm(info, arg)
	if t.ID == "" {
		return k, k, true
	}
	tlo, thi := int64(-1<<31), int64(1<<31)
	// type bounds of the term: find the innermost expression with that term
	var termExpr ast.Expr = arg
	for {
		b, isBin := unparen(termExpr).(*ast.BinaryExpr)
		if !isBin {
			break
		}
		if _, c := constInt(info, b.Y); c {
			termExpr = b.X
		} else {
			termExpr = b.Y
		}
	}
	if bt, isB := info.TypeOf(termExpr).Underlying().(*types.Basic); isB {
		switch bt.Kind() {
		case types.Uint8:
			tlo, thi = 0, 255
		case types.Uint16:
			tlo, thi = 0, 65535
		case types.Uint, types.Uint32, types.Uint64:
			tlo = 0
		}
	}
	for v := int64(0); v <= 300; v++ {
		if impliesLin(facts, t, Term{}, v) && v < thi {
			thi = v
			break
		}
	}
	for v := int64(300); v >= 0; v-- {
		if impliesLin(facts, Term{}, t, -v) && v > tlo {
			tlo = v
			break
		}
	}
	if tlo < -1000 || thi > 1000 {
		return 0, 0, false
	}
	return tlo + k, thi + k, true
}

// c12GuardCtx: the guards that dominate an emission: its own, and — when the emitting function is a helper
// with a single call site in its package — the guards at that call site (two levels).
type c12GuardCtx struct {
	fn     *FuncInfo
	g      *FG
	guards []Guard
}

func (st *c12State) guardCtxs(e *Emission) (res []c12GuardCtx) {
	if st.ctxCache == nil {
		st.ctxCache = map[*Emission][]c12GuardCtx{}
	}
	if c, ok := st.ctxCache[e]; ok {
		return c
	}
	defer func() { st.ctxCache[e] = res }()
	out := []c12GuardCtx{{e.Fn, e.G, c12OwnGuards(e)}}
	if e.FnName != e.Fn.Name {
		return out // function literal: its guards are its own
	}
	cur := e.Fn
	levels := 2
	if site := c12SiteOf[e]; site != nil {
		// an instance of a helper's write at one of its call sites: that call is its context
		out = append(out, c12GuardCtx{site.caller, site.g, site.g.Guards(site.loc)})
		cur, levels = site.caller, 1
	}
	for level := 0; level < levels; level++ {
		var sites []c12GuardCtx
		for _, fi := range st.c.P.FuncsIn(shortPkg(cur.Pkg.PkgPath)) {
			if fi == cur || fi.Decl.Body == nil {
				continue
			}
			g := st.c.P.Graph(fi)
			for _, h := range g.Calls(func(fn *types.Func, _ *ast.CallExpr) bool { return fn == cur.Obj }) {
				sites = append(sites, c12GuardCtx{fi, g, g.Guards(h.Loc)})
			}
		}
		if len(sites) != 1 {
			break
		}
		out = append(out, sites[0])
		cur = sites[0].fn
	}
	// outermost first, so that inner guards decide last
	for i, j := 0, len(out)-1; i < j; i, j = i+1, j-1 {
		out[i], out[j] = out[j], out[i]
	}
	return out
}

// styleIntent: what the renderer means by an SGR emission, derived from its dominating guards.
type c12Intent struct {
	kind  string     // "field" | "attr-set" | "attr-clear" | "reset" | ""
	field *types.Var // style field
	mask  int64
	guard string // canonical key of the deciding guard
}

func (st *c12State) intentOf(e *Emission) c12Intent {
	var it c12Intent
	for _, cx := range st.guardCtxs(e) {
		info := cx.fn.Pkg.TypesInfo
		for _, gd := range cx.guards {
			if gd.Cond.Tag != nil || gd.Cond.Alts != nil {
				continue
			}
			for _, at := range c12GuardAtoms(gd.Cond.Expr, gd.Pol) {
				// cursor.F != next.F
				if bx, by, ok := c12Differs(at.e, at.pol); ok {
					lf, rf := c12FieldVia(cx.fn, bx), c12FieldVia(cx.fn, by)
					if lf != nil && lf == rf {
						if it.kind == "" || it.kind == "field" {
							it = c12Intent{kind: "field", field: lf, guard: canonExpr(info, &ast.BinaryExpr{X: bx, Op: token.NEQ, Y: by})}
						}
						continue
					}
				}
				// X & C != 0
				x, m, ok := c12MaskTest(info, at.e, at.pol, st.rows[e])
				if !ok {
					continue
				}
				role := st.attrRole(cx.fn, x)
				if role == "" {
					continue
				}
				fld := st.attrField(e)
				gkey := canonExpr(info, x) + "&" + fmt.Sprint(m) + "!=0"
				switch role {
				case "on", "next":
					it = c12Intent{kind: "attr-set", field: fld, mask: m, guard: gkey}
				case "off":
					it = c12Intent{kind: "attr-clear", field: fld, mask: m, guard: gkey}
				}
			}
		}
	}
	return it
}

// c12GuardAtoms splits a guard (condition with the polarity of the taken edge) into the atoms it implies:
// conjuncts of a true &&, disjuncts of a false ||, through negations.
type c12Atom struct {
	e   ast.Expr
	pol bool
}

func c12GuardAtoms(e ast.Expr, pol bool) []c12Atom {
	e = unparen(e)
	switch t := e.(type) {
	case *ast.UnaryExpr:
		if t.Op == token.NOT {
			return c12GuardAtoms(t.X, !pol)
		}
	case *ast.BinaryExpr:
		if (t.Op == token.LAND && pol) || (t.Op == token.LOR && !pol) {
			return append(c12GuardAtoms(t.X, pol), c12GuardAtoms(t.Y, pol)...)
		}
	}
	return []c12Atom{{e, pol}}
}

// c12MaskTest: does atom==pol state that (X & mask) is non-zero? Forms: X&m != 0, 0 != X&m, X&m > 0,
// X&m == m (single bit), m&X …, and their negations with opposite polarity.
func c12MaskTest(info *types.Info, e ast.Expr, pol bool, row *c12Row) (x ast.Expr, mask int64, ok bool) {
	b, isBin := unparen(e).(*ast.BinaryExpr)
	if !isBin {
		return nil, 0, false
	}
	// constants: of the type checker, or a field of the table row this emission was expanded from
	constInt := func(info *types.Info, e ast.Expr) (int64, bool) {
		if v, ok := constInt(info, e); ok {
			return v, true
		}
		return row.intField(info, e)
	}
	l, r := unparen(b.X), unparen(b.Y)
	op := b.Op
	if _, lc := constInt(info, l); lc {
		l, r = r, l
		switch op {
		case token.LSS:
			op = token.GTR
		case token.GTR:
			op = token.LSS
		}
	}
	and, isAnd := l.(*ast.BinaryExpr)
	k, isK := constInt(info, r)
	if !isAnd || and.Op != token.AND || !isK {
		return nil, 0, false
	}
	m, isM := constInt(info, and.Y)
	x = and.X
	if !isM {
		m, isM = constInt(info, and.X)
		x = and.Y
	}
	if !isM || m == 0 {
		return nil, 0, false
	}
	nonzero := false
	switch {
	case op == token.NEQ && k == 0 && pol, op == token.EQL && k == 0 && !pol:
		nonzero = true
	case op == token.GTR && k == 0 && pol:
		nonzero = true
	case op == token.EQL && k == m && m&(m-1) == 0 && pol, op == token.NEQ && k == m && m&(m-1) == 0 && !pol:
		nonzero = true
	}
	return x, m, nonzero
}

// c12Differs: does cond==pol state `X != Y`? Returns the operands (handles !=, ==, !(...) and polarity).
func c12Differs(cond ast.Expr, pol bool) (x, y ast.Expr, ok bool) {
	cond = unparen(cond)
	for {
		u, isNot := cond.(*ast.UnaryExpr)
		if !isNot || u.Op != token.NOT {
			break
		}
		cond, pol = unparen(u.X), !pol
	}
	b, isBin := cond.(*ast.BinaryExpr)
	if !isBin {
		return nil, nil, false
	}
	if (b.Op == token.NEQ && pol) || (b.Op == token.EQL && !pol) {
		return b.X, b.Y, true
	}
	return nil, nil, false
}

func c12FieldOf(info *types.Info, e ast.Expr) *types.Var {
	sel, ok := unparen(e).(*ast.SelectorExpr)
	if !ok {
		return nil
	}
	s, ok := info.Selections[sel]
	if !ok || s.Kind() != types.FieldVal {
		return nil
	}
	v, _ := s.Obj().(*types.Var)
	return v
}

// c12FieldVia: the struct field an expression reads, directly or through single-definition locals
// (`ul := next.UnderlineStyle; if cursor.UnderlineStyle != ul`).
func c12FieldVia(fi *FuncInfo, e ast.Expr) *types.Var {
	info := fi.Pkg.TypesInfo
	for depth := 0; depth < 4; depth++ {
		e = unparen(e)
		if f := c12FieldOf(info, e); f != nil {
			return f
		}
		id, ok := e.(*ast.Ident)
		if !ok {
			return nil
		}
		obj := info.ObjectOf(id)
		if obj == nil {
			return nil
		}
		def := c12SingleDef(fi, obj)
		if def == nil || c12AssignedElsewhere(fi, obj) {
			return nil
		}
		e = def
	}
	return nil
}

// c12AssignedElsewhere: the local is also written by ++/--, op-assignment targets are covered by c12SingleDef
// (it counts every assignment); this looks for inc/dec, range clauses and address-taking.
func c12AssignedElsewhere(fi *FuncInfo, obj types.Object) bool {
	info := fi.Pkg.TypesInfo
	found := false
	ast.Inspect(fi.Decl.Body, func(n ast.Node) bool {
		switch t := n.(type) {
		case *ast.IncDecStmt:
			if id, ok := unparen(t.X).(*ast.Ident); ok && info.ObjectOf(id) == obj {
				found = true
			}
		case *ast.RangeStmt:
			for _, x := range []ast.Expr{t.Key, t.Value} {
				if id, ok := x.(*ast.Ident); ok && info.ObjectOf(id) == obj {
					found = true
				}
			}
		case *ast.UnaryExpr:
			if t.Op == token.AND {
				if id, ok := unparen(t.X).(*ast.Ident); ok && info.ObjectOf(id) == obj {
					found = true
				}
			}
		}
		return !found
	})
	return found
}

// singleDef returns the right-hand side of the only definition of a local variable in fn (nil otherwise).
func c12SingleDef(fi *FuncInfo, obj types.Object) ast.Expr {
	info := fi.Pkg.TypesInfo
	var rhs []ast.Expr
	ast.Inspect(fi.Decl.Body, func(n ast.Node) bool {
		as, ok := n.(*ast.AssignStmt)
		if !ok || len(as.Lhs) != len(as.Rhs) {
			return true
		}
		for i, l := range as.Lhs {
			if id, ok := l.(*ast.Ident); ok && info.ObjectOf(id) == obj {
				rhs = append(rhs, as.Rhs[i])
			}
		}
		return true
	})
	if len(rhs) == 1 {
		return rhs[0]
	}
	return nil
}

// attrRole classifies the operand X of `X & mask != 0` in render:
// "next" = the attribute of the cell being drawn, "on" = bits newly set, "off" = bits newly cleared.
func (st *c12State) attrRole(fn *FuncInfo, x ast.Expr) string {
	info := fn.Pkg.TypesInfo
	x = unparen(x)
	if f := c12FieldOf(info, x); f != nil {
		if strings.HasPrefix(canonPath(info, x), "Cell.") {
			return "next"
		}
		return ""
	}
	id, ok := x.(*ast.Ident)
	if !ok {
		return ""
	}
	def := c12SingleDef(fn, info.ObjectOf(id))
	and, ok := unparen(def).(*ast.BinaryExpr)
	if !ok || and.Op != token.AND {
		return ""
	}
	// on := d & next.Attribute ; off := d & attr (attr := cursor.Attribute)
	for _, op := range []ast.Expr{and.X, and.Y} {
		op = unparen(op)
		if f := c12FieldOf(info, op); f != nil {
			if strings.HasPrefix(canonPath(info, op), "Cell.") {
				return "on"
			}
			return "off"
		}
		if oid, ok := op.(*ast.Ident); ok {
			if d2 := c12SingleDef(fn, info.ObjectOf(oid)); d2 != nil {
				if f := c12FieldOf(info, d2); f != nil {
					if strings.HasPrefix(canonPath(info, d2), "Cell.") {
						return "on"
					}
					return "off"
				}
			}
		}
	}
	return ""
}

// attrField: the style field compared by the enclosing `cursor.F != next.F` guard.
func (st *c12State) attrField(e *Emission) *types.Var {
	var out *types.Var
	for _, cx := range st.guardCtxs(e) {
		for _, gd := range cx.guards {
			if gd.Cond.Tag != nil || gd.Cond.Alts != nil {
				continue
			}
			for _, at := range c12GuardAtoms(gd.Cond.Expr, gd.Pol) {
				if bx, by, ok := c12Differs(at.e, at.pol); ok {
					if lf, rf := c12FieldVia(cx.fn, bx), c12FieldVia(cx.fn, by); lf != nil && lf == rf {
						out = lf
					}
				}
			}
		}
	}
	return out
}

// visual: the emission belongs to the bytes that determine what the emulator shows: the frame and
// alt-screen-entry phases, and helpers of package vaxis that only those phases call.
func (st *c12State) visual(e *Emission) bool {
	switch phaseOf(e.FnName) {
	case "frame", "alt-enter":
		return true
	case "api":
	default:
		return false
	}
	if st.frameReach == nil {
		st.frameReach = map[string]bool{}
		other := map[string]bool{}
		for _, fi := range st.c.P.FuncsIn("vaxis") {
			switch phaseOf(fi.Name) {
			case "frame", "alt-enter":
				for n := range staticReach(st.c.P, fi) {
					st.frameReach[n] = true
				}
			case "api":
			default:
				for n := range staticReach(st.c.P, fi) {
					other[n] = true
				}
			}
		}
		// helpers shared with the probe/enable/disable phases are not frame-only… but they are still
		// written during frames, so they stay in; only exported API entry points are excluded
		for n := range st.frameReach {
			if fi := st.c.P.Func(n); fi != nil && fi.Decl.Name.IsExported() && phaseOf(n) == "api" {
				delete(st.frameReach, n)
			}
		}
		_ = other
	}
	base := e.FnName
	if i := strings.Index(base, "$"); i >= 0 {
		base = base[:i]
	}
	return st.frameReach[base] && e.FnName == base
}

var c12NonVisual = map[string]string{
	"OSC 22": "pointer shape: not part of the cell grid or cursor state the property compares",
}

type c12Inst struct {
	e     *Emission
	seq   Seq
	h0    int
	subst map[int]int64
	label string
}

func (st *c12State) vocabulary() {
	c := st.c
	passThrough := map[string]string{
		"vaxis.(*writer).Write":       "payload pass-through of the buffered writer (the payload is checked at its origin)",
		"vaxis.(*writer).WriteString": "payload pass-through of the buffered writer (the payload is checked at its origin)",
		"vaxis.(*writer).Printf":      "payload pass-through of the buffered writer (the payload is checked at its origin)",
	}
	st.sgrEffects = map[string][]c12Effect{}
	if st.seen == nil {
		st.seen = map[string]bool{}
	}
	for _, e := range st.ems {
		if !st.visual(e) {
			continue
		}
		if !e.Resolved {
			key := fmt.Sprintf("%s/pass-through %s", e.FnName, types.ExprString(e.ArgExpr))
			if why, ok := passThrough[e.FnName]; ok {
				c.okTrivial("C12.a", key, e.Call.Pos(), "%s", why)
			} else if st.isBufferFlush(e) {
				c.okTrivial("C12.a", key, e.Call.Pos(), "flush of the buffer (every write into writer.buf is itself checked as a terminal write)")
			} else if st.isCellText(e.Fn, e.ArgExpr, 0) {
				c.okTrivial("C12.a", key, e.Call.Pos(), "cell grapheme: printable text, handled by the emulator's print (C12.e coordinate chain)")
			} else {
				c.undecided("C12.a", key, e.Call.Pos(), "frame-phase write whose bytes are not a template set: %s", e.Why)
			}
			continue
		}
		if sat, why := st.emuSat(st.allGuardKeys(e)); !sat {
			c.okTrivial("C12.a", fmt.Sprintf("%s/%q outside the emulator's capability set", e.FnName, strings.Join(e.Templates, "|")), e.Call.Pos(), "%s", why)
			continue
		}
		args := c12HoleArgs(c.P, e)
		for _, t := range e.Templates {
			hole := 0
			for _, s := range parseSeqs(t) {
				h0 := hole
				hole += c12CountHoles(s.Raw)
				st.checkSeq(e, s, h0, args)
			}
		}
	}
	st.optionDefaults()
}

// optionDefaults: when the handling of a renderer sequence depends on an exported option field of the
// emulator, the constructor must default that option to the value under which the sequence is handled.
func (st *c12State) optionDefaults() {
	c := st.c
	nw := c.P.Func("widgets/term.New")
	seen := map[string]bool{}
	for _, cd := range st.optionConds {
		k := cd.Field.Name() + "=" + cd.Val
		if seen[k] {
			continue
		}
		seen[k] = true
		key := fmt.Sprintf("widgets/term.New/option %s defaults to %s, the value under which the renderer's sequences take effect", cd.Field.Name(), cd.Val)
		if nw == nil {
			c.undecided("C12.a", key, 0, "constructor widgets/term.New not found")
			continue
		}
		info := nw.Pkg.TypesInfo
		got := "<zero value>"
		ast.Inspect(nw.Decl.Body, func(n ast.Node) bool {
			if kv, ok := n.(*ast.KeyValueExpr); ok {
				if id, ok := kv.Key.(*ast.Ident); ok && info.ObjectOf(id) == cd.Field {
					got = canonExpr(info, kv.Value)
				}
			}
			return true
		})
		if got == "<zero value>" && cd.Val == "false" {
			got = "false"
		}
		c.check(got == cd.Val, "C12.a", key, nw.Decl.Pos(), "default "+got, fmt.Sprintf("a terminal made by New() has %s = %s, under which the emulator drops the sequence (%s)", cd.Field.Name(), got, cd.Expr))
	}
}

func (st *c12State) checkSeq(e *Emission, s Seq, h0 int, args []ast.Expr) {
	c := st.c
	key := fmt.Sprintf("%s/%q is handled by the emulator", e.FnName, s.Raw)
	switch s.Kind {
	case "TEXT":
		c.okTrivial("C12.a", key, e.Call.Pos(), "printable text")
		return
	case "C0":
		c.undecided("C12.a", key, e.Call.Pos(), "control character in a frame-phase template is not modelled")
		return
	}
	if s.Inter == "UNTERMINATED" {
		c.bad("C12.a", key, e.Call.Pos(), "control string %q is not terminated", s.Raw)
		return
	}
	if why, ok := c12NonVisual[s.String()]; ok {
		c.okTrivial("C12.a", key, e.Call.Pos(), "listed exception: %s", why)
		return
	}
	// expand "3%d"-style parameter heads over the range of the hole
	substs := []map[int]int64{nil}
	if s.Kind == "CSI" {
		n := h0
		for _, p := range strings.Split(s.Params, ";") {
			for _, tk := range strings.Split(p, ":") {
				i := strings.IndexByte(tk, '%')
				if i < 0 {
					continue
				}
				id := n
				n++
				if i == 0 {
					continue
				}
				if id >= len(args) {
					c.undecided("C12.a", key, e.Call.Pos(), "parameter %q mixes digits and a hole whose argument cannot be identified", tk)
					return
				}
				lo, hi, ok := c12HoleRange(e, args[id])
				if !ok || hi-lo > 64 {
					c.undecided("C12.a", key, e.Call.Pos(), "parameter %q mixes digits and a hole whose range is not bounded by the guards in force (%s)", tk, atomsString(e.Facts))
					return
				}
				var next []map[int]int64
				for _, base := range substs {
					for v := lo; v <= hi; v++ {
						m := map[int]int64{id: v}
						for k, x := range base {
							m[k] = x
						}
						next = append(next, m)
					}
				}
				substs = next
			}
		}
	}
	switch {
	case s.Kind == "CSI" && s.Final == "H" && s.Private == "":
		st.seen["cursor addressing (CUP)"] = true
	case s.Kind == "CSI" && s.Private == "?" && s.Params == "25" && s.Final == "h":
		st.seen["cursor visibility set"] = true
	case s.Kind == "CSI" && s.Private == "?" && s.Params == "25" && s.Final == "l":
		st.seen["cursor visibility reset"] = true
	case s.Kind == "CSI" && s.Inter == " " && s.Final == "q":
		st.seen["cursor style (DECSCUSR)"] = true
	case s.Kind == "OSC" && s.OSCSel == "8" && c12CountHoles(s.Raw) > 0:
		st.seen["hyperlink open (OSC 8 with parameters)"] = true
	case s.Kind == "OSC" && s.OSCSel == "8":
		st.seen["hyperlink close (OSC 8 empty)"] = true
	case s.Kind == "CSI" && s.Final == "m" && s.Private == "":
		st.seen["SGR"] = true
	}
	intent := c12Intent{}
	isSGR := s.Kind == "CSI" && s.Final == "m" && s.Private == "" && s.Inter == ""
	if isSGR {
		intent = st.intentOf(e)
		if intent.kind == "" && len(e.GuardKeys) <= 1 && s.Params == "" {
			intent.kind = "reset"
		}
	}
	var problems, notes, undec []string
	for _, sub := range substs {
		paths, complete, err := st.feedEmulator(s, h0, sub)
		if err != nil {
			undec = append(undec, err.Error())
			continue
		}
		if !complete {
			undec = append(undec, "path budget exceeded")
		}
		label := s.Raw
		if sub != nil {
			var ks []int
			for k := range sub {
				ks = append(ks, k)
			}
			sort.Ints(ks)
			for _, k := range ks {
				label += fmt.Sprintf(" [h%d=%d]", k, sub[k])
			}
		}
		anyEffect := false
		var effPath *c12Path
		for _, p := range paths {
			undec = append(undec, p.Unsupp...)
			for _, x := range p.NoCase {
				problems = append(problems, fmt.Sprintf("%s: no handler (%s)", label, x))
			}
			for _, x := range c12Complaints(p) {
				problems = append(problems, fmt.Sprintf("%s: emulator %s", label, x))
			}
			if len(p.Effects) > 0 || len(p.Writes) > 0 {
				if !anyEffect || len(p.Conds) < len(effPath.Conds) {
					effPath = p
				}
				anyEffect = true
			}
		}
		if !anyEffect && len(problems) == 0 {
			problems = append(problems, fmt.Sprintf("%s: the emulator's handler has no effect on its state", label))
		}
		if effPath != nil {
			var ef []string
			for _, x := range effPath.Effects {
				ef = append(ef, fmt.Sprintf("%s %s %s", x.Path, x.Op, c12Show(x.Val)))
			}
			if len(notes) < 3 {
				notes = append(notes, strings.Join(ef, ", "))
			}
			if isSGR {
				st.checkSGREffect(e, s, label, sub, args, h0, intent, paths)
			}
			if s.Kind == "OSC" && s.OSCSel == "8" {
				st.checkOSC8(e, s, h0, args, effPath)
			}
			if s.Kind == "CSI" && s.Final == "H" && s.Private == "" {
				st.checkCUP(e, s, h0, args, paths)
			}
			if s.Kind == "CSI" && s.Inter == " " && s.Final == "q" && sub == nil {
				st.checkDECSCUSR(e, s, h0, paths)
			}
			for _, cd := range effPath.Conds {
				if cd.Field != nil && cd.Field.Exported() {
					st.optionConds = append(st.optionConds, cd)
				}
			}
		}
	}
	problems, undec = c12Dedup(problems), c12Dedup(undec)
	switch {
	case len(problems) > 0:
		if len(problems) > 6 {
			problems = append(problems[:6], fmt.Sprintf("… %d more", len(problems)-6))
		}
		c.bad("C12.a", key, e.Call.Pos(), "under the capability set the emulator advertises the renderer writes %q, which the emulator does not handle: %s", s.Raw, strings.Join(problems, "; "))
	case len(undec) > 0:
		c.undecided("C12.a", key, e.Call.Pos(), "%s", strings.Join(undec, "; "))
	default:
		c.ok("C12.a", key, e.Call.Pos(), "%d instance(s); effect: %s", len(substs), strings.Join(notes, " | "))
	}
}

// styleEffects: effects on fields of vaxis.Style through the emulator's pen.
func c12StyleEffects(p *c12Path) []c12Effect {
	var out []c12Effect
	for _, ef := range p.Effects {
		if ef.Field != nil && strings.HasPrefix(ef.Path, "Model.cursor.") && ef.Field.Pkg() != nil && ef.Field.Pkg().Path() == modPath {
			if c12IdentityEffect(ef) {
				continue
			}
			out = append(out, ef)
		}
	}
	return out
}

// c12IdentityEffect: an update that cannot change the field whatever it holds (x |= 0, x &^= 0, x ^= 0, x += 0,
// x -= 0, x <<= 0, x >>= 0): the unused half of a table row that carries both a set mask and a clear mask.
func c12IdentityEffect(ef c12Effect) bool {
	i, ok := ef.Val.(c12Int)
	if !ok || i.V != 0 {
		return false
	}
	switch ef.Op {
	case token.OR_ASSIGN, token.AND_NOT_ASSIGN, token.XOR_ASSIGN, token.ADD_ASSIGN, token.SUB_ASSIGN, token.SHL_ASSIGN, token.SHR_ASSIGN:
		return true
	}
	return false
}

func (st *c12State) checkSGREffect(e *Emission, s Seq, label string, sub map[int]int64, args []ast.Expr, h0 int, intent c12Intent, paths []*c12Path) {
	c := st.c
	info := e.Fn.Pkg.TypesInfo
	key := fmt.Sprintf("%s/%q has the intended effect", e.FnName, label)
	if os.Getenv("C12_DEBUG") != "" {
		fmt.Printf("DEBUG intent %s %q kind=%s mask=%d guard=%s row=%v\n", e.FnName, label, intent.kind, intent.mask, intent.guard, st.rows[e] != nil)
	}
	if intent.kind == "" {
		c.undecided("C12.e", key, e.Call.Pos(), "cannot derive from the dominating guards which style change the renderer intends by this SGR (guards %v)", e.GuardKeys)
		return
	}
	if len(paths) != 1 {
		c.undecided("C12.e", key, e.Call.Pos(), "the emulator's SGR handling of %q depends on its state (%d paths)", label, len(paths))
		return
	}
	switch intent.kind {
	case "field":
		st.seen["SGR for field "+intent.field.Name()] = true
	case "attr-set":
		st.seen["SGR attribute set"] = true
	case "attr-clear":
		st.seen["SGR attribute clear"] = true
	case "reset":
		st.seen["SGR end-of-frame reset"] = true
	}
	effs := c12StyleEffects(paths[0])
	st.sgrEffects[e.FnName+"|"+label+"|"+strings.Join(e.GuardKeys, " ")] = effs
	fields := map[*types.Var]bool{}
	for _, ef := range effs {
		fields[ef.Field] = true
	}
	desc := func() string {
		var d []string
		for _, ef := range effs {
			d = append(d, fmt.Sprintf("%s %s %s", ef.Field.Name(), ef.Op, c12Show(ef.Val)))
		}
		return strings.Join(d, ", ")
	}
	switch intent.kind {
	case "reset":
		// every style field the renderer tracks through SGR must return to its zero value
		var missing []string
		for f := range st.sgrFields() {
			okz := false
			for _, ef := range effs {
				if ef.Field == f && ef.Op == token.ASSIGN {
					if i, ok := ef.Val.(c12Int); ok && i.V == 0 {
						okz = true
					}
				}
			}
			if !okz {
				missing = append(missing, f.Name())
			}
		}
		sort.Strings(missing)
		c.check(len(missing) == 0, "C12.e", key, e.Call.Pos(), "resets "+desc(),
			fmt.Sprintf("the renderer ends every frame with %q and starts the next one assuming a default pen, but the emulator leaves %v unchanged: those attributes leak into the cells of the next frame", s.Raw, missing))
	case "field":
		okf := len(fields) == 1 && fields[intent.field]
		why := ""
		if !okf {
			why = fmt.Sprintf("the renderer writes %q for a change of %s (%s), the emulator applies it to: %s", label, intent.field.Name(), intent.guard, desc())
		}
		// colour values: argument order and index arithmetic
		if okf && len(effs) == 1 {
			if app, isApp := effs[0].Val.(c12App); isApp {
				why = st.colourArgs(e, app, sub, args, h0, info)
				okf = why == ""
			}
		}
		c.check(okf, "C12.e", key, e.Call.Pos(), desc(), why)
	case "attr-set":
		okf := len(effs) == 1 && effs[0].Field == intent.field && effs[0].Op == token.OR_ASSIGN
		if okf {
			i, isI := effs[0].Val.(c12Int)
			okf = isI && i.V == intent.mask
		}
		c.check(okf, "C12.e", key, e.Call.Pos(), desc(),
			fmt.Sprintf("the renderer writes %q to turn on attribute bit %#x (%s); the emulator does: %s", label, intent.mask, intent.guard, desc()))
	case "attr-clear":
		var cleared int64
		okf := len(effs) > 0
		for _, ef := range effs {
			i, isI := ef.Val.(c12Int)
			if ef.Field != intent.field || ef.Op != token.AND_NOT_ASSIGN || !isI {
				okf = false
				break
			}
			cleared |= i.V
		}
		okf = okf && cleared&intent.mask == intent.mask
		why := fmt.Sprintf("the renderer writes %q to turn off attribute bit %#x (%s); the emulator does: %s", label, intent.mask, intent.guard, desc())
		if okf {
			// collateral bits must be re-established by the renderer under the same guard
			for b := int64(1); b <= cleared; b <<= 1 {
				if cleared&b == 0 || b == intent.mask {
					continue
				}
				if !st.compensated(e, intent, b) {
					okf = false
					why = fmt.Sprintf("%q also clears attribute bit %#x in the emulator, and the renderer does not re-establish it under %s when the cell still has it", label, b, intent.guard)
				}
			}
		}
		c.check(okf, "C12.e", key, e.Call.Pos(), desc(), why)
	}
}

// sgrFields: the style fields the renderer tracks with SGR sequences (cursor.F != next.F guards of SGR emissions).
func (st *c12State) sgrFields() map[*types.Var]bool {
	if st.sgrFieldSet != nil {
		return st.sgrFieldSet
	}
	st.sgrFieldSet = map[*types.Var]bool{}
	for _, e := range st.ems {
		if !st.visual(e) || !e.Resolved {
			continue
		}
		if sat, _ := st.emuSat(st.allGuardKeys(e)); !sat {
			continue
		}
		isSGR := false
		for _, t := range e.Templates {
			for _, s := range parseSeqs(t) {
				if s.Kind == "CSI" && s.Final == "m" && s.Private == "" {
					isSGR = true
				}
			}
		}
		if isSGR {
			if f := st.attrField(e); f != nil {
				st.sgrFieldSet[f] = true
			}
		}
	}
	return st.sgrFieldSet
}

// compensated: some emission under the same off-guard and `next.Attribute & b != 0` sets bit b in the emulator.
// maskAtoms: the (role, mask) attribute tests that dominate an emission.
func (st *c12State) maskAtoms(e *Emission) map[string]bool {
	out := map[string]bool{}
	for _, cx := range st.guardCtxs(e) {
		info := cx.fn.Pkg.TypesInfo
		for _, gd := range cx.guards {
			if gd.Cond.Tag != nil || gd.Cond.Alts != nil {
				continue
			}
			for _, at := range c12GuardAtoms(gd.Cond.Expr, gd.Pol) {
				if x, m, ok := c12MaskTest(info, at.e, at.pol, st.rows[e]); ok {
					if role := st.attrRole(cx.fn, x); role != "" {
						out[fmt.Sprintf("%s&%d", role, m)] = true
					}
				}
			}
		}
	}
	return out
}

func (st *c12State) compensated(e *Emission, intent c12Intent, b int64) bool {
	for _, e2 := range st.ems {
		if e2.FnName != e.FnName || !e2.Resolved {
			continue
		}
		ma := st.maskAtoms(e2)
		if !ma[fmt.Sprintf("off&%d", intent.mask)] || !ma[fmt.Sprintf("next&%d", b)] {
			continue
		}
		for _, t := range e2.Templates {
			for _, s := range parseSeqs(t) {
				if s.Kind != "CSI" || s.Final != "m" {
					continue
				}
				paths, _, err := st.feedEmulator(s, 0, nil)
				if err != nil || len(paths) != 1 {
					continue
				}
				for _, ef := range c12StyleEffects(paths[0]) {
					if i, ok := ef.Val.(c12Int); ok && ef.Op == token.OR_ASSIGN && i.V == b && ef.Field == intent.field {
						return true
					}
				}
			}
		}
	}
	return false
}

// colourArgs checks that the emulator builds the colour from the renderer's parameters in the same order
// and with the same index arithmetic. Returns "" if consistent.
func (st *c12State) colourArgs(e *Emission, app c12App, sub map[int]int64, args []ast.Expr, h0 int, info *types.Info) string {
	// renderer side: hole j carries ps[k_j]
	psIndex := func(a ast.Expr) (int64, int64, bool) { // index into the parameter slice, additive constant
		t := unparen(a)
		var k int64
		if b, ok := t.(*ast.BinaryExpr); ok && (b.Op == token.ADD || b.Op == token.SUB) {
			if v, isC := constInt(info, b.Y); isC {
				k = v
				if b.Op == token.SUB {
					k = -v
				}
				t = unparen(b.X)
			}
		}
		// a local that names the element (idx := ps[0]), possibly with its own offset
		for depth := 0; depth < 3; depth++ {
			id, isId := t.(*ast.Ident)
			if !isId {
				break
			}
			def := c12SingleDef(e.Fn, info.ObjectOf(id))
			if def == nil {
				break
			}
			t = unparen(def)
			if b, ok := t.(*ast.BinaryExpr); ok && (b.Op == token.ADD || b.Op == token.SUB) {
				if v, isC := constInt(info, b.Y); isC {
					if b.Op == token.SUB {
						v = -v
					}
					k += v
					t = unparen(b.X)
				}
			}
			// conversions int(x), uint8(x)
			for {
				c, isCall := t.(*ast.CallExpr)
				if !isCall || len(c.Args) != 1 {
					break
				}
				if tv, ok := info.Types[c.Fun]; !ok || !tv.IsType() {
					break
				}
				t = unparen(c.Args[0])
			}
		}
		ix, ok := t.(*ast.IndexExpr)
		if !ok {
			return 0, 0, false
		}
		i, ok := constInt(info, ix.Index)
		return i, k, ok
	}
	for n, a := range app.Args {
		switch v := a.(type) {
		case c12Sym:
			if v.Hole < 0 {
				return fmt.Sprintf("argument %d of %s is %s, not a parameter of the sequence", n, app.Name, c12Show(v))
			}
			j := v.Hole - h0
			if j < 0 || j >= len(args) {
				return fmt.Sprintf("hole %d has no renderer argument", v.Hole)
			}
			i, k, ok := psIndex(args[j])
			if !ok {
				return fmt.Sprintf("renderer argument %s is not an element of the colour's parameter list", types.ExprString(args[j]))
			}
			if i != int64(n) || k+v.K != 0 {
				return fmt.Sprintf("the renderer sends component %d of the colour (%s) in that position, the emulator uses it as component %d of %s with offset %d", i, types.ExprString(args[j]), n, app.Name, k+v.K)
			}
		case c12Int:
			// substituted head: the hole value v_h gives renderer component ps[0] = v_h - k
			if len(sub) != 1 || len(app.Args) != 1 {
				return fmt.Sprintf("constant colour argument %d in %s", v.V, app.Name)
			}
			for id, hv := range sub {
				j := id - h0
				if j < 0 || j >= len(args) {
					return "hole without renderer argument"
				}
				i, k, ok := psIndex(args[j])
				if !ok || i != 0 {
					return fmt.Sprintf("renderer argument %s is not component 0 of the colour's parameter list", types.ExprString(args[j]))
				}
				if want := hv - k; v.V != want {
					return fmt.Sprintf("for palette index %d the renderer writes this sequence, the emulator selects index %d", want, v.V)
				}
			}
		default:
			return fmt.Sprintf("argument %d of %s is %s", n, app.Name, c12Show(a))
		}
	}
	return ""
}

// traceField: the style field a local variable of render is loaded from (all non-constant definitions agree).
func c12TraceField(fi *FuncInfo, a ast.Expr) *types.Var {
	info := fi.Pkg.TypesInfo
	a = unparen(a)
	if f := c12FieldOf(info, a); f != nil {
		return f
	}
	id, ok := a.(*ast.Ident)
	if !ok {
		return nil
	}
	obj := info.ObjectOf(id)
	var out *types.Var
	conflict := false
	ast.Inspect(fi.Decl.Body, func(n ast.Node) bool {
		as, ok := n.(*ast.AssignStmt)
		if !ok || len(as.Lhs) != len(as.Rhs) {
			return true
		}
		for i, l := range as.Lhs {
			if lid, ok := l.(*ast.Ident); ok && info.ObjectOf(lid) == obj {
				if tv, isC := info.Types[as.Rhs[i]]; isC && tv.Value != nil {
					continue
				}
				f := c12FieldOf(info, as.Rhs[i])
				if f == nil || (out != nil && out != f) {
					conflict = true
				}
				out = f
			}
		}
		return true
	})
	if conflict {
		return nil
	}
	return out
}

func (st *c12State) checkOSC8(e *Emission, s Seq, h0 int, args []ast.Expr, p *c12Path) {
	c := st.c
	key := fmt.Sprintf("%s/%q sets the hyperlink fields the renderer means", e.FnName, s.Raw)
	nh := c12CountHoles(s.Raw)
	effs := c12StyleEffects(p)
	if nh == 0 {
		// closing form: every hyperlink field must become empty
		ok := len(effs) > 0
		for _, ef := range effs {
			str, isS := ef.Val.(c12Str)
			lit, isL := str.literal()
			if !isS || !isL || lit != "" {
				ok = false
			}
		}
		c.check(ok, "C12.e", key, e.Call.Pos(), "clears the link", "the closing hyperlink sequence does not clear the emulator's link state")
		return
	}
	var bad []string
	seen := 0
	for _, ef := range effs {
		str, isS := ef.Val.(c12Str)
		if !isS || len(str.norm().Parts) != 1 {
			bad = append(bad, fmt.Sprintf("%s = %s", ef.Field.Name(), c12Show(ef.Val)))
			continue
		}
		sym, isSym := str.norm().Parts[0].Sym.(c12Sym)
		if !isSym || sym.Hole < h0 || sym.Hole-h0 >= len(args) {
			bad = append(bad, fmt.Sprintf("%s = %s", ef.Field.Name(), c12Show(ef.Val)))
			continue
		}
		src := c12TraceField(e.Fn, args[sym.Hole-h0])
		if src == nil {
			c.undecided("C12.e", key, e.Call.Pos(), "cannot trace renderer argument %s to a style field", types.ExprString(args[sym.Hole-h0]))
			return
		}
		seen++
		if src != ef.Field {
			bad = append(bad, fmt.Sprintf("the renderer's %s arrives in the emulator's %s", src.Name(), ef.Field.Name()))
		}
	}
	if seen != nh && len(bad) == 0 {
		bad = append(bad, fmt.Sprintf("%d of %d fields of the sequence reach the emulator's pen", seen, nh))
	}
	c.check(len(bad) == 0, "C12.e", key, e.Call.Pos(), "params and URL reach HyperlinkParams and Hyperlink respectively", strings.Join(bad, "; "))
}

func (st *c12State) checkCUP(e *Emission, s Seq, h0 int, args []ast.Expr, paths []*c12Path) {
	c := st.c
	key := fmt.Sprintf("%s/%q moves the emulator's cursor to the addressed cell", e.FnName, s.Raw)
	if c12CountHoles(s.Raw) != 2 {
		return
	}
	// final value of each cursor field on each path: either hole_k - 1 (k fixed per field) or a clamp (no hole)
	slotField := map[int]string{}
	var bad []string
	for _, p := range paths {
		for _, ef := range p.Effects {
			if !strings.HasPrefix(ef.Path, "Model.cursor.") {
				continue
			}
			if sym, ok := ef.Val.(c12Sym); ok && sym.Hole >= 0 {
				slot := sym.Hole - h0
				if prev, seen := slotField[slot]; seen && prev != ef.Path {
					bad = append(bad, fmt.Sprintf("parameter %d goes to both %s and %s", slot+1, prev, ef.Path))
				}
				slotField[slot] = ef.Path
				if sym.K != -1 {
					bad = append(bad, fmt.Sprintf("%s = parameter %d %+d (1-based parameter must become a 0-based index)", ef.Path, slot+1, sym.K))
				}
			}
		}
	}
	if len(slotField) != 2 || slotField[0] == slotField[1] {
		bad = append(bad, fmt.Sprintf("parameters do not address two distinct cursor fields (%v)", slotField))
	}
	if len(bad) == 0 {
		if st.cupSlots == nil {
			st.cupSlots = slotField
		} else if st.cupSlots[0] != slotField[0] {
			bad = append(bad, "inconsistent with other CUP forms")
		}
		// renderer side: +1 on both arguments
		if len(args) == 2 {
			info := e.Fn.Pkg.TypesInfo
			for i, a := range args {
				if _, k := linForm(info, a); k != 1 {
					bad = append(bad, fmt.Sprintf("renderer argument %d (%s) is not a 0-based index plus 1", i+1, types.ExprString(a)))
				}
			}
			st.cupArgs = append(st.cupArgs, c12CupSite{e, args})
		}
	}
	c.check(len(c12Dedup(bad)) == 0, "C12.e", key, e.Call.Pos(), fmt.Sprintf("parameter 1 → %s, parameter 2 → %s, each minus 1", slotField[0], slotField[1]), strings.Join(c12Dedup(bad), "; "))
}

type c12CupSite struct {
	e    *Emission
	args []ast.Expr
}

// c12Facts: like FactsAt, but a guard is only invalidated by assignments that can happen after its *last*
// evaluation (paths that pass through the guard again re-establish it). FactsAt is more conservative for
// guards inside loops, which loses the lower bounds of tagless-switch cascades in render.
func c12Facts(g *FG, l Loc) []Atom { return c12FactsOf(g, l, g.Guards(l)) }

func c12FactsOf(g *FG, l Loc, guards []Guard) []Atom {
	var out []Atom
	for _, gd := range guards {
		cond := gd.Cond
		if cond.Tag == nil && cond.Alts == nil && cond.Expr != nil {
			// constant operands of && / || (`true && x < 8` after a constant flag of a table row was substituted)
			// are folded away first: !(true && x < 8) states x >= 8
			if fe, isConst, _ := c12FoldBool(g.Info, cond.Expr); isConst {
				continue
			} else if fe != cond.Expr {
				cc := *cond
				cc.Expr = fe
				cond = &cc
			}
		}
		atoms := condAtoms(g.Info, cond, gd.Pol)
		if len(atoms) == 0 {
			continue
		}
		objs := objsIn(g.Info, gd.Cond.Expr)
		if gd.Cond.Tag != nil {
			for o := range objsIn(g.Info, gd.Cond.Tag) {
				objs[o] = true
			}
		}
		if len(objs) > 0 && c12AssignedSince(g, gd, l, objs) {
			continue
		}
		out = append(out, atoms...)
	}
	return out
}

// c12FoldBool removes constant boolean operands from a condition: true && X = X, false || X = X, false && X = false,
// true || X = true, !const. Returns the simplified expression (the same node when nothing changed), or isConst with
// its value when the whole condition is constant. New nodes are built only above the (type-checked) leaves.
func c12FoldBool(info *types.Info, e ast.Expr) (out ast.Expr, isConst, val bool) {
	e0 := e
	e = unparen(e)
	if tv, ok := info.Types[e]; ok && tv.Value != nil && tv.Value.Kind() == constant.Bool {
		return e0, true, constant.BoolVal(tv.Value)
	}
	switch t := e.(type) {
	case *ast.UnaryExpr:
		if t.Op == token.NOT {
			x, c, v := c12FoldBool(info, t.X)
			if c {
				return e0, true, !v
			}
			if x != t.X {
				return &ast.UnaryExpr{OpPos: t.OpPos, Op: token.NOT, X: x}, false, false
			}
		}
	case *ast.BinaryExpr:
		if t.Op == token.LAND || t.Op == token.LOR {
			x, cx, vx := c12FoldBool(info, t.X)
			y, cy, vy := c12FoldBool(info, t.Y)
			absorbing := t.Op == token.LOR // the value that decides the operator alone
			switch {
			case cx && vx == absorbing:
				return e0, true, absorbing
			case cx && cy:
				return e0, true, vy
			case cx:
				return y, false, false
			case cy && vy != absorbing:
				return x, false, false
			case cy:
				// X && false / X || true: constant as a guard (X has no side effects that matter for facts)
				return e0, true, absorbing
			}
			if x != t.X || y != t.Y {
				return &ast.BinaryExpr{X: x, OpPos: t.OpPos, Op: t.Op, Y: y}, false, false
			}
		}
	}
	return e0, false, false
}

func c12AssignedSince(g *FG, gd Guard, l Loc, objs map[types.Object]bool) bool {
	succ := gd.From.Succs[1]
	if gd.Pol {
		succ = gd.From.Succs[0]
	}
	fwd := map[*cfg.Block]bool{}
	var st []*cfg.Block
	st = append(st, succ)
	for len(st) > 0 {
		b := st[len(st)-1]
		st = st[:len(st)-1]
		if fwd[b] || b == gd.From {
			continue
		}
		fwd[b] = true
		st = append(st, b.Succs...)
	}
	bwd := map[*cfg.Block]bool{}
	st = append(st[:0], l.B)
	for len(st) > 0 {
		b := st[len(st)-1]
		st = st[:len(st)-1]
		if bwd[b] || b == gd.From {
			continue
		}
		bwd[b] = true
		st = append(st, g.preds[b]...)
	}
	// can l.B reach itself without passing the guard?
	selfLoop := false
	seen := map[*cfg.Block]bool{}
	st = append(st[:0], l.B.Succs...)
	for len(st) > 0 {
		b := st[len(st)-1]
		st = st[:len(st)-1]
		if b == l.B {
			selfLoop = true
			break
		}
		if seen[b] || b == gd.From {
			continue
		}
		seen[b] = true
		st = append(st, b.Succs...)
	}
	for b := range fwd {
		if !bwd[b] {
			continue
		}
		for i, n := range b.Nodes {
			if b == l.B && i >= l.Idx && !selfLoop {
				break
			}
			if assignsAny(g.Info, n, objs) {
				return true
			}
		}
	}
	return false
}

// isBufferFlush: the bytes written are the contents of the buffered writer's own buffer (writer.buf.Bytes() or
// .String(), possibly through a single-definition local), in whichever function of the flush path the write
// stands. Every byte in that buffer got there through a write into writer.buf, and each of those is a sink of the
// extractor that is checked where it stands.
func (st *c12State) isBufferFlush(e *Emission) bool {
	info := e.Fn.Pkg.TypesInfo
	x := c12StripConv(info, e.ArgExpr)
	for depth := 0; depth < 2; depth++ {
		id, ok := x.(*ast.Ident)
		if !ok {
			break
		}
		obj := info.ObjectOf(id)
		if obj == nil || c12AssignedElsewhere(e.Fn, obj) {
			return false
		}
		def := c12LocalInit(e.Fn, obj)
		if def == nil {
			return false
		}
		x = c12StripConv(info, def)
	}
	call, ok := x.(*ast.CallExpr)
	if !ok || len(call.Args) != 0 {
		return false
	}
	fn := calleeOf(info, call)
	if fn == nil {
		return false
	}
	switch fullName(fn) {
	case "bytes.Buffer.Bytes", "bytes.Buffer.String", "strings.Builder.String":
	default:
		return false
	}
	sel, ok := unparen(call.Fun).(*ast.SelectorExpr)
	if !ok {
		return false
	}
	recv := unparen(sel.X)
	if id, isId := recv.(*ast.Ident); isId {
		// buf := w.buf
		if obj := info.ObjectOf(id); obj != nil && !c12AssignedElsewhere(e.Fn, obj) {
			if def := c12LocalInit(e.Fn, obj); def != nil {
				recv = unparen(def)
			}
		}
	}
	return fieldOwner(info, recv) == "writer.buf"
}

// isCellText: the expression is the Grapheme of a cell (vaxis.Character.Grapheme), possibly through a
// single-definition local or a parameter whose single call site passes such a value.
func (st *c12State) isCellText(fn *FuncInfo, e ast.Expr, depth int) bool {
	info := fn.Pkg.TypesInfo
	e = unparen(e)
	if f := c12FieldOf(info, e); f != nil {
		pk := st.c.P.Pkg("vaxis")
		if o := pk.Types.Scope().Lookup("Character"); o != nil {
			if stt, ok := o.Type().Underlying().(*types.Struct); ok {
				for i := 0; i < stt.NumFields(); i++ {
					if stt.Field(i) == f && stt.Field(i).Type().String() == "string" {
						return true
					}
				}
			}
		}
		return false
	}
	id, ok := e.(*ast.Ident)
	if !ok || depth > 2 {
		return false
	}
	obj := info.ObjectOf(id)
	if def := c12SingleDef(fn, obj); def != nil {
		return st.isCellText(fn, def, depth+1)
	}
	// parameter: look at the single call site
	idx := -1
	n := 0
	for _, f := range fn.Decl.Type.Params.List {
		for _, nm := range f.Names {
			if info.Defs[nm] == obj {
				idx = n
			}
			n++
		}
	}
	if idx < 0 {
		return false
	}
	var sites []struct {
		fi *FuncInfo
		a  ast.Expr
	}
	for _, fi := range st.c.P.FuncsIn(shortPkg(fn.Pkg.PkgPath)) {
		if fi.Decl.Body == nil {
			continue
		}
		ast.Inspect(fi.Decl.Body, func(x ast.Node) bool {
			if call, ok := x.(*ast.CallExpr); ok && calleeOf(fi.Pkg.TypesInfo, call) == fn.Obj && idx < len(call.Args) {
				sites = append(sites, struct {
					fi *FuncInfo
					a  ast.Expr
				}{fi, call.Args[idx]})
			}
			return true
		})
	}
	if len(sites) == 0 {
		return false
	}
	for _, s := range sites {
		if !st.isCellText(s.fi, s.a, depth+1) {
			return false
		}
	}
	return true
}

// checkDECSCUSR: the cursor style the renderer sends is the cursor style the emulator records (and hands to
// the host in Draw): on every path the stored style is the parameter itself — 0 (the user's default) stays 0.
func (st *c12State) checkDECSCUSR(e *Emission, s Seq, h0 int, paths []*c12Path) {
	c := st.c
	if c12CountHoles(s.Raw) != 1 {
		return
	}
	key := fmt.Sprintf("%s/%q records the requested cursor shape", e.FnName, s.Raw)
	var bad []string
	stores := 0
	for _, p := range paths {
		found := false
		for _, ef := range p.Effects {
			if !strings.HasPrefix(ef.Path, "Model.cursor.") || ef.Field == nil || !strings.Contains(strings.ToLower(ef.Field.Name()), "style") {
				continue
			}
			found = true
			stores++
			sym, ok := ef.Val.(c12Sym)
			switch {
			case !ok:
				bad = append(bad, fmt.Sprintf("under %s the emulator records %s instead of the parameter", p.condString(), c12Show(ef.Val)))
			case sym.Hole != h0 || sym.K != 0:
				bad = append(bad, fmt.Sprintf("the emulator records the parameter %+d", sym.K))
			}
		}
		if !found && len(p.NoCase) == 0 {
			bad = append(bad, fmt.Sprintf("under %s the cursor style is not recorded", p.condString()))
		}
	}
	st.seen["cursor style effect"] = true
	c.check(len(c12Dedup(bad)) == 0, "C12.e", key, e.Call.Pos(), fmt.Sprintf("the style parameter is stored unchanged (%d store(s) on %d path(s))", stores, len(paths)),
		strings.Join(c12Dedup(bad), "; ")+": the shape the application asked for (0 = the user's default) is not the one the emulator shows and passes on to its host")
}
