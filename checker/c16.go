package main

// C16 — soft-wrapping preserves the text and respects the width.
//
// Both SoftwrapScanner.Scan functions (vxfw/text, vxfw/richtext) are read as
// the same little machine: an endless loop that takes the first line segment
// seg of s.rest (the remainder is `rest`), splits it into word ++ trSpace,
// and then, on each path, appends pieces to s.token and rebuilds s.rest.
// The loop body is executed symbolically on every path (E11) and the
// following necessary conditions are decided:
//   a  accounting: on every path, token-additions ++ new rest == word ++ trSpace ++ rest with
//      only trSpace droppable, every piece once and in order, `rest` never in the token; a path
//      that keeps the old rest adds nothing to the token; every back edge has consumed the segment;
//      seg = word ++ trSpace and rest = s.rest[len(seg):] by construction; the per-grapheme split
//      of a long word is monotone (once a grapheme goes to rest, all later ones do)
//   b  the hard-break path returns, and strips only a trailing line terminator
//   c  plain and rich scanners have the same set of path signatures
//   d  the draw loops write each emitted line on its own row: row += 1 once per line, col restarts
//      at 0, col advances by the width of every cell written, WriteCell(col, row, ...)
//   e  width: every addition of non-whitespace material X to the token happens under guards that
//      imply w + width(X) <= s.width (a grapheme may exceed it only on an empty line); w is
//      advanced by width(X) after every addition; widths are measured over exactly X
//   f  (plain) segmenter state pairing: s.state is the state returned with `rest` iff s.rest = rest;
//      any other new rest restarts the segmenter (-1); constructor starts with -1. A field written as a
//      result target of the segmenter call (`seg, rest, br, s.state = ...`) is a store at the call
//      (c16tuple.go turns it into one); `prev := s.state` at the top of the iteration names the state the
//      iteration found, which a path that consumes nothing may put back

import (
	"fmt"
	"go/ast"
	"go/token"
	"go/types"
	"sort"
	"strings"
)

func init() { register("C16", false, runC16) }

type c16Scanner struct {
	c      *Ctx
	short  string // "vxfw/text"
	name   string // function name
	fi     *FuncInfo
	info   *types.Info
	g      *FG
	par    map[ast.Node]ast.Node
	recv   types.Object
	fields map[string]*types.Var
	loop   *ast.ForStmt
	defs   *c15Defs

	segCall                      *ast.CallExpr
	segIdx                       int // index of the segmenter statement in the loop body (after leading bare declarations)
	seg, rest, word, trSpace, br types.Object
	state                        types.Object // plain only
	stateIn                      types.Object // plain only: single-definition local holding s.state as the iteration found it
	w                            types.Object
	measure                      map[types.Object]types.Object // word -> wordLen
	measureLoop                  map[ast.Stmt]bool
	trimLoop                     ast.Stmt // rich: the loop defining word
	splits                       map[ast.Stmt]*c16Split
	undecided                    bool

	// the cut: word = seg[:cut], trSpace = seg[cut:] (c16trim.go)
	cut      c15Lin
	hasCut   bool
	wordDef  *c16SegSlice // word = seg[:H] when the cut is an index (nil: trSpace := seg[len(word):])
	spaceDef *c16SegSlice // trSpace = seg[L:]
}

func (s *c16Scanner) isField(e ast.Expr, name string) bool {
	return s.fields[name] != nil && c15Field(s.info, e) == s.fields[name] && rootObj(s.info, e) == s.recv
}

func (s *c16Scanner) isObj(e ast.Expr, o types.Object) bool {
	id, ok := unparen(e).(*ast.Ident)
	return ok && o != nil && s.info.ObjectOf(id) == o
}

func (s *c16Scanner) und(rule, what string, pos token.Pos, format string, args ...any) {
	s.undecided = true
	s.c.undecided(rule, s.name+"/"+what, pos, format, args...)
}

// stripConv removes type conversions: string(x), []byte(x), uint16(x).
func c16StripConv(info *types.Info, e ast.Expr) ast.Expr {
	for {
		e = unparen(e)
		cv, ok := e.(*ast.CallExpr)
		if !ok || len(cv.Args) != 1 {
			return e
		}
		if tv, ok := info.Types[cv.Fun]; !ok || !tv.IsType() {
			return e
		}
		e = cv.Args[0]
	}
}

// appendOf matches  dst = append(dst, X...) / append(dst, x)  and returns X.
func (s *c16Scanner) appendOf(as *ast.AssignStmt, field string) ast.Expr {
	if len(as.Lhs) != 1 || len(as.Rhs) != 1 || as.Tok != token.ASSIGN || !s.isField(as.Lhs[0], field) {
		return nil
	}
	call, ok := unparen(as.Rhs[0]).(*ast.CallExpr)
	if !ok || len(call.Args) != 2 {
		return nil
	}
	if id, ok := call.Fun.(*ast.Ident); !ok || id.Name != "append" {
		return nil
	}
	if _, isB := s.info.Uses[call.Fun.(*ast.Ident)].(*types.Builtin); !isB || !s.isField(call.Args[0], field) {
		return nil
	}
	return call.Args[1]
}

// c16Load builds the model of one scanner; problems are reported as undecided.
func c16Load(c *Ctx, short string) *c16Scanner {
	s := &c16Scanner{c: c, short: short, name: short + ".(*SoftwrapScanner).Scan", measure: map[types.Object]types.Object{}, measureLoop: map[ast.Stmt]bool{}, splits: map[ast.Stmt]*c16Split{}}
	s.fi = c15Func(c, s.name)
	pk := c.P.Pkg(short)
	if s.fi == nil || pk == nil {
		c.undecided("C16.a", s.name, 0, "function not found")
		return nil
	}
	s.info = pk.TypesInfo
	s.par = c.P.Parents(pk)
	s.g = c.P.Graph(s.fi)
	s.fields = c15StructFields(pk, "SoftwrapScanner")
	fd := s.fi.Decl
	if fd.Recv != nil && len(fd.Recv.List) == 1 && len(fd.Recv.List[0].Names) == 1 {
		s.recv = s.info.Defs[fd.Recv.List[0].Names[0]]
	}
	for _, f := range []string{"rest", "token", "width"} {
		if s.fields[f] == nil {
			s.und("C16.a", "fields", fd.Pos(), "SoftwrapScanner has no field %s", f)
			return nil
		}
	}
	if s.recv == nil {
		s.und("C16.a", "receiver", fd.Pos(), "unnamed receiver")
		return nil
	}
	s.defs = c15DefsOf(s.info, fd.Body)
	for _, st := range fd.Body.List {
		if f, ok := st.(*ast.ForStmt); ok && f.Cond == nil && f.Init == nil && f.Post == nil {
			if s.loop != nil {
				s.und("C16.a", "loop", f.Pos(), "several endless loops")
				return nil
			}
			s.loop = f
		}
	}
	if s.loop == nil {
		s.und("C16.a", "loop", fd.Pos(), "the segment loop `for { ... }` was not found at the top level of Scan")
		return nil
	}
	// the segmenter call: first statement of the loop body
	if len(s.loop.Body.List) == 0 {
		s.und("C16.a", "segmenter", s.loop.Pos(), "empty loop")
		return nil
	}
	// (declarations without values that a maintainer collected at the top of the body have no effect: skip them)
	// (so is a snapshot `prev := s.state` of the state the iteration starts with: a path may put it back)
	for s.segIdx < len(s.loop.Body.List)-1 {
		st := s.loop.Body.List[s.segIdx]
		if c16IsBareVarDecl(st) {
			s.segIdx++
			continue
		}
		if sn, ok := st.(*ast.AssignStmt); ok && sn.Tok == token.DEFINE && len(sn.Lhs) == 1 && len(sn.Rhs) == 1 && s.fields["state"] != nil && s.isField(sn.Rhs[0], "state") {
			if id, ok := sn.Lhs[0].(*ast.Ident); ok && id.Name != "_" && s.stateIn == nil && s.defs.count[s.info.ObjectOf(id)] == 1 {
				s.stateIn = s.info.ObjectOf(id)
				s.segIdx++
				continue
			}
		}
		break
	}
	as, ok := s.loop.Body.List[s.segIdx].(*ast.AssignStmt)
	if ok && as.Tok == token.DEFINE && len(as.Rhs) == 1 {
		if call, ok := as.Rhs[0].(*ast.CallExpr); ok && len(call.Args) >= 1 && s.isField(call.Args[0], "rest") {
			s.segCall = call
			restT := s.fields["rest"].Type()
			for i, l := range as.Lhs {
				id, ok := l.(*ast.Ident)
				if !ok || id.Name == "_" {
					continue
				}
				o := s.info.ObjectOf(id)
				t := o.Type()
				switch {
				case types.Identical(t, restT) && i == 0:
					s.seg = o
				case types.Identical(t, restT):
					s.rest = o
				case types.Identical(t, types.Typ[types.Bool]):
					s.br = o
				case types.Identical(t, types.Typ[types.Int]):
					s.state = o
				}
			}
		}
	}
	if s.segCall == nil || s.seg == nil || s.br == nil {
		s.und("C16.a", "segmenter", s.loop.Body.List[s.segIdx].Pos(), "the loop does not start with `seg, ..., br := <segmenter>(s.rest, ...)`")
		return nil
	}
	fn := calleeOf(s.info, s.segCall)
	segName := fullName(fn)
	switch {
	case segName == "github.com/rivo/uniseg.FirstLineSegment" || segName == "github.com/rivo/uniseg.FirstLineSegmentInString":
		if s.rest == nil || s.state == nil || len(s.segCall.Args) != 2 || !(s.isField(s.segCall.Args[1], "state") || s.isObj(s.segCall.Args[1], s.stateIn)) {
			s.und("C16.f", "segmenter", s.segCall.Pos(), "uniseg.FirstLineSegment is not called as (s.rest, s.state) with all four results bound")
			return nil
		}
	case fn != nil && fn.Pkg() != nil && fn.Pkg().Path() == pk.PkgPath:
		// the package's own pairwise segmenter: only (seg, br)
	default:
		s.und("C16.a", "segmenter", s.segCall.Pos(), "unknown segmenter %s", segName)
		return nil
	}
	// everything else is found by walking the loop body
	ast.Inspect(s.loop.Body, func(n ast.Node) bool {
		switch t := n.(type) {
		case *ast.AssignStmt:
			if len(t.Lhs) == 1 && len(t.Rhs) == 1 {
				lid, _ := t.Lhs[0].(*ast.Ident)
				if lid == nil {
					return true
				}
				lo := s.info.ObjectOf(lid)
				r := unparen(t.Rhs[0])
				// rest = s.rest[len(seg):]
				if sl, ok := r.(*ast.SliceExpr); ok && s.isField(sl.X, "rest") && sl.High == nil && sl.Low != nil && s.rest == nil {
					s.rest = lo
				}
			}
		}
		return true
	})
	s.findPieces()
	if s.rest == nil || s.word == nil || s.trSpace == nil {
		s.und("C16.a", "pieces", s.loop.Pos(), "could not identify rest / word / trSpace (expected `trSpace := seg[len(word):]` and, for the rich scanner, `rest = s.rest[len(seg):]`)")
		return nil
	}
	// w: the line-width accumulator, declared outside the loop and advanced inside it
	ast.Inspect(s.loop.Body, func(n ast.Node) bool {
		as, ok := n.(*ast.AssignStmt)
		if !ok || len(as.Lhs) != 1 {
			return true
		}
		id, ok := as.Lhs[0].(*ast.Ident)
		if !ok {
			return true
		}
		o := s.info.ObjectOf(id)
		if _, isAdv := c16Advance(s.info, as, o); !isAdv {
			return true
		}
		inLoop := false
		for cur := s.declOf(o); cur != nil; cur = s.par[cur] {
			if cur == ast.Node(s.loop) {
				inLoop = true
			}
		}
		if !inLoop {
			if s.w != nil && s.w != o {
				s.und("C16.e", "line width accumulator", as.Pos(), "several accumulators outlive the loop")
			}
			s.w = o
		}
		return true
	})
	if s.w == nil {
		s.und("C16.e", "line width accumulator", s.loop.Pos(), "no line-width accumulator (declared before the loop, advanced inside it) found")
		return nil
	}
	return s
}

// c16IsBareVarDecl: `var a, b T` without values.
func c16IsBareVarDecl(st ast.Stmt) bool {
	ds, ok := st.(*ast.DeclStmt)
	if !ok {
		return false
	}
	gd, ok := ds.Decl.(*ast.GenDecl)
	if !ok || gd.Tok != token.VAR {
		return false
	}
	for _, sp := range gd.Specs {
		if vs, ok := sp.(*ast.ValueSpec); !ok || len(vs.Values) != 0 {
			return false
		}
	}
	return true
}

// ---------------------------------------------------------------------------
// construction facts: rest, word, trSpace, measures, w

func (s *c16Scanner) checkConstruction() {
	c, info := s.c, s.info
	// rest
	if s.state == nil { // rich: rest is computed
		okAll, n := true, 0
		var why string
		ast.Inspect(s.loop.Body, func(nd ast.Node) bool {
			as, ok := nd.(*ast.AssignStmt)
			if !ok {
				return true
			}
			for i, l := range as.Lhs {
				if !s.isObj(l, s.rest) || len(as.Rhs) != len(as.Lhs) {
					continue
				}
				r := unparen(as.Rhs[i])
				if cl, ok := r.(*ast.CompositeLit); ok && len(cl.Elts) == 0 {
					continue
				}
				n++
				sl, ok := r.(*ast.SliceExpr)
				lenSeg := c15TermLin("len("+fmt.Sprintf("%p", s.seg)+")", "len(seg)", true)
				if !ok || !s.isField(sl.X, "rest") || sl.High != nil || sl.Low == nil || c15LinOf(info, sl.Low).canon() != lenSeg.canon() {
					okAll, why = false, "rest is assigned "+types.ExprString(r)
					continue
				}
				// guard: unconditional or len(seg) < len(s.rest)
				if ifs, ok := s.par[s.par[as]].(*ast.IfStmt); ok && s.par[as] == ast.Node(ifs.Body) {
					lenRest := c15TermLin("len("+fmt.Sprintf("%p", s.recv)+".rest)", "len(s.rest)", true)
					atoms, isConj := c15Conj(c15Formula(info, ifs.Cond))
					want := lenSeg.add(lenRest, -1).plus(1) // len(seg) < len(s.rest)
					want2 := lenSeg.add(lenRest, -1)        // len(seg) <= len(s.rest)
					if !isConj || len(atoms) != 1 || (atoms[0].canon() != want.canon() && atoms[0].canon() != want2.canon()) || ifs.Else != nil {
						okAll, why = false, "rest = s.rest[len(seg):] happens only under "+types.ExprString(ifs.Cond)
					}
				} else if s.par[as] != ast.Node(s.loop.Body) {
					okAll, why = false, "rest is assigned in a nested construct the recogniser does not understand"
				}
			}
			return true
		})
		c.check(okAll && n == 1, "C16.a", s.name+"/rest is the input after the segment", s.loop.Pos(), "rest = s.rest[len(seg):] (empty when the segment is the whole input)",
			"the remainder is not s.rest[len(seg):]: "+why+" — graphemes after the segment are lost or repeated")
	} else {
		c.ok("C16.a", s.name+"/rest is the input after the segment", s.segCall.Pos(), "rest is the remainder returned by uniseg.FirstLineSegment(s.rest, s.state)")
	}
	// word is a right-trim of seg
	s.checkWord()
	// the two pieces are cut at one index (c16trim.go)
	s.checkCut()
	// seg is reassigned only to drop its trailing terminator (checked in the path rule); word/trSpace/rest are not reassigned after their definition
	for _, o := range []types.Object{s.trSpace, s.br} {
		if s.defs.count[o] != 1 {
			s.und("C16.a", "pieces are single-assignment", o.Pos(), "%s is assigned more than once", o.Name())
		}
	}
	// measures: a loop over the graphemes of X whose body is  acc += <elem>.Width
	ast.Inspect(s.loop.Body, func(nd ast.Node) bool {
		st, ok := nd.(ast.Stmt)
		if !ok {
			return true
		}
		it := s.iterOf(st)
		if it == nil || !it.full {
			return true
		}
		// one loop over seg that measures both pieces, split at the cut
		if s.partitionedMeasure(st) {
			return true
		}
		body := c15Flat(it.body.List)
		if len(body) != 1 {
			return true
		}
		as, ok := body[0].(*ast.AssignStmt)
		if !ok || len(as.Lhs) != 1 {
			return true
		}
		lid, ok := as.Lhs[0].(*ast.Ident)
		if !ok {
			return true
		}
		acc := info.ObjectOf(lid)
		inc, isAdv := c16Advance(info, as, acc)
		wT, found := it.elemField(as.Rhs[0], "Width")
		if !isAdv || !found || inc.canon() != wT.canon() {
			return true
		}
		// what is measured: X, or Y when X := ctx.Characters(string(Y))
		x := s.defs.resolve(it.x)
		var measured types.Object
		if s.isObj(it.x, s.word) || s.isObj(it.x, s.trSpace) {
			measured = info.ObjectOf(unparen(it.x).(*ast.Ident))
		} else if id, ok := x.(*ast.Ident); ok {
			measured = info.ObjectOf(id)
		} else if cl, ok := x.(*ast.CallExpr); ok && len(cl.Args) == 1 {
			if fsel, ok := cl.Fun.(*ast.SelectorExpr); ok && fsel.Sel.Name == "Characters" {
				if id, ok := c16StripConv(info, cl.Args[0]).(*ast.Ident); ok {
					measured = info.ObjectOf(id)
				}
			}
		}
		if measured == nil || acc == s.w {
			return true
		}
		s.measure[measured] = acc
		s.measureLoop[st] = true
		return true
	})
	for _, p := range []struct {
		o    types.Object
		what string
	}{{s.word, "word"}, {s.trSpace, "trailing space"}} {
		acc := s.measure[p.o]
		key := s.name + "/width of the " + p.what + " is measured over exactly it"
		if acc == nil {
			c.bad("C16.e", key, s.loop.Pos(), "no loop `for _, ch := range <"+p.o.Name()+"> { n += ch.Width }` found: the fit tests do not use the width of the "+p.what)
			continue
		}
		// the accumulator starts at 0 in every iteration (declared inside the loop, no other writes)
		inLoop := false
		for cur := s.declOf(acc); cur != nil; cur = s.par[cur] {
			if cur == ast.Node(s.loop.Body) {
				inLoop = true
			}
		}
		writes := 0
		ast.Inspect(s.loop.Body, func(nd ast.Node) bool {
			switch t := nd.(type) {
			case *ast.AssignStmt:
				for _, l := range t.Lhs {
					if s.isObj(l, acc) {
						writes++
					}
				}
			case *ast.IncDecStmt:
				if s.isObj(t.X, acc) {
					writes++
				}
			}
			return true
		})
		c.check(inLoop && writes == 1, "C16.e", key, acc.Pos(), acc.Name()+" is zero at each segment and accumulates the Width of every grapheme of the "+p.what,
			acc.Name()+" is not reset for each segment or is written elsewhere: the fit test uses a stale width")
	}
}

func (s *c16Scanner) declOf(o types.Object) ast.Node {
	var out ast.Node
	ast.Inspect(s.fi.Decl.Body, func(n ast.Node) bool {
		if id, ok := n.(*ast.Ident); ok && s.info.Defs[id] == o {
			out = id
		}
		return out == nil
	})
	return out
}

func (s *c16Scanner) checkWord() {
	c, info := s.c, s.info
	key := s.name + "/word is seg without its trailing whitespace"
	// plain: word := bytes.TrimRightFunc(seg, unicode.IsSpace)
	if d := s.defs.def[s.word]; d != nil && s.defs.count[s.word] == 1 {
		if cl, ok := unparen(d).(*ast.CallExpr); ok && len(cl.Args) == 2 {
			fn := fullName(calleeOf(info, cl))
			var pred string
			if a1 := calleeOfExpr(info, cl.Args[1]); a1 != nil {
				pred = fullName(a1)
			}
			okW := (fn == "bytes.TrimRightFunc" || fn == "strings.TrimRightFunc") && s.isObj(cl.Args[0], s.seg) && pred == "unicode.IsSpace"
			c.check(okW, "C16.a", key, cl.Pos(), "TrimRightFunc(seg, unicode.IsSpace)", "word is "+types.ExprString(d)+", not the right-trim of the segment by unicode.IsSpace: non-whitespace ends up in trSpace (which may be dropped) or whitespace in word")
			return
		}
	}
	// rich: for i := len(seg)-1; i >= 0; i-- { if IsSpace(last rune of seg[i]) { continue }; word = seg[:i+1]; break }
	var loop *ast.ForStmt
	var asg *ast.AssignStmt
	n := 0
	ast.Inspect(s.loop.Body, func(nd ast.Node) bool {
		if as, ok := nd.(*ast.AssignStmt); ok {
			for i, l := range as.Lhs {
				if s.isObj(l, s.word) {
					// clearing the word (nil / empty) is what the declaration already did
					if len(as.Rhs) == len(as.Lhs) {
						r := unparen(as.Rhs[i])
						if isNilExpr(info, r) || c16IsEmptyLit(r) {
							continue
						}
					}
					n++
					asg = as
				}
			}
		}
		return true
	})
	if n != 1 || asg == nil {
		s.und("C16.a", "word is seg without its trailing whitespace", s.loop.Pos(), "word is assigned %d times", n)
		return
	}
	// the trim loop read as a machine over a cursor (c16trim.go): decides every spelling it can follow
	generalWhy := ""
	if len(asg.Rhs) == len(asg.Lhs) {
		for i, l := range asg.Lhs {
			if !s.isObj(l, s.word) {
				continue
			}
			if sl, isSl := unparen(asg.Rhs[i]).(*ast.SliceExpr); isSl && s.isObj(sl.X, s.seg) && sl.Low == nil && sl.High != nil && !sl.Slice3 {
				decided, okT, why, lp := s.trimByCursor(asg, sl.High)
				if decided {
					s.trimLoop = lp
					c.check(okT, "C16.a", key, lp.Pos(), "scan from the end over whitespace cells, the word ends after the first non-space cell", why+": non-whitespace ends up in trSpace (which may be dropped) or whitespace in word")
					return
				}
				generalWhy = why
			}
		}
	}
	for cur := s.par[asg]; cur != nil && cur != ast.Node(s.loop.Body); cur = s.par[cur] {
		if f, ok := cur.(*ast.ForStmt); ok {
			loop = f
		}
	}
	if loop == nil || loop.Init == nil || loop.Cond == nil || loop.Post == nil {
		s.und("C16.a", "word is seg without its trailing whitespace", asg.Pos(), "word is not defined by a trim loop the recogniser can follow (%s)", generalWhy)
		return
	}
	s.trimLoop = loop
	ok := true
	why := ""
	fail := func(w string) {
		if ok {
			ok, why = false, w
		}
	}
	ia, _ := loop.Init.(*ast.AssignStmt)
	var iObj types.Object
	lenSeg := c15TermLin("len("+fmt.Sprintf("%p", s.seg)+")", "len(seg)", true)
	if ia == nil || len(ia.Lhs) != 1 || len(ia.Rhs) != 1 || c15LinOf(info, ia.Rhs[0]).canon() != lenSeg.plus(-1).canon() {
		fail("the trim loop does not start at len(seg)-1")
	} else {
		iObj = info.ObjectOf(ia.Lhs[0].(*ast.Ident))
	}
	if iObj != nil {
		iT := c15LinOf(info, ia.Lhs[0])
		atoms, isConj := c15Conj(c15Formula(info, loop.Cond))
		if !isConj || len(atoms) != 1 || atoms[0].canon() != iT.neg().canon() {
			fail("the trim loop does not run while i >= 0")
		}
		switch p := loop.Post.(type) {
		case *ast.IncDecStmt:
			if p.Tok != token.DEC || !s.isObj(p.X, iObj) {
				fail("the trim loop does not step by -1")
			}
		case *ast.AssignStmt:
			v, isC := constInt(info, p.Rhs[0])
			if p.Tok != token.SUB_ASSIGN || !isC || v != 1 || !s.isObj(p.Lhs[0], iObj) {
				fail("the trim loop does not step by -1")
			}
		default:
			fail("the trim loop does not step by -1")
		}
		// word = seg[:i+1]
		sl, isSl := unparen(asg.Rhs[0]).(*ast.SliceExpr)
		if !isSl || !s.isObj(sl.X, s.seg) || sl.Low != nil || sl.High == nil || c15LinOf(info, sl.High).canon() != iT.plus(1).canon() {
			fail("word is not seg[:i+1]")
		}
		// followed by break, directly in the loop body; preceded by `if unicode.IsSpace(r) { continue }` with r from seg[i]
		body := c15Flat(loop.Body.List)
		idx := -1
		for k, st := range body {
			if st == ast.Stmt(asg) {
				idx = k
			}
		}
		if idx < 0 || idx+1 >= len(body) {
			fail("word = seg[:i+1] is not followed by break")
		} else if b, isB := body[idx+1].(*ast.BranchStmt); !isB || b.Tok != token.BREAK {
			fail("word = seg[:i+1] is not followed by break")
		} else if b.Label != nil && containsNode(loop, func(n ast.Node) bool {
			ls, ok := n.(*ast.LabeledStmt)
			return ok && ls.Label.Name == b.Label.Name
		}) {
			fail("word = seg[:i+1] is followed by a break that stays inside the trim loop")
		}
		spaceSkip := false
		for k := 0; k < idx; k++ {
			ifs, isIf := body[k].(*ast.IfStmt)
			if !isIf || len(ifs.Body.List) != 1 || ifs.Else != nil {
				continue
			}
			if b, isB := ifs.Body.List[0].(*ast.BranchStmt); !isB || b.Tok != token.CONTINUE {
				continue
			}
			cl, isC := unparen(ifs.Cond).(*ast.CallExpr)
			if !isC || fullName(calleeOf(info, cl)) != "unicode.IsSpace" || len(cl.Args) != 1 {
				continue
			}
			// r comes from utf8.DecodeLastRuneInString(<seg[i]>.Grapheme)
			r := s.defs.resolve(cl.Args[0])
			if dc, isD := unparen(r).(*ast.CallExpr); isD && len(dc.Args) == 1 && strings.HasPrefix(fullName(calleeOf(info, dc)), "unicode/utf8.Decode") {
				g := unparen(dc.Args[0])
				if gs, isSel := g.(*ast.SelectorExpr); isSel && gs.Sel.Name == "Grapheme" {
					el := s.defs.resolve(gs.X)
					if ix, isIx := unparen(el).(*ast.IndexExpr); isIx && s.isObj(ix.X, s.seg) && s.isObj(ix.Index, iObj) {
						spaceSkip = true
					}
				}
			}
		}
		if !spaceSkip {
			fail("the loop does not skip seg[i] exactly when unicode.IsSpace(last rune of seg[i].Grapheme)")
		}
	}
	c.check(ok, "C16.a", key, loop.Pos(), "scan from the end, skip whitespace cells, word = seg[:i+1] at the first non-space", why+": non-whitespace ends up in trSpace (which may be dropped) or whitespace in word")
}

func calleeOfExpr(info *types.Info, e ast.Expr) *types.Func {
	switch t := unparen(e).(type) {
	case *ast.Ident:
		fn, _ := info.Uses[t].(*types.Func)
		return fn
	case *ast.SelectorExpr:
		fn, _ := info.Uses[t.Sel].(*types.Func)
		return fn
	}
	return nil
}

var _ = sort.Strings

// ---------------------------------------------------------------------------
// symbolic execution of the loop body (E11)

type c16Path struct {
	conds     []string // decisions taken, in order
	tok       []string // pieces appended to s.token, in order
	rest      []string // nil = s.rest untouched ("orig")
	restSet   bool
	state     string // orig | seg | fresh | odd
	exit      string // return | back | break
	exitLabel string
	trimmed   bool // seg lost its trailing terminator on this path
	pos       token.Pos
	odd       []string
	// a scan of the long word has handed word[:k] to the token; k is held by the local `cut`, the word's graphemes are
	// W (c16split.go). Cleared when the tail W[cut:] has been moved to the rest.
	cut, cutW types.Object
	cutX      string
}

func (p c16Path) clone() c16Path {
	q := p
	q.conds = append([]string{}, p.conds...)
	q.tok = append([]string{}, p.tok...)
	if p.restSet {
		q.rest = append([]string{}, p.rest...)
	}
	q.odd = append([]string{}, p.odd...)
	return q
}

func (p c16Path) restString() string {
	if !p.restSet {
		return "orig"
	}
	return "[" + strings.Join(p.rest, " ") + "]"
}

func (p c16Path) signature() string {
	return fmt.Sprintf("%s => token+[%s] rest=%s %s", strings.Join(p.conds, ","), strings.Join(p.tok, " "), p.restString(), p.exit)
}

// piece names the role of an appended expression.
func (s *c16Scanner) piece(x ast.Expr, p *c16Path) string {
	x = c16StripConv(s.info, x)
	switch {
	case s.isObj(x, s.word):
		return "word"
	case s.isObj(x, s.trSpace):
		return "trSpace"
	case s.isObj(x, s.rest):
		return "rest"
	case s.isObj(x, s.seg):
		if p.trimmed {
			return "seg-terminator"
		}
		return "seg"
	}
	if sl, ok := x.(*ast.SliceExpr); ok && s.isObj(sl.X, s.seg) && sl.Low == nil && sl.High != nil && s.isTerminatorCut(sl.High) {
		if !p.mayCut() {
			p.odd = append(p.odd, "the segment is cut ("+types.ExprString(x)+") without HasTrailingLineBreak having been tested")
		}
		return "seg-terminator"
	}
	return "?" + types.ExprString(x)
}

// condLabel classifies a branch condition by role.
func (s *c16Scanner) condLabel(e ast.Expr) string {
	info := s.info
	if s.isObj(e, s.br) {
		return "BR"
	}
	if cl, ok := unparen(e).(*ast.CallExpr); ok {
		fn := fullName(calleeOf(info, cl))
		if strings.HasPrefix(fn, "github.com/rivo/uniseg.HasTrailingLineBreak") && len(cl.Args) == 1 {
			a := unparen(cl.Args[0])
			if s.isObj(a, s.seg) {
				return "TLB"
			}
			// last.Grapheme where last := seg[len(seg)-1]
			if sel, ok := a.(*ast.SelectorExpr); ok && sel.Sel.Name == "Grapheme" {
				el := s.defs.resolve(sel.X)
				if ix, ok := unparen(el).(*ast.IndexExpr); ok && s.isObj(ix.X, s.seg) {
					lenSeg := c15TermLin("len("+fmt.Sprintf("%p", s.seg)+")", "len(seg)", true)
					if c15LinOf(info, ix.Index).canon() == lenSeg.plus(-1).canon() {
						return "TLB"
					}
				}
			}
		}
	}
	atoms, isConj := c15Conj(c15Formula(info, e))
	if isConj && len(atoms) == 1 {
		width := c15TermLin(fmt.Sprintf("%p", s.recv)+".width", "s.width", true)
		w := c15TermLin(fmt.Sprintf("%p", s.w), s.w.Name(), true)
		ml := func(o types.Object) c15Lin {
			if m := s.measure[o]; m != nil {
				return c15TermLin(fmt.Sprintf("%p", m), m.Name(), true)
			}
			return c15TermLin("nomeasure", "?", true)
		}
		roles := []struct {
			l    c15Lin
			name string
		}{
			{width.add(ml(s.word), -1).plus(1), "LONG"},                     // wordLen > s.width
			{width.add(w, -1).add(ml(s.word), -1).plus(1), "NOFIT"},         // w + wordLen > s.width
			{width.add(w, -1).add(ml(s.trSpace), -1).plus(1), "SPACENOFIT"}, // w + spaceLen > s.width
		}
		a := atoms[0].canon()
		na := atoms[0].neg().plus(1).canon()
		for _, r := range roles {
			if a == r.l.canon() {
				return r.name
			}
			if na == r.l.canon() {
				return "!" + r.name
			}
		}
	}
	if u, ok := unparen(e).(*ast.UnaryExpr); ok && u.Op == token.NOT {
		l := s.condLabel(u.X)
		if strings.HasPrefix(l, "!") {
			return l[1:]
		}
		if !strings.HasPrefix(l, "?") {
			return "!" + l
		}
	}
	return "?" + types.ExprString(e)
}

// hasEvents: does n touch s.token / s.rest / s.state / seg, or leave the loop body?
// While a split index is pending on the path (p.cut), anything that may change it or the word's graphemes is an event too.
func (s *c16Scanner) hasEvents(n ast.Node, p *c16Path) bool {
	found := false
	ast.Inspect(n, func(m ast.Node) bool {
		switch t := m.(type) {
		case *ast.AssignStmt:
			for _, l := range t.Lhs {
				if s.isField(l, "token") || s.isField(l, "rest") || s.isField(l, "state") || s.isObj(l, s.seg) {
					found = true
				}
			}
		case *ast.ReturnStmt:
			found = true
		}
		return !found
	})
	if !found && p != nil && p.cut != nil {
		found = len(c16WritesTo(s.info, n, p.cut)) > 0 || len(c16WritesTo(s.info, n, p.cutW)) > 0
	}
	return found
}

func (s *c16Scanner) exec(stmts []ast.Stmt, in c16Path) []c16Path {
	paths := []c16Path{in}
	for _, st := range stmts {
		var next []c16Path
		for _, p := range paths {
			if p.exit != "" {
				next = append(next, p)
				continue
			}
			next = append(next, s.step(st, p)...)
		}
		paths = next
	}
	return paths
}

func (s *c16Scanner) step(st ast.Stmt, p c16Path) []c16Path {
	info := s.info
	if p.cut != nil && s.tailMove(st, p.cut, p.cutX) {
		if !p.restSet {
			p.odd = append(p.odd, "the tail of the split word is appended to the old s.rest")
		}
		p.rest = append(p.rest, "word[k:]")
		p.cut, p.cutW, p.cutX = nil, nil, ""
		return []c16Path{p}
	}
	switch t := st.(type) {
	case *ast.BlockStmt:
		return s.exec(t.List, p)
	case *ast.ReturnStmt:
		p.exit = "return"
		p.pos = t.Pos()
		if len(t.Results) != 1 {
			p.odd = append(p.odd, "return without a single result")
		} else if tv, ok := info.Types[t.Results[0]]; !ok || tv.Value == nil || tv.Value.String() != "true" {
			p.odd = append(p.odd, "returns "+types.ExprString(t.Results[0])+" from inside the segment loop")
		}
		return []c16Path{p}
	case *ast.BranchStmt:
		lbl := ""
		if t.Label != nil {
			lbl = t.Label.Name
		}
		switch t.Tok {
		case token.CONTINUE:
			p.exit = "back"
			if lbl != "" && lbl != s.loopLabel() {
				p.exit = "break"
				p.odd = append(p.odd, "continue of a loop other than the segment loop")
			}
		default:
			p.exit = "break"
			p.exitLabel = lbl
		}
		p.pos = t.Pos()
		return []c16Path{p}
	case *ast.LabeledStmt:
		outs := s.step(t.Stmt, p)
		for i := range outs {
			if outs[i].exit == "break" && outs[i].exitLabel == t.Label.Name {
				if _, isLoop := t.Stmt.(*ast.ForStmt); !isLoop {
					outs[i].exit, outs[i].exitLabel = "", ""
				}
			}
		}
		return outs
	case *ast.SwitchStmt:
		if !s.hasEvents(t, &p) {
			return []c16Path{p}
		}
		if t.Init != nil && s.hasEvents(t.Init, &p) {
			p.odd = append(p.odd, "switch-init with effects")
		}
		// an if/else-if chain in disguise
		var outs []c16Path
		cur := p.clone()
		var deflt *ast.CaseClause
		for _, cc := range t.Body.List {
			cl := cc.(*ast.CaseClause)
			if cl.List == nil {
				deflt = cl
				continue
			}
			var cond ast.Expr
			for _, x := range cl.List {
				var one ast.Expr = x
				if t.Tag != nil {
					one = &ast.BinaryExpr{X: t.Tag, Op: token.EQL, Y: x}
					if tv, ok := s.info.Types[x]; ok && tv.Value != nil {
						switch tv.Value.String() {
						case "true":
							one = t.Tag
						case "false":
							one = &ast.UnaryExpr{Op: token.NOT, X: t.Tag}
						}
					}
				}
				if cond == nil {
					cond = one
				} else {
					cond = &ast.BinaryExpr{X: cond, Op: token.LOR, Y: one}
				}
			}
			lbl := s.condLabel(cond)
			yes, no := "+", "-"
			if strings.HasPrefix(lbl, "!") {
				lbl, yes, no = lbl[1:], "-", "+"
			}
			a := cur.clone()
			a.conds = append(a.conds, lbl+yes)
			outs = append(outs, s.exec(cl.Body, a)...)
			cur.conds = append(cur.conds, lbl+no)
		}
		if deflt != nil {
			outs = append(outs, s.exec(deflt.Body, cur)...)
		} else {
			outs = append(outs, cur)
		}
		for i := range outs {
			if outs[i].exit == "break" && outs[i].exitLabel == "" {
				outs[i].exit = "" // leaves the switch only
			}
		}
		return outs
	case *ast.IfStmt:
		if t.Init != nil && s.hasEvents(t.Init, &p) {
			p.odd = append(p.odd, "if-init with effects")
		}
		if !s.hasEvents(t, &p) {
			return []c16Path{p}
		}
		lbl := s.condLabel(t.Cond)
		yes, no := "+", "-"
		if strings.HasPrefix(lbl, "!") {
			lbl, yes, no = lbl[1:], "-", "+"
		}
		a := p.clone()
		a.conds = append(a.conds, lbl+yes)
		outs := s.exec(t.Body.List, a)
		b := p.clone()
		b.conds = append(b.conds, lbl+no)
		if t.Else != nil {
			outs = append(outs, s.step(t.Else, b)...)
		} else {
			outs = append(outs, b)
		}
		// the TLB decision only matters for what is stripped; merge it out of the signature
		return outs
	case *ast.ForStmt, *ast.RangeStmt:
		if st == s.trimLoop || s.measureLoop[st] || !s.hasEvents(st, &p) {
			return []c16Path{p}
		}
		if sp := s.recogniseSplit(st); sp.ok {
			p.tok = append(p.tok, "word[:k]")
			if sp.cut != nil {
				// the scan only; the tail follows (step, above)
				if p.cut != nil {
					p.odd = append(p.odd, "a second scan of the word before the tail of the first has been moved")
				}
				p.cut, p.cutW, p.cutX = sp.cut, sp.w, sp.xID
				return []c16Path{p}
			}
			if !p.restSet {
				p.odd = append(p.odd, "the per-grapheme split appends to the old s.rest")
			}
			p.rest = append(p.rest, "word[k:]")
			return []c16Path{p}
		}
		p.odd = append(p.odd, "a loop with effects on token/rest that is not the per-grapheme split of the word")
		return []c16Path{p}
	case *ast.AssignStmt:
		if x := s.appendOf(t, "token"); x != nil {
			p.tok = append(p.tok, s.piece(x, &p))
			return []c16Path{p}
		}
		if x := s.appendOf(t, "rest"); x != nil {
			if !p.restSet {
				p.odd = append(p.odd, "appends to the old s.rest")
				p.restSet = true
				p.rest = []string{"orig"}
			}
			p.rest = append(p.rest, s.piece(x, &p))
			return []c16Path{p}
		}
		for i, l := range t.Lhs {
			var r ast.Expr
			if len(t.Rhs) == len(t.Lhs) {
				r = unparen(t.Rhs[i])
			}
			switch {
			case p.cut != nil && (s.isObj(l, p.cut) || s.isObj(l, p.cutW)):
				p.odd = append(p.odd, "the split index or the word's graphemes are reassigned before the tail of the word has been moved to the rest")
			case s.isField(l, "token"):
				p.odd = append(p.odd, "s.token is overwritten inside the segment loop")
			case s.isField(l, "rest"):
				p.restSet = true
				switch {
				case r != nil && s.isObj(r, s.rest):
					p.rest = []string{"rest"}
				case r != nil && c16IsEmptyLit(r):
					p.rest = []string{}
				default:
					p.rest = []string{"?" + fmt.Sprint(types.ExprString(t.Rhs[0]))}
				}
			case s.isField(l, "state"):
				switch {
				case r != nil && s.isObj(r, s.state):
					p.state = "seg"
				case r != nil && s.isObj(r, s.stateIn):
					p.state = "orig" // the state this iteration started with is put back
				case r != nil && func() bool { v, ok := constInt(info, r); return ok && v < 0 }():
					p.state = "fresh"
				default:
					p.state = "odd"
				}
			case s.isObj(l, s.seg):
				// seg = seg[:len(seg)-k]
				okTrim := false
				if sl, ok := r.(*ast.SliceExpr); ok && s.isObj(sl.X, s.seg) && sl.Low == nil && sl.High != nil {
					okTrim = s.isTerminatorCut(sl.High)
				}
				if !okTrim || !p.mayCut() {
					p.odd = append(p.odd, "seg is reassigned ("+types.ExprString(t.Rhs[0])+") other than to drop its trailing line terminator under HasTrailingLineBreak")
				}
				p.trimmed = true
			}
		}
		return []c16Path{p}
	case *ast.DeclStmt, *ast.ExprStmt, *ast.IncDecStmt, *ast.EmptyStmt:
		if s.hasEvents(st, &p) {
			p.odd = append(p.odd, "statement with effects not understood: "+fmt.Sprintf("%T", st))
		}
		return []c16Path{p}
	}
	if s.hasEvents(st, &p) {
		p.odd = append(p.odd, fmt.Sprintf("construct %T with effects on token/rest", st))
	}
	return []c16Path{p}
}

func c16IsEmptyLit(r ast.Expr) bool {
	cl, ok := unparen(r).(*ast.CompositeLit)
	return ok && len(cl.Elts) == 0
}

// isLastRuneLen: is the term the size returned by utf8.DecodeLastRune(seg)?
func (s *c16Scanner) isLastRuneLen(termID string) bool {
	found := false
	ast.Inspect(s.loop.Body, func(n ast.Node) bool {
		as, ok := n.(*ast.AssignStmt)
		if !ok || len(as.Lhs) != 2 || len(as.Rhs) != 1 {
			return true
		}
		cl, ok := as.Rhs[0].(*ast.CallExpr)
		if !ok || len(cl.Args) != 1 || !strings.HasPrefix(fullName(calleeOf(s.info, cl)), "unicode/utf8.DecodeLastRune") || !s.isObj(cl.Args[0], s.seg) {
			return true
		}
		if id, ok := as.Lhs[1].(*ast.Ident); ok && termOf(s.info, id).ID == termID {
			found = true
		}
		return true
	})
	return found
}

// recogniseSplit: the per-grapheme split of the (too long) word.
//
//	Form A: for _, ch := range W { if C { rest += ch; continue }; token += ch; w += ch.Width }  with C independent of ch and of anything the false branch leaves unchanged... (C may only get "more true")
//	Form B: for i, ch := range W { if C { rest += W[i:]...; break }; token += ch; w += ch.Width }
//
// W is word itself or ctx.Characters(string(word)).
//
//	Form C: for n < len(W) { if C { break }; token += W[n]; w += W[n].Width; n++ }  — the scan only: the index that outlives
//	        the loop (or a local set to it before the break) is the cut, and W[cut:] is moved to rest later on the path
//	        (c16split.go); sp.cut is set and the path rule waits for the tail.
type c16Split struct {
	ok     bool         // the loop is (or is reported as) the split of the word: the path rule records word[:k]
	cut, w types.Object // Form C: the local holding k after the loop, and W
	xID    string
}

func (s *c16Scanner) recogniseSplit(loop ast.Stmt) *c16Split {
	if sp := s.splits[loop]; sp != nil {
		return sp
	}
	sp := &c16Split{}
	s.splits[loop] = sp
	sp.ok = s.recogniseSplit1(loop, sp)
	return sp
}

func (s *c16Scanner) recogniseSplit1(loop ast.Stmt, sp *c16Split) bool {
	c, info := s.c, s.info
	key := s.name + "/long word is split in order"
	fail := func(format string, args ...any) bool {
		c.bad("C16.a", key, loop.Pos(), format, args...)
		return true // the path rule continues with the split event; the defect is reported here
	}
	it := s.iterOf(loop)
	if it == nil || !it.full {
		s.und("C16.a", "long word is split in order", loop.Pos(), "split loop is not a front-to-back iteration")
		return false
	}
	x := s.defs.resolve(it.x)
	okX := s.isObj(x, s.word) || s.isObj(it.x, s.word)
	if cl, ok := unparen(x).(*ast.CallExpr); ok && len(cl.Args) == 1 {
		if fsel, ok := cl.Fun.(*ast.SelectorExpr); ok && fsel.Sel.Name == "Characters" && s.isObj(c16StripConv(info, cl.Args[0]), s.word) {
			okX = true
		}
	}
	if !okX {
		return fail("the split loop iterates over %s, not over the graphemes of the word", types.ExprString(it.x))
	}
	body := c15Flat(it.body.List)
	if len(body) < 1 {
		s.und("C16.a", "long word is split in order", loop.Pos(), "split loop shape not recognised")
		return false
	}
	isCh := func(e ast.Expr) bool {
		e = c16StripConv(info, e)
		if sel, ok := e.(*ast.SelectorExpr); ok && sel.Sel.Name == "Grapheme" {
			e = sel.X
		}
		return it.isElem(e)
	}
	mentionsElem := func(n ast.Node) bool {
		return containsNode(n, func(m ast.Node) bool {
			e, ok := m.(ast.Expr)
			return ok && it.isElem(e)
		})
	}
	ifs, ok := body[0].(*ast.IfStmt)
	if !ok || ifs.Init != nil {
		s.und("C16.a", "long word is split in order", loop.Pos(), "split loop does not start with `if <full> { rest...; continue|break }`")
		return false
	}
	// One iteration either defers the grapheme (moves it, or it and all later ones, to rest) or keeps it (token += ch;
	// w += ch.Width). Which arm of the test does which, and whether the other arm is an else or the tail of the body,
	// is a matter of spelling: bring the body into  `if <full> { defer…; continue|break }; keep…`.
	hasTok := func(list []ast.Stmt) bool {
		for _, st := range list {
			if as, isA := st.(*ast.AssignStmt); isA && s.appendOf(as, "token") != nil {
				return true
			}
		}
		return false
	}
	isBranch := func(st ast.Stmt) bool {
		b, isB := st.(*ast.BranchStmt)
		return isB && (b.Tok == token.BREAK || b.Tok == token.CONTINUE)
	}
	stripContinue := func(list []ast.Stmt) []ast.Stmt {
		if n := len(list); n > 0 {
			if b, isB := list[n-1].(*ast.BranchStmt); isB && b.Tok == token.CONTINUE {
				if b.Label == nil {
					return list[:n-1]
				}
				if ls, isL := s.par[loop].(*ast.LabeledStmt); isL && info.ObjectOf(ls.Label) == info.ObjectOf(b.Label) {
					return list[:n-1]
				}
			}
		}
		return list
	}
	thenB := c15Flat(ifs.Body.List)
	tail := body[1:]
	var tb, keep []ast.Stmt
	negCond := false
	switch {
	case ifs.Else == nil && !hasTok(thenB):
		tb, keep = thenB, tail
	case ifs.Else == nil && hasTok(thenB) && len(thenB) > 0 && isBranch(thenB[len(thenB)-1]) && len(stripContinue(thenB)) < len(thenB):
		// if <fits> { keep…; continue }; defer…
		tb, keep, negCond = tail, stripContinue(thenB), true
	case ifs.Else != nil && len(tail) == 0:
		eb, isBlock := ifs.Else.(*ast.BlockStmt)
		if !isBlock {
			s.und("C16.a", "long word is split in order", ifs.Pos(), "else-if chain in the split loop")
			return false
		}
		elseB := c15Flat(eb.List)
		if hasTok(thenB) == hasTok(elseB) {
			s.und("C16.a", "long word is split in order", ifs.Pos(), "cannot tell the deferring arm from the keeping arm")
			return false
		}
		if hasTok(thenB) {
			tb, keep, negCond = elseB, stripContinue(thenB), true
		} else {
			tb, keep = thenB, stripContinue(elseB)
		}
		// the end of the body is an implicit continue
		if len(tb) == 0 || !isBranch(tb[len(tb)-1]) {
			tb = append(append([]ast.Stmt{}, tb...), &ast.BranchStmt{Tok: token.CONTINUE, TokPos: ifs.End()})
		}
	default:
		s.und("C16.a", "long word is split in order", loop.Pos(), "split loop does not start with `if <full> { rest...; continue|break }`")
		return false
	}
	if len(tb) < 1 {
		s.und("C16.a", "long word is split in order", ifs.Pos(), "the full-line branch is not `rest += ...; continue|break`")
		return false
	}
	br, _ := tb[len(tb)-1].(*ast.BranchStmt)
	if br == nil {
		s.und("C16.a", "long word is split in order", ifs.Pos(), "the full-line branch does not end in continue/break")
		return false
	}
	// a label must denote this very loop
	if br.Label != nil {
		ls, ok := s.par[loop].(*ast.LabeledStmt)
		if !ok || info.ObjectOf(ls.Label) != info.ObjectOf(br.Label) {
			s.und("C16.a", "long word is split in order", br.Pos(), "the full-line branch jumps to another statement")
			return false
		}
	}
	// false branch: token += ch ; w += ch.Width
	tokOK := false
	for _, st := range keep {
		as, ok := st.(*ast.AssignStmt)
		if !ok {
			s.und("C16.a", "long word is split in order", st.Pos(), "unexpected statement in the split loop")
			return false
		}
		if x := s.appendOf(as, "token"); x != nil && isCh(x) {
			tokOK = true
			continue
		}
		if inc, isAdv := c16Advance(info, as, s.w); isAdv {
			if wT, found := it.elemField(as.Rhs[0], "Width"); found && inc.canon() == wT.canon() {
				continue
			}
		}
		s.und("C16.a", "long word is split in order", st.Pos(), "unexpected statement in the split loop")
		return false
	}
	if !tokOK {
		return fail("graphemes that fit are not appended to the token")
	}
	switch br.Tok {
	case token.CONTINUE:
		// Form A: true branch appends ch to rest; C must not depend on ch and the true branch must not change C's operands
		if len(tb) != 2 {
			s.und("C16.a", "long word is split in order", ifs.Pos(), "unexpected statements in the full-line branch")
			return false
		}
		as, ok := tb[0].(*ast.AssignStmt)
		if !ok || s.appendOf(as, "rest") == nil || !isCh(s.appendOf(as, "rest")) {
			return fail("a grapheme that does not fit is not appended to the new rest: it is lost")
		}
		if mentionsElem(ifs.Cond) {
			return fail("the full-line test depends on the current grapheme but later graphemes are tested again: a narrower grapheme can jump ahead of a wider one that was moved to rest (order is lost)")
		}
		paths := c15Paths(info, ifs.Cond)
		for _, dst := range tb {
			if c15Modifies(info, dst, paths, map[types.Object]bool{}) {
				return fail("the full-line branch modifies the operands of its own test: a later grapheme can go to the token after an earlier one went to rest")
			}
		}
		f := c16NNF(c15Formula(info, ifs.Cond), negCond)
		if !s.monotoneInW(f) {
			s.und("C16.a", "long word is split in order", ifs.Cond.Pos(), "cannot show that the full-line test stays true once true (expected a lower bound on w)")
			return false
		}
	case token.BREAK:
		// Form C: the breaking arm moves nothing; the number of graphemes kept is in a local that outlives the loop
		if cut := s.scanCut(loop, it, tb[:len(tb)-1]); cut != nil {
			sp.cut, sp.w, sp.xID = cut, rootObj(info, c16StripConv(info, it.x)), it.xID
			c.ok("C16.a", key, loop.Pos(), "graphemes go to the token, in order, until the line is full; %s then holds how many (the rest of the word is moved after the loop)", cut.Name())
			return true
		}
		if len(tb) < 2 {
			s.und("C16.a", "long word is split in order", ifs.Pos(), "the full-line branch is not `rest += ...; continue|break`, and no local holds the split index after the loop")
			return false
		}
		// Form B: the true branch moves W[i:] to rest
		if it.idx == nil {
			return fail("the split loop breaks without moving the remaining graphemes to rest")
		}
		isTail := func(e ast.Expr) bool { // W[i:]
			sl, ok := unparen(e).(*ast.SliceExpr)
			return ok && sl.High == nil && s.isObj(sl.Low, it.idx) && termOf(info, c16StripConv(info, sl.X)).ID == it.xID
		}
		moved := false
		for _, st := range tb[:len(tb)-1] {
			switch t := st.(type) {
			case *ast.AssignStmt: // s.rest = append(s.rest, W[i:]...)
				if x := s.appendOf(t, "rest"); x != nil && isTail(x) {
					moved = true
				}
			case *ast.ForStmt, *ast.RangeStmt: // for each c of W[i:] { s.rest = append(s.rest, []byte(c.Grapheme)...) }
				it2 := c15IterOf(info, s.defs, st)
				if it2 == nil {
					// `for j := i; j < len(W); j++ { rest += W[j] }` visits W[i:] front to back as well
					if s.tailByIndex(st, it) {
						moved = true
					}
					continue
				}
				if !it2.full {
					continue
				}
				b2 := c15Flat(it2.body.List)
				ok2 := isTail(it2.x) && len(b2) == 1
				// `for j := i; j < len(W); j++ { rest += W[j] }` is the same thing
				if ok2 {
					if as, ok := b2[0].(*ast.AssignStmt); ok {
						if x := s.appendOf(as, "rest"); x != nil {
							e := c16StripConv(info, x)
							if sel, ok := e.(*ast.SelectorExpr); ok && sel.Sel.Name == "Grapheme" {
								e = sel.X
							}
							if it2.isElem(e) {
								moved = true
							}
						}
					}
				}
			}
		}
		if !moved {
			return fail("the split loop breaks without moving the remaining graphemes W[i:] to rest: they are lost")
		}
	default:
		s.und("C16.a", "long word is split in order", br.Pos(), "unexpected branch statement")
		return false
	}
	c.ok("C16.a", key, loop.Pos(), "graphemes go to the token until the line is full, all later ones to rest, in order")
	return true
}

// tailByIndex: st is  for j := i; j < len(W); j++ { s.rest = append(s.rest, <W[j]>...) }  with i the index variable and
// W the collection of the enclosing split loop `it`: the elements W[i:] are moved to rest in order.
func (s *c16Scanner) tailByIndex(st ast.Stmt, it *c15Iter) bool {
	info := s.info
	fs, ok := st.(*ast.ForStmt)
	if !ok || fs.Init == nil || fs.Cond == nil || fs.Post == nil || it.idx == nil {
		return false
	}
	ia, ok := fs.Init.(*ast.AssignStmt)
	if !ok || ia.Tok != token.DEFINE || len(ia.Lhs) != 1 || len(ia.Rhs) != 1 || !s.isObj(ia.Rhs[0], it.idx) {
		return false
	}
	jid, ok := ia.Lhs[0].(*ast.Ident)
	if !ok {
		return false
	}
	j := info.ObjectOf(jid)
	if inc, ok := c16Advance(info, fs.Post, j); !ok || inc.canon() != c15Const(1).canon() {
		return false
	}
	if assignsAny(info, fs.Body, map[types.Object]bool{j: true, it.idx: true}) {
		return false
	}
	// the bound: exactly j < len(W)
	atoms, isConj := c15Conj(c15Formula(info, fs.Cond))
	if !isConj || len(atoms) != 1 {
		return false
	}
	bound := false
	ast.Inspect(fs.Cond, func(n ast.Node) bool {
		cl, ok := n.(*ast.CallExpr)
		if !ok || len(cl.Args) != 1 {
			return true
		}
		if fid, ok := cl.Fun.(*ast.Ident); ok && fid.Name == "len" {
			if _, isB := info.Uses[fid].(*types.Builtin); isB && termOf(info, c16StripConv(info, cl.Args[0])).ID == it.xID {
				want := c15LinOf(info, ia.Lhs[0]).add(c15LinOf(info, cl), -1).plus(1) // j - len(W) + 1 <= 0
				if atoms[0].canon() == want.canon() {
					bound = true
				}
			}
		}
		return true
	})
	if !bound {
		return false
	}
	body := c15Flat(fs.Body.List)
	if len(body) != 1 {
		return false
	}
	as, ok := body[0].(*ast.AssignStmt)
	if !ok {
		return false
	}
	x := s.appendOf(as, "rest")
	if x == nil {
		return false
	}
	e := c16StripConv(info, x)
	if sel, ok := e.(*ast.SelectorExpr); ok && sel.Sel.Name == "Grapheme" {
		e = sel.X
	}
	ix, ok := unparen(s.defs.resolve(e)).(*ast.IndexExpr)
	return ok && s.isObj(ix.Index, j) && termOf(info, c16StripConv(info, ix.X)).ID == it.xID
}

// c16NNF pushes negations down to the atoms (neg: the formula is taken negated).
func c16NNF(f *c15F, neg bool) *c15F {
	switch f.op {
	case "not":
		return c16NNF(f.a, !neg)
	case "and", "or":
		op := f.op
		if neg {
			op = map[string]string{"and": "or", "or": "and"}[op]
		}
		return &c15F{op: op, a: c16NNF(f.a, neg), b: c16NNF(f.b, neg)}
	case "le":
		if neg {
			return c15Le(f.lin.neg().plus(1))
		}
		return f
	case "const":
		return &c15F{op: "const", val: f.val != neg}
	}
	if neg {
		return &c15F{op: "not", a: f}
	}
	return f
}

// monotoneInW: f is a disjunction/conjunction of lower bounds on w (w only grows in the loop).
func (s *c16Scanner) monotoneInW(f *c15F) bool {
	wid := fmt.Sprintf("%p", s.w)
	switch f.op {
	case "le":
		return f.lin.co[wid] <= 0 // -w + ... <= 0 : lower bound on w (or w absent: constant during the loop given the operands are untouched)
	case "and", "or":
		return s.monotoneInW(f.a) && s.monotoneInW(f.b)
	case "const":
		return true
	}
	return false
}

// ---------------------------------------------------------------------------
// rules over the enumerated paths

func (p c16Path) sigNoTLB() string {
	var cs []string
	for _, c := range p.conds {
		if !strings.HasPrefix(c, "TLB") {
			cs = append(cs, c)
		}
	}
	tok := strings.ReplaceAll(strings.Join(p.tok, " "), "seg-terminator", "seg")
	return fmt.Sprintf("%s => token+[%s] rest=%s %s", strings.Join(cs, ","), tok, p.restString(), p.exit)
}

// accounting verdict for one path: "" = fine.
func c16Account(p c16Path) string {
	expand := func(ps []string) []string {
		var out []string
		for _, x := range ps {
			switch x {
			case "seg", "seg-terminator":
				out = append(out, "word", "trSpace")
			default:
				out = append(out, x)
			}
		}
		return out
	}
	tok := expand(p.tok)
	if !p.restSet {
		if len(tok) > 0 {
			return "the token receives [" + strings.Join(p.tok, " ") + "] although s.rest still contains it: the text is emitted twice"
		}
		if p.exit == "back" {
			return "the loop comes round without having consumed the segment (s.rest unchanged): the same segment is read forever"
		}
		return ""
	}
	rest := expand(p.rest)
	for _, x := range tok {
		if x == "rest" {
			return "the unread remainder is appended to the token"
		}
	}
	all := append(append([]string{}, tok...), rest...)
	// merge the split halves
	var merged []string
	for i := 0; i < len(all); i++ {
		if all[i] == "word[:k]" && i+1 < len(all) && all[i+1] == "word[k:]" {
			merged = append(merged, "word")
			i++
			continue
		}
		merged = append(merged, all[i])
	}
	for _, x := range merged {
		if strings.HasPrefix(x, "?") || x == "orig" || x == "word[:k]" || x == "word[k:]" {
			return "piece " + x + " is not accounted for (token+[" + strings.Join(p.tok, " ") + "] rest=" + p.restString() + ")"
		}
	}
	got := strings.Join(merged, " ")
	if got == "word trSpace rest" || got == "word rest" {
		if len(rest) == 0 || rest[len(rest)-1] != "rest" {
			return "the unread remainder is not the tail of the new s.rest"
		}
		return ""
	}
	want := "word trSpace rest"
	switch {
	case !strings.Contains(got, "word"):
		return "the word reaches neither the token nor the new rest (token+[" + strings.Join(p.tok, " ") + "] rest=" + p.restString() + "): non-whitespace text is lost"
	case strings.Count(got, "word") > 1:
		return "the word is emitted more than once (" + got + ")"
	case !strings.Contains(got, "rest"):
		return "the unread remainder is dropped (new rest=" + p.restString() + "): everything after the segment is lost"
	}
	return "pieces are out of order or repeated: got [" + got + "], need [" + want + "] (trSpace optional)"
}

// prologue: what holds when the segment loop is entered.
func (s *c16Scanner) checkPrologue() {
	c, info, g := s.c, s.info, s.g
	segLoc, ok := g.Locate(s.segCall)
	if !ok {
		s.und("C16.a", "prologue", s.segCall.Pos(), "segmenter call not located in the CFG")
		return
	}
	isClear := func(n ast.Node) bool {
		as, ok := n.(*ast.AssignStmt)
		if !ok || len(as.Lhs) != 1 || len(as.Rhs) != 1 || !s.isField(as.Lhs[0], "token") {
			return false
		}
		r := unparen(as.Rhs[0])
		if c16IsEmptyLit(r) || isNilExpr(info, r) {
			return true
		}
		if sl, ok := r.(*ast.SliceExpr); ok && s.isField(sl.X, "token") && sl.High != nil {
			v, isC := constInt(info, sl.High)
			return isC && v == 0
		}
		return false
	}
	var clears []Hit
	for _, h := range g.Find(isClear) {
		if h.Node.Pos() < s.loop.Pos() || h.Node.End() > s.loop.End() {
			clears = append(clears, h)
		}
	}
	okClear := len(clears) >= 1 && g.MustPrecede(isClear, segLoc)
	c.check(okClear, "C16.a", s.name+"/token is cleared before a line is assembled", s.fi.Decl.Pos(), "s.token = empty on every path into the segment loop",
		"the segment loop can be entered without s.token having been emptied: the previous line is emitted again in front of the new one")
	// w starts at 0
	zero := false
	ast.Inspect(s.fi.Decl.Body, func(n ast.Node) bool {
		if vs, ok := n.(*ast.ValueSpec); ok {
			for i, nm := range vs.Names {
				if info.Defs[nm] == s.w {
					if len(vs.Values) == 0 {
						zero = true
					} else if v, ok := constInt(info, vs.Values[i]); ok && v == 0 {
						zero = true
					}
				}
			}
		}
		if as, ok := n.(*ast.AssignStmt); ok && as.Tok == token.DEFINE {
			for i, l := range as.Lhs {
				if id, ok := l.(*ast.Ident); ok && info.Defs[id] == s.w && len(as.Rhs) == len(as.Lhs) {
					if v, ok := constInt(info, as.Rhs[i]); ok && v == 0 {
						zero = true
					}
				}
			}
		}
		return true
	})
	c.check(zero, "C16.e", s.name+"/line width starts at 0", s.w.Pos(), s.w.Name()+" is zero when the (empty) line is started", "the line-width accumulator does not start at 0 with the empty token")
	// nothing is emitted from an empty input or at width 0 (otherwise Scan reports empty lines forever)
	if len(clears) == 0 {
		return
	}
	gs := c15GuardsAt(g, clears[0].Loc)
	lenRest := c15TermLin("len("+fmt.Sprintf("%p", s.recv)+".rest)", "len(s.rest)", true)
	width := c15TermLin(fmt.Sprintf("%p", s.recv)+".width", "s.width", true)
	c.check(c15Refuted(gs, []c15Lin{lenRest}), "C16.a", s.name+"/no line from an empty input", clears[0].Node.Pos(), "guards: "+c15GuardsString(gs),
		"Scan goes on to assemble a line although s.rest may be empty (guards in force: "+c15GuardsString(gs)+"): it reports lines for ever after the text is used up")
	// Scan gives up (returns false) only then
	for _, h := range g.Find(func(n ast.Node) bool {
		rs, ok := n.(*ast.ReturnStmt)
		if !ok || len(rs.Results) != 1 {
			return false
		}
		tv, ok := info.Types[rs.Results[0]]
		return !(ok && tv.Value != nil && tv.Value.String() == "true")
	}) {
		rgs := c15GuardsAt(g, h.Loc)
		c.check(c15Refuted(rgs, []c15Lin{lenRest.neg().plus(1), width.neg().plus(1)}), "C16.a", s.name+"/Scan ends only on empty input or width 0", h.Node.Pos(), "guards: "+c15GuardsString(rgs),
			"Scan can report the end of the text although input remains and the width is positive (guards in force: "+c15GuardsString(rgs)+"): the remaining text is never emitted")
	}
	widthAssigned := false
	ast.Inspect(s.fi.Decl.Body, func(n ast.Node) bool {
		if as, ok := n.(*ast.AssignStmt); ok {
			for _, l := range as.Lhs {
				if s.isField(l, "width") {
					widthAssigned = true
				}
			}
		}
		return true
	})
	c.check(c15Refuted(gs, []c15Lin{width}) && !widthAssigned, "C16.a", s.name+"/no line at width 0", clears[0].Node.Pos(), "guards: "+c15GuardsString(gs),
		"Scan goes on to assemble a line although s.width may be 0 (guards in force: "+c15GuardsString(gs)+"): nothing fits, nothing is consumed, and it reports empty lines for ever")
}

func c16Run(c *Ctx, s *c16Scanner) (sigs map[string]c16Path) {
	sigs = map[string]c16Path{}
	s.checkPrologue()
	s.checkConstruction()
	start := c16Path{state: "orig"}
	paths := s.exec(s.loop.Body.List[s.segIdx+1:], start)
	seen := map[string]bool{}
	for _, p := range paths {
		if p.exit == "" {
			p.exit = "back"
			p.pos = s.loop.Body.Rbrace
		}
		sig := p.sigNoTLB()
		full := sig + "|" + c16Account(p) + "|" + strings.Join(p.odd, ";") + "|" + p.state
		if seen[full] {
			continue
		}
		seen[full] = true
		if _, dup := sigs[sig]; !dup {
			sigs[sig] = p
		}
		keyBase := s.name + "/path " + sig
		if len(p.odd) > 0 {
			c.undecided("C16.a", keyBase, p.pos, "path not understood: %s", strings.Join(p.odd, "; "))
			continue
		}
		for _, cd := range p.conds {
			if strings.HasPrefix(cd, "?") {
				c.undecided("C16.a", keyBase, p.pos, "a branch with effects on token/rest is controlled by a condition the recogniser cannot name: %s", cd)
			}
		}
		if p.exit == "break" {
			c.undecided("C16.a", keyBase, p.pos, "the path breaks out of the segment loop")
			continue
		}
		if why := c16Account(p); why != "" {
			c.bad("C16.a", keyBase, p.pos, "%s", why)
		} else {
			c.ok("C16.a", keyBase, p.pos, "token additions ++ new rest == word ++ [trSpace] ++ rest, once, in order")
		}
		// C16.b hard break
		for _, cd := range p.conds {
			if cd == "BR+" {
				c.check(p.exit == "return", "C16.b", s.name+"/hard break ends the line: "+sig, p.pos, "the path with a hard break returns the line",
					"a segment that ends in a hard line break does not end the line: the loop continues and appends the next segment to the same line")
			}
		}
		// C16.f state pairing
		if s.state != nil {
			want := "fresh"
			switch {
			case !p.restSet:
				want = "orig"
			case len(p.rest) == 1 && p.rest[0] == "rest":
				want = "seg"
			}
			desc := map[string]string{"orig": "left alone (nothing consumed)", "seg": "the state returned together with rest", "fresh": "-1 (the new rest does not start where the returned state was computed)"}
			gotd := map[string]string{"orig": "left unchanged", "seg": "set to the returned state", "fresh": "reset to -1", "odd": "set to something else"}
			c.check(p.state == want, "C16.f", s.name+"/segmenter state matches the new rest: "+sig, p.pos, "s.state is "+desc[want],
				"s.rest becomes "+p.restString()+" but s.state is "+gotd[p.state]+"; it must be "+desc[want]+": uniseg continues from a state that belongs to different bytes (breaks are missed or invented on the next call)")
		}
	}
	// the hard-break test must exist and must come after the segment is consumed
	hasBR := false
	for _, p := range sigs {
		for _, cd := range p.conds {
			if cd == "BR+" {
				hasBR = true
			}
		}
	}
	c.check(hasBR, "C16.b", s.name+"/hard break is tested", s.loop.Pos(), "a path is taken when the segmenter reports a mandatory break", "the mandatory-break result of the segmenter never influences the scan: hard line breaks do not end lines")
	return sigs
}

func runC16(c *Ctx) {
	// helper extraction and named locals are undone first (c15norm.go): every rule below, and the extra rules, see the normal form
	// and so are local closures, local structs that only bundle locals, and dead-source copies (c16norm.go)
	c16Normalise(c)
	debugDumpFuncs(c)
	c.Clauses = []string{
		"C16.a segment accounting on every path of both Scan loops (word/trSpace/rest each once, in order, only trSpace droppable; unconsumed paths add nothing; back edges consume); seg = word ++ trSpace; rest = s.rest[len(seg):]; the long-word split is monotone",
		"C16.b the hard-break path returns and strips only a trailing line terminator",
		"C16.c plain and rich scanners have the same set of path signatures",
		"C16.d draw loops: one row per emitted line (row += 1 once per line), col restarts at 0 and advances by the width of each written cell, WriteCell(col, row, cell-of-this-line)",
		"C16.e every non-whitespace addition X to the token is guarded by w + width(X) <= s.width (a grapheme may exceed only on an empty line); w advanced by width(X) after every addition; widths measured over exactly X",
		"C16.i the widgets draw from their current content: no field of the widget (nor package variable) is both written and read on the Draw path, and the one cell slice RichText measures and wraps is built in that Draw, from empty, by appending Cell{Character: ch, Style: seg.Style} for every ch of ctx.Characters(seg.Text) for every seg of Content, before any consumer runs",
		"C16.f plain scanner: s.state is the returned state iff s.rest = rest, -1 for any other new rest, untouched (or put back from a snapshot taken at the top of the iteration) when nothing is consumed — a field that is a result target of the segmenter call counts as a store at the call; constructor starts at -1",
		"C16.g progress: in the long-word split a grapheme is deferred to the next line only if the current line already has content (necessary for termination with a grapheme wider than the line)",
	}
	c.NotDec = []string{
		"termination and the position of break opportunities (values returned by uniseg at run time)",
		"\"never split a run of letters that would fit on a line of its own\" beyond the guard structure (depends on uniseg's segments)",
		"the truncating (non-softwrap) Draw paths' ellipsis policy",
	}
	c.expect("C16.a", 26)
	c.expect("C16.b", 4)
	c.expect("C16.c", 5)
	c.expect("C16.d", 28)
	c.expect("C16.e", 20)
	c.expect("C16.f", 6)
	c.expect("C16.i", 8)
	c.expect("C16.g", 2)
	c16Progress(c)

	plain := c16Load(c, "vxfw/text")
	rich := c16Load(c, "vxfw/richtext")
	var ps, rs map[string]c16Path
	if plain != nil {
		ps = c16Run(c, plain)
		plain.widthRule()
		plain.ctorRule()
	}
	if rich != nil {
		rs = c16Run(c, rich)
		rich.widthRule()
	}
	// C16.c
	if ps != nil && rs != nil {
		all := map[string]bool{}
		for k := range ps {
			all[k] = true
		}
		for k := range rs {
			all[k] = true
		}
		var keys []string
		for k := range all {
			keys = append(keys, k)
		}
		sort.Strings(keys)
		for _, k := range keys {
			_, a := ps[k]
			_, b := rs[k]
			pos := token.NoPos
			if a {
				pos = ps[k].pos
			} else {
				pos = rs[k].pos
			}
			who := map[bool]string{true: "only the plain scanner", false: "only the rich scanner"}[a]
			c.check(a && b, "C16.c", "vxfw/sibling scanners agree on path "+k, pos, "both scanners have this path", who+" has this path: the two wrappers break the same text differently")
		}
	}
	c16DrawLoops(c)
	c16DrawFromContent(c)
	c15Dump(c)
}

// ---------------------------------------------------------------------------
// C16.e width guards

func (s *c16Scanner) widthRule() {
	c, info, g := s.c, s.info, s.g
	width := c15TermLin(fmt.Sprintf("%p", s.recv)+".width", "s.width", true)
	w := c15TermLin(fmt.Sprintf("%p", s.w), s.w.Name(), true)
	segLoc, okSeg := g.Locate(s.segCall)
	for _, h := range g.Find(func(n ast.Node) bool {
		as, ok := n.(*ast.AssignStmt)
		return ok && s.appendOf(as, "token") != nil
	}) {
		as := h.Node.(*ast.AssignStmt)
		x := c16StripConv(info, s.appendOf(as, "token"))
		var m c15Lin
		var what string
		emptyLineOK := false
		ws := false
		isChar := false
		segCut := false
		if sl, ok := x.(*ast.SliceExpr); ok && s.isObj(sl.X, s.seg) && sl.Low == nil && sl.High != nil && s.isTerminatorCut(sl.High) {
			segCut = true
		}
		switch {
		case s.isObj(x, s.word), s.isObj(x, s.seg), segCut:
			acc := s.measure[s.word]
			if acc == nil {
				continue
			}
			m, what = c15TermLin(fmt.Sprintf("%p", acc), acc.Name(), true), "the word"
			if s.isObj(x, s.seg) || segCut {
				what = "the segment's word"
			}
		case s.isObj(x, s.trSpace):
			ws = true
			acc := s.measure[s.trSpace]
			if acc != nil {
				m = c15TermLin(fmt.Sprintf("%p", acc), acc.Name(), true)
			}
			what = "the trailing space"
		default:
			e := x
			if sel, ok := e.(*ast.SelectorExpr); ok && sel.Sel.Name == "Grapheme" {
				e = sel.X
			}
			// an element of the loop this append sits in; its width is what the loop adds to w
			var it *c15Iter
			if lp := c15LoopOf(s.par, as); lp != nil {
				it = s.iterOf(lp)
			}
			if it == nil || !it.isElem(e) {
				c.undecided("C16.e", s.name+"/token += "+types.ExprString(x), as.Pos(), "appended material not recognised")
				continue
			}
			found := false
			ast.Inspect(it.body, func(n ast.Node) bool {
				a2, ok := n.(*ast.AssignStmt)
				if !ok || found {
					return !found
				}
				if inc, isAdv := c16Advance(info, a2, s.w); isAdv {
					if wT, ok := it.elemField(a2.Rhs[0], "Width"); ok && wT.canon() == inc.canon() {
						m, found = wT, true
					}
				}
				return true
			})
			if !found {
				// no advance at all: the width term cannot be named; report it as the missing advance
				c.bad("C16.e", s.name+"/w advanced after adding a grapheme of a long word", as.Pos(), "a grapheme is added to the token but the loop never adds its Width to the line width: the line overflows")
				continue
			}
			isChar = true
			what = "a grapheme of a long word"
			emptyLineOK = true
		}
		key := s.name + "/" + what + " is added only if it fits"
		if !ws {
			gs := c15GuardsAt(g, h.Loc)
			neg := []c15Lin{width.add(w, -1).add(m, -1).plus(1)} // w + m > width
			if emptyLineOK {
				neg = append(neg, w.neg().plus(1)) // w >= 1
			}
			goal := w.String() + " + " + m.String() + " <= s.width"
			if emptyLineOK {
				goal += " (or the line is still empty)"
			}
			c.check(c15Refuted(gs, neg), "C16.e", key, as.Pos(), "guards imply "+goal+": "+c15GuardsString(gs),
				"the token grows by "+what+" although the guards in force ("+c15GuardsString(gs)+") do not imply "+goal+": the emitted line can be wider than the width")
		}
		// w advanced afterwards (unless the path returns)
		if len(m.co) == 0 {
			continue
		}
		isAdv := func(n ast.Node) bool {
			inc, ok := c16Advance(info, n, s.w)
			return ok && inc.canon() == m.canon()
		}
		target := segLoc
		if isChar {
			target = h.Loc
		}
		if !okSeg {
			continue
		}
		c.check(!g.ReachesAvoiding(h.Loc, target, isAdv), "C16.e", s.name+"/w advanced after adding "+what, as.Pos(), "w += "+m.String()+" before the next fit test",
			"after "+what+" is added the next fit test can run without w += "+m.String()+": the line width is under-counted and the line overflows")
	}
}

// ctorRule: the plain scanner starts the segmenter fresh.
func (s *c16Scanner) ctorRule() {
	c := s.c
	name := s.short + ".NewSoftwrapScanner"
	fi := c15Func(c, name)
	if fi == nil || s.fields["state"] == nil {
		c.undecided("C16.f", name, 0, "constructor or state field not found")
		return
	}
	ok, found := false, false
	ast.Inspect(fi.Decl.Body, func(n ast.Node) bool {
		cl, isCL := n.(*ast.CompositeLit)
		if !isCL || !c15IsNamed(s.info.TypeOf(cl), c.P.Pkg(s.short).PkgPath, "SoftwrapScanner") {
			return true
		}
		found = true
		for _, el := range cl.Elts {
			if kv, isKV := el.(*ast.KeyValueExpr); isKV {
				if id, isID := kv.Key.(*ast.Ident); isID && id.Name == "state" {
					if v, isC := constInt(s.info, kv.Value); isC && v < 0 {
						ok = true
					}
				}
			}
		}
		return true
	})
	c.check(found && ok, "C16.f", name+"/segmenter starts fresh", fi.Decl.Pos(), "state: -1", "a new scanner does not start uniseg with state -1: the first segment is computed as if text preceded it (a leading break is missed)")
}

// ---------------------------------------------------------------------------
// C16.d draw loops

func c16DrawLoops(c *Ctx) {
	for _, d := range []struct {
		fn   string
		soft bool
	}{
		{"vxfw/text.(*Text).drawSoftwrap", true},
		{"vxfw/richtext.(*RichText).drawSoftwrap", true},
		{"vxfw/text.(*Text).Draw", false},
		{"vxfw/richtext.(*RichText).Draw", false},
	} {
		fi := c15Func(c, d.fn)
		if fi == nil {
			c.undecided("C16.d", d.fn, 0, "function not found")
			continue
		}
		c16DrawLoop(c, fi, d.soft)
	}
}

func c16DrawLoop(c *Ctx, fi *FuncInfo, soft bool) {
	info := fi.Pkg.TypesInfo
	par := c.P.Parents(fi.Pkg)
	g := c.P.Graph(fi)
	defs := c15DefsOf(info, fi.Decl.Body)
	name := fi.Name
	// the line loop: for <scanner>.Scan(...) { ... }
	var loop *ast.ForStmt
	var scanner types.Object
	for _, st := range fi.Decl.Body.List {
		f, ok := st.(*ast.ForStmt)
		if !ok || f.Cond == nil || f.Init != nil || f.Post != nil {
			continue
		}
		cl, ok := unparen(f.Cond).(*ast.CallExpr)
		if !ok {
			continue
		}
		sel, ok := cl.Fun.(*ast.SelectorExpr)
		if !ok || sel.Sel.Name != "Scan" {
			continue
		}
		if loop != nil {
			c.undecided("C16.d", name+"/line loop", f.Pos(), "several line loops")
			return
		}
		loop, scanner = f, rootObj(info, sel.X)
	}
	if loop == nil || scanner == nil {
		c.undecided("C16.d", name+"/line loop", fi.Decl.Pos(), "no `for scanner.Scan(...)` loop at the top level")
		return
	}
	if soft {
		t := scanner.Type()
		c.check(c15IsNamed(t, fi.Pkg.PkgPath, "SoftwrapScanner"), "C16.d", name+"/lines come from the soft-wrap scanner", loop.Pos(), "scanner is this package's SoftwrapScanner", "the soft-wrap draw path does not iterate the SoftwrapScanner")
		// built over the content with the context's Max.Width
		okW := false
		if d := defs.resolve(&ast.Ident{}); d != nil {
			_ = d
		}
		if def := defs.def[scanner]; def != nil && defs.count[scanner] == 1 {
			if cl, ok := unparen(def).(*ast.CallExpr); ok && len(cl.Args) == 2 {
				if sel, ok := unparen(cl.Args[1]).(*ast.SelectorExpr); ok && sel.Sel.Name == "Width" {
					if s2, ok := unparen(sel.X).(*ast.SelectorExpr); ok && s2.Sel.Name == "Max" {
						okW = true
					}
				}
			}
		}
		c.check(okW, "C16.d", name+"/wrapped at the context's Max.Width", loop.Pos(), "NewSoftwrapScanner(content, ctx.Max.Width)", "the scanner is not created with ctx.Max.Width: lines are wrapped at a width other than the one drawn into")
	}
	// WriteCell calls
	type wc struct {
		h    Hit
		call *ast.CallExpr
	}
	var writes []wc
	for _, h := range g.Calls(func(fn *types.Func, call *ast.CallExpr) bool {
		return fn != nil && repoName(fn) == "vxfw.Surface.WriteCell" && loop.Body.Pos() <= call.Pos() && call.End() <= loop.Body.End()
	}) {
		writes = append(writes, wc{h, h.Node.(*ast.CallExpr)})
	}
	if len(writes) == 0 {
		c.bad("C16.d", name+"/lines are written", loop.Pos(), "the line loop never calls Surface.WriteCell: emitted lines are not drawn")
		return
	}
	var colObj, rowObj types.Object
	okArgs := true
	for _, w := range writes {
		if len(w.call.Args) != 3 {
			okArgs = false
			continue
		}
		ci, ok1 := unparen(w.call.Args[0]).(*ast.Ident)
		ri, ok2 := unparen(w.call.Args[1]).(*ast.Ident)
		if !ok1 || !ok2 {
			okArgs = false
			continue
		}
		co, ro := info.ObjectOf(ci), info.ObjectOf(ri)
		if colObj == nil {
			colObj, rowObj = co, ro
		}
		if co != colObj || ro != rowObj || co == ro {
			okArgs = false
		}
	}
	c.check(okArgs && colObj != nil, "C16.d", name+"/cells are written at (col, row)", writes[0].call.Pos(), "every WriteCell uses the same column and row counters, in that order", "WriteCell is not called with the loop's (col, row) counters in that order: the line lands in the wrong cells")
	if !okArgs || colObj == nil {
		return
	}
	declIn := func(o types.Object, within ast.Node) bool {
		var id ast.Node
		ast.Inspect(fi.Decl.Body, func(n ast.Node) bool {
			if x, ok := n.(*ast.Ident); ok && info.Defs[x] == o {
				id = x
			}
			return id == nil
		})
		for cur := id; cur != nil; cur = par[cur] {
			if cur == within {
				return true
			}
		}
		return false
	}
	// row: declared outside the loop, starts at 0, incremented exactly once per line by 1
	zeroDecl := func(o types.Object) bool {
		okz := false
		ast.Inspect(fi.Decl.Body, func(n ast.Node) bool {
			vs, ok := n.(*ast.ValueSpec)
			if !ok {
				return true
			}
			for i, nm := range vs.Names {
				if info.Defs[nm] == o {
					if len(vs.Values) == 0 {
						okz = true
					} else if v, ok := constInt(info, vs.Values[i]); ok && v == 0 {
						okz = true
					}
				}
			}
			return true
		})
		if d := defs.def[o]; d != nil && !okz {
			if v, ok := constInt(info, d); ok && v == 0 {
				okz = true
			}
		}
		return okz
	}
	c.check(!declIn(rowObj, loop) && zeroDecl(rowObj), "C16.d", name+"/row starts at 0 before the first line", rowObj.Pos(), "declared before the loop with value 0", "the row counter is not a zero-initialised variable that outlives the line loop: every line is drawn on the same row, or the first line is not on row 0")
	isIncBy := func(o types.Object, want c15Lin) func(n ast.Node) bool {
		return func(n ast.Node) bool {
			inc, ok := c16Advance(info, n, o)
			return ok && inc.canon() == want.canon()
		}
	}
	rowWrites := g.Find(func(n ast.Node) bool { return assignsAny(info, n, map[types.Object]bool{rowObj: true}) && (isStmt(n)) })
	var incs []Hit
	for _, h := range rowWrites {
		if isIncBy(rowObj, c15Const(1))(h.Node) {
			incs = append(incs, h)
		}
	}
	condLoc, okCond := g.Locate(loop.Cond)
	if len(incs) != 1 || len(rowWrites) != 1 || !okCond {
		c.bad("C16.d", name+"/row advances by one per line", loop.Pos(), "expected exactly one `row += 1` in the line loop and no other write to row, found %d increments among %d writes: lines overlap or rows are skipped", len(incs), len(rowWrites))
	} else {
		inc := incs[0]
		inLoop := loop.Body.Pos() <= inc.Node.Pos() && inc.Node.End() <= loop.Body.End()
		// every way round the loop passes the increment; and never twice
		bodyStart := Loc{condLoc.B.Succs[0], 0}
		skip := false
		g.walk(bodyStart, func(l Loc, n ast.Node) bool {
			if l == condLoc {
				skip = true
				return false
			}
			return !containsNode(n, func(m ast.Node) bool { return m == inc.Node })
		}, nil)
		twice := g.ReachesAvoiding(inc.Loc, inc.Loc, func(m ast.Node) bool { return m == ast.Node(loop.Cond) })
		nested := false
		for _, l := range c15EnclosingLoops(par, inc.Node) {
			if l != ast.Stmt(loop) {
				nested = true
			}
		}
		c.check(inLoop && !skip && !twice && !nested, "C16.d", name+"/row advances by one per line", inc.Node.Pos(), "row += 1 exactly once on every way round the line loop",
			"a line can be finished without row += 1 (or with more than one): the next line overwrites this one, or a row is skipped")
	}
	// col: declared inside the line loop (restarts at 0), advanced after each written cell
	c.check(declIn(colObj, loop.Body) && zeroDecl(colObj), "C16.d", name+"/col restarts at 0 for each line", colObj.Pos(), "declared inside the line loop with value 0", "the column counter is not re-declared (zero) for each line: the second line starts where the first ended")
	for _, w := range writes {
		// which cell is written? the element of the enclosing iteration over the scanner's line
		cell := defs.resolve(w.call.Args[2])
		var chExpr ast.Expr
		ellipsis := false
		if cl, ok := unparen(cell).(*ast.CompositeLit); ok {
			for _, el := range cl.Elts {
				if kv, ok := el.(*ast.KeyValueExpr); ok {
					if k, ok := kv.Key.(*ast.Ident); ok && k.Name == "Character" {
						if _, isLit := unparen(defs.resolve(kv.Value)).(*ast.CompositeLit); isLit {
							ellipsis = true
						} else {
							chExpr = kv.Value
						}
					}
				}
			}
		} else {
			chExpr = cell
		}
		key := name + "/the cell written belongs to the scanner's current line"
		if ellipsis && !soft {
			c.okTrivial("C16.d", name+"/truncation marker", w.call.Pos(), "the ellipsis of the non-wrapping path (not part of the soft-wrap clause)")
			continue
		}
		okLine := false
		var it *c15Iter
		for _, l := range c15EnclosingLoops(par, w.call) {
			if l == ast.Stmt(loop) {
				break
			}
			if cand := c15IterOf(info, defs, l); cand != nil && chExpr != nil && cand.isElem(chExpr) {
				it = cand
			}
		}
		if it != nil {
			x := defs.resolve(it.x)
			if cl, ok := unparen(x).(*ast.CallExpr); ok {
				if sel, ok := cl.Fun.(*ast.SelectorExpr); ok && sel.Sel.Name == "Characters" && len(cl.Args) == 1 {
					x = unparen(cl.Args[0])
					cl, _ = x.(*ast.CallExpr)
				}
				if cl != nil {
					if sel, ok := cl.Fun.(*ast.SelectorExpr); ok && (sel.Sel.Name == "Text" || sel.Sel.Name == "Line") && rootObj(info, sel.X) == scanner && len(cl.Args) == 0 {
						// evaluated inside the line loop (this iteration's line)
						okLine = containsNode(loop.Body, func(n ast.Node) bool { return n == ast.Node(cl) })
					}
				}
			}
		}
		c.check(okLine, "C16.d", key, w.call.Pos(), "iterates over scanner.Text()/Line() of this iteration", "the cell written is not a grapheme of the line the scanner just emitted")
		// col advanced by this cell's width before the next write
		isAdv := func(n ast.Node) bool { return false }
		if it != nil {
			isAdv = func(n ast.Node) bool {
				as, ok := n.(*ast.AssignStmt)
				if !ok || len(as.Rhs) != 1 {
					return false
				}
				inc, adv := c16Advance(info, as, colObj)
				if !adv {
					return false
				}
				wT, found := it.elemField(as.Rhs[0], "Width")
				return found && wT.canon() == inc.canon()
			}
		}
		isReset := func(n ast.Node) bool {
			return containsNode(n, func(m ast.Node) bool {
				id, ok := m.(*ast.Ident)
				return ok && info.Defs[id] == colObj
			})
		}
		stale := false
		for _, w2 := range writes {
			if g.ReachesAvoiding(w.h.Loc, w2.h.Loc, func(n ast.Node) bool { return isAdv(n) || isReset(n) }) {
				stale = true
			}
		}
		c.check(!stale, "C16.d", name+"/col advances by the width of each written cell", w.call.Pos(), "col += width of the cell before the next cell of the line is written", "the next cell can be written without col having advanced by this cell's width: graphemes overwrite each other or wide graphemes are overlapped")
	}
}

func isStmt(n ast.Node) bool {
	_, ok := n.(ast.Stmt)
	return ok
}

// c16Advance: is n  `o += e`, `o = o + e`, `o++` ? returns the increment as a linear form.
func c16Advance(info *types.Info, n ast.Node, o types.Object) (c15Lin, bool) {
	isO := func(e ast.Expr) bool {
		id, ok := unparen(e).(*ast.Ident)
		return ok && o != nil && info.ObjectOf(id) == o
	}
	switch t := n.(type) {
	case *ast.IncDecStmt:
		if isO(t.X) && t.Tok == token.INC {
			return c15Const(1), true
		}
	case *ast.AssignStmt:
		if len(t.Lhs) != 1 || len(t.Rhs) != 1 || !isO(t.Lhs[0]) {
			return c15Lin{}, false
		}
		switch t.Tok {
		case token.ADD_ASSIGN:
			return c15LinOf(info, t.Rhs[0]), true
		case token.ASSIGN:
			d := c15LinOf(info, t.Rhs[0]).add(c15LinOf(info, t.Lhs[0]), -1)
			if _, still := d.co[termOf(info, t.Lhs[0]).ID]; !still {
				return d, true
			}
		}
	}
	return c15Lin{}, false
}

func (s *c16Scanner) loopLabel() string {
	if ls, ok := s.par[s.loop].(*ast.LabeledStmt); ok {
		return ls.Label.Name
	}
	return ""
}

// isTerminatorCut: high == len(seg) - k with k a positive constant or the decoded size of seg's last rune.
func (s *c16Scanner) isTerminatorCut(high ast.Expr) bool {
	lenSeg := c15TermLin("len("+fmt.Sprintf("%p", s.seg)+")", "len(seg)", true)
	d := c15LinOf(s.info, high).add(lenSeg, -1)
	if len(d.co) == 0 && d.k < 0 {
		return true
	}
	if len(d.co) == 1 && d.k == 0 {
		for id, co := range d.co {
			if co == -1 && s.isLastRuneLen(id) {
				return true
			}
		}
	}
	return false
}

// mayCut: on this path the last terminator test said "seg ends in a line terminator" and seg has not been cut yet.
func (p *c16Path) mayCut() bool {
	if p.trimmed {
		return false
	}
	for i := len(p.conds) - 1; i >= 0; i-- {
		if strings.HasPrefix(p.conds[i], "TLB") {
			return p.conds[i] == "TLB+"
		}
	}
	return false
}

// ---------------------------------------------------------------------------
// C16.i the widgets draw what their content is now

func c16DrawFromContent(c *Ctx) {
	for _, w := range []struct{ short, typ string }{{"vxfw/text", "Text"}, {"vxfw/richtext", "RichText"}} {
		pk := c.P.Pkg(w.short)
		name := w.short + ".(*" + w.typ + ").Draw"
		fi := c15Func(c, name)
		if pk == nil || fi == nil {
			c.undecided("C16.i", name, 0, "Draw not found")
			continue
		}
		info := pk.TypesInfo
		fields := map[*types.Var]bool{}
		for _, f := range c15StructFields(pk, w.typ) {
			fields[f] = true
		}
		decls := map[*types.Func]*ast.FuncDecl{}
		for _, f := range c.P.FuncsIn(w.short) {
			if f.Decl.Body != nil {
				decls[f.Obj] = f.Decl
			}
		}
		// the Draw path: Draw and everything of this package it can call
		seen := map[*types.Func]bool{fi.Obj: true}
		work := []*types.Func{fi.Obj}
		for len(work) > 0 {
			fn := work[len(work)-1]
			work = work[:len(work)-1]
			ast.Inspect(decls[fn].Body, func(n ast.Node) bool {
				if cl, ok := n.(*ast.CallExpr); ok {
					if cal := calleeOf(info, cl); cal != nil && decls[cal] != nil && !seen[cal] {
						seen[cal] = true
						work = append(work, cal)
					}
				}
				return true
			})
		}
		// the storage location a written/read expression belongs to: a field of the widget or a package variable
		base := func(e ast.Expr) *types.Var {
			for {
				e = unparen(e)
				switch t := e.(type) {
				case *ast.SelectorExpr:
					if fv := c15Field(info, t); fv != nil && fields[fv] {
						return fv
					}
					if _, isSel := info.Selections[t]; !isSel {
						if v, ok := info.Uses[t.Sel].(*types.Var); ok && v.Parent() == pk.Types.Scope() {
							return v
						}
						return nil
					}
					e = t.X
				case *ast.IndexExpr:
					e = t.X
				case *ast.SliceExpr:
					e = t.X
				case *ast.StarExpr:
					e = t.X
				case *ast.Ident:
					if v, ok := info.Uses[t].(*types.Var); ok && !v.IsField() && v.Parent() == pk.Types.Scope() {
						return v
					}
					return nil
				default:
					return nil
				}
			}
		}
		written := map[*types.Var]token.Pos{}
		read := map[*types.Var]bool{}
		for fn := range seen {
			lhs := map[ast.Expr]bool{}
			ast.Inspect(decls[fn].Body, func(n ast.Node) bool {
				switch t := n.(type) {
				case *ast.AssignStmt:
					for _, l := range t.Lhs {
						if v := base(l); v != nil {
							if _, ok := written[v]; !ok {
								written[v] = l.Pos()
							}
							if t.Tok == token.ASSIGN || t.Tok == token.DEFINE {
								lhs[unparen(l)] = true
							}
						}
					}
				case *ast.IncDecStmt:
					if v := base(t.X); v != nil {
						if _, ok := written[v]; !ok {
							written[v] = t.X.Pos()
						}
					}
				case *ast.UnaryExpr:
					if t.Op == token.AND {
						if v := base(t.X); v != nil && !fields[v] { // &pkgVar escapes: treat as written
							if _, ok := written[v]; !ok {
								written[v] = t.Pos()
							}
						}
					}
				}
				return true
			})
			ast.Inspect(decls[fn].Body, func(n ast.Node) bool {
				e, ok := n.(ast.Expr)
				if !ok {
					return true
				}
				if lhs[unparen(e)] {
					return false // a plain store does not read the location
				}
				switch e.(type) {
				case *ast.SelectorExpr, *ast.Ident:
					if v := base(e); v != nil {
						read[v] = true
					}
				}
				return true
			})
		}
		var carried []string
		pos := fi.Decl.Pos()
		for v, p := range written {
			if read[v] {
				carried = append(carried, v.Name())
				pos = p
			}
		}
		sort.Strings(carried)
		c.check(len(carried) == 0, "C16.i", name+"/draws from the current content only", pos,
			fmt.Sprintf("no field of %s and no package variable is both written and read on the Draw path (%d functions)", w.typ, len(seen)),
			"the Draw path writes and reads "+strings.Join(carried, ", ")+": what is drawn depends on an earlier Draw, not only on the widget's content now (a stale line count, stale graphemes or stale styles after the content was edited in place)")
	}
	c16CellsRule(c)
}

// c16CellsRule: what RichText wraps and draws is its content, split into graphemes, each with the style of
// its segment. The cell slice handed to the scanners (and to findContainerSize) is examined where it is
// built: after normalisation that is inside Draw / drawSoftwrap themselves (helpers are inlined).
func c16CellsRule(c *Ctx) {
	for _, fn := range []string{"vxfw/richtext.(*RichText).drawSoftwrap", "vxfw/richtext.(*RichText).Draw"} {
		fi := c15Func(c, fn)
		if fi == nil {
			c.undecided("C16.i", fn, 0, "function not found")
			continue
		}
		c16CellsIn(c, fi)
	}
}

func c16CellsIn(c *Ctx, fi *FuncInfo) {
	name := fi.Name
	info := fi.Pkg.TypesInfo
	par := c.P.Parents(fi.Pkg)
	g := c.P.Graph(fi)
	fd := fi.Decl
	defs := c15DefsOf(info, fd.Body)
	var recv types.Object
	if fd.Recv != nil && len(fd.Recv.List) == 1 && len(fd.Recv.List[0].Names) == 1 {
		recv = info.Defs[fd.Recv.List[0].Names[0]]
	}
	content := c15StructFields(fi.Pkg, "RichText")["Content"]
	if recv == nil || content == nil {
		c.undecided("C16.i", name+"/signature", fd.Pos(), "receiver or RichText.Content not recognised")
		return
	}
	// the consumers: the scanner constructors and findContainerSize of this package, called directly in this function
	var res types.Object
	var uses []Hit
	okUse := true
	for _, h := range g.Calls(func(f *types.Func, call *ast.CallExpr) bool {
		if f == nil || f.Pkg() != fi.Pkg.Types || len(call.Args) == 0 {
			return false
		}
		return f.Name() == "NewSoftwrapScanner" || f.Name() == "NewHardwrapScanner" || f.Name() == "findContainerSize"
	}) {
		call := h.Node.(*ast.CallExpr)
		// the cells argument: the one of type []vaxis.Cell
		var arg ast.Expr
		for _, a := range call.Args {
			if sl, ok := info.TypeOf(a).Underlying().(*types.Slice); ok && c15IsNamed(sl.Elem(), modPath, "Cell") {
				arg = a
			}
		}
		if arg == nil {
			continue
		}
		uses = append(uses, h)
		id, ok := unparen(arg).(*ast.Ident)
		if !ok {
			okUse = false
			continue
		}
		o := info.ObjectOf(id)
		if res != nil && res != o {
			okUse = false
		}
		res = o
	}
	if len(uses) == 0 {
		return // this function wraps nothing itself (it delegates)
	}
	if !okUse || res == nil {
		c.bad("C16.i", name+"/measures and wraps the same cells", fd.Pos(), "the scanners and findContainerSize are not all given one and the same local cell slice: the surface is sized for other cells than the ones drawn")
		return
	}
	c.ok("C16.i", name+"/measures and wraps the same cells", uses[0].Node.Pos(), "one cell slice (%s) feeds findContainerSize and the scanner", res.Name())
	// res starts empty and is only appended to, inside `for seg of Content { for ch of ctx.Characters(seg.Text) { ... } }`
	startsEmpty := false
	emptyExpr := func(r ast.Expr) bool {
		r = unparen(r)
		if c16IsEmptyLit(r) || isNilExpr(info, r) {
			return true
		}
		if cl, ok := r.(*ast.CallExpr); ok && len(cl.Args) >= 2 {
			if id, ok := cl.Fun.(*ast.Ident); ok && id.Name == "make" {
				if v, ok := constInt(info, cl.Args[1]); ok && v == 0 {
					return true
				}
			}
		}
		return false
	}
	var foreign ast.Expr
	ast.Inspect(fd.Body, func(n ast.Node) bool {
		switch t := n.(type) {
		case *ast.ValueSpec:
			for k, nm := range t.Names {
				if info.Defs[nm] == res {
					if len(t.Values) == 0 || (k < len(t.Values) && emptyExpr(t.Values[k])) {
						startsEmpty = true
					} else if k < len(t.Values) {
						foreign = t.Values[k]
					}
				}
			}
		case *ast.AssignStmt:
			if t.Tok == token.DEFINE && len(t.Lhs) == len(t.Rhs) {
				for k, l := range t.Lhs {
					if id, ok := l.(*ast.Ident); ok && info.Defs[id] == res {
						if emptyExpr(t.Rhs[k]) {
							startsEmpty = true
						} else if _, isID := unparen(t.Rhs[k]).(*ast.Ident); !isID {
							foreign = t.Rhs[k]
						}
					}
				}
			}
		}
		return true
	})
	if foreign != nil {
		if cl, ok := unparen(foreign).(*ast.CallExpr); ok {
			if f := calleeOf(info, cl); f != nil && f.Pkg() == fi.Pkg.Types {
				c.undecided("C16.i", name+"/cells are the graphemes of Content with their segment's style", foreign.Pos(), "the cells come from %s, which could not be inlined: how they derive from Content cannot be read off", f.Name())
				return
			}
		}
		c.bad("C16.i", name+"/cells are the graphemes of Content with their segment's style", foreign.Pos(), "the cells are %s, not a slice built in this Draw from the widget's Content: the widget can wrap and draw text or styles that are not its content now", types.ExprString(foreign))
		return
	}
	var outer *c15Iter
	nApp, okApp := 0, true
	whyApp := ""
	// the slice may be handed from one local to another (`cells = built`): all of them are examined
	alias := map[types.Object]bool{res: true}
	for grew := true; grew; {
		grew = false
		ast.Inspect(fd.Body, func(n ast.Node) bool {
			as, ok := n.(*ast.AssignStmt)
			if !ok || len(as.Lhs) != len(as.Rhs) {
				return true
			}
			for i, l := range as.Lhs {
				id, ok := unparen(l).(*ast.Ident)
				if !ok || !alias[info.ObjectOf(id)] {
					continue
				}
				if rid, ok := unparen(as.Rhs[i]).(*ast.Ident); ok {
					if v, isVar := info.ObjectOf(rid).(*types.Var); isVar && !v.IsField() && v.Parent() != fi.Pkg.Types.Scope() && !alias[v] {
						alias[v] = true
						grew = true
					}
				}
			}
			return true
		})
	}
	ast.Inspect(fd.Body, func(n ast.Node) bool {
		as, ok := n.(*ast.AssignStmt)
		if !ok {
			return true
		}
		for i, l := range as.Lhs {
			id, ok := unparen(l).(*ast.Ident)
			if !ok || !alias[info.ObjectOf(id)] {
				continue
			}
			bad := func(w string) {
				if okApp {
					okApp, whyApp = false, w
				}
			}
			if len(as.Rhs) != len(as.Lhs) {
				bad("the cells are assigned from a multi-value expression")
				continue
			}
			if emptyExpr(as.Rhs[i]) {
				if as.Tok == token.DEFINE && info.ObjectOf(id) != res {
					startsEmpty = true
				}
				continue
			}
			if rid, ok := unparen(as.Rhs[i]).(*ast.Ident); ok && alias[info.ObjectOf(rid)] {
				continue // hand-over between the examined locals
			}
			nApp++
			cl, ok := unparen(as.Rhs[i]).(*ast.CallExpr)
			if !ok || len(cl.Args) != 2 || cl.Ellipsis.IsValid() {
				bad("the cells are assigned " + types.ExprString(as.Rhs[i]))
				continue
			}
			if fid, ok := cl.Fun.(*ast.Ident); !ok || fid.Name != "append" {
				bad("the cells are assigned " + types.ExprString(as.Rhs[i]))
				continue
			}
			if a0, ok := unparen(cl.Args[0]).(*ast.Ident); !ok || info.ObjectOf(a0) != info.ObjectOf(id) {
				bad("append does not extend the cell slice itself")
				continue
			}
			loops := c15EnclosingLoops(par, as)
			if len(loops) != 2 {
				bad("the append is not inside exactly two nested loops (segments, graphemes)")
				continue
			}
			in, out := c15IterOf(info, defs, loops[0]), c15IterOf(info, defs, loops[1])
			if in == nil || out == nil || !in.full || !out.full {
				bad("the loops do not visit every segment / every grapheme front to back")
				continue
			}
			ox := unparen(defs.resolve(out.x))
			if c15Field(info, ox) != content || rootObj(info, ox) != recv {
				bad("the outer loop iterates over " + types.ExprString(out.x) + ", not over the widget's Content")
				continue
			}
			okIn := false
			if ccl, ok := unparen(defs.resolve(in.x)).(*ast.CallExpr); ok && len(ccl.Args) == 1 {
				if fs, ok := ccl.Fun.(*ast.SelectorExpr); ok && fs.Sel.Name == "Characters" {
					if ts, ok := unparen(defs.resolve(ccl.Args[0])).(*ast.SelectorExpr); ok && ts.Sel.Name == "Text" && out.isElem(ts.X) {
						okIn = true
					}
				}
			}
			if !okIn {
				bad("the inner loop does not iterate over ctx.Characters(<segment>.Text)")
				continue
			}
			lit, ok := unparen(defs.resolve(cl.Args[1])).(*ast.CompositeLit)
			if !ok {
				bad("the appended value is not a Cell literal")
				continue
			}
			okCh, okSt := false, false
			for _, el := range lit.Elts {
				kv, ok := el.(*ast.KeyValueExpr)
				if !ok {
					continue
				}
				switch kv.Key.(*ast.Ident).Name {
				case "Character":
					okCh = in.isElem(kv.Value)
				case "Style":
					if ss, ok := unparen(defs.resolve(kv.Value)).(*ast.SelectorExpr); ok && ss.Sel.Name == "Style" && out.isElem(ss.X) {
						okSt = true
					}
				}
			}
			if !okCh {
				bad("the cell's Character is not the grapheme being visited")
			}
			if !okSt {
				bad("the cell's Style is not the Style of the segment being visited: graphemes are drawn without (or with another segment's) style")
			}
			outer = out
		}
		return true
	})
	c.check(startsEmpty && nApp >= 1 && okApp, "C16.i", name+"/cells are the graphemes of Content with their segment's style", fd.Pos(),
		"the slice starts empty; only `cells = append(cells, Cell{Character: ch, Style: seg.Style})` for ch of ctx.Characters(seg.Text), seg of Content",
		map[bool]string{true: whyApp, false: "the cell slice does not start empty or is never extended"}[!okApp])
	if outer == nil {
		return
	}
	late := true
	isAnchor := func(n ast.Node) bool { return n == outer.anchor }
	lenContent := c15TermLin("len("+fmt.Sprintf("%p", recv)+".Content)", "len("+recv.Name()+".Content)", true)
	for _, h := range uses {
		if g.MustPrecede(isAnchor, h.Loc) {
			continue
		}
		// a way round the loop is fine only where the content is known to be empty (`if len(Content) == 0 { cells = nil }`)
		found, guarded := 0, true
		for _, eh := range g.Find(func(n ast.Node) bool {
			as, ok := n.(*ast.AssignStmt)
			if !ok || len(as.Lhs) != len(as.Rhs) {
				return false
			}
			for i, l := range as.Lhs {
				if id, ok := unparen(l).(*ast.Ident); ok && alias[info.ObjectOf(id)] && emptyExpr(as.Rhs[i]) {
					return true
				}
			}
			return false
		}) {
			if !g.ReachesAvoiding(eh.Loc, h.Loc, isAnchor) {
				continue // this one goes through the loop
			}
			found++
			if !c15Refuted(c15GuardsAt(g, eh.Loc), []c15Lin{lenContent.neg().plus(1)}) {
				guarded = false
			}
		}
		excused := found > 0 && guarded
		// the initial empty definition always reaches the loop; anything else that skips it must be excused
		if !excused {
			late = false
		}
	}
	c.check(late, "C16.i", name+"/cells are complete before they are measured and wrapped", fd.Pos(), "every consumer runs after the loop over Content",
		"findContainerSize or a scanner can run before Content has been walked: what is wrapped is not the current content")
}
