package main

// C06.o — restore cursor with nothing saved: on a VT/xterm DECRC (ESC 8, CSI u) before any DECSC on that
// screen restores the power-on state: cursor home, default rendition, autowrap as at power-on, origin mode off,
// ASCII character sets. In the emulator the never-saved slots are the initial values of Model.primaryState and
// Model.altState, which New builds (and which ris may rebuild), and decrc copies whatever they hold into the
// live state. The necessary condition decided here: on a freshly initialised terminal, DECRC is the identity on
// the display state, on the primary screen and — after entering it with CSI ? 1049 h — on the alternate screen,
// and the same right after RIS.
//
// Decided by evaluation of the type-checked AST with the concrete evaluator of c18_interp.go (nothing of /repo
// is built or run): m := New(); m.resize(W, H); [m.ris()]; [m.decset({{1049}})]; S := snapshot(m); m.decrc();
// S' := snapshot(m); the display state (cursor, character sets, modes, margins, deferred-wrap flag, tab stops)
// of S and S' must be equal, field by field. The functions are entered through their real entry points, so
// helper extraction, shared initial values, later assignments in New and other spellings are all judged by
// what they compute.

import (
	"fmt"
	"go/ast"
	"go/token"
	"go/types"
	"sort"
	"strings"
)

func init() { registerExtra("C06", c06RuleInitialSaved) }

// c06DisplayFields: the top-level fields of Model that are display state (everything DECRC may legitimately
// restore lives here; bookkeeping such as dirty flags, the pty, timers and channels is not compared).
var c06DisplayFields = []string{"cursor", "charsets", "mode", "margin", "lastCol", "sShift", "tabStop"}

func c06RuleInitialSaved(c *Ctx) {
	c.Clauses = append(c.Clauses, "C06.o DECRC with nothing saved restores the power-on state: on a freshly initialised terminal (New, resize; also after RIS) DECRC leaves the display state (cursor, rendition, autowrap, origin mode, character sets) unchanged, on the primary screen and on the alternate screen entered with CSI ? 1049 h")
	c.expect("C06.o", 4)
	const pkg = "widgets/term"
	need := map[string]*FuncInfo{}
	for _, n := range []string{"New", "(*Model).resize", "(*Model).decrc", "(*Model).decset", "(*Model).ris"} {
		fi := c.P.Func(pkg + "." + n)
		if fi == nil || fi.Decl.Body == nil {
			c.undecided("C06.o", pkg+"."+n, 0, "function not found")
			return
		}
		need[n] = fi
	}
	pos := need["New"].Decl.Pos()
	for _, sc := range []struct {
		key  string
		ris  bool
		alt  bool
		what string
	}{
		{"New/primary screen", false, false, "New(); resize(4, 3); DECRC"},
		{"New/alternate screen", false, true, "New(); resize(4, 3); CSI ? 1049 h; DECRC"},
		{"RIS/primary screen", true, false, "New(); resize(4, 3); RIS; DECRC"},
		{"RIS/alternate screen", true, true, "New(); resize(4, 3); RIS; CSI ? 1049 h; DECRC"},
	} {
		key := pkg + ".(*Model).decrc/nothing saved/" + sc.key
		if sc.ris {
			pos = need["(*Model).ris"].Decl.Pos()
		}
		m := newC18Machine(c.P)
		m.trace = false
		// timers, channels, the pty and the like are not display state: calls outside the repository give an
		// unknown value (its arguments are still evaluated); any use of such a value that matters aborts
		m.ext = func(m *c18Machine, fr *c18Frame, full string, call *ast.CallExpr) (c18Val, bool) {
			for _, a := range call.Args {
				m.eval(fr, a)
			}
			return c18Val{}, true
		}
		var before, after c18Val
		var diffs []string
		pmsg, amsg := m.protect(func() {
			ret := m.callFunc(need["New"], nil, nil, false)
			if len(ret) != 1 || ret[0].k != c18Ptr || ret[0].ptr() == nil || ret[0].ptr().k != c18Struct {
				m.abort("New does not return a pointer to a struct value")
			}
			recv := ret[0]
			m.callFunc(need["(*Model).resize"], &recv, []c18Val{c18IntV(4), c18IntV(3)}, false)
			if sc.ris {
				m.callFunc(need["(*Model).ris"], &recv, nil, false)
			}
			if sc.alt {
				in := []c18Val{c18IntV(1049)}
				outer := []c18Val{{k: c18Slice, ref: &c18SliceV{arr: &in, lo: 0, hi: 1}}}
				m.callFunc(need["(*Model).decset"], &recv, []c18Val{{k: c18Slice, ref: &c18SliceV{arr: &outer, lo: 0, hi: 1}}}, false)
			}
			before = c06DeepCopy(*recv.ptr(), 0)
			m.callFunc(need["(*Model).decrc"], &recv, nil, false)
			after = *recv.ptr()
		})
		if amsg != "" {
			c.undecided("C06.o", key, pos, "%s is not evaluable: %s", sc.what, amsg)
			continue
		}
		if pmsg != "" {
			c.bad("C06.o", key, pos, "%s panics: %s", sc.what, pmsg)
			continue
		}
		undec := ""
		bs, as := before.strct(), after.strct()
		compared := 0
		for i := 0; i < bs.t.NumFields(); i++ {
			name := bs.t.Field(i).Name()
			isDisplay := false
			for _, d := range c06DisplayFields {
				if d == name {
					isDisplay = true
				}
			}
			if !isDisplay {
				continue
			}
			compared++
			c06DeepDiff(*bs.field(i), *as.field(i), "Model."+name, 0, &diffs, &undec)
		}
		switch {
		case compared < 3:
			c.undecided("C06.o", key, pos, "the display state of Model (fields %s) was not found", strings.Join(c06DisplayFields, ", "))
		case len(diffs) > 0:
			sort.Strings(diffs)
			c.bad("C06.o", key, pos, "%s changes the display state although nothing was saved on this screen: %s. A VT/xterm restores the power-on state, which is the state the terminal is in; the never-saved cursor state of this screen is initialised differently from the live state", sc.what, strings.Join(diffs, "; "))
		case undec != "":
			c.undecided("C06.o", key, pos, "%s: %s", sc.what, undec)
		default:
			c.ok("C06.o", key, pos, "%s leaves the display state unchanged", sc.what)
		}
	}
	_ = token.NoPos
}

// c06DeepCopy copies a value of the concrete evaluator through structs, arrays, slices and maps (pointers are
// kept: the snapshot is of the Model's own state).
func c06DeepCopy(v c18Val, depth int) c18Val {
	if depth > 12 {
		return v
	}
	switch v.k {
	case c18Struct:
		src := v.strct()
		dst := &c18StructV{t: src.t, f: make([]*c18Val, len(src.f))}
		for i, f := range src.f {
			if f != nil {
				cp := c06DeepCopy(*f, depth+1)
				dst.f[i] = &cp
			}
		}
		return c18Val{k: c18Struct, ref: dst}
	case c18Slice, c18Array:
		src := v.slice()
		if src == nil {
			return v
		}
		arr := make([]c18Val, src.hi-src.lo)
		for i := range arr {
			arr[i] = c06DeepCopy((*src.arr)[src.lo+i], depth+1)
		}
		return c18Val{k: v.k, ref: &c18SliceV{arr: &arr, lo: 0, hi: len(arr)}}
	case c18Map:
		src := v.mp()
		if src == nil {
			return v
		}
		dst := &c18MapV{elem: src.elem}
		for i := range src.keys {
			dst.keys = append(dst.keys, src.keys[i])
			cp := c06DeepCopy(*src.vals[i], depth+1)
			dst.vals = append(dst.vals, &cp)
		}
		return c18Val{k: c18Map, ref: dst}
	}
	return v
}

// c06DeepDiff appends the differences between a (before) and b (after) to diffs; values that cannot be compared
// (unknown on either side) are noted in undec.
func c06DeepDiff(a, b c18Val, path string, depth int, diffs *[]string, undec *string) {
	if depth > 12 || len(*diffs) >= 6 {
		return
	}
	show := func(v c18Val) string {
		switch v.k {
		case c18Int:
			return fmt.Sprint(v.i)
		case c18Bool:
			return fmt.Sprint(v.b)
		case c18Str:
			return fmt.Sprintf("%q", v.s)
		case c18Nil:
			return "nil"
		case c18Slice, c18Array:
			if s := v.slice(); s != nil {
				return fmt.Sprintf("%d elements", s.hi-s.lo)
			}
		}
		return "a value"
	}
	if a.k == c18Unknown || b.k == c18Unknown {
		if a.k != b.k && *undec == "" {
			*undec = path + " is not evaluable on one side"
		}
		return
	}
	// nil and empty slices / maps are the same display state
	lenOf := func(v c18Val) (int, bool) {
		switch v.k {
		case c18Nil:
			return 0, true
		case c18Slice, c18Array:
			if s := v.slice(); s != nil {
				return s.hi - s.lo, true
			}
		case c18Map:
			if mv := v.mp(); mv != nil {
				return len(mv.keys), true
			}
		}
		return 0, false
	}
	if a.k == c18Nil || b.k == c18Nil {
		la, okA := lenOf(a)
		lb, okB := lenOf(b)
		if okA && okB && (a.k == c18Map || b.k == c18Map) {
			// compared by lookup below
		} else {
			if okA && okB && la == lb {
				return
			}
			if a.k != b.k {
				*diffs = append(*diffs, fmt.Sprintf("%s: %s before, %s after", path, show(a), show(b)))
			}
			return
		}
	}
	if a.k == c18Map || b.k == c18Map {
		ma, mb := a.mp(), b.mp()
		var elem types.Type
		if ma != nil {
			elem = ma.elem
		} else if mb != nil {
			elem = mb.elem
		}
		if elem == nil {
			return
		}
		get := func(m *c18MapV, k c18Val) c18Val {
			if m != nil {
				for i, mk := range m.keys {
					if eq, ok := c18Equal(mk, k); ok && eq {
						return *m.vals[i]
					}
				}
			}
			return c18Zero(elem)
		}
		var keys []c18Val
		if ma != nil {
			keys = append(keys, ma.keys...)
		}
		if mb != nil {
			keys = append(keys, mb.keys...)
		}
		for _, k := range keys {
			c06DeepDiff(get(ma, k), get(mb, k), fmt.Sprintf("%s[%s]", path, show(k)), depth+1, diffs, undec)
		}
		return
	}
	if a.k != b.k {
		*diffs = append(*diffs, fmt.Sprintf("%s: %s before, %s after", path, show(a), show(b)))
		return
	}
	switch a.k {
	case c18Int, c18Bool, c18Str:
		if eq, ok := c18Equal(a, b); ok && !eq {
			*diffs = append(*diffs, fmt.Sprintf("%s: %s before, %s after", path, show(a), show(b)))
		}
	case c18Struct:
		sa, sb := a.strct(), b.strct()
		if sa == nil || sb == nil || sa.t.NumFields() != sb.t.NumFields() {
			return
		}
		for i := 0; i < sa.t.NumFields(); i++ {
			if sa.f[i] == nil && sb.f[i] == nil {
				continue
			}
			c06DeepDiff(*sa.field(i), *sb.field(i), path+"."+sa.t.Field(i).Name(), depth+1, diffs, undec)
		}
	case c18Slice, c18Array:
		xa, xb := a.slice(), b.slice()
		if xa == nil || xb == nil {
			return
		}
		if xa.hi-xa.lo != xb.hi-xb.lo {
			*diffs = append(*diffs, fmt.Sprintf("%s: %s before, %s after", path, show(a), show(b)))
			return
		}
		for i := 0; i < xa.hi-xa.lo; i++ {
			c06DeepDiff((*xa.arr)[xa.lo+i], (*xb.arr)[xb.lo+i], fmt.Sprintf("%s[%d]", path, i), depth+1, diffs, undec)
		}
	}
}
